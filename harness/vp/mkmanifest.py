"""Writes /verif/MANIFEST.json from the table below (kept in one place so that it is always valid)."""
import json
from pathlib import Path

ROOT = Path(__file__).resolve().parents[2]

CLAIMED = {
    "C19": dict(
        text="Machine-checked theorems (Coq 8.16) over Gallina models of Structured, LayeredMapping and SimpleFormula-as-sequence: "
             "map/flatten/simplify/update laws for every nesting, top-first-merge/private-write/iteration laws for every layer stack and "
             "write history, ordering invariant for every operation sequence; the models are evaluated inside Coq on the same random "
             "objects and histories the implementation ran (correspondence), and the property is also checked directly on the implementation.",
        note="Coq kernel + vm_compute; hand-written models tied by in-Coq correspondence (1 200 cases quick); CPython dict order, sorted() stability modelled; OrderingMethod.SORT invariant by correspondence only",
        technique="Coq proof by structural induction over nested containers and operation sequences + in-Coq model/implementation correspondence",
        design="8 C19"),
}

NOT_YET = {}


def main():
    props = [json.loads(l) for l in (ROOT / "properties.jsonl").read_text().splitlines() if l.strip()]
    checks, na = [], []
    for p in props:
        pid = p["id"]
        if pid in CLAIMED:
            c = CLAIMED[pid]
            checks.append({
                "property_id": pid,
                "quick_cmd": f"bin/vcheck {pid} quick",
                "thorough_cmd": f"bin/vcheck {pid} thorough",
                "evidence_file": f"/verif/evidence/{pid}.json",
                "replay_cmd_template": "bin/vcheck --replay {path}",
                "engine": "coq-proof+correspondence",
                "level_claimed": {"category": "proof", "text": c["text"], "design_ref": "DESIGN.md section " + c["design"]},
                "level_note": c["note"],
                "technique": c["technique"],
            })
        else:
            na.append({"property_id": pid, "reason": NOT_YET.get(pid, "check under construction in this revision (model and theorems designed in DESIGN.md section 8; not yet registered)")})
    man = {
        "version": 1,
        "setup_cmd": "bin/vsetup",
        "hooks": {
            "guard": "FORMULAIC_VERIF",
            "enable": "bin/vcheck exports FORMULAIC_VERIF=1; no hook is currently needed by any check (no guarded code in /repo)",
            "baseline_off_cmd": "bin/baseline",
            "source_commits": [],
            "add_only": True,
        },
        "engines": [{"name": "coq-proof+correspondence", "path": "bin/vcheck",
                     "serves_properties": sorted(CLAIMED),
                     "kind_free_text": "Coq 8.16.1 development under coq/ (models, proofs, props) + Python harness (translator gen_tables.py, in-Coq correspondence, direct oracle, search)"}],
        "checks": checks,
        "not_applicable": na,
        "notes": "Every check regenerates coq/gen/*.v from /repo, rebuilds its props file with make (full .vo), evaluates the model on fresh cases inside Coq and runs the implementation from /repo's working tree.",
    }
    (ROOT / "MANIFEST.json").write_text(json.dumps(man, indent=1) + "\n")
    import jsonschema  # noqa
    jsonschema.validate(man, json.load(open("/root/.vp/MANIFEST.schema.json")))
    print("MANIFEST.json written:", len(checks), "checks,", len(na), "not claimed")


if __name__ == "__main__":
    main()
