"""Writes /verif/MANIFEST.json from the table below (kept in one place so that it is always valid)."""
import json
from pathlib import Path

ROOT = Path(__file__).resolve().parents[2]

CLAIMED = {
    "C19": dict(
        text="Machine-checked theorems (Coq 8.16) over Gallina models of Structured, LayeredMapping and SimpleFormula-as-sequence: "
             "map/flatten/simplify/update laws for every nesting, top-first-merge/private-write/iteration laws for every layer stack and "
             "write history, ordering invariant for every operation sequence; the models are evaluated inside Coq on the same random "
             "objects and histories the implementation ran (correspondence), and the property is also checked directly on the implementation.",
        note="Coq kernel + vm_compute; hand-written models tied by in-Coq correspondence (1 200 cases quick); CPython dict order, sorted() stability modelled; OrderingMethod.SORT invariant by correspondence only",
        technique="Coq proof by structural induction over nested containers and operation sequences + in-Coq model/implementation correspondence",
        design="8 C19"),
}

CLAIMED["C01"] = dict(
    text="Coq theorems: the operator table of the model equals the table regenerated from /repo; the shunting-yard machine parses the token "
         "sequence of every precedence-respecting expression tree (unbounded nesting, '|' parts, two-sided) to that tree, and evaluates it to the tree's "
         "denotation in the documented algebra written directly on trees (C01_tokens_denote); the operator semantics "
         "satisfy the documented identities for all ordered term sets and as equalities of tree denotations; degree ordering is a stable sort. The full pipeline model is evaluated in "
         "Coq on every generated formula and must equal the implementation's term lists; an independent evaluator of the documented algebra over "
         "the generator's own trees is the direct oracle.",
    note="Coq kernel + vm_compute; translator for the operator table; hand-written pipeline model tied by correspondence; ast.unparse/required_variables oracles; the characters->tokens step is tied by correspondence, not by the end-to-end theorem",
    technique="Coq proof (induction over expression trees on a shunting-yard machine model; algebraic identities) + generated operator table + in-Coq correspondence",
    design="8 C01")
CLAIMED["C14"] = dict(
    text="The complete parsing pipeline is a total Gallina function with one error constructor per Python exception class; theorems (all strings, "
         "all flag subsets, all classifiers): the AST builder raises only the syntax error; with MULTISTAGE off NO internal exception class escapes "
         "(every returned AST is well-sorted -- an invariant of the shunting-yard machine -- and the evaluator never gets stuck on a well-sorted AST); "
         "operators disabled by feature flags never occur in a returned AST; a plain SyntaxError only when a Python fragment is invalid. The model must return the implementation's exact outcome "
         "(terms or exception class) on grammar strings, mutations, token soup and all short strings.",
    note="Coq kernel + vm_compute; Python-fragment validity is an oracle; MULTISTAGE results not modelled (with it on the model can be stuck: C14_multistage_is_outside)",
    technique="Coq proof of error-constructor unreachability over a total parser model + exhaustive short-string and generated correspondence",
    design="8 C14")
CLAIMED["C15"] = dict(
    text="Tokenizer state machine with spans in Gallina; theorems for every classifier: whitespace at a top-level token boundary changes no token "
         "and no parsed formula; backtick names are one NAME token with exactly the quoted characters; inside ANY quote context a step appends exactly the "
         "character read (or closes the outermost region and emits the token unchanged); spans are ordered and disjoint for every accepted input "
         "(unconditional since the repair of the empty quoted region). ASCII classes and the tokenizer's literal character sets are regenerated from /repo each run and "
         "tied by theorem; tokens with spans are compared on random strings; metamorphic whitespace / name / Python-formatting oracles run on the implementation.",
    note="Coq kernel + vm_compute; regex classes of non-ASCII code points and ast.unparse are oracles; span-delimits-text only by oracle/correspondence",
    technique="Coq proof (simulation up to spans, invariants over the character loop) + generated character tables + in-Coq correspondence",
    design="8 C15")

CLAIMED["C02"] = dict(
    text="Gallina model of the materializer build path over exact rationals; theorems: the row-wise Kronecker product yields exactly one column per "
         "choice of one encoded column per factor, named by joining names with ':' and valued by the cell-wise product, first factor fastest, "
         "with distinct labels the matrix is the concatenation of the terms' columns in formula order; "
         "width = product of widths; scaling and intercept cell-wise; full/reduced dummy encodings. `build` must equal the implementation "
         "(names, exact values, drop set, recorded scoped terms) for pandas/numpy/sparse; each column is also recomputed from its label.",
    note="Coq kernel + vm_compute; pandas level discovery and float arithmetic on dyadic test values modelled; Python-expression factors outside the model",
    technique="Coq proof over a list-of-columns model (induction over factor lists) + exact in-Coq correspondence of whole model matrices",
    design="8 C02")
CLAIMED["C03"] = dict(
    text="Coq: `_simplify_scoped_terms` preserves the multiset of components (intervals of the subset lattice) of every family of scoped terms, "
         "terminates within the stated fuel, and canonical spanned terms sharing a component are equal (so subtracting already-spanned terms keeps "
         "components disjoint); the materializer model uses that verified function and its recorded scoped terms equal the implementation's on "
         "every case. A scoped term's column count equals the total dimension of the components it covers (proved, both directions of the enumeration); the span identity (reference-level column = cofactor minus the other levels) is proved for a single factor and inside any interaction. "
         "The remaining bridge from components to rank (independence across components) is validated by exact rational rank on fully crossed designs, all contrasts.",
    note="Coq kernel + vm_compute; component<->column-space bridge argued on paper and validated by exact rank computation, not mechanised beyond the dimension count and the single-factor case",
    technique="Coq proof (multiset-of-components invariant of the greedy merge) + structure correspondence + exact-rank oracle",
    design="8 C03")
CLAIMED["C06"] = dict(
    text="Coq: the drop set equals caller's set u null positions of evaluated factors (sorted, duplicate-free, independent of pool order); kept rows "
         "are exactly the positions outside it, in order; raise iff a null; ignore keeps all; the regenerated call-edge table shows every entry "
         "point forwarding drop_rows. The model's drop set/rows/error class equal the implementation's on all small null patterns and random "
         "frames (any index kind, output type); every entry point is exercised directly.",
    note="Coq kernel + vm_compute; AST-derived entry-point table (translator); pandas null detection and index handling modelled",
    technique="Coq proof over the build model + generated entry-point forwarding table + exhaustive small null patterns in correspondence",
    design="8 C06")

CLAIMED["C04"] = dict(
    text="Gallina model `replay` of spec reuse (rehydrated scoped terms, pinned categories, _enforce_structure). Theorems: any successful reuse has "
         "exactly the recorded column names in the recorded order, on every data set; pinned encodings have data-independent names; absent levels give "
         "zero columns; the spec a build records replays to the same matrix (C04_replay_reproduces); for pinned levels and no nulls, replay on ANY selection of rows is the "
         "selected rows of the replay (C04_replay_is_rowwise). The model equals the implementation (exact matrix, names, drop set or error class) on train/follow-up "
         "histories incl. pickled specs; reproduction, row-wise behaviour and pickling are checked directly for every stateful transform.",
    note="Coq kernel + vm_compute; pickling and stateful transforms (center/scale/poly/bs/cr/cc) are outside the replay model and covered by the per-transform models (C12, C13) and the direct oracle",
    technique="Coq proof over the replay model + in-Coq correspondence of (train, follow-up) histories + implementation-level row-wise oracle",
    design="8 C04")
CLAIMED["C07"] = dict(
    text="Model `build_parts`: all parts' factors pooled and evaluated once, one joint drop set, every part assembled from the shared pool. Theorems: "
         "one output part per formula part in order; all parts report one drop set = caller's rows u nulls of the factors of all parts. The model's "
         "parts equal the implementation's; shape, row alignment, equality with separate builds under the joint drop set and regeneration from each "
         "part's spec are checked directly on nested ~ / | / tuple / keyword formulas.",
    note="Coq kernel + vm_compute; nested structure <-> flat part list mapped by the harness; `part_equals_separate_build` not mechanised (correspondence + oracle)",
    technique="Coq proof over the pooled-build model + in-Coq correspondence of structured model matrices",
    design="8 C07")
CLAIMED["C09"] = dict(
    text="Replay model with the recorded-kind guard. Theorems: a factor whose kind differs from the recorded kind yields the encoding error, and only "
         "that does; successful reuse never adds/removes/renames columns; absent levels give all-zero columns; rows with unseen levels are zero in "
         "that factor's columns. Model outcome = implementation outcome on (train, follow-up) pairs with kind flips and lost/gained levels; "
         "exception class, DataMismatchWarning and shapes checked directly.",
    note="Coq kernel + vm_compute; pandas Categorical(categories=...) semantics modelled; null policy 'raise' not combined with kind flips (order of simultaneous errors is hash-order dependent)",
    technique="Coq proof over the replay model + in-Coq correspondence of incompatible-data pairs",
    design="8 C09")

CLAIMED["C05"] = dict(
    text="Coq: CSC-column model of the sparse output path; element-wise product, scaling, dense->CSC conversion and sparse dummy encoding hold at every row "
         "the numbers of the dense computation, and so does the whole column of a term -- scale times the reduce of any number of factor columns -- with the one-entry-per-row invariant proved for every primitive and kept by the product; the sparse Kronecker product of a whole term (the model of _get_columns_for_term, compared with the real method on synthetic CSC columns) is, row by row, the dense Kronecker product times the scale; the regenerated entry-point table forwards drop_rows on every edge. /repo's sparse primitives are "
         "compared with the model; pandas/numpy/sparse x 6 entry points x {pandas, narwhals/pandas, narwhals/pyarrow} are compared pairwise on the "
         "implementation (same numbers, same column order).",
    note="Coq kernel + vm_compute; narwhals/pyarrow twins are a second implementation (differential only); container construction trusted",
    technique="Coq proof of sparse-refines-dense + in-Coq correspondence of sparse primitives + differential testing across outputs, entry points and materializers",
    design="8 C05")
CLAIMED["C08"] = dict(
    text="The dtype->kind table of both materializers is regenerated from /repo each run (one Series per dtype through the real _is_categorical); Coq "
         "proves over it that text and categorical dtypes are categorical and numeric dtypes (incl. bool) numerical for both materializers, and that "
         "the build model encodes categoricals as 0/1 indicators in sorted/declared level order (proved: the levels of a text column are exactly its non-null values, strictly increasing in code-point order with a proper prefix first; a declared list is kept as is) and passes numerics through. Numeric cells, level "
         "order and pass-through are checked for every dtype x output x {pandas, narwhals/pandas, narwhals/arrow}.",
    note="Coq kernel + vm_compute; pandas/narwhals dtype predicates are library behaviour captured in the regenerated oracle table",
    technique="finite-domain Coq proof over a regenerated dtype table + build-model correspondence + exhaustive dtype sweep on the implementation",
    design="8 C08")
CLAIMED["C10"] = dict(
    text="Gallina model of the metadata derived from `structure`. Theorems: per-term ranges concatenate to 0..ncols-1; a term looked up by object or by its "
         "printed form in ANY factor order (sorting is canonical: total-order proof for Python string order) gets the range of its own row; a column "
         "name selects a position carrying that name; the built matrix's labels are the structure's column entries; variable_indices = exactly the positions of "
         "the terms using the variable; subset = the parent's names at the parent's get_term_indices positions in the order chosen, and replaying any selection "
         "of structure rows gives each term the parent's columns. Model answers = implementation answers for every accessor incl. subset/get_term_indices and "
         "the replay of subset specs.",
    note="Coq kernel + vm_compute; dict lookup of str in Term-keyed mapping modelled as sorted-key equality (hash collisions ignored)",
    technique="Coq proof (ranges partition, canonical sorting, dict insert semantics) + in-Coq correspondence of every metadata accessor",
    design="8 C10")

CLAIMED["C11"] = dict(
    text="Entry-wise Gallina definitions of every built-in coding matrix for symbolic n. Theorems for EVERY n: columns sum to zero (sum, Helmert in "
         "four variants, difference in both directions, polynomial), K.[1|C] = I for the textbook coefficient matrix K (treatment with any base incl. "
         "SAS, sum, difference), Helmert columns are orthogonal with norms (c+1)(c+2) / (n-c-1)(n-c), the polynomial coding is the monic orthogonal "
         "family of the recorded three-term recurrence with unit columns and Gram matrix diag(n,1,..,1) (explicit inverse), the full coding is the identity, indicator x coding = row selection. "
         "Model = implementation on every coding-matrix cell for n <= 12/40 and on encoded data vectors; shape, inverse, textbook K, dense = sparse, "
         "R constructions, names and metadata are also evaluated directly on the implementation.",
    note="Coq kernel + vm_compute; numpy/scipy linear algebra (inv, sqrt, matmul) observed not modelled; polynomial cells compared within 2^-24 relative, "
         "divided Helmert/difference cells within 2^-40",
    technique="Coq proof for symbolic n (sums over index functions, Qc field reasoning for the three-term recurrence) + in-Coq correspondence of coding "
              "matrices and encodings + direct numeric oracle on the implementation",
    design="8 C11")

CLAIMED["C12"] = dict(
    text="Exact-rational Gallina models of basis_spline (Cox-de Boor with the code's boundary handling, padding, quantile knots, five extrapolation "
         "modes) and of the cubic regression splines (knot search, base functions, cyclic mapping, the tridiagonal/cyclic systems solved exactly). "
         "Theorems for every sorted padded knot vector, degree and x: non-negative, sums to one inside the bounds, zero outside, 'extend' unchanged "
         "inside and equal to the first/last polynomial piece outside, df columns; for every strictly increasing knot list: the cubic basis is "
         "cardinal (unit vector at each knot, cyclic wrap), each piece is the cubic with the given end values and second derivatives (Taylor "
         "identity), C1 at a knot iff the tridiagonal equation holds (F checked exactly per case), centering gives zero column means. "
         "Model = implementation on recorded knots, F and every cell; scipy BSpline / CubicSpline used as an independent reference on the implementation.",
    note="Coq kernel + vm_compute; numpy quantiles and LAPACK solves observed (model recomputes them exactly and compares within 2^-24); uniqueness of the "
         "interpolating spline not proved (scipy reference compared numerically)",
    technique="Coq proof over Q (lra/field; induction on the degree; telescoping sums) + result-checking of the linear solve + in-Coq correspondence",
    design="8 C12")

CLAIMED["C13"] = dict(
    text="Exact-rational Gallina models of scale()/center() (state-first statistics, numpy.sqrt symbolic) and of poly()'s three-term recurrence with "
         "recorded alpha/norms2; real-number denotation of the regenerated TRANSFORMS table. Theorems: centring gives mean zero, scaling mean zero and "
         "unit deviation for the chosen ddof, recorded keys win over later arguments and are applied unchanged; the fitted recurrence IS the monic "
         "orthogonal family of the training data (orthogonal, orthogonal to the constant, unit length, unit-triangular in raw powers), nulls propagate "
         "row-wise; exp10 denotes 10^x (and 10^n at naturals), log/log2/log10/exp/exp2 denote their names and partners are inverses. Model = "
         "implementation on recorded statistics and every cell; implementation-only oracle for magnitudes, 2-D/sparse input, span, model-spec replay.",
    note="Coq kernel + vm_compute; theorems over R use the standard library's real-number axioms (sig_forall_dec, sig_not_dec, functional_extensionality_dep, "
         "classic); numpy ufuncs trusted to compute the function they are named after (observed against math.*); float rounding compared within 2^-24",
    technique="Coq proof over Qc (field reasoning) and over R (stdlib Reals) + translator-regenerated transform table + in-Coq correspondence with tolerance",
    design="8 C13")

CLAIMED["C17"] = dict(
    text="Coq: in the materializer's three-layer context a name resolves to data, then context, then transforms, and the reported source is the layer that "
         "supplied it (all layer contents/overlaps); '.' is exactly the available variables not used on the lhs, in order; for formulas of looked-up "
         "names the reported list (`required_vars`, equal to Formula.required_variables on every case) is sufficient on the data restricted to exactly those columns and each entry is necessary (single and structured formulas), an unreported column can be removed freely. Layered-mapping, parser ('.') and build (missing "
         "variables) models are evaluated in Coq on the implementation's cases; sufficiency/necessity before and after materialization, sources "
         "and '.' are checked directly, including Python-expression factors.",
    note="Coq kernel + vm_compute; which names a Python fragment needs is CPython behaviour: validated by materializing on restricted data, not proved",
    technique="Coq proof over layered-mapping / parser / build models + in-Coq correspondence + remove-one-variable oracle",
    design="8 C17")
CLAIMED["C18"] = dict(
    text="Heap model of specs holding references to their state dictionaries; theorem: after ANY sequence of builds, updates and reuses every earlier spec "
         "reaches the same dictionary contents, given that preparing a spec for a build copies both dictionaries -- a fact regenerated from /repo's "
         "AST each run (and refuted for the uncopied regime); the whole assembled result (names, values, column order, dropped rows, structure) is the same for every iteration order of the evaluated factor pool, and the scoped terms recorded for every term are the same for every order of the set of already-spanned terms. Histories on the "
         "implementation are compared with the model and re-executed call by call (bit-identical); results are compared across 5 hash seeds.",
    note="Coq kernel + vm_compute; AST-derived purity facts (translator); hash-order independence proved for the two hash-ordered collections of the build model (factor pool, spanned set); CPython hash-seed independence elsewhere observed in subprocesses",
    technique="Coq invariant proof over operation histories on a heap model + generated purity facts + history correspondence + hash-seed subprocess runs",
    design="8 C18")
CLAIMED["C20"] = dict(
    text="Coq (over exact rationals, axiom-free): differentiate_term returns per term zero / the term without the factor / one, successively for several "
         "variables, with the same number and order of terms; the result is non-zero exactly for pairwise distinct factors of the term, equals the term without them, and does not depend on the order of the variables; for terms with distinct factors the derivative evaluates to the exact finite difference "
         "for every environment and every step h<>0. Model = implementation on differentiated term lists; every non-zero derivative term is "
         "materialized (formula and model-spec routes) and compared with the exact finite difference of the original column.",
    note="Coq kernel + vm_compute; use_sympy=True needs sympy (not installed): out of scope",
    technique="Coq proof (product-rule algebra over Qc) + in-Coq correspondence + exact finite-difference oracle on materialized matrices",
    design="8 C20")

CLAIMED["C16"] = dict(
    text="Gallina model of the constraint compiler. Theorems: the operator table equals the regenerated one; for EVERY expression tree the compiled "
         "factor set is duplicate-free and denotes, at every point x, the arithmetic value of the expression ('l = r' as l - r); the row and constant "
         "satisfy A.x - b = that value for every x; products of two variable-bearing factors, variable-bearing divisors and unknown columns are "
         "rejected. Model = implementation (exact rows or error class) on generated and mutated specifications; the affine identity is evaluated "
         "at n+1 independent points and string/list/mapping forms are compared on the implementation.",
    note="Coq kernel + vm_compute; dyadic literals so that binary64 arithmetic is exact; graphlib evaluation order (which of two errors surfaces) not modelled",
    technique="Coq proof (denotational soundness of the scaled-factor algebra by induction over expression trees) + generated operator table + in-Coq correspondence",
    design="8 C16")

NOT_YET = {}


def main():
    props = [json.loads(l) for l in (ROOT / "properties.jsonl").read_text().splitlines() if l.strip()]
    checks, na = [], []
    for p in props:
        pid = p["id"]
        if pid in CLAIMED:
            c = CLAIMED[pid]
            checks.append({
                "property_id": pid,
                "quick_cmd": f"bin/vcheck {pid} quick",
                "thorough_cmd": f"bin/vcheck {pid} thorough",
                "evidence_file": f"/verif/evidence/{pid}.json",
                "replay_cmd_template": "bin/vcheck --replay {path}",
                "engine": "coq-proof+correspondence",
                "level_claimed": {"category": "proof", "text": c["text"], "design_ref": "DESIGN.md section " + c["design"]},
                "level_note": c["note"],
                "technique": c["technique"],
            })
        else:
            na.append({"property_id": pid, "reason": NOT_YET.get(pid, "check under construction in this revision (model and theorems designed in DESIGN.md section 8; not yet registered)")})
    man = {
        "version": 1,
        "setup_cmd": "bin/vsetup",
        "hooks": {
            "guard": "FORMULAIC_VERIF",
            "enable": "bin/vcheck exports FORMULAIC_VERIF=1; no hook is currently needed by any check (no guarded code in /repo)",
            "baseline_off_cmd": "bin/baseline",
            "source_commits": [],
            "add_only": True,
        },
        "engines": [{"name": "coq-proof+correspondence", "path": "bin/vcheck",
                     "serves_properties": sorted(CLAIMED),
                     "kind_free_text": "Coq 8.16.1 development under coq/ (models, proofs, props) + Python harness (translator gen_tables.py, in-Coq correspondence, direct oracle, search)"}],
        "checks": checks,
        "not_applicable": na,
        "notes": "Every check regenerates coq/gen/*.v from /repo, rebuilds its props file with make (full .vo), evaluates the model on fresh cases inside Coq and runs the implementation from /repo's working tree.",
    }
    (ROOT / "MANIFEST.json").write_text(json.dumps(man, indent=1) + "\n")
    import jsonschema  # noqa
    jsonschema.validate(man, json.load(open("/root/.vp/MANIFEST.schema.json")))
    print("MANIFEST.json written:", len(checks), "checks,", len(na), "not claimed")


if __name__ == "__main__":
    main()
