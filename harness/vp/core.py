"""Core of the verification harness: build, correspondence-in-Coq, verdicts, evidence.

Run with /venv/bin/python, PYTHONPATH=/repo:/verif/harness (bin/vcheck sets this).
"""
from __future__ import annotations

import fcntl
import hashlib
import json
import os
import random
import re
import shutil
import subprocess
import sys
import time
import traceback
from fractions import Fraction
from pathlib import Path

ROOT = Path(__file__).resolve().parents[2]
COQ = ROOT / "coq"
REPO = Path(os.environ.get("VERIF_REPO", "/repo"))
EVID = ROOT / "evidence"
REPLAYS = ROOT / "replays"
CASES = COQ / "cases"
NPROC = int(os.environ.get("VERIF_JOBS", "16"))

FORBIDDEN = re.compile(
    r"\b(Admitted|admit|Axiom|Axioms|Parameter|Parameters|Conjecture|Conjectures|Admit Obligations|"
    r"Unset Guard Checking|Unset Positivity Checking|Unset Universe Checking|bypass_check|native_compute)\b"
)


# ----------------------------------------------------------------------------------------------
# small utilities
# ----------------------------------------------------------------------------------------------
def sh(cmd, timeout=600, cwd=None, env=None):
    t0 = time.time()
    try:
        p = subprocess.run(cmd, shell=isinstance(cmd, str), cwd=cwd, env=env, timeout=timeout,
                           stdout=subprocess.PIPE, stderr=subprocess.STDOUT, text=True, errors="replace")
        return p.returncode, p.stdout, time.time() - t0
    except subprocess.TimeoutExpired as e:
        out = e.stdout or ""
        if isinstance(out, bytes):
            out = out.decode("utf-8", "replace")
        return 124, out + "\n[timeout]", time.time() - t0


def cstr(s: str) -> str:
    """Python str -> Coq `list N` literal of code points."""
    return "[" + ";".join(str(ord(c)) for c in s) + "]"


def cbool(b) -> str:
    return "true" if b else "false"


def clist(items) -> str:
    return "[" + ";".join(items) + "]"


def copt(x, f=lambda v: v) -> str:
    return "None" if x is None else "(Some " + f(x) + ")"


def cq(x) -> str:
    """exact rational -> Qc literal via Q2Qc (p # q)."""
    fr = Fraction(x)
    return f"(Q2Qc ({fr.numerator} # {fr.denominator}))" if fr.numerator >= 0 else f"(Q2Qc ((-{-fr.numerator}) # {fr.denominator}))"


def cz(n: int) -> str:
    return f"({n})%Z" if n < 0 else f"{n}%Z"


class TranslatorError(Exception):
    pass


class Failure:
    """A concrete input on which the property (as stated) fails on the implementation."""

    def __init__(self, what: str, replay: dict, tags=()):
        self.what = what
        self.replay = replay
        self.tags = set(tags)

    def __repr__(self):
        return f"Failure({self.what!r}, tags={sorted(self.tags)})"


# ----------------------------------------------------------------------------------------------
# known findings
# ----------------------------------------------------------------------------------------------
def load_findings(pid: str):
    p = ROOT / "known_findings.json"
    if not p.exists():
        return []
    data = json.loads(p.read_text())
    return [e for e in data.get("findings", []) if e.get("property") == pid and e.get("status") == "known"]


# ----------------------------------------------------------------------------------------------
# context handed to each property module
# ----------------------------------------------------------------------------------------------
class Ctx:
    def __init__(self, pid: str, tier: str, seed: int):
        self.pid, self.tier, self.seed = pid, tier, seed
        self.rng = random.Random(seed * 1000003 + int(hashlib.sha1(pid.encode()).hexdigest()[:6], 16))
        self.t0 = time.time()
        self.thorough = tier == "thorough"
        self.broken: list[dict] = []       # proof obligations / translator rules / correspondences that no longer check
        self.failures: list[Failure] = []  # concrete failing inputs (direct oracle)
        self.streams: dict[str, dict] = {}  # per correspondence stream: counts, distribution
        self.samples: list = []
        self.obligations: list[str] = []
        self.discharged: list[str] = []
        self.assumptions_printed: dict[str, str] = {}
        self.coqchk = None
        self.notes: list[str] = []
        self.oracle_runs = 0
        self.distinct: set = set()
        self.casedir = CASES / pid
        self.gen_info: dict = {}

    # -- sizes ----------------------------------------------------------------------------------
    def n(self, quick: int, thorough: int | None = None) -> int:
        scale = float(os.environ.get("VERIF_SCALE", "1"))
        v = (thorough if thorough is not None else quick * 20) if self.thorough else quick
        return max(1, int(v * scale))

    def fork(self, name: str) -> random.Random:
        return random.Random(f"{self.seed}/{self.pid}/{name}")

    # -- broken things ---------------------------------------------------------------------------
    def broke(self, kind: str, name: str, detail: str = "", case=None):
        self.broken.append({"kind": kind, "name": name, "detail": detail[-4000:], "case": case})

    def fail(self, what: str, replay: dict, tags=()):
        self.failures.append(Failure(what, replay, tags))

    def sample(self, x):
        if len(self.samples) < 12:
            self.samples.append(x)

    def count(self, stream: str, key: str, k: int = 1):
        d = self.streams.setdefault(stream, {"cases": 0, "mismatches": 0, "dist": {}})["dist"]
        d[key] = d.get(key, 0) + k

    # -- Coq build ------------------------------------------------------------------------------
    def coq_props(self, files: list[str], extra=(), timeout=900):
        """(Re)build the given props files (always recompiled so that Print Assumptions output is captured)."""
        with open(COQ / ".buildlock", "w") as lk:
            fcntl.flock(lk, fcntl.LOCK_EX)
            try:
                from . import gen_tables
                self.gen_info = gen_tables.generate()
            except TranslatorError as e:
                self.broke("translator", "gen_tables", str(e))
            except Exception:
                self.broke("translator", "gen_tables", traceback.format_exc())
            ensure_makefile()
            bad = scan_forbidden()
            if bad:
                self.broke("proof", "forbidden-construct", "\n".join(bad))
            if extra:
                rc, out, dt = sh(f"timeout {timeout} make -j{NPROC} " + " ".join(extra), timeout=timeout + 30, cwd=COQ)
                if rc != 0:
                    self.broke("proof", "model files " + " ".join(extra), out)
            for f in files:
                vo = f[:-2] + ".vo"
                for ext in (".vo", ".vos", ".vok", ".glob"):
                    try:
                        os.remove(COQ / (f[:-2] + ext))
                    except FileNotFoundError:
                        pass
                rc, out, dt = sh(f"timeout {timeout} make -j{NPROC} {vo}", timeout=timeout + 30, cwd=COQ)
                thms = parse_theorems(COQ / f)
                self.obligations += thms
                if rc != 0:
                    self.broke("proof", f, out)
                    # which theorems still hold?  none of this file can be counted
                else:
                    self.discharged += thms
                    self.assumptions_printed.update(parse_assumptions(out, thms))
            if self.thorough:
                # thorough tier: the independent checker re-checks the compiled library and everything it depends on
                libs = " ".join("FV." + f[:-2].replace("/", ".") for f in files)
                rc, out, dt = sh(f"timeout 1800 coqchk -o -silent -R . FV {libs}", timeout=1830, cwd=COQ)
                m = re.search(r"\* Axioms:(.*?)\n\s*\n\* Constants", out, re.S)
                axioms = sorted(a.strip() for a in (m.group(1).split("\n") if m else []) if a.strip() and a.strip() != "<none>")
                bad_ctx = [k for k in ("type-in-type", "unsafe (co)fixpoints", "positivity is assumed")
                           if not re.search(re.escape(k) + r":\s*<none>", out)]
                self.coqchk = {"seconds": round(dt, 1), "axioms": axioms, "ok": rc == 0 and not bad_ctx}
                if rc != 0 or bad_ctx:
                    self.broke("proof", "coqchk " + libs, out[-3000:])
        return not any(b["kind"] in ("proof", "translator") for b in self.broken)

    # -- correspondence inside Coq -------------------------------------------------------------
    def run_cases(self, stream: str, imports: str, preamble: str, ctype: str, checker: str,
                  literals: list[str], descr: list | None = None, shard: int = 300, timeout=600):
        """Write cases_<stream>_k.v, compile in parallel, return global indices of disagreeing cases.

        `checker` is a Coq term of type `list ctype -> nat -> nat * list nat`
        (number of mismatches, indices of mismatching cases, starting at the given index).
        """
        st = self.streams.setdefault(stream, {"cases": 0, "mismatches": 0, "dist": {}})
        st["cases"] += len(literals)
        if not literals:
            return []
        d = self.casedir
        d.mkdir(parents=True, exist_ok=True)
        files = []
        for k in range(0, len(literals), shard):
            chunk = literals[k:k + shard]
            fn = d / f"{stream}_{k // shard}.v"
            with open(fn, "w") as f:
                f.write(imports + "\n" + preamble + "\n")
                f.write(f"Definition cases : list ({ctype}) := [\n" + ";\n".join(chunk) + "].\n")
                f.write(f"Eval vm_compute in (let '(m, fl) := {checker} cases {k}%nat in (m, firstn 40 fl)).\n")
            files.append(fn)
        procs = []
        mism: list[int] = []
        pending = list(files)
        running: list[tuple] = []
        t_start = time.time()

        def launch(fn):
            return subprocess.Popen(["timeout", str(timeout), "coqc", "-R", str(COQ), "FV", "-w", "-all", str(fn)],
                                    cwd=COQ, stdout=subprocess.PIPE, stderr=subprocess.STDOUT, text=True)
        while pending or running:
            while pending and len(running) < NPROC:
                fn = pending.pop(0)
                running.append((fn, launch(fn)))
            fn, p = running.pop(0)
            out, _ = p.communicate()
            m = re.search(r"=\s*\(\s*(\d+)(?:%nat)?\s*,\s*\[(.*?)\]\s*\)", out, re.S)
            if p.returncode != 0 or not m:
                self.broke("correspondence", f"{stream}: {fn.name} did not evaluate", out)
                continue
            cnt = int(m.group(1))
            idx = [int(x.replace("%nat", "").strip()) for x in m.group(2).split(";") if x.strip()]
            st["mismatches"] += cnt
            mism += idx
        st["coq_wall_s"] = round(st.get("coq_wall_s", 0) + time.time() - t_start, 1)
        for i in mism[:5]:
            self.broke("correspondence", stream, f"model and implementation disagree on case {i}",
                       case=(descr[i] if descr and i < len(descr) else literals[i][:2000]))
        if len(mism) > 5:
            self.notes.append(f"{stream}: {len(mism)} disagreeing cases in total")
        return mism

    def cleanup(self):
        if not os.environ.get("VERIF_KEEP_CASES"):
            shutil.rmtree(self.casedir, ignore_errors=True)


# ----------------------------------------------------------------------------------------------
def ensure_makefile():
    files = sorted(str(p.relative_to(COQ)) for sub in ("gen", "lib", "model", "proofs", "props") for p in (COQ / sub).glob("*.v"))
    txt = "-R . FV\n-arg -w -arg -all\n" + "\n".join(files) + "\n"
    cp = COQ / "_CoqProject"
    if not cp.exists() or cp.read_text() != txt or not (COQ / "Makefile").exists():
        cp.write_text(txt)
        rc, out, _ = sh("coq_makefile -f _CoqProject -o Makefile", cwd=COQ)
        if rc != 0:
            raise RuntimeError(out)


def scan_forbidden():
    bad = []
    for sub in ("gen", "lib", "model", "proofs", "props"):
        for p in (COQ / sub).glob("*.v"):
            txt = strip_comments(p.read_text())
            for m in FORBIDDEN.finditer(txt):
                bad.append(f"{p.relative_to(COQ)}: {m.group(0)}")
            # Variable/Hypothesis outside a section
            depth = 0
            for line in txt.splitlines():
                s = line.strip()
                if re.match(r"Section\s+\w+", s):
                    depth += 1
                elif re.match(r"End\s+\w+\s*\.", s) and depth > 0:
                    depth -= 1
                elif depth == 0 and re.match(r"(Variable|Variables|Hypothesis|Hypotheses|Context)\b", s):
                    # "End Module" also decrements above; modules are not used with Variables in this development
                    bad.append(f"{p.relative_to(COQ)}: {s[:60]} outside a section")
    return bad


def strip_comments(txt: str) -> str:
    out, depth, i = [], 0, 0
    while i < len(txt):
        if txt.startswith("(*", i):
            depth += 1
            i += 2
        elif txt.startswith("*)", i) and depth:
            depth -= 1
            i += 2
        else:
            if not depth:
                out.append(txt[i])
            i += 1
    return "".join(out)


def parse_theorems(path: Path):
    txt = strip_comments(path.read_text())
    return re.findall(r"^\s*(?:Theorem|Lemma|Example|Corollary)\s+([A-Za-z0-9_']+)", txt, re.M)


def parse_assumptions(out: str, thms):
    """Split the output of successive `Print Assumptions` commands (in file order)."""
    blocks = re.split(r"(?m)^(?=Closed under the global context|Axioms:)", out)
    blocks = [b.strip() for b in blocks if b.startswith("Closed under") or b.startswith("Axioms:")]
    res = {}
    for i, b in enumerate(blocks):
        name = thms[i] if i < len(thms) else f"#{i}"
        if b.startswith("Closed"):
            res[name] = "Closed under the global context"
        else:
            ax = re.findall(r"(?m)^([A-Za-z_][\w\.']*)\s*$|^([A-Za-z_][\w\.']*)\s*:", b)
            names = sorted({a or c for a, c in ax if (a or c) != "Axioms"})
            res[name] = "Axioms: " + ", ".join(names)
    return res


# ----------------------------------------------------------------------------------------------
# driver
# ----------------------------------------------------------------------------------------------
BASE_TRUSTED = [
    "Coq 8.16.1 kernel (coqc) and its vm_compute reduction machine (used by reflection proofs over finite tables and to evaluate the model on correspondence cases); native_compute is not used",
    "translator harness/vp/gen_tables.py (regenerates coq/gen/*.v from /repo on every run)",
    "correspondence harness: generators, canonicalisation of implementation results, emission and Coq's parsing of case literals",
]


def run_property(mod, tier: str, seed: int) -> int:
    pid = mod.ID
    ctx = Ctx(pid, tier, seed)
    EVID.mkdir(exist_ok=True)
    ev_path = EVID / f"{pid}.json"
    try:
        ev_path.unlink()
    except FileNotFoundError:
        pass
    crashed = None
    try:
        ctx.coq_props(mod.PROPS, extra=getattr(mod, 'COQ_EXTRA', ()))
        mod.run(ctx)
    except Exception:
        crashed = traceback.format_exc()
        ctx.broke("harness", "exception in check", crashed)
    # ---------------- verdict ----------------
    known = load_findings(pid)
    known_tags = {e["signature"]: e for e in known}
    new_fail = [f for f in ctx.failures if not (f.tags & set(known_tags))]
    known_hit = {}
    for f in ctx.failures:
        for t in f.tags & set(known_tags):
            known_hit.setdefault(t, f)
    lines = []
    rc = 0
    if ctx.broken and not new_fail:
        # the model/proof/correspondence no longer checks: search for a concrete failing input
        try:
            if hasattr(mod, "search"):
                mod.search(ctx)
        except Exception:
            ctx.notes.append("search crashed: " + traceback.format_exc()[-1500:])
        new_fail = [f for f in ctx.failures if not (f.tags & set(known_tags))]
    for t, f in sorted(known_hit.items()):
        lines.append(f"KNOWN-FINDING: property={pid} {known_tags[t]['what']}")
    REPLAYS.mkdir(exist_ok=True)
    if new_fail:
        f = new_fail[0]
        h = hashlib.sha1(json.dumps(f.replay, sort_keys=True, default=str).encode()).hexdigest()[:10]
        rp = REPLAYS / f"{pid}-{h}.json"
        rp.write_text(json.dumps({"property": pid, "what": f.what, "replay": f.replay, "tags": sorted(f.tags),
                                  "seed": seed, "tier": tier,
                                  "broken": [{k: b[k] for k in ("kind", "name")} for b in ctx.broken],
                                  "other_failures": [g.what for g in new_fail[1:6]]}, indent=1, default=str))
        lines.append(f"VIOLATION property={pid} replay={rp}")
        rc = 1
    elif ctx.broken:
        h = hashlib.sha1(json.dumps([b["name"] for b in ctx.broken]).encode()).hexdigest()[:10]
        rp = REPLAYS / f"{pid}-broken-{h}.json"
        rp.write_text(json.dumps({"property": pid, "what": "no failing input found; these no longer check",
                                  "no_longer_checks": ctx.broken, "seed": seed, "tier": tier,
                                  "notes": ctx.notes}, indent=1, default=str))
        lines.append(f"VIOLATION property={pid} replay={rp} no-failing-input-found")
        rc = 1
    # ---------------- evidence ----------------
    wall = time.time() - ctx.t0
    n_cases = sum(s["cases"] for s in ctx.streams.values())
    trusted = list(BASE_TRUSTED) + list(getattr(mod, "TRUSTED", []))
    for thm, a in sorted(ctx.assumptions_printed.items()):
        trusted.append(f"Print Assumptions {thm}: {a}")
    if ctx.coqchk:
        trusted.append(f"coqchk -o (independent re-check of the compiled library and its dependencies, {ctx.coqchk['seconds']} s): "
                       + ("accepted; " if ctx.coqchk["ok"] else "REJECTED; ") + "axioms in the loaded context: " + (", ".join(ctx.coqchk["axioms"]) or "none"))
    ev = {
        "property_id": pid, "tier": tier, "seed": seed, "level": "proof",
        "coverage": {
            "obligations": max(1, len(ctx.obligations)),
            "discharged": len(ctx.discharged) if len(ctx.obligations) else 0,
            "checker_cmd": "cd /verif/coq && make " + " ".join(f[:-2] + ".vo" for f in mod.PROPS)
                           + " (full .vo build; Print Assumptions captured; forbidden-construct scan over every .v)",
            "trusted_base": trusted,
            "theorems": ctx.obligations,
            "evaluations": max(1, n_cases + ctx.oracle_runs),
            "distinct_nontrivial": max(len(ctx.distinct), 0),
            "rule": getattr(mod, "RULE", ""),
            "samples": ctx.samples or ["(no sample recorded)"],
            "correspondence_streams": ctx.streams,
            "direct_oracle_runs": ctx.oracle_runs,
            "generated_tables": ctx.gen_info,
            "no_longer_checks": [{"kind": b["kind"], "name": b["name"]} for b in ctx.broken],
            "known_findings_hit": sorted(known_hit),
            "explanation": getattr(mod, "EXPLANATION", ""),
            "notes": ctx.notes,
        },
        "assumptions": list(getattr(mod, "ASSUMPTIONS", [])),
        "wall_s": round(wall, 1),
        "violations": len(new_fail) if new_fail else (1 if rc else 0),
    }
    ev_path.write_text(json.dumps(ev, indent=1, default=str))
    ctx.cleanup()
    for ln in lines:
        print(ln)
    print(f"[{pid} {tier}] obligations {len(ctx.discharged)}/{len(ctx.obligations)}, "
          f"correspondence cases {n_cases}, oracle runs {ctx.oracle_runs}, broken {len(ctx.broken)}, "
          f"failures {len(ctx.failures)} (new {len(new_fail)}), {wall:.1f}s -> exit {rc}")
    if ctx.broken:
        for b in ctx.broken[:6]:
            print(f"  broken[{b['kind']}] {b['name']}: {str(b['detail'])[-600:]}")
            if b.get("case") is not None:
                print(f"    case: {str(b['case'])[:600]}")
    return rc
