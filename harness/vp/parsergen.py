"""Shared machinery for the parser family (C01, C14, C15, C17): generators, the independent reference semantics,
the implementation runner and the Coq literal builders for model/Show.v."""
from __future__ import annotations

import itertools
import re
import sys

from .core import cstr, cbool, clist, copt

IMPORTS = ("From Coq Require Import List NArith ZArith Bool Arith.\nImport ListNotations.\n"
           "Require Import Tok Classify Parser Parser2 Parser3 Show.\nOpen Scope N_scope.")
ICLS = {"AttributeError": 1, "StopIteration": 2, "TypeError": 3, "ValueError": 4, "KeyError": 6, "IndexError": 7}
NAMES = list("abcdef")


# ====================================================================================================
# reference semantics of the documented term algebra, on generator-owned trees (independent of formulaic)
# ====================================================================================================
def tkey(t):
    return tuple(sorted(t))


def oset(ts):
    out = {}
    for t in ts:
        out.setdefault(tkey(t), t)
    return list(out.values())


def union(a, b):
    return oset(a + b)


def diff(a, b):
    kb = {tkey(t) for t in b}
    return [t for t in a if tkey(t) not in kb]


def tmul(s, t):
    out = list(s)
    for f in t:
        if f not in out:
            out.append(f)
    return tuple(out)


def colon(a, b):
    return oset([tmul(s, t) for s in a for t in b])


def star(a, b):
    return union(union(a, b), colon(a, b))


def slash(a, b):
    common = ()
    for t in a:
        common = tmul(common, t)
    return union(a, oset([tmul(common, t) for t in b]))


def power(a, n):
    out = []
    for tup in itertools.product(*[a] * n):
        t = ()
        for x in tup:
            t = tmul(t, x)
        out.append(t)
    return oset(out)


class Reject(Exception):
    pass


class TreeGen:
    """Grammar-directed generator of surface trees.
    ('atom', s) ('par', e) ('add', [(signs, item), ...]) ('bin', op, l, r) ('pow', base, n, sym) ('zero',) ('dot',) ('scale', lit, e)"""

    def __init__(self, rng, depth=3, dots=False, atoms=None):
        self.rng, self.depth, self.dots = rng, depth, dots
        self.extra_atoms = atoms or ["log(a)", "`x y`", "f(b, c)", "`a+b`", "np.exp(c)", "C(d)", "x1", "_u", "a.b"]

    def atom(self, d):
        r = self.rng.random()
        if r < 0.68:
            return ("atom", self.rng.choice(NAMES))
        if r < 0.76:
            return ("atom", "1")
        if r < 0.88 and d > 0:
            return ("par", self.add(d - 1))
        if r < 0.91 and self.dots:
            return ("dot",)
        if r < 0.94:
            return ("atom", self.rng.choice(["2", "3", "0.5", "10"]))   # numeric literal (only valid as a scaling)
        return ("atom", self.rng.choice(self.extra_atoms))

    def pow(self, d):
        a = self.atom(d)
        if self.rng.random() < 0.15:
            return ("pow", a, self.rng.randint(1, 3), self.rng.choice(["**", "^"]))
        return a

    def chain(self, ops, sub, d, p):
        e = sub(d)
        while self.rng.random() < p:
            e = ("bin", self.rng.choice(ops), e, sub(d))
        return e

    def colon(self, d):
        if self.rng.random() < 0.08:
            # a numerically scaled term "2:a", "3:a:b": the literal does not count towards the interaction degree
            lead = ("bin", ":", ("atom", self.rng.choice(["2", "3", "0.5", "10"])), self.pow(d))
            sub = self.pow
            while self.rng.random() < 0.35:
                lead = ("bin", ":", lead, sub(d))
            return lead
        return self.chain([":"], self.pow, d, 0.35)

    def mul(self, d):
        return self.chain(["*", "/", "%in%"], self.colon, d, 0.3)

    def signs(self, maxlen=4):
        return [self.rng.choice("+-") for _ in range(self.rng.randint(1, maxlen))]

    def add(self, d=None):
        d = self.depth if d is None else d
        items = []
        for i in range(self.rng.randint(1, 4)):
            if i == 0:
                signs = self.signs() if self.rng.random() < 0.25 else []
            else:
                signs = self.signs()
            item = ("zero",) if self.rng.random() < 0.1 else self.mul(d)
            items.append((signs, item))
        return ("add", items)


def pr(e, ws=lambda: ""):
    k = e[0]
    if k == "atom":
        return e[1]
    if k == "dot":
        return "."
    if k == "zero":
        return "0"
    if k == "par":
        return "(" + ws() + pr(e[1], ws) + ws() + ")"
    if k == "pow":
        return pr(e[1], ws) + ws() + e[3] + ws() + str(e[2])
    if k == "bin":
        return pr(e[2], ws) + ws() + e[1] + ws() + pr(e[3], ws)
    if k == "add":
        return "".join(ws() + (ws().join(s)) + ws() + pr(it, ws) for s, it in e[1])
    raise ValueError(k)


def tree_size(e):
    k = e[0]
    if k in ("atom", "zero", "dot"):
        return 1
    if k == "par":
        return 1 + tree_size(e[1])
    if k == "pow":
        return 1 + tree_size(e[1])
    if k == "bin":
        return 1 + tree_size(e[2]) + tree_size(e[3])
    return 1 + sum(tree_size(it) for _, it in e[1])


class TooBig(Exception):
    pass


def est_terms(e, limit=300):
    """Upper bound on the number of terms (and product tuples) any sub-expression produces; raises TooBig beyond `limit`.
    Keeps generated formulas within what the quadratic ordered-set model evaluates in milliseconds."""
    k = e[0]
    if k in ("atom", "zero", "dot"):
        n = 4 if k == "dot" else 1
    elif k == "par":
        n = est_terms(e[1], limit)
    elif k == "pow":
        n = est_terms(e[1], limit) ** e[2]
    elif k == "bin":
        l, r = est_terms(e[2], limit), est_terms(e[3], limit)
        n = l * r if e[1] == ":" else (l + r + l * r if e[1] == "*" else l + r)
    else:
        n = 1 + sum(est_terms(it, limit) for _, it in e[1])
    if n > limit:
        raise TooBig()
    return n


def parity(signs, extra=0):
    return (sum(1 for c in signs if c == "-") + extra) % 2


def _is_lit(f):
    return re.fullmatch(r"[0-9.]+", f) is not None or (f[:1] in "\"'")


class Ref:
    """The documented semantics.  `avail`/`used_lhs` give the meaning of '.'."""

    def __init__(self, avail=None, used_lhs=()):
        self.avail, self.used = avail, set(used_lhs)

    def ev(self, e):
        k = e[0]
        if k == "atom":
            a = e[1]
            if a.startswith("`") and a.endswith("`"):
                a = a[1:-1]
            return [(a,)]
        if k == "dot":
            if self.avail is None:
                raise Reject()
            return oset([(v,) for v in self.avail if v not in self.used])
        if k == "par":
            return self.ev(e[1])
        if k == "pow":
            return power(self.ev(e[1]), e[2])
        if k == "bin":
            l, r = self.ev(e[2]), self.ev(e[3])
            op = e[1]
            if op == ":":
                return colon(l, r)
            if op == "*":
                return star(l, r)
            if op == "/":
                if not l:
                    raise Reject()
                return slash(l, r)
            if op == "%in%":
                if not r:
                    raise Reject()
                return slash(r, l)
        if k == "add":
            return self.ev_add(e, None)
        raise ValueError(k)

    def ev_add(self, e, lead):
        acc = lead
        for signs, it in e[1]:
            extra = 0
            if it[0] == "zero":
                val = [("1",)]
                extra = 1
            else:
                val = self.ev(it)
            odd = parity(signs, extra)
            if acc is None:
                acc = [] if odd else val
            else:
                acc = diff(acc, val) if odd else union(acc, val)
        return acc

    def side(self, e, intercept):
        ts = self.ev_add(e, [("1",)] if intercept else None)
        seen = set()
        for t in ts:
            lits = [f for f in t if _is_lit(f)]
            if len(t) == 1 and lits and t[0] != "1":
                raise Reject()
            if any(f[:1] in "\"'" for f in lits):
                raise Reject()
            nonlit = tuple(f for f in t if not _is_lit(f))
            if nonlit in seen:
                raise Reject()
            seen.add(nonlit)
        return ts


def tree_vars(e, out):
    k = e[0]
    if k == "atom" and e[1].startswith("`"):
        out.append(e[1][1:-1])
    elif k == "atom":
        # identifiers that are read as data: not a called function, not part of a dotted path
        out.extend(m.group(0) for m in re.finditer(r"(?<![\w.])[A-Za-z_]\w*(?![\w.(])", e[1]))
    elif k in ("par", "pow"):
        tree_vars(e[1], out)
    elif k == "bin":
        tree_vars(e[2], out)
        tree_vars(e[3], out)
    elif k == "add":
        for _, it in e[1]:
            tree_vars(it, out)
    return out


# ====================================================================================================
# strings
# ====================================================================================================
SOUP = list("ab1 0.+-*/:^~|%(){}[]`\"'\\ ") + ["in", "a", "b", "+", "-", ":", "(", ")", "~", "|", "**", "2", " ", "%in%", ".", "é", "\t", " "] * 2


def gen_formula(rng, depth=3, dots=False, mutate=0.2):
    """Returns (string, tree info or None).  tree info = (lhs tree or None, [rhs part trees]) when the string is the unmutated print."""
    g = TreeGen(rng, depth, dots)
    while True:
        shape = rng.choice(["rhs", "rhs", "two", "parts", "twoparts"])
        lhs = g.add() if shape in ("two", "twoparts") else None
        rhs = [g.add() for _ in range(rng.randint(2, 3) if "parts" in shape else 1)]
        if dots and lhs is not None and rng.random() < 0.5:
            # '.' on the right together with variables used on the left through Python code / quoted names
            lhs = ("add", lhs[1] + [(["+"], ("atom", rng.choice(["log(a)", "f(b, c)", "np.exp(c)", "log(y)", "I(x)", "`y`", "g(a, y)"])))])
            rhs[0] = ("add", rhs[0][1] + [(["+"], ("dot",))])
        if rng.random() < 0.04:
            # a quoted name whose text looks like an interaction, next to that interaction: different terms
            q, (x1, x2) = rng.choice([("`a:b`", ("a", "b")), ("`b:c`", ("b", "c")), ("`a:b`", ("b", "a"))])
            rhs[0] = ("add", rhs[0][1] + [(["+"], ("atom", q)), ([rng.choice("+-")], ("bin", ":", ("atom", x1), ("atom", x2)))])
        try:
            for t in ([lhs] if lhs is not None else []) + rhs:
                est_terms(t)
            break
        except TooBig:
            continue
    w = (lambda: rng.choice(["", "", " ", "  "])) if rng.random() < 0.5 else (lambda: "")
    s = ""
    if lhs is not None:
        s += pr(lhs, w) + w() + "~"
    s += "|".join(w() + pr(p, w) for p in rhs)
    info = (lhs, rhs)
    if rng.random() < mutate:
        base = s
        for _ in range(20):
            i = rng.randrange(len(base) + 1)
            s = base[:i] + rng.choice(SOUP) + base[i + rng.choice([0, 0, 1]):]
            if cheap_powers(s):
                break
        else:
            s = base
        info = None
    return s, info


def cheap_powers(s):
    """the cost of `x ** n` is |x|^n by definition of the operator; keep generated exponents small so that neither the implementation
    nor the model spends minutes on one case"""
    return all(int(m.group(2)) <= 4 for m in re.finditer(r"(\*\*|\^)\s*([0-9]+)", s))


def gen_soup(rng, maxlen=10):
    while True:
        s = "".join(rng.choice(SOUP) for _ in range(rng.randint(0, maxlen)))
        if cheap_powers(s):
            return s


# ====================================================================================================
# implementation runner + oracles for the model
# ====================================================================================================
_word = _num = _ws = None


def _patterns():
    global _word, _num, _ws
    if _word is None:
        import inspect
        import formulaic.parser  # noqa
        tok = sys.modules["formulaic.parser.algos.tokenize"].tokenize
        sig = inspect.signature(tok)
        _word, _num, _ws = (sig.parameters[n].default for n in ("word_chars", "numeric_chars", "whitespace_chars"))
    return _word, _num, _ws


def extra_classes(strings):
    w, n, s = _patterns()
    cps = sorted({c for st in strings for c in st if ord(c) >= 128})
    return "Definition extra : list (N * (bool * bool * bool)) := " + clist(
        f"({ord(c)}, ({cbool(bool(w.match(c)))}, {cbool(bool(n.match(c)))}, {cbool(bool(s.match(c)))}))" for c in cps) + "."


def py_oracles(s):
    """bad (raw python fragment -> error class), norm (raw -> normal form), vars (normal form -> sorted variable names)."""
    import formulaic.parser  # noqa
    tokenize = sys.modules["formulaic.parser.algos.tokenize"].tokenize
    from formulaic.parser.algos.sanitize_tokens import sanitize_python_code
    toks = []
    try:
        for t in tokenize(s):
            toks.append(t)
    except Exception:
        pass
    bad, norm, pv = {}, {}, {}
    for t in toks:
        if t.kind is not None and t.kind.value == "python" and t.token != ".":
            raw = t.token
            try:
                nf = sanitize_python_code(raw)
                if nf != raw:
                    norm[raw] = nf
                t2 = t.copy_with_attrs(token=nf)
                pv[nf] = sorted(str(v) for v in t2.required_variables)
            except SyntaxError:
                bad[raw] = 0
            except Exception as e:
                bad[raw] = ICLS.get(type(e).__name__, 5)
    return bad, norm, pv


def conv_set(x):
    return clist(clist(cstr(f.expr) for f in t.factors) for t in x)


def conv_side(v):
    if isinstance(v, tuple):
        return "inr " + clist(conv_set(p) for p in v)
    return "inl " + conv_set(v)


def run_impl(s, intercept, flags, avail):
    """-> (coq outcome literal, kind tag, python-side structure or exception)"""
    from formulaic.parser import DefaultFormulaParser
    from formulaic.errors import FormulaParsingError
    names = {n for n, b in zip(("twosided", "multipart", "multistage"), flags) if b}
    P = DefaultFormulaParser(include_intercept=intercept, feature_flags=names)
    ctx = {"__formulaic_variables_available__": avail} if avail is not None else {}
    import signal

    def _alarm(*_a):
        raise TimeoutError("implementation did not finish within 30 s")
    old = signal.signal(signal.SIGALRM, _alarm)
    signal.alarm(30)
    try:
        st = P.get_terms(s, context=ctx)
    except TimeoutError as e:
        return "OInternal 5", "timeout", e
    except FormulaParsingError as e:
        return "OReject", "reject", e
    except SyntaxError as e:
        return "OPySyntax", "pysyntax", e
    except RecursionError as e:   # pragma: no cover
        return "OInternal 5", "internal:RecursionError", e
    except Exception as e:
        return f"OInternal {ICLS.get(type(e).__name__, 5)}", "internal:" + type(e).__name__, e
    finally:
        signal.alarm(0)
        signal.signal(signal.SIGALRM, old)
    d = st._structure
    if list(d) == ["root"] and isinstance(d["root"], list) and not d["root"]:
        return "ORoot (inl [])", "ok", st       # the empty formula
    if getattr(st, "_metadata", None) or "deps" in d or any(k not in ("root", "lhs", "rhs") for k in d) \
            or any(not isinstance(v, tuple) and not hasattr(v, "values") for v in d.values()) \
            or any(isinstance(v, tuple) and any(not hasattr(p, "values") for p in v) for v in d.values()):
        return "OMulti", "multi", st
    if "root" in d and len(d) == 1:
        return f"ORoot ({conv_side(d['root'])})", "ok", st
    return f"OTwo ({conv_side(d['lhs'])}) ({conv_side(d['rhs'])})", "ok", st


def case_literal(s, intercept, flags, avail, outcome):
    bad, norm, pv = py_oracles(s)
    return ("{| p_src := %s; p_intercept := %s; p_flags := (%s, %s, %s); p_avail := %s; p_bad := %s; p_norm := %s; p_vars := %s; p_expect := %s |}" % (
        cstr(s), cbool(intercept), cbool(flags[0]), cbool(flags[1]), cbool(flags[2]),
        "None" if avail is None else "(Some " + clist(cstr(v) for v in avail) + ")",
        clist(f"({cstr(k)}, {v}%nat)" for k, v in bad.items()),
        clist(f"({cstr(k)}, {cstr(v)})" for k, v in norm.items()),
        clist(f"({cstr(k)}, {clist(cstr(x) for x in v)})" for k, v in pv.items()),
        outcome))


def struct_to_py(st):
    """Structured[OrderedSet[Term]] -> plain python (for comparison with the reference)."""
    def conv(x):
        if isinstance(x, tuple):
            return tuple(conv(y) for y in x)
        return [tuple(f.expr for f in t.factors) for t in x]
    return {k: conv(v) for k, v in st._structure.items()}


def reference_outcome(info, intercept, avail):
    """Expected parse of an unmutated generated formula under the documented algebra: ('ok', dict) | ('reject',)."""
    lhs, rhs = info
    try:
        used = tree_vars(lhs, []) if lhs is not None else []
        if lhs is not None:
            lref = Ref(avail, used).side(lhs, False)
        r = [Ref(avail, used).side(p, intercept) for p in rhs]
        exp = {}
        if lhs is not None:
            exp["lhs"] = lref
            exp["rhs"] = tuple(r) if len(r) > 1 else r[0]
        else:
            exp["root"] = tuple(r) if len(r) > 1 else r[0]
        return ("ok", exp)
    except Reject:
        return ("reject",)
