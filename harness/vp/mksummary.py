"""Per-property summary table for DESIGN.md (section 17.4), from coq/props, evidence/ and seeded/."""
import json
import re
from pathlib import Path

ROOT = Path(__file__).resolve().parents[2]


def main():
    rows = ["| property | theorems / examples in `coq/props` | axioms | correspondence streams (cases in the last run) | oracle runs | seeded changes caught |",
            "|---|---|---|---|---|---|"]
    for k in range(1, 21):
        pid = f"C{k:02d}"
        src = (ROOT / "coq" / "props" / f"{pid}.v").read_text()
        nth = len(re.findall(r"^Theorem ", src, re.M))
        nex = len(re.findall(r"^Example ", src, re.M))
        evp = ROOT / "evidence" / f"{pid}.json"
        ev = json.loads(evp.read_text()) if evp.exists() else {}
        cov = ev.get("coverage", {})
        tb = cov.get("trusted_base", [])
        closed = sum(1 for t in tb if t.startswith("Print Assumptions") and "Closed under the global context" in t)
        open_ = sum(1 for t in tb if t.startswith("Print Assumptions") and "Closed under the global context" not in t)
        streams = cov.get("correspondence_streams", {})
        st = ", ".join(f"{a} ({v.get('cases', 0)})" for a, v in streams.items() if v.get("cases")) or "-"
        orc = cov.get("direct_oracle_runs", "")
        seeds = [d for d in (ROOT / "seeded").glob(f"{pid}_*") if (d / "result.json").exists()]
        caught = sum(1 for d in seeds if json.loads((d / "result.json").read_text()).get("detected"))
        moot = sum(1 for d in seeds if json.loads((d / "meta.json").read_text()).get("moot"))
        ax = "all closed" if not open_ else f"{closed} closed, {open_} on the stdlib real-number axioms"
        rows.append(f"| {pid} | {nth} / {nex} | {ax} | {st} | {orc} | {caught}/{len(seeds) - moot}" + (f" ({moot} moot)" if moot else "") + " |")
    print("\n".join(rows))


if __name__ == "__main__":
    main()
