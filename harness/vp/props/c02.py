"""C02 — every model-matrix column holds exactly the product its name denotes."""
from __future__ import annotations

import itertools
from fractions import Fraction

from ..core import Ctx
from .. import matgen as M

ID = "C02"
PROPS = ["props/C02.v"]
COQ_EXTRA = ["model/ShowM.vo"]
RULE = ("random frames (1-8 rows, 3 numeric and 3 categorical columns with random level subsets, nulls with probability 0/0.15/0.3) x term lists "
        "(1-5 terms of 0-3 lookup factors, optional literal scalings) x rank reduction on/off x null policy x caller drop sets x output type; "
        "values compared exactly as rationals; non-trivial = at least one interaction or categorical term; distinct by literal")
EXPLANATION = ("Gallina model `build` of the materializer build path over exact rationals; theorems: the row-wise Kronecker product enumerates exactly one "
               "column per choice of one encoded column per factor, named by joining the names, valued by the pointwise product, first factor varying "
               "fastest; scaling multiplies every cell; the intercept is ones. `build` must equal the implementation (names, exact values, drop set, "
               "recorded scoped terms) on every case, for pandas, numpy and sparse outputs; independently each column is recomputed from its label.")
TRUSTED = ["modelled, not verified: pandas level discovery order (sorted distinct non-null values), float arithmetic on the chosen dyadic values (exact in binary64)",
           "Python-expression factors are outside this model (they enter other checks as oracle columns)"]
ASSUMPTIONS = ["term lists are duplicate-free up to literal scalings (the parser guarantees this; list specifications that repeat a term are a recorded C10 finding)"]


def _dedupe(terms):
    seen, out = set(), []
    for t in terms:
        key = tuple(sorted(x for x, m in t if m != "literal"))
        if key in seen:
            continue
        seen.add(key)
        out.append(t)
    return out


def _oracle(ctx: Ctx, frame, terms, efr, na, cd, output, det):
    """the property as stated, on the implementation's output"""
    ctx.oracle_runs += 1
    rp = {"kind": "build", "frame": frame.describe(), "terms": terms, "ensure_full_rank": efr, "na_action": na, "drop_rows": cd, "output": output}
    mm, names, cols = det["mm"], det["names"], det["cols"]
    kept = [i for i in range(frame.n) if i not in set(det["drop"])]
    spec = mm.model_spec
    if len(names) != len(cols):
        # pandas collapses duplicate labels; a recorded C05/C10 matter, not C02
        return
    j = 0
    for row in spec.structure:
        scale = Fraction(1)
        for f in row.term.factors:
            if f.eval_method.value == "literal":
                scale *= Fraction(f.expr)
        for name in row.columns:
            col = cols[names.index(name)] if names.count(name) == 1 else cols[j]
            j += 1
            want = M.column_from_label(name, frame, kept, scale)
            if na == "ignore":
                ok = all((a is None and b is None) or (a is not None and b is not None and a == b) for a, b in zip(col, want))
            else:
                ok = col == want
            if not ok or len(col) != len(want):
                ctx.fail(f"column {name!r} of term {row.term!r} holds {col} but its label denotes {want} (scale {scale})", rp)
                return
    if not efr:
        # complete row-wise Kronecker product, term by term, first factor varying fastest
        want_names = []
        for t in terms:
            if any(m == "literal" and Fraction(x) == 0 for x, m in t):
                continue
            enc = []
            for x, m in t:
                if m == "literal":
                    continue
                if x in frame.num:
                    enc.append([x])
                elif x in frame.cat:
                    lv = frame.declared[x] if frame.cat_dtype == "category" else sorted({frame.cat[x][i] for i in kept if frame.cat[x][i] is not None})
                    enc.append([f"{x}[{l}]" for l in lv])
            if not enc:
                want_names.append("Intercept")
                continue
            for prod in itertools.product(*reversed(enc)):
                want_names.append(":".join(reversed(prod)))
        dedup = list(dict.fromkeys(want_names))
        if names != want_names and names != dedup:
            ctx.fail(f"with rank reduction off the columns are {names}, the full Kronecker product is {want_names}", rp)


def _coded_products(ctx: Ctx):
    """contrast-coded factors inside interactions, used at full rank in one term and at reduced rank in another (F:a + F:B without margins,
    any order): every column is the product of the single-factor columns its label names, where a single-factor column is what the factor
    alone gives under that label ('0 + F' for the full coding, '1 + F' for the reduced one)"""
    import numpy as np
    import pandas as pd
    from formulaic import model_matrix
    rng = ctx.fork("coded-products")
    codings = ["contr.sum", "contr.helmert", "contr.diff", "contr.treatment(base='y')", "contr.poly", "contr.SAS", "contr.helmert(reverse=False, scale=True)", "contr.diff(backward=False)"]
    for i in range(ctx.n(100, 1500)):
        n = rng.randint(7, 12)
        df = pd.DataFrame({"a": [float(rng.randint(-4, 9)) + 0.25 * k for k in range(n)], "b": [float(rng.randint(1, 5)) for _ in range(n)],
                           "A": pd.Series([["x", "y", "z"][k % 3] for k in range(n)], dtype=object), "B": pd.Series([["u", "v"][(k // 2) % 2] for k in range(n)], dtype=object),
                           "G": pd.Series([["p", "q", "r"][(k * 2 + k // 3) % 3] for k in range(n)], dtype=object)})
        F = f"C(A, {rng.choice(codings)})"
        F2 = rng.choice(["B", "G", f"C(G, {rng.choice(codings[:4]).replace(chr(39) + 'y' + chr(39), chr(39) + 'q' + chr(39))})"])
        shapes = ["{F}:a + {F}:{F2}", "{F}:{F2} + {F}:a", "{F}:a + {F}", "{F2}:{F} + a:{F} + {F2}", "0 + {F}:a + {F}:{F2}", "a:{F} + b:{F} + {F}:{F2}:b", "{F} + {F}:{F2}",
                  "{F}:{F2} + {F2}:{F}:a", "0 + {F} + {F}:{F2}"]
        f = rng.choice(shapes).replace("{F2}", F2).replace("{F}", F)
        out = rng.choice(["pandas", "numpy", "sparse"])
        efr = rng.random() < 0.8
        rp = {"kind": "coded-products", "formula": f, "output": out, "ensure_full_rank": efr, "rows": n}
        ctx.oracle_runs += 1
        try:
            mm = model_matrix(f, df, output=out, ensure_full_rank=efr)
            names = list(mm.model_spec.column_names)
            arr = np.asarray(mm.toarray() if out == "sparse" else mm, dtype=float)
            single = {"Intercept": np.ones(n), "a": df["a"].to_numpy(), "b": df["b"].to_numpy()}
            for fac in (F, F2):
                for ref in (f"0 + {fac}", f"1 + {fac}"):
                    r = model_matrix(ref, df)
                    for c in r.columns:
                        single.setdefault(str(c), np.asarray(r[c], dtype=float))
        except Exception as e:
            ctx.fail(f"{f!r}: {type(e).__name__}: {str(e)[:200]}", rp)
            continue
        for j, name in enumerate(names):
            parts = name.split(":")
            if any(p_ not in single for p_ in parts):
                ctx.fail(f"{f!r}: column {name!r} names {[p_ for p_ in parts if p_ not in single]}, which no factor of the formula produces on its own", rp)
                break
            want = np.prod([single[p_] for p_ in parts], axis=0)
            if not np.allclose(arr[:, j], want, rtol=1e-12, atol=1e-12):
                ctx.fail(f"{f!r} ({out}): column {name!r} holds {arr[:, j].tolist()}; the product of the single-factor columns {parts} is {want.tolist()}", rp)
                break
        ctx.count("coded-products", F.split("contr.")[1].split("(")[0].rstrip(")"))


def _label_collisions(ctx: Ctx):
    """data columns whose NAMES are what another factor's encoded columns are called ('A[T.y]', 'A[y]', 'a:b'): each factor still contributes
    its own values to every product"""
    import numpy as np
    import pandas as pd
    from formulaic import model_matrix
    rng = ctx.fork("label-collisions")
    n = 9
    A = [["x", "y", "z"][k % 3] for k in range(n)]
    df = pd.DataFrame({"A": pd.Series(A, dtype=object), "A[T.y]": [2.0 + k for k in range(n)], "A[y]": [0.5 * k - 1.0 for k in range(n)],
                       "A[T.z]": [3.0 - k for k in range(n)], "a": [1.0 + (k * 3) % 5 for k in range(n)],
                       "B": pd.Series([["u", "v"][(k // 2) % 2] for k in range(n)], dtype=object), "B[T.v]": [1.5 * k - 4.0 for k in range(n)]})
    ind = {lv: np.array([1.0 if v == lv else 0.0 for v in A]) for lv in "xyz"}
    cases = [("0 + A:`A[y]`", [("A[x]:A[y]", ind["x"] * df["A[y]"]), ("A[y]:A[y]", ind["y"] * df["A[y]"]), ("A[z]:A[y]", ind["z"] * df["A[y]"])]),
             ("1 + `A[T.y]` + A:`A[T.y]`", None), ("a + A + A:`A[T.z]`:a", None), ("0 + `A[T.y]`:`A[y]`:A", None), ("A:`A[T.y]`:`A[T.z]`", None),
             # a two-level factor at reduced rank has ONE column, called like the data column next to it
             ("B + B:`B[T.v]`", None), ("1 + `B[T.v]` + B:`B[T.v]`", None), ("B + a:B:`B[T.v]`", None), ("B + `B[T.v]`:B:A", None)]
    for f, _ in cases:
        for out in ("pandas", "numpy", "sparse"):
            for efr in (True, False):
                ctx.oracle_runs += 1
                rp = {"kind": "label-collisions", "formula": f, "output": out, "ensure_full_rank": efr}
                try:
                    mm = model_matrix(f, df, output=out, ensure_full_rank=efr)
                    # the same design with harmless names
                    g = f.replace("`A[T.y]`", "p").replace("`A[y]`", "q").replace("`A[T.z]`", "r").replace("`B[T.v]`", "w")
                    ref = model_matrix(g, df.rename(columns={"A[T.y]": "p", "A[y]": "q", "A[T.z]": "r", "B[T.v]": "w"}), output=out, ensure_full_rank=efr)
                except Exception as e:
                    ctx.fail(f"{f!r}: {type(e).__name__}: {str(e)[:200]}", rp)
                    continue
                a = np.asarray(mm.toarray() if out == "sparse" else mm, dtype=float)
                b = np.asarray(ref.toarray() if out == "sparse" else ref, dtype=float)
                if out == "pandas" and len(set(mm.model_spec.column_names)) != len(mm.model_spec.column_names):
                    continue                      # identical labels are merged by the data frame (a C05/C10 matter)
                if a.shape != b.shape or not np.array_equal(a, b):
                    ctx.fail(f"{f!r} ({out}, ensure_full_rank={efr}): columns {list(mm.model_spec.column_names)} hold {a.tolist()}; the same data with the columns renamed "
                             f"to p, q, r ({g!r}) gives {b.tolist()}", rp)
    ctx.count("label-collisions", "formulas", len(cases))


def run(ctx: Ctx):
    _coded_products(ctx)
    _label_collisions(ctx)
    rng = ctx.fork("build")
    lits, descr = [], []
    for i in range(ctx.n(700, 12000)):
        frame = M.gen_frame(rng, cat_dtypes=("object", "object", "category", "str"))
        terms = M.dedupe(M.gen_terms(rng))
        efr = rng.random() < 0.6
        na = rng.choice(["drop", "drop", "raise", "ignore"])
        cd = sorted(set(rng.randrange(frame.n) for _ in range(rng.choice([0, 0, 1, 2]))))
        output = rng.choice(["pandas", "pandas", "numpy", "sparse"])
        exp, kind, det = M.run_build(frame, terms, efr, na, cd, output)
        ctx.count("build", "outcome=" + kind.split(":")[0])
        ctx.count("build", f"output={output}")
        ctx.count("build", f"rank_reduction={efr}")
        if kind == "ok":
            _oracle(ctx, frame, terms, efr, na, cd, output, det)
        lit = M.case_literal(frame, terms, efr, na, cd, exp)
        # two different errors are due (a missing variable AND a null under na_action='raise'): which one surfaces depends on the order in
        # which factors are evaluated; the model evaluates the whole pool before looking at nulls. Both are rejections: not compared.
        if na == "raise" and any(x == "zz" for t in terms for x, m in t) and kind in ("eval", "nullraise"):
            ctx.count("build", "two errors due: not compared")
            continue
        lits.append(lit)
        descr.append({"frame": frame.describe(), "terms": terms, "ensure_full_rank": efr, "na_action": na, "drop_rows": cd, "output": output, "implementation": kind})
        if any(len([1 for x, m in t if m != "literal"]) >= 2 or any(x in M.CAT for x, m in t) for t in terms):
            ctx.distinct.add(lit)
        if i < 3:
            ctx.sample(descr[-1])
    ctx.run_cases("build", M.IMPORTS, "", "mcase", "chk_build", lits, descr, shard=150)


def search(ctx: Ctx):
    big = Ctx(ctx.pid, "thorough", ctx.seed + 1)
    big.casedir = ctx.casedir
    big.run_cases = lambda *a, **k: []
    try:
        run(big)
    except Exception as e:
        ctx.notes.append(f"search crashed: {type(e).__name__}: {e}")
    ctx.failures += big.failures
    ctx.oracle_runs += big.oracle_runs
