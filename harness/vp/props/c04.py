"""C04 — a model spec replays the recorded encoding row by row on any data."""
from __future__ import annotations

import math
import pickle
import warnings

from ..core import Ctx, cstr, cbool, clist
from .. import matgen as M

ID = "C04"
PROPS = ["props/C04.v"]
COQ_EXTRA = ["model/ShowR.vo", "model/ShowSR.vo"]
RIMPORTS = ("From Coq Require Import List NArith ZArith QArith Qcanon Bool Arith.\nImport ListNotations.\n"
            "Require Import Mat ShowM Mat2 ShowR.\nOpen Scope N_scope.")
SRIMPORTS = ("From Coq Require Import List NArith ZArith QArith Qcanon Bool Arith.\nImport ListNotations.\n"
             "Require Import Mat ShowM Mat2 ShowR SpecRec ShowSR.\nOpen Scope N_scope.")
RULE = ("histories build -> replay*: training frames (1-8 rows, nulls, object/category/str text columns), term lists with interactions and literal "
        "scalings, rank reduction on/off, three null policies; follow-up frames = the training data, row subsets, duplications and permutations, "
        "frames missing levels, with and without pickling the spec; formulas with stateful transforms (center, scale, poly, bs, cr, cc, C with "
        "every contrast) are replayed on the implementation only; non-trivial = follow-up differs from training data; distinct by literal")
EXPLANATION = ("theorem C04_replay_is_rowwise: for pinned levels and no nulls, replay on ANY row selection = the selected rows of the replay, under the same names; "
               "Gallina model `replay` of spec reuse (rehydrated scoped terms, pinned category lists, _enforce_structure); theorems: the column names of "
               "any successful replay are the recorded names in the recorded order, for every data set; replay never changes the spec (functional "
               "model); the model must return exactly the implementation's matrix, names and drop set (or error class) on every follow-up; row-wise "
               "behaviour, reproduction on the original data and pickling are checked directly on the implementation, including all stateful transforms")
TRUSTED = ["pickling has no counterpart in the model (a spec is its recorded fields); exercised on the implementation side only",
           "stateful transforms (center/scale/poly/bs/cr/cc) are outside the replay model; their row-wise behaviour is checked by the direct oracle"]
ASSUMPTIONS = ["`lag` is excluded as the property says", "follow-up rows are drawn from the training rows so that spline bounds are respected"]


def spec_literal(ms, terms, efr, na):
    st = clist("(" + clist("mkst " + clist(f"({cstr(sf.factor.expr)}, {cbool(bool(sf.reduced))})" for sf in stt.factors) + " " + M.qq(stt.scale)
                           for stt in s.scoped_terms) + ", " + clist(cstr(c) for c in s.columns) + ")" for s in ms.structure)
    enc = []
    for k, (kind, state) in ms.encoder_state.items():
        if kind.value == "categorical":
            enc.append(f"({cstr(k)}, KCat {clist(cstr(str(c)) for c in state.get('categories', []))})")
        elif kind.value == "numerical":
            enc.append(f"({cstr(k)}, KNum)")
    return "Build_spec %s %s %s (%s)" % (M.terms_coq(terms), st, clist(enc), M.cfg_coq(efr, na, []))


def derive_frame(rng, frame: M.Frame, mode):
    """follow-up data drawn from the training domain"""
    n = frame.n
    if mode == "same":
        ix = list(range(n))
    elif mode == "subset":
        ix = sorted(rng.sample(range(n), rng.randint(1, n)))
    elif mode == "dup":
        ix = [rng.randrange(n) for _ in range(rng.randint(1, n + 3))]
    else:
        ix = list(range(n))
        rng.shuffle(ix)
    num = {c: [v[i] for i in ix] for c, v in frame.num.items()}
    cat = {c: [v[i] for i in ix] for c, v in frame.cat.items()}
    # follow-up data may store its text columns differently: same declaration, or a categorical with the SAME levels in another order
    # (the recorded level order decides which column is which, not the new column's own category order)
    if rng.random() < 0.3:
        declared = {}
        for c, v in cat.items():
            lv = sorted({x for x in frame.cat[c] if x is not None} | {x for x in v if x is not None})
            rng.shuffle(lv)
            declared[c] = lv
        return M.Frame(len(ix), num, cat, None, "category", declared), ix
    return M.Frame(len(ix), num, cat, None, frame.cat_dtype, dict(frame.declared) if frame.declared else None), ix


def run_replay(ms, frame2: M.Frame, cd, via_pickle, quiet=True):
    from formulaic.errors import FactorEvaluationError, FactorEncodingError
    if quiet:
        warnings.simplefilter("ignore")
    df2 = frame2.to_pandas()
    if via_pickle:
        ms = pickle.loads(pickle.dumps(ms))
    dr = set(cd)
    try:
        r = ms.get_model_matrix(df2, drop_rows=dr)
    except FactorEvaluationError as e:
        return "RXErr 1", "eval", None
    except FactorEncodingError as e:
        m = str(e)
        code = 3 if "too many" in m else 4 if "insufficient" in m else 5 if "inconsistent" in m else 7 if "expects factor" in m else 6
        return f"RXErr {code}", f"enc{code}", None
    except ValueError as e:
        if "null" in str(e):
            return "RXErr 2", "nullraise", None
        return "RXErr 6", "valueerror:" + str(e)[:50], None
    except Exception as e:
        return "RXErr 6", "other:" + type(e).__name__ + ":" + str(e)[:50], None
    names, pnames, cols, nrows = M.matrix_columns(r, ms.output)
    exp = "RXOk %s %s %s" % (clist(cstr(c) for c in (pnames if pnames is not None else names)),
                             clist(clist(M.qlit(v) for v in col) for col in cols), clist(str(int(i)) + "%nat" for i in sorted(dr)))
    return exp, "ok", {"names": pnames if pnames is not None else names, "cols": cols, "drop": sorted(dr), "matrix": r}


def rcase_literal(spec_lit, frame2, cd, exp):
    return "{| r_spec := %s; r_frame := %s; r_nrows := %d%%nat; r_caller := %s; r_expect := %s |}" % (
        spec_lit, frame2.coq(), frame2.n, clist(str(i) + "%nat" for i in cd), exp)


def _model_stream(ctx: Ctx):
    from formulaic import model_matrix
    rng = ctx.fork("replay")
    lits, descr = [], []
    srlits, srdescr = [], []
    n = ctx.n(450, 8000)
    tries = 0
    while len(lits) < n and tries < 10 * n:
        tries += 1
        frame = M.gen_frame(rng, pnull=rng.choice([0, 0, 0.15]), cat_dtypes=("object", "object", "category", "str"))
        terms = M.dedupe(M.gen_terms(rng, missing_p=0.0))
        efr = rng.random() < 0.7
        na = rng.choice(["drop", "drop", "raise", "ignore"])
        output = rng.choice(["pandas", "numpy", "sparse"])
        try:
            mm = model_matrix(M.formula_of(terms), frame.to_pandas(), ensure_full_rank=efr, na_action=na, output=output)
        except Exception:
            continue
        ms = mm.model_spec
        slit = spec_literal(ms, terms, efr, na)
        # what the build recorded: model `spec_of` against the implementation's ModelSpec
        srlits.append("{| sr_frame := %s; sr_nrows := %d%%nat; sr_cfg := %s; sr_terms := %s; sr_spec := %s |}" % (
            frame.coq(), frame.n, M.cfg_coq(efr, na, []), M.terms_coq(terms), slit))
        srdescr.append({"train": frame.describe(), "terms": terms, "ensure_full_rank": efr, "na_action": na})
        mode = rng.choice(["same", "subset", "dup", "perm"])
        frame2, ix = derive_frame(rng, frame, mode)
        cd = sorted(set(rng.randrange(frame2.n) for _ in range(rng.choice([0, 0, 1]))))
        via_pickle = rng.random() < 0.5
        exp, kind, det = run_replay(ms, frame2, cd, via_pickle)
        lits.append(rcase_literal(slit, frame2, cd, exp))
        descr.append({"train": frame.describe(), "terms": terms, "ensure_full_rank": efr, "na_action": na, "output": output,
                      "followup": frame2.describe(), "mode": mode, "drop_rows": cd, "pickled": via_pickle, "implementation": kind})
        ctx.count("replay", "mode=" + mode)
        ctx.count("replay", "outcome=" + kind.split(":")[0])
        if mode != "same":
            ctx.distinct.add(lits[-1])
        # ---- direct oracle
        ctx.oracle_runs += 1
        rp = descr[-1]
        if kind == "ok":
            if list(det["names"]) != list(ms.column_names) and output == "pandas":
                ctx.fail(f"replay produced columns {det['names']}, the spec records {list(ms.column_names)}", rp)
            if mode == "same" and not cd:
                n0, p0, c0, _ = M.matrix_columns(mm, output)
                if c0 != det["cols"]:
                    ctx.fail("the spec does not reproduce its own matrix on the original data", rp)
            if not cd and na != "raise":
                # rows depend only on the corresponding input row: compare with the training matrix rows ix (when no row was dropped there)
                n0, p0, c0, nr0 = M.matrix_columns(mm, output)
                dropped_train = {i for i in range(frame.n) if any(v[i] is None for t in terms for x, m_ in t if m_ == "lookup"
                                                                  for v in [frame.num.get(x) or frame.cat.get(x)])} if na == "drop" else set()
                if not dropped_train and nr0 == frame.n:
                    want = [[col[i] for i in ix] for col in c0]
                    same = all(all((a is None and b is None) or a == b for a, b in zip(x, y)) and len(x) == len(y) for x, y in zip(want, det["cols"]))
                    if not same or len(want) != len(det["cols"]):
                        ctx.fail(f"replay on rows {ix} of the training data is not rows {ix} of the training matrix", rp)
        elif kind not in ("nullraise",):
            ctx.fail(f"replay of a fitted spec on data from the training domain failed with {kind}", rp)
        if len(lits) <= 3:
            ctx.sample({k: rp[k] for k in ("terms", "mode", "pickled", "implementation")})
    ctx.run_cases("replay", RIMPORTS, "", "rcase", "chk_replay", lits, descr, shard=150)
    ctx.run_cases("recordedspec", SRIMPORTS, "", "srcase", "chk_specrec", srlits, srdescr, shard=150)


TRANSFORM_FORMULAS = [
    "center(a) + b", "scale(a) + A", "scale(a, center=False) : A", "poly(a, 2) + b", "poly(a, degree=3, raw=True)", "bs(a, df=4)", "bs(a, df=5, degree=2) + A",
    "cr(a, df=4)", "cc(a, df=4)", "cr(a, df=3, constraints='center') + A", "C(A, contr.sum) + a", "C(A, contr.helmert):b", "C(A, contr.poly) + center(b)",
    "C(A, contr.diff) + C(B, contr.treatment('v'))", "C(A, contr.SAS) * b", "standardize(a) + b", "a:center(b) + A", "center(scale(a)) + poly(b, 2)", "np.log(c) + I(a**2) + A:B",
    "scale(center(a) + b)", "hashed(A, levels=4) + a",
    # a stateful transform applied to the multi-column result of another one (per-column nested state under integer / string keys)
    "center(bs(a, df=4))", "scale(cr(a, df=3)) + b", "center(poly(a, 2)) + A", "scale(bs(a, df=3, degree=1)):A",
    "poly(center(a), 2) + scale(poly(b, 2))", "center(cc(a, df=3))",
    # statistics given as expressions of the data: recorded at fit time like estimated ones
    "scale(a, center=np.median(a), scale=np.ptp(a)) + b", "scale(b, center=np.mean(a), scale=2.0) + A", "scale(a, center=np.min(a), scale=False):A",
]


def _transform_oracle(ctx: Ctx):
    import numpy as np
    import pandas as pd
    from formulaic import model_matrix
    rng = ctx.fork("transforms")
    for i in range(ctx.n(150, 2500)):
        n = rng.randint(6, 14)
        df = pd.DataFrame({
            "a": [float(rng.choice([-2, -1, 0, 0.5, 1, 2, 3, 4, 6, 7.5, 9])) + 0.125 * k for k in range(n)],
            "b": [float(rng.choice(M.VALS)) for _ in range(n)],
            "c": [float(rng.choice([1, 2, 4, 8, 0.5])) for _ in range(n)],
            "A": pd.Series([["x", "y", "z"][k % 3] if k < 3 else rng.choice(["x", "y", "z"]) for k in range(n)], dtype=object),
            "B": pd.Series([rng.choice(["u", "v"]) if k > 1 else ["u", "v"][k] for k in range(n)], dtype=object),
        })
        f = rng.choice(TRANSFORM_FORMULAS)
        out = rng.choice(["pandas", "numpy", "sparse"])
        rp = {"kind": "transform-replay", "formula": f, "rows": n, "output": out, "data": df.to_dict("list")}
        ctx.oracle_runs += 1
        ctx.count("transform-oracle", f.split("(")[0])
        warnings.simplefilter("ignore")
        try:
            mm = model_matrix(f, df, output=out)
            ms = mm.model_spec
            if rng.random() < 0.5:
                ms = pickle.loads(pickle.dumps(ms))
            base = np.asarray(mm.toarray() if out == "sparse" else mm, dtype=float)
            again = ms.get_model_matrix(df)
            again = np.asarray(again.toarray() if out == "sparse" else again, dtype=float)
            if base.shape != again.shape or not np.array_equal(base, again, equal_nan=True):
                ctx.fail(f"{f!r}: the spec does not reproduce its matrix on the original data", rp)
                continue
            ix = [rng.randrange(n) for _ in range(rng.randint(1, n + 2))]
            sub = ms.get_model_matrix(df.iloc[ix].reset_index(drop=True))
            if list(sub.model_spec.column_names) != list(mm.model_spec.column_names):
                ctx.fail(f"{f!r}: column names changed on follow-up data", rp)
            sub = np.asarray(sub.toarray() if out == "sparse" else sub, dtype=float)
            if sub.shape != (len(ix), base.shape[1]) or not np.allclose(sub, base[ix, :], rtol=1e-12, atol=1e-12, equal_nan=True):
                ctx.fail(f"{f!r}: rows {ix} of the data do not give rows {ix} of the matrix (recorded state not applied row-wise)", rp)
            ctx.distinct.add((f, tuple(ix)))
        except Exception as e:
            ctx.fail(f"{f!r}: {type(e).__name__}: {e}", rp)


CLIP_FORMULAS = ["cr(a, df=3, extrapolation='clip') + b", "bs(a, df=4, extrapolation='clip')", "cc(a, df=3, extrapolation='clip') + A",
                 "bs(a, df=3, degree=1, extrapolation='clip'):A", "cr(a, df=4, extrapolation='clip', constraints='center')", "center(a) + scale(b)",
                 "scale(a) + b", "poly(a, 2) + A", "bs(a, df=5, extrapolation='zero')"]


def _recorded_zero_oracle(ctx: Ctx):
    """recorded statistics that happen to be 0 (a mean, a bound) are recorded statistics like any other: data arranged so that the minimum,
    the maximum or the mean of the training column is exactly 0, follow-up rows beyond the recorded range"""
    import numpy as np
    import pandas as pd
    from formulaic import model_matrix
    rng = ctx.fork("recorded-zero")
    for i in range(ctx.n(80, 1000)):
        n = rng.randint(6, 12)
        a = [float(v) for v in rng.sample(range(-8, 9), n)]
        shift = rng.choice(["max", "min", "mean", "none"])
        if shift == "max":
            a = [v - max(a) for v in a]
        elif shift == "min":
            a = [v - min(a) for v in a]
        elif shift == "mean":
            a = [v * n - sum(a) for v in a]            # integer data with mean exactly 0
        df = pd.DataFrame({"a": a, "b": [float(k % 3 - 1) + 0.25 * k * rng.choice([1, 2]) for k in range(n)],      # never constant
                           "A": pd.Series([["x", "y", "z"][k % 3] for k in range(n)], dtype=object)})
        if shift == "mean":
            df["b"] = [float(k) - (n - 1) / 2 for k in range(n)]
        f = rng.choice(CLIP_FORMULAS)
        out = rng.choice(["pandas", "numpy", "sparse"])
        rp = {"kind": "recorded-zero", "formula": f, "a": a, "zero": shift, "output": out}
        ctx.oracle_runs += 1
        warnings.simplefilter("ignore")
        try:
            mm = model_matrix(f, df, output=out)
            ms = mm.model_spec
            base = np.asarray(mm.toarray() if out == "sparse" else mm, dtype=float)
            state_before = pickle.dumps({k: {kk: (vv.tolist() if hasattr(vv, "tolist") else vv) for kk, vv in v.items()} for k, v in ms.transform_state.items()})
            hi, lo = int(np.argmax(a)), int(np.argmin(a))
            new = df.iloc[[hi, lo, 1, 2]].reset_index(drop=True)
            beyond = "extrapolation='clip'" in f
            if beyond:
                new.loc[0, "a"] = a[hi] + 1.5          # clipped to the recorded upper bound: same row as the maximum
                new.loc[1, "a"] = a[lo] - 2.5
            got = ms.get_model_matrix(new)
            got = np.asarray(got.toarray() if out == "sparse" else got, dtype=float)
            want = base[[hi, lo, 1, 2], :]
            if got.shape != want.shape or not np.allclose(got, want, rtol=1e-10, atol=1e-10, equal_nan=True):
                ctx.fail(f"{f!r} trained on a={a}: follow-up rows {new['a'].tolist()} do not reproduce the rows of the recorded encoding "
                         f"(recorded state {dict(ms.transform_state)})", rp)
            state_after = pickle.dumps({k: {kk: (vv.tolist() if hasattr(vv, "tolist") else vv) for kk, vv in v.items()} for k, v in ms.transform_state.items()})
            if state_after != state_before:
                ctx.fail(f"{f!r}: re-using the spec changed its recorded state", rp)
        except Exception as e:
            ctx.fail(f"{f!r} trained on a={a}: {type(e).__name__}: {e}", rp)
        ctx.count("recorded-zero", shift)


def _part_specs(ctx: Ctx):
    """the spec attached to EACH part of a structured result replays that part on its own, also on rows in which a level does not occur
    (the factor may have been encoded for an earlier part first)"""
    from . import c07
    rng = ctx.fork("part-specs")
    for _ in range(ctx.n(60, 800)):
        c07._coded_parts(ctx, rng)


def run(ctx: Ctx):
    _part_specs(ctx)
    _model_stream(ctx)
    _transform_oracle(ctx)
    _recorded_zero_oracle(ctx)


def search(ctx: Ctx):
    big = Ctx(ctx.pid, "thorough", ctx.seed + 1)
    big.casedir = ctx.casedir
    big.run_cases = lambda *a, **k: []
    try:
        run(big)
    except Exception as e:
        ctx.notes.append(f"search crashed: {type(e).__name__}: {e}")
    ctx.failures += big.failures
    ctx.oracle_runs += big.oracle_runs
