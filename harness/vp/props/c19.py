"""C19 — Structured, LayeredMapping and SimpleFormula container laws."""
from __future__ import annotations

import copy
import warnings

from ..core import Ctx, cstr, cbool, clist, copt, cz

ID = "C19"
PROPS = ["props/C19.v"]
COQ_EXTRA = ["model/ShowC19.vo"]
RULE = ("random nested Structured objects (keys/tuples/nesting depth<=4, root anywhere), random stacks of plain and nested "
        "LayeredMappings with overlapping keys plus set/del/with_layers histories, random SimpleFormula insert/replace/delete "
        "histories under each ordering; a case is non-trivial when it has >=2 leaves / >=2 layers / >=2 operations; distinct by literal")
EXPLANATION = ("theorems over the Gallina models Struct.v/Layered.v/FormulaSeq.v (structural induction, all nestings, all op sequences); "
               "models tied to /repo by evaluating them inside Coq on the same objects and histories the implementation ran")
TRUSTED = ["modelled, not verified: CPython dict insertion order, tuple/isinstance dispatch, sorted() being a stable sort"]
ASSUMPTIONS = ["leaves are integers in the correspondence; Structured subclasses' _prepare_item is the identity",
               "OrderingMethod.SORT is covered by the correspondence and the direct oracle only (ordering_invariant is proved for NONE and DEGREE)"]

IMPORTS = "From Coq Require Import List NArith ZArith Bool Arith.\nImport ListNotations.\nRequire Import Struct Layered FormulaSeq ShowC19.\nOpen Scope N_scope."


# ------------------------------------------------------------------------------------------------
# Structured
# ------------------------------------------------------------------------------------------------
def _gen_obj(rng, depth, Structured, allow_struct=True):
    r = rng.random()
    if depth <= 0 or r < 0.4:
        return rng.randrange(0, 50)
    if r < 0.65:
        return tuple(_gen_obj(rng, depth - 1, Structured) for _ in range(rng.randrange(0, 4)))
    return _gen_struct(rng, depth - 1, Structured)


def _gen_struct(rng, depth, Structured):
    keys = rng.sample(["a", "b", "c", "d", "root"], rng.choice([0, 1, 1, 1, 2, 2, 3]))
    if rng.random() < 0.45 and "root" not in keys:
        keys = ["root"]
    kw = {k: _gen_obj(rng, depth, Structured) for k in keys}
    s = Structured(**{k: v for k, v in kw.items() if k != "root"})
    if "root" in kw:
        s = Structured(kw["root"], **{k: v for k, v in kw.items() if k != "root"})
    return s


def _lit(obj, Structured):
    if isinstance(obj, Structured):
        return "(Str " + clist(f"({cstr(k)}, {_lit(v, Structured)})" for k, v in obj._structure.items()) + ")"
    if isinstance(obj, tuple):
        return "(Tup " + clist(_lit(v, Structured) for v in obj) + ")"
    return f"(Leaf {int(obj)})"


def _shape(obj, Structured):
    if isinstance(obj, Structured):
        return ("S", tuple((k, _shape(v, Structured)) for k, v in obj._structure.items()))
    if isinstance(obj, tuple):
        return ("T", tuple(_shape(v, Structured) for v in obj))
    return "L"


def _leaves(obj, Structured):
    if isinstance(obj, Structured):
        return [x for v in obj._structure.values() for x in _leaves(v, Structured)]
    if isinstance(obj, tuple):
        return [x for v in obj for x in _leaves(v, Structured)]
    return [obj]


def _struct_stream(ctx: Ctx):
    from formulaic.utils.structured import Structured
    rng = ctx.fork("struct")
    lits, descr = [], []
    n = ctx.n(400, 6000)
    for i in range(n):
        s = _gen_struct(rng, rng.randrange(1, 5), Structured)
        before = _lit(s, Structured)
        calls = []
        mapped = s._map(lambda x: (calls.append(x), x + 1)[1])
        flat = list(s._flatten())
        simp = s._simplify()
        simp_nu = s._simplify(unwrap=False)
        upd = {k: _gen_obj(rng, 2, Structured) for k in rng.sample(["a", "b", "e", "root"], rng.randrange(0, 3))}
        updated = s._update(**upd)
        others = [(_gen_struct(rng, 2, Structured) if rng.random() < 0.8 else _gen_obj(rng, 1, Structured)) for _ in range(rng.randrange(0, 3))]
        try:
            merged = Structured._merge(s, *others, merger=lambda *xs: sum(xs))
            merged_l = f"(Some {_lit(merged, Structured)})"
        except ValueError:
            merged = None
            merged_l = "None"
        # ---- direct oracle: the property as stated, on the implementation
        ctx.oracle_runs += 1
        rp = {"kind": "structured", "object": repr(s._to_dict()), "literal": before}
        if _lit(s, Structured) != before:
            ctx.fail("an operation mutated the Structured instance", rp)
        if _shape(mapped, Structured) != _shape(s, Structured):
            ctx.fail("_map changed the shape", rp)
        if calls != flat or sorted(calls) != sorted(_leaves(s, Structured)) or len(calls) != len(_leaves(s, Structured)):
            ctx.fail(f"_map visited {calls}, _flatten yields {flat}, leaves are {_leaves(s, Structured)}", rp)
        if list(mapped._flatten()) != [x + 1 for x in flat]:
            ctx.fail("flatten(map f s) != map f (flatten s)", rp)
        if isinstance(simp, Structured):
            again = simp._simplify()
            if _lit(again, Structured) != _lit(simp, Structured):
                ctx.fail("_simplify is not idempotent", rp)
            if list(simp._flatten()) != flat:
                ctx.fail("_simplify changed the leaves", rp)
        elif isinstance(simp, tuple):
            ctx.fail("_simplify returned a bare tuple", rp)
        elif [simp] != flat:
            ctx.fail("_simplify changed the leaves", rp)
        want = {**s._structure, **upd}
        if {k: _lit(v, Structured) for k, v in updated._structure.items()} != {k: _lit(v, Structured) for k, v in want.items()}:
            ctx.fail("_update is not the dictionary merge", rp)
        if merged is not None and isinstance(merged, Structured) and all(isinstance(o, Structured) for o in others):
            keys = []
            for o in [s, *others]:
                for k in o._structure:
                    if k not in keys:
                        keys.append(k)
            if set(merged._structure) != set(keys):
                ctx.fail("_merge keys are not the union of the keys", rp)
        nl = len(flat)
        ctx.count("struct", f"leaves={min(nl, 6)}{'+' if nl >= 6 else ''}")
        ctx.count("struct", "merge=" + ("err" if merged is None else "ok"))
        lit = ("{| s_in := %s; s_flat := %s; s_calls := %s; s_map := %s; s_simp := %s; s_simp_nounwrap := %s; s_upd := %s; "
               "s_updated := %s; s_others := %s; s_merged := %s |}") % (
            before, clist(str(x) for x in flat), clist(str(x) for x in calls), _lit(mapped, Structured), _lit(simp, Structured),
            _lit(simp_nu, Structured), clist(f"({cstr(k)}, {_lit(v, Structured)})" for k, v in upd.items()),
            _lit(updated, Structured), clist(_lit(o, Structured) for o in others), merged_l)
        lits.append(lit)
        descr.append({"structured": repr(s._to_dict()), "update": repr(upd), "others": [repr(o._to_dict()) if isinstance(o, Structured) else repr(o) for o in others]})
        if nl >= 2:
            ctx.distinct.add(("s", before, repr(upd)))
        if i < 3:
            ctx.sample({"structured": repr(s._to_dict()), "flatten": flat, "simplified": repr(simp)})
    ctx.run_cases("struct", IMPORTS, "", "scase", "chk_struct", lits, descr)


# ------------------------------------------------------------------------------------------------
# LayeredMapping
# ------------------------------------------------------------------------------------------------
KEYS = ["a", "b", "c", "d", "e"]
NAMES = ["data", "ctx", "t", None, None]


def _gen_layer(rng, depth, LM, registry):
    if depth <= 0 or rng.random() < 0.6:
        d = {k: rng.randrange(100) for k in rng.sample(KEYS, rng.randrange(0, 4))}
        r = rng.random()
        if r < 0.12:                      # mappings that answer missing keys themselves when asked with [] (they still do not CONTAIN them)
            import collections
            d = collections.defaultdict(int, d)
        elif r < 0.2:
            import collections
            d = collections.Counter(d)
        elif r < 0.26:
            import collections
            d = collections.OrderedDict(d)
        registry.append((d, dict(d)))
        return d
    return _gen_lm(rng, depth - 1, LM, registry)


def _gen_lm(rng, depth, LM, registry):
    layers = [_gen_layer(rng, depth, LM, registry) for _ in range(rng.randrange(0, 4))]
    m = LM(*layers, name=rng.choice(NAMES))
    for k in rng.sample(KEYS, rng.randrange(0, 3)):
        m[k] = rng.randrange(100, 200)
    return m


def _lay_lit(x, LM):
    if isinstance(x, LM):
        return "(Sub %s %s %s)" % (copt(x.name, cstr), clist(f"({cstr(k)}, {v})" for k, v in x._mutations.items()),
                                    clist(_lay_lit(y, LM) for y in x._layers))
    return "(Plain " + clist(f"({cstr(k)}, {v})" for k, v in x.items()) + ")"


def _ref_flat(x, LM):
    """Independent reference: top-first list of (key, value, name-path) triples."""
    out = []

    def go(m, path):
        here = path + ([m.name] if m.name else [])
        for k, v in m._mutations.items():
            out.append((k, v, here))
        for layer in m._layers:
            if isinstance(layer, LM):
                go(layer, here)
            else:
                for k, v in layer.items():
                    out.append((k, v, here))
    go(x, [])
    return out


def _layered_values_oracle(ctx: Ctx):
    """the mapping laws do not depend on what the values are: None, 0, False, '' and [] shadow and are returned like any other value"""
    from formulaic.utils.layered_mapping import LayeredMapping as LM
    rng = ctx.fork("layered-values")
    vals = [None, 0, False, "", (), 0.0, 5, "x", True]
    missing = object()
    for i in range(ctx.n(300, 4000)):
        layers = [{k: rng.choice(vals) for k in rng.sample(KEYS, rng.randrange(0, 4))} for _ in range(rng.randrange(0, 4))]
        if layers and rng.random() < 0.4:
            layers[-1] = LM(layers[-1], {k: rng.choice(vals) for k in rng.sample(KEYS, 2)}, name="inner")
        m = LM(*layers, name=rng.choice(NAMES))
        writes = {}
        for k in rng.sample(KEYS + ["new"], rng.randrange(0, 4)):
            writes[k] = rng.choice(vals)
            m[k] = writes[k]
        flat = []
        for layer in layers:
            flat.extend(_ref_flat(layer, LM) if isinstance(layer, LM) else [(k, v, []) for k, v in layer.items()])
        first = dict((k, v) for k, v in reversed([(k, v) for k, v, _ in flat]))
        first.update(writes)
        ctx.oracle_runs += 1
        rp = {"kind": "layered-values", "layers": repr(layers), "writes": repr(writes)}
        for k in KEYS + ["new"]:
            try:
                got = m[k]
            except KeyError:
                got = missing
            want = first.get(k, missing)
            if not (got is want or (got == want and type(got) is type(want))):
                ctx.fail(f"m[{k!r}] is {'a KeyError' if got is missing else repr(got)}, the top-first merge gives {'no such key' if want is missing else repr(want)}", rp)
            if (k in m) != (k in first) or ((k in list(m)) != (k in first)):
                ctx.fail(f"membership / iteration of {k!r} disagrees with the layers", rp)
            v, nm = m.get_with_layer_name(k, missing)
            if not (v is want or (v == want and type(v) is type(want))):
                ctx.fail(f"get_with_layer_name({k!r}) gives {v!r}, lookup gives {'no such key' if want is missing else repr(want)}", rp)
        if len(m) != len(first):
            ctx.fail(f"len is {len(m)}, the layers hold {len(first)} distinct keys", rp)
        ctx.count("layered-values", f"layers={len(layers)}")


def _layered_stream(ctx: Ctx):
    from formulaic.utils.layered_mapping import LayeredMapping as LM
    rng = ctx.fork("layered")
    lits, descr = [], []
    n = ctx.n(400, 6000)
    for i in range(n):
        registry = []
        m = _gen_lm(rng, 2, LM, registry)
        lit_in = _lay_lit(m, LM)
        acts, acts_d = [], []
        for _ in range(rng.randrange(0, 7)):
            r = rng.random()
            if r < 0.45:
                k, v = rng.choice(KEYS), rng.randrange(200, 300)
                m[k] = v
                acts.append(f"ASet {cstr(k)} {v}")
                acts_d.append(("set", k, v))
            elif r < 0.8:
                k = rng.choice(KEYS)
                try:
                    del m[k]
                    ok = True
                except KeyError:
                    ok = False
                acts.append(f"ADel {cstr(k)} {cbool(ok)}")
                acts_d.append(("del", k, ok))
            else:
                new = [_gen_layer(rng, 1, LM, registry) for _ in range(rng.randrange(0, 3))]
                if rng.random() < 0.2:
                    new.insert(rng.randrange(len(new) + 1), None)
                prepend, inplace, name = rng.random() < 0.6, rng.random() < 0.4, rng.choice(NAMES)
                new_lit = clist(_lay_lit(y, LM) for y in new if y is not None)
                m = m.with_layers(*new, prepend=prepend, inplace=inplace, name=name)
                acts.append(f"AWith {new_lit} {cbool(prepend)} {cbool(inplace)} {copt(name, cstr)}")
                acts_d.append(("with_layers", len(new), prepend, inplace, name))
        it = list(m)
        ln = len(m)
        gets = [(k, m.get(k)) for k in KEYS]
        named = []
        for k in KEYS:
            v, nm = m.get_with_layer_name(k)
            named.append((k, None if v is None else (v, nm.split(":") if nm else [])))
        # ---- direct oracle
        ctx.oracle_runs += 1
        rp = {"kind": "layered", "initial": lit_in, "actions": acts_d}
        ref = _ref_flat(m, LM)
        first = {}
        for k, v, p in ref:
            first.setdefault(k, (v, p))
        for k in KEYS:
            if m.get(k) != (first[k][0] if k in first else None):
                ctx.fail(f"lookup of {k!r} is not the top-first merge of the layers", rp)
        if len(set(it)) != len(it) or set(it) != set(first) or ln != len(it):
            ctx.fail(f"iteration/length inconsistent: iter={it} len={ln} keys={sorted(first)}", rp)
        for k in KEYS:
            if (k in m) != (k in first):
                ctx.fail(f"membership of {k!r} disagrees with lookup", rp)
        for d, snap in registry:
            if d != snap:
                ctx.fail("a supplied layer was mutated", rp)
        for k, exp in named:
            if exp is not None and k in first and exp[0] != first[k][0]:
                ctx.fail(f"get_with_layer_name({k!r}) value differs from lookup", rp)
        ctx.count("layered", f"acts={len(acts)}")
        ctx.count("layered", f"layers={min(len(ref), 8)}")
        lit = "{| l_in := %s; l_acts := %s; l_iter := %s; l_len := %d%%nat; l_gets := %s; l_named := %s |}" % (
            lit_in, clist(acts), clist(cstr(k) for k in it), ln,
            clist(f"({cstr(k)}, {copt(v, str)})" for k, v in gets),
            clist("(%s, %s)" % (cstr(k), "None" if e is None else f"(Some ({e[0]}, {clist(cstr(x) for x in e[1])}))") for k, e in named))
        lits.append(lit)
        descr.append(rp)
        if len(acts) >= 2 or len(m._layers) >= 2:
            ctx.distinct.add(("l", lit))
        if i < 3:
            ctx.sample({"layered": lit_in[:300], "actions": acts_d, "iter": it})
    ctx.run_cases("layered", IMPORTS, "", "lcase", "chk_layered", lits, descr)


# ------------------------------------------------------------------------------------------------
# SimpleFormula
# ------------------------------------------------------------------------------------------------
def _gen_term(rng, Term, Factor):
    fs = []
    for _ in range(rng.choice([1, 1, 2, 2, 3, 4])):
        if rng.random() < 0.2:
            fs.append(Factor(rng.choice(["1", "2", "3"]), eval_method="literal"))
        else:
            fs.append(Factor(rng.choice(["a", "b", "c", "d", "x1", "B", "_z", "ab"]), eval_method=rng.choice(["lookup", "python"])))
    return Term(fs)


def _term_lit(t):
    return clist("{| fexpr := %s; flit := %s |}" % (cstr(f.expr), cbool(f.eval_method.value == "literal")) for f in t.factors)


def _formula_stream(ctx: Ctx):
    from formulaic.formula import SimpleFormula, OrderingMethod
    from formulaic.parser.types import Term, Factor
    rng = ctx.fork("formula")
    lits, descr = [], []
    n = ctx.n(400, 6000)
    ords = {"none": "ONone", "degree": "ODegree", "sort": "OSort"}
    for i in range(n):
        o = rng.choice(["none", "degree", "degree", "sort"])
        init = [_gen_term(rng, Term, Factor) for _ in range(rng.randrange(0, 5))]
        f = SimpleFormula(list(init), _ordering=o)
        shadow = None
        ops, ops_d = [], []
        for _ in range(rng.randrange(0, 8)):
            r = rng.random()
            idx = rng.randrange(-7, 8)
            before = list(f)
            if r < 0.45:
                t = _gen_term(rng, Term, Factor)
                f.insert(idx, t)
                ops.append(f"(FInsert {cz(idx)} {_term_lit(t)}, true)")
                ops_d.append(("insert", idx, repr(t)))
                plain = list(before)
                plain.insert(idx, t)
            elif r < 0.75:
                t = _gen_term(rng, Term, Factor)
                try:
                    f[idx] = t
                    ok = True
                except IndexError:
                    ok = False
                ops.append(f"(FSet {cz(idx)} {_term_lit(t)}, {cbool(ok)})")
                ops_d.append(("set", idx, repr(t), ok))
                plain = list(before)
                if ok:
                    plain[idx] = t
            else:
                try:
                    del f[idx]
                    ok = True
                except IndexError:
                    ok = False
                ops.append(f"(FDel {cz(idx)}, {cbool(ok)})")
                ops_d.append(("del", idx, ok))
                plain = list(before)
                if ok:
                    del plain[idx]
            # ---- direct oracle after every step
            ctx.oracle_runs += 1
            rp = {"kind": "formula", "ordering": o, "initial": [repr(t) for t in init], "ops": list(ops_d)}
            now = list(f)
            if o == "degree" and [t.degree for t in now] != sorted(t.degree for t in now):
                ctx.fail("degree ordering invariant broken", rp)
            if o == "sort" and any(now[j + 1] < now[j] for j in range(len(now) - 1)):
                ctx.fail("sort ordering invariant broken", rp)
            if o == "none" and [id(t) for t in now] != [id(t) for t in plain]:
                ctx.fail("ordering NONE does not behave as a plain list", rp)
            if sorted(repr(sorted(t.factors)) for t in now) != sorted(repr(sorted(t.factors)) for t in plain):
                ctx.fail("the sequence does not hold the terms the list operations leave", rp)
            if o == "degree":
                for d in set(t.degree for t in now):
                    if [id(t) for t in now if t.degree == d] != [id(t) for t in sorted(plain, key=lambda t: t.degree) if t.degree == d]:
                        ctx.fail("degree ordering is not a stable sort of the list-operation result", rp)
        final = clist(clist(cstr(fc.expr) for fc in t.factors) for t in f)
        lit = "{| f_ord := %s; f_init := %s; f_ops := %s; f_final := %s |}" % (ords[o], clist(_term_lit(t) for t in init), clist(ops), final)
        lits.append(lit)
        descr.append({"ordering": o, "initial": [repr(t) for t in init], "ops": ops_d, "final": [repr(t) for t in f]})
        ctx.count("formula", f"ordering={o}")
        ctx.count("formula", f"ops={len(ops)}")
        if len(ops) >= 2:
            ctx.distinct.add(("f", lit))
        if i < 3:
            ctx.sample(descr[-1])
    ctx.run_cases("formula", IMPORTS, "", "fcase", "chk_formula", lits, descr)


def run(ctx: Ctx):
    warnings.simplefilter("ignore")
    _struct_stream(ctx)
    _layered_stream(ctx)
    _layered_values_oracle(ctx)
    _formula_stream(ctx)


def search(ctx: Ctx):
    """Called when a proof obligation or a correspondence broke and no failing input is known yet:
    run the direct oracles on a larger fresh sample."""
    big = Ctx(ctx.pid, "thorough", ctx.seed + 1)
    big.casedir = ctx.casedir
    _no_coq = lambda *a, **k: []
    big.run_cases = _no_coq
    for f in (_struct_stream, _layered_stream, _formula_stream):
        try:
            f(big)
        except Exception as e:  # the implementation itself crashing is a finding too
            ctx.fail(f"implementation raised {type(e).__name__}: {e}", {"kind": "crash", "stream": f.__name__})
    ctx.failures += big.failures
    ctx.oracle_runs += big.oracle_runs
