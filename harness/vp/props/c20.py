"""C20 — formula differentiation is the term-wise partial derivative."""
from __future__ import annotations

import warnings
from fractions import Fraction

from ..core import Ctx, cstr, clist
from .. import matgen as M

ID = "C20"
PROPS = ["props/C20.v"]
COQ_EXTRA = ["model/ShowCalc.vo"]
DIMPORTS = ("From Coq Require Import List Arith Bool NArith.\nImport ListNotations.\nRequire Import Struct Calc ShowCalc.\nOpen Scope N_scope.")
RULE = ("formulas whose terms are products of distinct factors over 5 numeric columns, a categorical column and transformed factors; 1-3 differentiation "
        "variables incl. repeated and absent ones; numeric data on a dyadic grid so that finite differences are exact in binary64; formula- and "
        "model-spec-level differentiation, three outputs; non-trivial = at least one interaction containing a differentiation variable; distinct by (formula, wrt)")
EXPLANATION = ("Coq: `differentiate_term` (no sympy) returns per term zero / the term without the factor / one, successively for several variables; for "
               "terms with distinct factors the derivative evaluates to the exact finite difference for every environment and step h<>0 (over Qc, "
               "axiom-free). Model = implementation on the differentiated term lists; every non-zero derivative term is materialized and compared "
               "with the exact finite difference of the original term's column.")
TRUSTED = ["`use_sympy=True` needs sympy, which is not installed: outside this check"]
ASSUMPTIONS = ["the finite-difference oracle perturbs a column by a dyadic step so that all products are exact in binary64"]

VARS = ["a", "b", "c", "d", "e"]


def col_label(term):
    """the column of a term is named after its non-literal factors (a term of literals only is the intercept column)"""
    names = [fc.expr for fc in term.factors if not fc.expr.replace(".", "", 1).isdigit()]
    return ":".join(names) if names else "Intercept"


def run(ctx: Ctx):
    import numpy as np
    import pandas as pd
    from formulaic import Formula, model_matrix
    warnings.simplefilter("ignore")
    rng = ctx.fork("c20")
    lits, descr = [], []
    for i in range(ctx.n(400, 6000)):
        nterms = rng.randint(1, 5)
        terms, seen = [], set()
        for _ in range(nterms):
            t = tuple(rng.sample(VARS, rng.randint(1, 3)))
            if frozenset(t) not in seen:
                seen.add(frozenset(t))
                terms.append(list(t))
        intercept = rng.random() < 0.7
        # literal scalings are factors too: d(2.5:a)/da = 2.5
        for t in terms:
            if rng.random() < 0.25:
                t.insert(rng.randrange(len(t) + 1), rng.choice(["2", "0.5", "3", "2.5", "4"]))
        f = ("1 + " if intercept else "0 + ") + " + ".join(":".join(t) for t in terms)
        wrt = [rng.choice(VARS + ["zz"]) for _ in range(rng.choice([1, 1, 1, 2, 2, 3]))]
        ordering = rng.choice(["degree", "degree", "none", "sort"])            # however the formula orders its terms, the derivative keeps THAT order
        F = Formula(f) if ordering == "degree" else Formula(f, _ordering=ordering)
        ctx.count("diff", f"ordering={ordering}")
        D = F.differentiate(*wrt)
        all_terms = [[fc.expr for fc in t.factors if fc.expr != "1"] for t in F]
        got = [[fc.expr for fc in t.factors] for t in D]
        lits.append("{| d_terms := %s; d_wrt := %s; d_expect := %s |}" % (
            clist(clist(cstr(x) for x in t) for t in all_terms), clist(cstr(v) for v in wrt), clist(clist(cstr(x) for x in t) for t in got)))
        rp = {"kind": "differentiate", "formula": f, "wrt": wrt, "derivative": repr(D)}
        descr.append(rp)
        ctx.count("diff", f"wrt={len(wrt)}")
        if any(len(t) > 1 and wrt[0] in t for t in terms):
            ctx.distinct.add((f, tuple(wrt)))
        # ---- direct oracle
        ctx.oracle_runs += 1
        if len(D) != len(F):
            ctx.fail(f"the derivative of {f!r} w.r.t. {wrt} has {len(D)} terms, the formula has {len(F)}", rp)
            continue
        for t, dt in zip(F, D):
            fs = [fc.expr for fc in t.factors if fc.expr != "1"]
            want = list(fs)
            zero = False
            for v in wrt:
                if v in want:
                    want.remove(v)
                else:
                    zero = True
                    break
            exp = ["0"] if zero else (want or ["1"])
            if [fc.expr for fc in dt.factors] != exp:
                ctx.fail(f"d/d{wrt} of term {t!r} is {dt!r}, expected {':'.join(exp)}", rp)
        # materialization: exact finite difference for a single variable
        if len(wrt) == 1 and wrt[0] in VARS:
            n = 5
            df = pd.DataFrame({v: [float(rng.choice([-2, -1, 0.5, 1, 2, 3, 4])) for _ in range(n)] for v in VARS})
            h = 0.5
            df2 = df.copy()
            df2[wrt[0]] = df2[wrt[0]] + h
            out = rng.choice(["pandas", "numpy", "sparse"])
            try:
                base = model_matrix(F, df, output="pandas", ensure_full_rank=False)
                pert = model_matrix(F, df2, output="pandas", ensure_full_rank=False)
                route = rng.choice(["formula", "spec"])
                if route == "formula":
                    dm = D.get_model_matrix(df, output=out, ensure_full_rank=False)
                else:
                    dm = base.model_spec.differentiate(*wrt).get_model_matrix(df, output=out)
                darr = np.asarray(dm.toarray() if out == "sparse" else dm, dtype=float)
                dnames = list(dm.model_spec.column_names)
            except Exception as e:
                ctx.fail(f"materializing the derivative of {f!r} w.r.t. {wrt}: {type(e).__name__}: {e}", rp)
                continue
            for t, dt in zip(F, D):
                label = col_label(t)
                fd = ((pert[label] - base[label]) / h).tolist()
                dl = repr(dt)
                if dl == "0":
                    if any(x != 0 for x in fd):
                        ctx.fail(f"term {t!r} has a zero derivative but a non-zero finite difference", rp)
                    continue
                dlabel = col_label(dt)
                if dlabel not in dnames:
                    ctx.fail(f"the non-zero derivative term {dl!r} of {t!r} has no column in the materialized derivative {dnames}", rp)
                    continue
                col = darr[:, dnames.index(dlabel)].tolist()
                if col != fd:
                    ctx.fail(f"d{t!r}/d{wrt[0]} materializes to {col}, the exact finite difference is {fd}", rp)
        if i < 3:
            ctx.sample({"formula": f, "wrt": wrt, "derivative": repr(D)})
    ctx.run_cases("diff", DIMPORTS, "", "dcase", "chk_diff", lits, descr, shard=250)


def search(ctx: Ctx):
    big = Ctx(ctx.pid, "thorough", ctx.seed + 1)
    big.casedir = ctx.casedir
    big.run_cases = lambda *a, **k: []
    try:
        run(big)
    except Exception as e:
        ctx.notes.append(f"search crashed: {type(e).__name__}: {e}")
    ctx.failures += big.failures
    ctx.oracle_runs += big.oracle_runs
