"""C15 — lexing is whitespace-insensitive, quote-faithful and normalises Python code."""
from __future__ import annotations

import io
import re
import sys
import tokenize as pytok
import unicodedata

from ..core import Ctx, cstr, clist
from .. import parsergen as G

ID = "C15"
PROPS = ["props/C15.v"]
COQ_EXTRA = ["model/Show.vo"]
RULE = ("(i) random strings over an alphabet rich in quotes, brackets, %, backslashes, digits, dots and non-ASCII letters/spaces, compared "
        "token by token with spans; (ii) metamorphic pairs (compact print, re-spaced print with ASCII and Unicode whitespace) of grammar "
        "trees; (iii) arbitrary Unicode column names in backticks; (iv) Python fragments and token-level reformattings; non-trivial = "
        ">=2 tokens; distinct by string")
EXPLANATION = ("tokenizer model Tok.v (character-level state machine with spans) + theorems: whitespace insensitivity at any top-level token boundary "
               "(tokens and parsed formulas), backtick names verbatim for every name without backtick/backslash, every quoted region verbatim step by step, spans "
               "ordered and disjoint for every accepted input; the model is "
               "evaluated in Coq on every string and must return the implementation's (text, kind, start, end) list or error site")
TRUSTED = ["modelled, not verified: Python `re` classes of non-ASCII code points (oracle per case), ast.parse/ast.unparse (oracle per case)",
           "backtick aliasing inside Python fragments (sanitize_variable_names) is compared through the py_norm oracle, not proved"]
ASSUMPTIONS = ["span-delimits-text is checked on the implementation (direct oracle) and by correspondence; the proved part is ordering/disjointness"]

ALPHA = list("ab1 0.+-*/:^~|%(){}[]`\"'\\_ \t") + ["é", "x", " ", "ß", "9"] + list("abc+-:* ()") * 3
KIND = {"context": 0, "operator": 1, "value": 2, "name": 3, "python": 4}
WS = [" ", " ", "  ", "\t", "\n", " ", " ", "\x0b"]


def _tokenize():
    import formulaic.parser  # noqa
    return sys.modules["formulaic.parser.algos.tokenize"].tokenize


def _span_oracle(ctx, s, toks):
    """Direct oracle: spans ordered, disjoint, and delimiting the token text."""
    tags = []          # (an empty top-level quoted region used to leave a stale span behind: repaired in /repo, e7efd22)
    rp = {"kind": "tokens", "string": s, "tokens": [(t.token, t.kind.value if t.kind else None, t.source_start, t.source_end) for t in toks]}
    prev = -1
    for t in toks:
        a, b = t.source_start, t.source_end
        if a is None or b is None or not (0 <= a <= b < len(s)):
            ctx.fail(f"token {t.token!r} of {s!r} has no valid span ({a},{b})", rp, tags)
            return
        if a <= prev:
            ctx.fail(f"spans of {s!r} are not ordered/disjoint at token {t.token!r} ({a},{b})", rp, tags)
            return
        prev = b
        sl = s[a:b + 1]
        cands = {sl}
        if sl[:1] in "{`%":
            cands.add(sl[1:])               # the opening delimiter of a quoted region belongs to the span, not to the text
        if t.kind is not None and t.kind.value == "operator":
            cands |= {"".join(c for c in x if not re.match(r"\s", c)) for x in list(cands)}   # skipped whitespace inside '+ -'
        if t.token not in cands:
            ctx.fail(f"span ({a},{b}) of token {t.token!r} in {s!r} covers {s[a:b+1]!r}", rp, tags)
            return


def _tok_stream(ctx: Ctx):
    from formulaic.errors import FormulaSyntaxError
    tokenize = _tokenize()
    rng = ctx.fork("tok")
    lits, descr, strings = [], [], []
    for i in range(ctx.n(1500, 30000)):
        s = "".join(rng.choice(ALPHA) for _ in range(rng.randint(0, 14)))
        if i % 8 == 0:
            # quoted regions with backslash escapes, in particular as the LAST characters before the closing delimiter
            pieces = ["`a\\\\`", "{x\\\\}", "`we\\``", "%in\\%%", "f('\\'')", '"a\\""', "`\\\\`", "{\\}}", "`a\\b`", "{a\\ }", "g(`c\\``)", "'\\\\'",
                      "a", "b", "(", ")", "`x y`", "{a+b}"]
            s = rng.choice(["", " "]).join(x for k in range(rng.randint(1, 3)) for x in (rng.choice(pieces), rng.choice(["+", "~", ":", " ", "**", "-"])))[:-1]
        try:
            toks = list(tokenize(s))
            exp = "inl " + clist(f"({cstr(t.token)},{KIND[t.kind.value]}%nat,{t.source_start}%nat,{t.source_end}%nat)" for t in toks)
            ctx.count("tok", "ok")
            ctx.oracle_runs += 1
            _span_oracle(ctx, s, toks)
            if len(toks) >= 2:
                ctx.distinct.add(s)
        except FormulaSyntaxError as e:
            m = str(e)
            code = 0 if "quote context" in m else (1 if "Unexpected character" in m else 2)
            exp = f"inr {code}%nat"
            ctx.count("tok", f"error{code}")
        lits.append(f"({cstr(s)}, {exp})")
        descr.append({"string": s})
        strings.append(s)
        if i < 2:
            ctx.sample({"string": s, "tokens": exp[:200]})
    ctx.run_cases("tok", G.IMPORTS, G.extra_classes(strings), "str * (list (str * nat * nat * nat) + nat)", "chk_tok extra", lits, descr, shard=500)


def _ws_stream(ctx: Ctx):
    rng = ctx.fork("ws")
    lits, descr, strings = [], [], []
    for i in range(ctx.n(500, 8000)):
        g = G.TreeGen(rng, 3, dots=False)
        while True:
            lhs = g.add() if rng.random() < 0.4 else None
            rhs = [g.add() for _ in range(rng.choice([1, 1, 2]))]
            try:
                for t in ([lhs] if lhs else []) + rhs:
                    G.est_terms(t)
                break
            except G.TooBig:
                continue

        def show(w):
            s = ""
            if lhs is not None:
                s += G.pr(lhs, w) + w() + "~"
            return s + "|".join(w() + G.pr(p, w) for p in rhs) + w()
        compact = show(lambda: "")
        spaced = show(lambda: rng.choice(["", ""] + WS))
        intercept = rng.random() < 0.7
        fl = (True, True, False)
        o1, k1, r1 = G.run_impl(compact, intercept, fl, None)
        o2, k2, r2 = G.run_impl(spaced, intercept, fl, None)
        ctx.oracle_runs += 1
        if o1 != o2:
            ctx.fail(f"whitespace changed the parse: {compact!r} -> {k1}, {spaced!r} -> {k2}",
                     {"kind": "whitespace", "compact": compact, "spaced": spaced, "include_intercept": intercept})
        ctx.count("ws", "outcome=" + k1)
        for s, o in ((compact, o1), (spaced, o2)):
            lits.append(G.case_literal(s, intercept, fl, None, o))
            descr.append({"formula": s, "include_intercept": intercept})
            strings.append(s)
        ctx.distinct.add(spaced)
        if i < 2:
            ctx.sample({"compact": compact, "spaced": spaced, "outcome": k1})
    ctx.run_cases("ws", G.IMPORTS, G.extra_classes(strings), "pcase", "chk_parser extra", lits, descr, shard=250)


def _rand_name(rng):
    pools = [
        "abcXYZ_019", " +-*/:~|^%(){}[]'\".,;!?#@$&=<>", "éßøñЖλ中文名あ🙂", "\t\n  ", "\\",
    ]
    n = rng.randint(1, 8)
    out = []
    for _ in range(n):
        pool = rng.choice(pools[:4] if rng.random() < 0.93 else pools)
        out.append(rng.choice(pool))
    return "".join(out)


def _names_stream(ctx: Ctx):
    """Backtick-quoted names: any column name (no backtick) can be referenced."""
    import pandas as pd
    from formulaic import Formula, model_matrix
    rng = ctx.fork("names")
    lits, descr, strings = [], [], []
    for i in range(ctx.n(400, 6000)):
        name = _rand_name(rng)
        other = rng.choice(["a", "b"])
        s = rng.choice(["`{n}`", "`{n}` + {o}", "{o}:`{n}`", "{o} ~ `{n}`", "log(`{n}`) + {o}"]).format(n=name, o=other)
        tags = []
        if "\\" in name:
            tags.append("C15-backslash-in-quoted-name")
        if name == "1":
            tags.append("C15-column-named-1")
        rp = {"kind": "name", "name": name, "formula": s}
        ctx.oracle_runs += 1
        try:
            f = Formula(s)
            facs = {fc.expr for t in (f.rhs if hasattr(f, "rhs") else f) for fc in t.factors}
            import keyword as _kw
            plain = name.isidentifier() and not _kw.iskeyword(name)      # such a name needs no quotes inside Python code
            want = name if "log(" not in s else (f"log({name})" if plain else f"log(`{name}`)")
            if want not in facs:
                ctx.fail(f"quoted name {name!r} in {s!r} was read as factors {sorted(facs)}", rp, tags)
            elif i % 4 == 0:
                df = pd.DataFrame({name: [1.0, 2.0, 4.0], "a": [1.0, 2.0, 3.0], "b": [3.0, 5.0, 6.0]})
                mm = model_matrix(s.replace(other + " ~ ", "", 1) if s.startswith(other + " ~ ") else s, df)
                col = [c for c in mm.columns if name in c]
                if not col:
                    ctx.fail(f"column {name!r} referenced by {s!r} is missing from the model matrix {list(mm.columns)}", rp, tags)
        except Exception as e:
            ctx.fail(f"{type(e).__name__} for the quoted name {name!r} in {s!r}", rp, tags)
        out, kind, _ = G.run_impl(s, True, (True, True, False), None)
        ctx.count("names", "outcome=" + kind)
        ctx.count("names", "class=" + ("ascii" if name.isascii() else "unicode"))
        lits.append(G.case_literal(s, True, (True, True, False), None, out))
        descr.append(rp)
        strings.append(s)
        ctx.distinct.add(s)
    ctx.run_cases("names", G.IMPORTS, G.extra_classes(strings), "pcase", "chk_parser extra", lits, descr, shard=250)


FRAGMENTS = ["np.log(a + 1)", "f(a, b)", "C(x, contr.treatment('u'))", "a ** 2", "bs(x, df=4, degree=3)", "I(a + b * c)", "g(a)[0]",
             "np.where(a > 0, a, -a)", "f(x=1, y=[1, 2])", "h({'k': 1})", "f(a if b else c)", "poly(x, 3)", "f(a, *b)", "m.n.o(p)", "f('it s', \"q\")"]


def _respace(rng, frag):
    """Re-space a Python fragment token by token, but only inside its brackets (outside them whitespace belongs to the formula)."""
    toks = [t for t in pytok.generate_tokens(io.StringIO(frag).readline) if t.type not in (pytok.NEWLINE, pytok.ENDMARKER, pytok.NL)]
    out = ""
    prev = None
    depth = 0
    for t in toks:
        if prev is not None:
            need = (prev.string[-1].isalnum() or prev.string[-1] in "_'\"") and (t.string[0].isalnum() or t.string[0] in "_'\"")
            inside = depth >= 1 and not (depth == 1 and t.string in ")]}" and False)
            sp = rng.choice(["", " ", "  "]) if inside else ""
            out += (" " if need and not sp else sp)
        out += t.string
        if t.string in "([{":
            depth += 1
        elif t.string in ")]}":
            depth -= 1
        prev = t
    return out


def _python_stream(ctx: Ctx):
    from formulaic import Formula
    rng = ctx.fork("python")
    lits, descr, strings = [], [], []
    for i in range(ctx.n(300, 5000)):
        frag = rng.choice(FRAGMENTS)
        alt = _respace(rng, frag)
        wrap = rng.choice(["{f}", "{f} + z", "y ~ {f}", "{{{f}}}"]) if not frag.startswith("a **") else "{{{f}}}"
        s1, s2 = wrap.format(f=frag), wrap.format(f=alt)
        ctx.oracle_runs += 1
        rp = {"kind": "python-formatting", "a": s1, "b": s2}
        try:
            f1, f2 = Formula(s1), Formula(s2)
            if f1 != f2:
                ctx.fail(f"Python fragments differing only in formatting denote different factors: {s1!r} vs {s2!r}", rp)
        except Exception as e:
            ctx.fail(f"{type(e).__name__} while parsing {s1!r} / {s2!r}", rp)
        # a brace-quoted fragment may be padded with blanks inside the braces
        core = rng.choice(["x", "a + b", "f(a)", "a * 2", "np.log(x)"])
        pad1, pad2 = rng.choice(["", " ", "  ", "\t"]), rng.choice(["", " ", "  "])
        b1, b2 = "{" + core + "} + c", "{" + pad1 + core + pad2 + "} + c"
        ctx.oracle_runs += 1
        try:
            if Formula(b1) != Formula(b2):
                ctx.fail(f"brace-quoted fragments differing only in padding denote different factors: {b1!r} vs {b2!r}", {"kind": "python-formatting", "a": b1, "b": b2})
        except Exception as e:
            ctx.fail(f"{type(e).__name__} while parsing {b1!r} / {b2!r}: {str(e)[:100]}", {"kind": "python-formatting", "a": b1, "b": b2})
        # formatting is whitespace BETWEEN Python tokens; the inside of a string literal is content, taken verbatim
        import ast as _ast
        lit1, lit2 = rng.choice([("a  b", "a b"), ("x   y", "x y"), ("  p", "p"), ("q ", "q"), ("m  n  o", "m n o")])
        qt = rng.choice("'\"")
        call = rng.choice(["f({q}{v}{q})", "C(x, levels=[{q}{v}{q}, {q}c{q}])", "g(a, k={q}{v}{q})"])
        t1, t2 = call.format(q=qt, v=lit1), call.format(q=qt, v=lit2)
        ctx.oracle_runs += 1
        try:
            e1 = [fc.expr for t in Formula(t1 + " - 1") for fc in t.factors]
            consts = [n.value for x in e1 for n in _ast.walk(_ast.parse(x, mode="eval")) if isinstance(n, _ast.Constant) and isinstance(n.value, str)]
            if len(e1) != 1 or lit1 not in consts:
                ctx.fail(f"the string literal {lit1!r} inside {t1!r} was not taken verbatim: the factor is {e1}", {"kind": "python-literal", "formula": t1})
            both = Formula(t1 + " + " + t2 + " - 1")
            if len(both) != 2:
                ctx.fail(f"{t1!r} and {t2!r} differ inside a string literal but were read as the same factor: {both!r}", {"kind": "python-literal", "formula": t1 + " + " + t2})
        except Exception as e:
            ctx.fail(f"{type(e).__name__} while parsing {t1!r}: {e}", {"kind": "python-literal", "formula": t1})
        for s in (s1, s2):
            out, kind, _ = G.run_impl(s, True, (True, True, False), None)
            lits.append(G.case_literal(s, True, (True, True, False), None, out))
            descr.append(rp)
            strings.append(s)
            ctx.count("python", "outcome=" + kind)
        ctx.distinct.add(s2)
        if i < 2:
            ctx.sample(rp)
    ctx.run_cases("python", G.IMPORTS, G.extra_classes(strings), "pcase", "chk_parser extra", lits, descr, shard=250)


def _quoted_in_python(ctx: Ctx):
    """back-quoted names inside Python code reference exactly that column, whatever the name looks like (an identifier, a prefix of
    another quoted name, a Python keyword, a name with operator characters), and nothing else in the code is touched"""
    import numpy as np
    import pandas as pd
    from formulaic import Formula, model_matrix
    rng = ctx.fork("quoted-python")
    # (several of these sanitize to the same Python identifier: a_b for 'a b', 'a|b', 'a-b', 'a.b'; _1st ...)
    names = ["a", "x", "m", "x y", "a|b", "a|b|c", "in", "for", "1st", "a b", "a  b", "é", "max", "e", "a-b", "a.b", "a_b", "_1st", "x-y", "a\\d", "p\\n", "q\\1"]       # (the last three contain a backslash)
    n = 5
    df = pd.DataFrame({nm: [float((k * (i + 2)) % 7 + 1) for k in range(n)] for i, nm in enumerate(names)})
    funcs = {"np.log": np.log, "np.exp": lambda v: np.exp(v / 8), "max0": None, "np.sqrt": np.sqrt, "abs": np.abs}
    for i in range(ctx.n(150, 2000)):
        k = rng.choice([1, 1, 2, 3, 4])
        cols = [rng.choice(names) for _ in range(k)]
        if k >= 2 and rng.random() < 0.5:          # names that collide after sanitisation, side by side
            grp = rng.choice([["a b", "a|b", "a-b", "a.b", "a_b"], ["a b", "a|b", "a-b", "a.b", "a_b"], ["1st", "_1st"], ["x y", "x-y"]])
            cols = rng.sample(grp, min(len(grp), max(2, k))) + cols[len(grp):]
        fn = rng.choice(["np.log", "np.sqrt", "np.abs", "np.maximum", "I"])
        if fn == "np.maximum":
            cols = (cols + [rng.choice(names)])[:2] if len(cols) < 2 else cols[:2]
            code = f"np.maximum(`{cols[0]}`, `{cols[1]}`)"
            want = np.maximum(df[cols[0]], df[cols[1]]).tolist()
        elif fn == "I":
            code = "I(" + " + ".join(f"`{c}`" for c in cols) + ")"
            want = sum(df[c] for c in cols).tolist()
        else:
            code = f"{fn}(`{cols[0]}`)"
            want = getattr(np, fn[3:])(df[cols[0]]).tolist()
        f = code + " - 1"
        rp = {"kind": "quoted-in-python", "formula": f}
        ctx.oracle_runs += 1
        try:
            exprs = [fc.expr for t in Formula(f) for fc in t.factors]
            mm = model_matrix(f, df)
            got = np.asarray(mm, dtype=float)[:, 0].tolist()
        except Exception as e:
            ctx.fail(f"{f!r}: {type(e).__name__}: {str(e)[:200]}", rp)
            continue
        if len(exprs) != 1 or not np.allclose(got, want):
            ctx.fail(f"{f!r} was read as {exprs} and evaluates to {got}; the columns {cols} give {want}", rp)
        ctx.count("quoted-python", fn)


def _string_literals(ctx: Ctx):
    """string literals inside Python code reach the called function character for character -- escaped quotes of their own kind, back-quotes,
    braces, operator characters -- and back-quoted names next to them still reference their column"""
    import numpy as np
    import pandas as pd
    from formulaic import model_matrix
    rng = ctx.fork("string-literals")
    n = 4
    df = pd.DataFrame({"x y": [1.0, 2.0, 3.0, 4.0], "a": [4.0, 3.0, 2.0, 1.0], "b-c": [0.5, 1.5, 2.5, 3.5]})
    texts = ["it's", "it's `x`", 'say "hi"', "a `b` c", "~ | + {}", "back\\slash", "tick ` alone", "'", '"', "`x y`", "end\\", "{`a`}", "%in%", "two  blanks", ""]
    for i in range(ctx.n(120, 1500)):
        k = rng.randint(1, 3)
        args, want = [], []
        for _ in range(k):
            if rng.random() < 0.35:
                col = rng.choice(list(df.columns))
                args.append(f"`{col}`" if rng.random() < 0.7 or not col.isidentifier() else col)
                want.append(("col", col))
            else:
                t = rng.choice(texts)
                q = rng.choice(["'", '"'])
                lit = q + t.replace("\\", "\\\\").replace(q, "\\" + q) + q
                args.append(lit)
                want.append(("str", t.replace("\\\\", "\\") if False else t))
        seen = []

        def probe(*a):
            seen.append(a)
            return np.ones(n)
        f = "probe(" + rng.choice([", ", ","]).join(args) + ") - 1"
        rp = {"kind": "string-literals", "formula": f}
        ctx.oracle_runs += 1
        try:
            model_matrix(f, df, context={"probe": probe})
        except Exception as e:
            ctx.fail(f"{f!r}: {type(e).__name__}: {str(e)[:200]}", rp)
            continue
        got = seen[-1] if seen else ()
        ok = len(got) == len(want)
        for g, (kind, v) in zip(got, want):
            if kind == "str":
                ok = ok and isinstance(g, str) and g == v.replace("\\\\", "\\")
            else:
                ok = ok and hasattr(g, "tolist") and list(g) == list(df[v])
        if not ok:
            ctx.fail(f"{f!r}: the function received {[x if isinstance(x, str) else list(x) for x in got]}, written were {want}", rp)
        ctx.count("string-literals", f"args={k}")


def run(ctx: Ctx):
    _string_literals(ctx)
    _quoted_in_python(ctx)
    _tok_stream(ctx)
    _ws_stream(ctx)
    _names_stream(ctx)
    _python_stream(ctx)


def search(ctx: Ctx):
    big = Ctx(ctx.pid, "thorough", ctx.seed + 1)
    big.casedir = ctx.casedir
    big.run_cases = lambda *a, **k: []
    try:
        run(big)
    except Exception as e:
        ctx.notes.append(f"search crashed: {type(e).__name__}: {e}")
    ctx.failures += big.failures
    ctx.oracle_runs += big.oracle_runs
