"""C12 — spline transforms reproduce the mathematical bases they name."""
from __future__ import annotations

import warnings
from fractions import Fraction

from ..core import Ctx, clist

ID = "C12"
PROPS = ["props/C12.v"]
COQ_EXTRA = ["model/ShowSpline.vo"]
SIMPORTS = ("From Coq Require Import List ZArith QArith Bool Arith.\nImport ListNotations.\nRequire Import BSpline CubicSpline ShowSpline.\nOpen Scope nat_scope.")
RULE = ("vectors of 5..15 multiples of 1/8 in [-4, 12] with ties and nulls; bs: degree 0..5, explicit sorted inner knots (possibly repeated or at a "
        "bound) or df-derived knots, bounds from the data or explicit and narrower than the data, include_intercept, all five extrapolation modes, a "
        "follow-up vector evaluated with the recorded state; cr/cc: explicit distinct inner knots or df, explicit or data bounds, the five modes, "
        "'center' constraint; non-trivial = at least one inner knot and 4 distinct values; distinct by (configuration, vector)")
EXPLANATION = ("Coq (exact rationals): the code's Cox-de Boor recursion with its boundary handling is non-negative, sums to one inside the bounds, vanishes "
               "outside ('zero'), is unchanged inside in 'extend' mode and continues the first/last polynomial piece outside, has df columns; the cubic "
               "regression spline row at a knot is a unit vector for any F (cyclic: last = first knot), between knots it is the cubic with the "
               "prescribed end values and second derivatives, neighbouring pieces are C1 exactly when F solves the tridiagonal system (checked "
               "exactly per case), centering yields zero column means. Model = implementation on recorded knots (incl. quantile knots), F, and every "
               "cell. Independently on the implementation: scipy's BSpline.design_matrix and CubicSpline (natural / periodic) as references.")
TRUSTED = ["numpy.nanquantile / nanpercentile (linear interpolation) are modelled as exact linear interpolation between order statistics; the "
           "recorded knots are compared with that model within 2^-24 and the bases are then evaluated on the RECORDED knots",
           "scipy.linalg.solve_banded / numpy.linalg.solve / numpy.linalg.qr are observed (the model solves the same systems exactly and compares F; "
           "Q2 from the QR factorisation is only required to be orthogonal to the constraint, which is checked numerically)",
           "uniqueness of the natural / periodic interpolating cubic spline (textbook) is not proved; the scipy reference is compared numerically"]
ASSUMPTIONS = ["explicit inner knots are sorted and lie within the bounds (the code does not validate them)",
               "cubic splines: the recorded knots are distinct"]

MODES = {"raise": "XRaise", "clip": "XClip", "na": "XNa", "zero": "XZero", "extend": "XExtend"}


def fq(x):
    f = Fraction(float(x))
    return f"(({f.numerator})%Z, {f.denominator}%positive)"


def optq(v):
    return "None" if v is None else f"(Some {fq(v)})"


def rows_lit(mat, xs):
    import numpy as np
    out = []
    for x, r in zip(xs, mat):
        if np.isnan(r).any():
            out.append("None")
        else:
            out.append("(Some " + clist(fq(v) for v in r) + ")")
    return clist(out)


def tofl(l):
    import numpy as np
    return np.array([np.nan if v is None else v for v in l], dtype=float)


def gen_vec(rng, n, lo=-4.0, hi=12.0, nulls=True):
    xs = [rng.randint(int(lo * 8), int(hi * 8)) / 8 for _ in range(n)]
    for _ in range(rng.choice([0, 0, 1, 2])):
        xs[rng.randrange(n)] = rng.choice(xs)
    if nulls and rng.random() < 0.25:
        xs[rng.randrange(n)] = None
    return xs


def stack(res):
    import numpy as np
    keys = sorted(res)
    return np.stack([np.asarray(res[k], dtype=float) for k in keys], axis=1) if keys else np.zeros((0, 0))


# ------------------------------------------------------------------------------------------------------
def bs_cases(ctx, rng, lits, descr):
    import numpy as np
    from scipy.interpolate import BSpline
    from formulaic.transforms.basis_spline import basis_spline
    for it in range(ctx.n(260, 4000)):
        n = rng.randint(5, 15)
        xs = gen_vec(rng, n)
        vals = [v for v in xs if v is not None]
        degree = rng.choice([0, 1, 2, 3, 3, 3, 4, 5])
        intercept = rng.random() < 0.4
        mode = rng.choice(["raise", "raise", "clip", "na", "zero", "extend", "extend"])
        lo, hi = min(vals), max(vals)
        if lo == hi:
            continue
        bounds = rng.choice(["data", "data", "explicit-wide", "explicit-narrow"])
        if bounds == "data":
            lb = ub = None
            elb, eub = lo, hi
        elif bounds == "explicit-wide":
            lb, ub = lo - rng.choice([0, 0.5, 2]), hi + rng.choice([0, 0.25, 3])
            elb, eub = lb, ub
        else:
            srt = sorted(set(vals))
            if len(srt) < 4:
                continue
            lb, ub = srt[1], srt[-2]
            elb, eub = lb, ub
        use_df = rng.random() < 0.5
        nknots = rng.choice([0, 0, 1, 2, 3, 4])
        knots = df = None
        if use_df:
            df = nknots + degree + (1 if intercept else 0)
            if df == 0:
                df = None
                knots = []
        else:
            pool = [elb + (eub - elb) * k / 16 for k in range(0, 17)]
            knots = sorted(rng.choice(pool[1:-1] if rng.random() < 0.85 else pool) for _ in range(nknots))
            if rng.random() < 0.1 and knots:
                knots.append(knots[-1])
                knots.sort()
        new = gen_vec(rng, rng.randint(1, 6), lo - 3, hi + 3)
        mode2 = rng.choice(["clip", "na", "zero", "extend", "raise"])
        rp = {"kind": "bs", "x": xs, "degree": degree, "df": df, "knots": knots, "include_intercept": intercept, "lower_bound": lb, "upper_bound": ub,
              "extrapolation": mode, "new": new, "extrapolation_new": mode2}
        ctx.oracle_runs += 1
        st = {}
        kw = dict(degree=degree, include_intercept=intercept, lower_bound=lb, upper_bound=ub)
        if df is not None:
            kw["df"] = df
        else:
            kw["knots"] = list(knots)
        outside = any(v < elb or v > eub for v in vals)
        try:
            with np.errstate(all="ignore"):
                res = basis_spline(tofl(xs), extrapolation=mode, _state=st, **kw)
            raised = False
        except ValueError as e:
            raised = True
            if not (mode == "raise" and outside):
                ctx.fail(f"bs {rp}: ValueError: {e}", rp)
                continue
        except Exception as e:
            ctx.fail(f"bs {rp}: {type(e).__name__}: {e}", rp)
            continue
        if raised:
            # the recorded state is incomplete: evaluate the model on the knots the call would have recorded? not observable: only the raise is checked
            ctx.count("bs", "raise on out-of-bounds")
            continue
        if mode == "raise" and outside:
            ctx.fail(f"bs {rp}: values outside the bounds did not raise with extrapolation='raise'", rp)
            continue
        M = stack(res)
        kn = list(st["knots"])
        ncols = len(kn) - degree - 1 - (0 if intercept else 1)
        if M.shape != (n, ncols) and ncols > 0:
            ctx.fail(f"bs {rp}: result has shape {M.shape}, expected {(n, ncols)}", rp)
            continue
        if df is not None and ncols != df:
            ctx.fail(f"bs {rp}: {ncols} columns for df={df}", rp)
        if ncols <= 0:
            continue
        # which data selected the knots (R: the values inside the boundary knots)
        if df is not None:
            inb = sorted(v for v in vals if elb <= v <= eub)
            srt, nk = clist(fq(v) for v in inb), f"(Some {nknots})"
        else:
            srt, nk = "[]", "None"
        lits.append("{| b_knots := %s; b_degree := %d; b_intercept := %s; b_mode := %s; b_xs := %s; b_raises := false; b_rows := %s; b_sorted := %s; b_nknots := %s |}" % (
            clist(fq(v) for v in kn), degree, "true" if intercept else "false", MODES[mode], clist(optq(v) for v in xs), rows_lit(M, xs), srt, nk))
        descr.append(rp)
        # follow-up data with the recorded state
        newvals = [v for v in new if v is not None]
        out2 = any(v < elb or v > eub for v in newvals)
        try:
            with np.errstate(all="ignore"):
                res2 = basis_spline(tofl(new), extrapolation=mode2, _state=st, **kw)
            M2 = stack(res2)
            if mode2 == "raise" and out2:
                ctx.fail(f"bs {rp}: follow-up values outside the bounds did not raise", rp)
            else:
                lits.append("{| b_knots := %s; b_degree := %d; b_intercept := %s; b_mode := %s; b_xs := %s; b_raises := false; b_rows := %s; b_sorted := []; b_nknots := None |}" % (
                    clist(fq(v) for v in kn), degree, "true" if intercept else "false", MODES[mode2], clist(optq(v) for v in new), rows_lit(M2, new)))
                descr.append(rp)
        except ValueError as e:
            M2 = None
            if mode2 == "raise" and out2:
                lits.append("{| b_knots := %s; b_degree := %d; b_intercept := %s; b_mode := XRaise; b_xs := %s; b_raises := true; b_rows := []; b_sorted := []; b_nknots := None |}" % (
                    clist(fq(v) for v in kn), degree, "true" if intercept else "false", clist(optq(v) for v in new)))
                descr.append(rp)
            else:
                ctx.fail(f"bs {rp}: follow-up call: ValueError: {e}", rp)
        if list(st["knots"]) != kn:
            ctx.fail(f"bs {rp}: the follow-up call changed the recorded knots", rp)
        # ---- direct oracle against scipy's B-spline design matrix on the recorded knot vector
        t = np.array(kn, dtype=float)
        mono = bool(np.all(np.diff(t) >= 0))
        if not mono:
            ctx.fail(f"bs {rp}: the recorded knot vector {kn} is not non-decreasing: the result is not a B-spline basis", rp)
            continue
        nb = len(kn) - degree - 1
        for data, Mx, md in ((xs, M, mode), (new, M2, mode2)):
            if Mx is None:
                continue
            for x, row in zip(data, Mx):
                if x is None:
                    if not np.isnan(row).all():
                        ctx.fail(f"bs {rp}: a null value did not give a null row", rp)
                    continue
                inside = elb <= x <= eub
                xe = x
                if not inside:
                    if md == "na":
                        if not np.isnan(row).all():
                            ctx.fail(f"bs {rp}: extrapolation='na' did not give a null row for {x}", rp)
                        continue
                    if md == "zero":
                        if not (row == 0).all():
                            ctx.fail(f"bs {rp}: extrapolation='zero' did not give a zero row for {x}", rp)
                        continue
                    if md == "clip":
                        xe = min(max(x, elb), eub)
                # an inner knot that coincides with a boundary knot (explicitly, or a quantile of tied data) gives the boundary a
                # multiplicity of degree+2: the spline space is then discontinuous at that boundary and the value AT (and, when
                # extending, beyond) the boundary is a convention -- the code uses the degenerate closed interval, scipy the
                # left limit. Both are partitions of unity; the reference comparison is restricted to where it is well defined.
                degenerate_hi = t[-degree - 2] == t[-degree - 1]
                degenerate_lo = t[degree + 1] == t[degree]
                ambiguous_pt = (degenerate_hi and xe >= t[-degree - 1]) or (degenerate_lo and xe <= t[degree])
                if t[degree] < t[-degree - 1] and not ambiguous_pt:
                    spl = BSpline(t, np.eye(nb), degree, extrapolate=True)
                    full = np.asarray(spl(xe), dtype=float)
                    want = full if intercept else full[1:]
                    tolr = 1e-9 if (inside or md == "clip") else 1e-7 * max(1.0, np.abs(full).max())
                    if not np.allclose(row, want, atol=tolr, rtol=1e-7):
                        ctx.fail(f"bs {rp}: row for x={x} (mode {md}) differs from scipy's B-spline basis on the recorded knots by {np.abs(row - want).max():.3g}", rp)
                        break
                if inside or md == "clip":
                    if (row < -1e-12).any():
                        ctx.fail(f"bs {rp}: negative basis value at x={x}", rp)
                        break
                    if intercept and abs(row.sum() - 1) > 1e-9:
                        ctx.fail(f"bs {rp}: the basis sums to {row.sum()} at x={x} inside the bounds", rp)
                        break
        ctx.count("bs", f"degree={degree} mode={mode} knots={'df' if df is not None else 'explicit'} bounds={bounds}")
        if len(kn) - 2 * degree - 2 >= 1 and len(set(vals)) >= 4:
            ctx.distinct.add(("bs", degree, df, tuple(knots or []), intercept, mode, bounds, tuple(map(str, xs))))
        if it < 2:
            ctx.sample(rp)


# ------------------------------------------------------------------------------------------------------
def cs_cases(ctx, rng, lits, descr):
    import numpy as np
    from scipy.interpolate import CubicSpline
    from formulaic.transforms import cubic_spline as CS
    for it in range(ctx.n(220, 3500)):
        cyclic = rng.random() < 0.45
        fn = CS.cyclic_cubic_spline if cyclic else CS.natural_cubic_spline
        n = rng.randint(5, 15)
        xs = gen_vec(rng, n, nulls=False)
        lo, hi = min(xs), max(xs)
        srt = sorted(set(xs))
        if len(srt) < 3:
            continue
        bounds = rng.choice(["data", "data", "explicit-wide", "explicit-narrow"])
        if bounds == "data":
            lb = ub = None
            elb, eub = lo, hi
        elif bounds == "explicit-wide":
            lb, ub = lo - rng.choice([0.5, 2]), hi + rng.choice([0.25, 3])
            elb, eub = lb, ub
        else:
            if len(srt) < 5:
                continue
            lb, ub = srt[1], srt[-2]
            elb, eub = lb, ub
        mode = rng.choice(["extend", "extend", "extend", "clip", "na", "zero", "raise"])
        ninner = rng.choice([0, 1, 1, 2, 3, 4])
        use_df = rng.random() < 0.5
        knots = df = None
        inb = sorted({v for v in xs if elb <= v <= eub})
        if use_df:
            if mode in ("raise", "extend"):
                inb = sorted({v for v in xs if elb <= v <= eub})
            if len(inb) < ninner + 2:
                continue
            df = ninner + 2 - (1 if cyclic else 0)
            if df < (1 if cyclic else 2):
                continue
        else:
            pool = [elb + (eub - elb) * k / 16 for k in range(1, 16)]
            knots = sorted(rng.sample(pool, ninner))
        new = gen_vec(rng, rng.randint(1, 6), lo - 3, hi + 3, nulls=False)
        rp = {"kind": "cc" if cyclic else "cr", "x": xs, "df": df, "knots": knots, "lower_bound": lb, "upper_bound": ub, "extrapolation": mode, "new": new}
        kw = dict(lower_bound=lb, upper_bound=ub)
        if df is not None:
            kw["df"] = df
        else:
            kw["knots"] = list(knots)
        outside = any(v < elb or v > eub for v in xs)
        ctx.oracle_runs += 1
        st = {}
        try:
            with np.errstate(all="ignore"):
                res = fn(np.array(xs, dtype=float), extrapolation=mode, _state=st, **kw)
            raised = False
        except ValueError as e:
            raised = True
            if not (mode == "raise" and outside):
                # df-derived knots can coincide when the data has too few distinct values: documented error
                if "distinct" in str(e) or "No data values" in str(e):
                    ctx.count("cs", "too few distinct values")
                    continue
                ctx.fail(f"{rp['kind']} {rp}: ValueError: {e}", rp)
                continue
        except Exception as e:
            ctx.fail(f"{rp['kind']} {rp}: {type(e).__name__}: {e}", rp)
            continue
        if raised:
            ctx.count("cs", "raise on out-of-bounds")
            continue
        if mode == "raise" and outside:
            ctx.fail(f"{rp['kind']} {rp}: values outside the bounds did not raise", rp)
            continue
        M = stack(res)
        kn = list(st["knots"])
        ncol = len(kn) - (1 if cyclic else 0)
        if M.shape != (n, ncol):
            ctx.fail(f"{rp['kind']} {rp}: shape {M.shape}, expected {(n, ncol)}", rp)
            continue
        if df is not None and ncol != df:
            ctx.fail(f"{rp['kind']} {rp}: {ncol} columns for df={df}", rp)
        F = (CS._get_cyclic_f if cyclic else CS._get_natural_f)(np.array(kn, dtype=float))
        flit = clist(clist(fq(v) for v in r) for r in np.asarray(F, dtype=float).tolist())
        if df is not None:
            sel = inb if mode in ("clip", "na", "zero") or True else sorted(set(xs))
            srtlit, nilit = clist(fq(v) for v in sel), f"(Some {ninner})"
        else:
            srtlit, nilit = "[]", "None"
        # the centering constraint recorded by constraints='center' = column means of the unconstrained training matrix
        means = "None"
        if mode in ("extend", "clip") or not outside:
            stc = {}
            try:
                with np.errstate(all="ignore"):
                    resc = fn(np.array(xs, dtype=float), extrapolation=mode, constraints="center", _state=stc, **{**kw, **({"df": df - 1} if df is not None else {})})
                Mc = stack(resc)
                if df is not None and len(stc["knots"]) != len(kn):
                    pass
                cons = np.asarray(stc["constraints"], dtype=float).reshape(-1)
                if list(stc["knots"]) == kn:
                    means = "(Some " + clist(fq(v) for v in cons.tolist()) + ")"
                    if not np.allclose(cons, M.mean(axis=0), atol=1e-12):
                        ctx.fail(f"{rp['kind']} {rp}: the recorded centering constraint is not the column mean of the unconstrained design", rp)
                if Mc.shape[1] != len(stc["knots"]) - (1 if cyclic else 0) - 1:
                    ctx.fail(f"{rp['kind']} {rp}: centred design has {Mc.shape[1]} columns", rp)
                if not np.allclose(Mc.mean(axis=0), 0, atol=1e-10):
                    ctx.fail(f"{rp['kind']} {rp}: centred columns have means {Mc.mean(axis=0).tolist()} on the training data", rp)
                if df is not None and Mc.shape[1] != df - 1:
                    ctx.fail(f"{rp['kind']} {rp}: constraints='center' with df={df - 1} gives {Mc.shape[1]} columns", rp)
                # same span as the unconstrained columns restricted by the constraint: Mc = Mfree . Q2 with c . Q2 = 0
                free = stack(fn(np.array(xs, dtype=float), extrapolation=mode, knots=stc["knots"][1:-1], lower_bound=stc["knots"][0], upper_bound=stc["knots"][-1], _state={}))
                if Mc.shape[1] == 0 or np.linalg.matrix_rank(free) < free.shape[1]:
                    raise ValueError("distinct: design not of full column rank on this sample; span check skipped")
                sol = np.linalg.lstsq(free, Mc, rcond=None)[0]
                if not np.allclose(free @ sol, Mc, atol=1e-8) or not np.allclose(cons @ sol, 0, atol=1e-8):
                    ctx.fail(f"{rp['kind']} {rp}: the centred design is not the unconstrained design times a basis of the constraint's null space", rp)
                # follow-up data re-uses the recorded constraint and knots
                with np.errstate(all="ignore"):
                    Mc2 = stack(fn(np.array(new, dtype=float), extrapolation="extend", constraints="center", _state=stc, **{**kw, **({"df": df - 1} if df is not None else {})}))
                free2 = stack(fn(np.array(new, dtype=float), extrapolation="extend", knots=stc["knots"][1:-1], lower_bound=stc["knots"][0], upper_bound=stc["knots"][-1], _state={}))
                if not np.allclose(free2 @ sol, Mc2, atol=1e-7 * max(1, np.abs(free2).max())):
                    ctx.fail(f"{rp['kind']} {rp}: follow-up data is not mapped with the recorded knots and centering constraint", rp)
            except ValueError as e:
                if "distinct" not in str(e) and "greater than or equal" not in str(e) and "No data values" not in str(e):
                    ctx.fail(f"{rp['kind']} {rp} with constraints='center': ValueError: {e}", rp)
            except Exception as e:
                ctx.fail(f"{rp['kind']} {rp} with constraints='center': {type(e).__name__}: {e}", rp)
        lits.append("{| c_knots := %s; c_cyclic := %s; c_mode := %s; c_xs := %s; c_raises := false; c_rows := %s; c_F := %s; c_means := %s; c_sorted := %s; c_ninner := %s |}" % (
            clist(fq(v) for v in kn), "true" if cyclic else "false", MODES[mode], clist(optq(v) for v in xs), rows_lit(M, xs), flit, means, srtlit, nilit))
        descr.append(rp)
        # follow-up data with the recorded state
        mode2 = rng.choice(["extend", "extend", "clip", "na", "zero", "raise"])
        out2 = any(v < elb or v > eub for v in new)
        try:
            with np.errstate(all="ignore"):
                M2 = stack(fn(np.array(new, dtype=float), extrapolation=mode2, _state=st, **kw))
            if mode2 == "raise" and out2:
                ctx.fail(f"{rp['kind']} {rp}: follow-up values outside the bounds did not raise", rp)
            else:
                lits.append("{| c_knots := %s; c_cyclic := %s; c_mode := %s; c_xs := %s; c_raises := false; c_rows := %s; c_F := %s; c_means := None; c_sorted := []; c_ninner := None |}" % (
                    clist(fq(v) for v in kn), "true" if cyclic else "false", MODES[mode2], clist(optq(v) for v in new), rows_lit(M2, new), flit))
                descr.append(rp)
        except ValueError as e:
            M2 = None
            if not (mode2 == "raise" and out2):
                ctx.fail(f"{rp['kind']} {rp}: follow-up call: ValueError: {e}", rp)
        # ---- direct oracle: scipy's interpolating cubic splines as the reference for the cardinal basis
        t = np.array(kn, dtype=float)
        if len(kn) >= 2 and np.all(np.diff(t) > 0):
            nb = ncol
            ref_fns = []
            for j in range(nb):
                y = np.zeros(len(kn))
                y[j] = 1
                if cyclic and j == 0:
                    y[-1] = 1
                if cyclic:
                    ref_fns.append(CubicSpline(t, y, bc_type="periodic") if len(kn) > 2 else (lambda x: np.ones_like(np.asarray(x, dtype=float))))
                else:
                    ref_fns.append(CubicSpline(t, y, bc_type="natural") if len(kn) > 2 else (lambda x, j=j: (t[1] - x) / (t[1] - t[0]) if j == 0 else (x - t[0]) / (t[1] - t[0])))
            for data, Mx, md in ((xs, M, mode), (new, M2, mode2)):
                if Mx is None:
                    continue
                for x, row in zip(data, Mx):
                    inside = elb <= x <= eub
                    xe = x
                    if not inside:
                        if md == "na":
                            if not np.isnan(row).all():
                                ctx.fail(f"{rp['kind']} {rp}: extrapolation='na' did not give a null row for {x}", rp)
                            continue
                        if md == "zero":
                            if not (row == 0).all():
                                ctx.fail(f"{rp['kind']} {rp}: extrapolation='zero' did not give a zero row for {x}", rp)
                            continue
                        if md == "clip":
                            xe = min(max(x, elb), eub)
                        elif cyclic:
                            per = eub - elb
                            xe = elb + (x - elb) % per if x > eub else eub - (elb - x) % per
                        else:
                            # natural spline: linear beyond the boundary knots
                            edge = elb if x < elb else eub
                            want = np.array([float(f(edge)) + (x - edge) * float(f(edge, 1) if hasattr(f, "c") else (f(edge + 1) - f(edge))) for f in ref_fns])
                            if not np.allclose(row, want, atol=1e-8 * max(1, np.abs(want).max())):
                                ctx.fail(f"{rp['kind']} {rp}: row for x={x} is not the linear continuation of the natural spline (diff {np.abs(row - want).max():.3g})", rp)
                                break
                            continue
                    want = np.array([float(f(xe)) for f in ref_fns])
                    if not np.allclose(row, want, atol=1e-9):
                        ctx.fail(f"{rp['kind']} {rp}: row for x={x} differs from the interpolating cubic spline through the recorded knots by {np.abs(row - want).max():.3g}", rp)
                        break
            # identity at the knots
            with np.errstate(all="ignore"):
                Mk = stack(fn(t, extrapolation="extend", _state=dict(st), **kw))
            wantk = np.eye(len(kn))[:, :nb].copy()
            if cyclic:
                wantk[-1, :] = 0
                wantk[-1, 0] = 1
            if not np.allclose(Mk, wantk, atol=1e-12):
                ctx.fail(f"{rp['kind']} {rp}: the basis evaluated at the recorded knots is not the identity", rp)
        ctx.count("cs", f"{rp['kind']} mode={mode} knots={'df' if df is not None else 'explicit'} bounds={bounds}")
        if len(kn) >= 3 and len(set(xs)) >= 4:
            ctx.distinct.add((rp["kind"], df, tuple(knots or []), mode, bounds, tuple(xs)))
        if it < 2:
            ctx.sample(rp)


def formula_cases(ctx, rng):
    import numpy as np
    import pandas as pd
    from formulaic import model_matrix
    from formulaic.transforms.basis_spline import basis_spline
    from formulaic.transforms import cubic_spline as CS
    for it in range(ctx.n(20, 200)):
        n = rng.randint(8, 14)
        xs = gen_vec(rng, n, nulls=False)
        if len(set(xs)) < 6:
            continue
        df_ = pd.DataFrame({"x": xs})
        new = pd.DataFrame({"x": [min(xs) + (max(xs) - min(xs)) * rng.random() for _ in range(5)]})
        d = rng.randint(3, 5)
        f = f"bs(x, df={d + 1}, degree={rng.choice([2, 3])}) + cr(x, df={d}) + cc(x, df={d})"
        rp = {"kind": "formula", "formula": f, "x": xs, "new": new["x"].tolist()}
        ctx.oracle_runs += 1
        try:
            mm = model_matrix(f, df_)
            mm2 = mm.model_spec.get_model_matrix(new)
        except Exception as e:
            ctx.fail(f"model_matrix({f!r}): {type(e).__name__}: {e}", rp)
            continue
        # replay with the recorded state = direct calls with that state
        spec = mm.model_spec
        cols = []
        for term, fn in (("bs", basis_spline), ("cr", CS.natural_cubic_spline), ("cc", CS.cyclic_cubic_spline)):
            key = next(k for k in spec.transform_state if k.startswith(term + "("))
            kwargs = {}
            r = fn(new["x"].values, _state=dict(spec.transform_state[key]), **({"degree": int(key.split("degree=")[1].rstrip(")"))} if term == "bs" else {}),
                   **({"extrapolation": "extend"} if term != "bs" else {}))
            cols.append(stack(r))
        want = np.hstack([np.ones((5, 1))] + cols)
        got = np.asarray(mm2, dtype=float)
        if got.shape != want.shape or not np.allclose(got, want, atol=1e-12):
            ctx.fail(f"model_matrix({f!r}): new data is not evaluated with the recorded knots/bounds", rp)
        ctx.count("formula", "replay")


def run(ctx: Ctx):
    warnings.simplefilter("ignore")
    rng = ctx.fork("c12")
    bl, bd, cl, cd = [], [], [], []
    bs_cases(ctx, rng, bl, bd)
    cs_cases(ctx, rng, cl, cd)
    formula_cases(ctx, rng)
    ctx.run_cases("bs", SIMPORTS, "", "bscase", "chk_bs", bl, bd, shard=40)
    ctx.run_cases("cubic", SIMPORTS, "", "cscase", "chk_cs", cl, cd, shard=12)


def search(ctx: Ctx):
    big = Ctx(ctx.pid, "thorough", ctx.seed + 1)
    big.casedir = ctx.casedir
    big.run_cases = lambda *a, **k: []
    try:
        run(big)
    except Exception as e:
        ctx.notes.append(f"search crashed: {type(e).__name__}: {e}")
    ctx.failures += big.failures
    ctx.oracle_runs += big.oracle_runs
