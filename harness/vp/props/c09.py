"""C09 — reusing a spec on incompatible data fails loudly and never reshapes columns."""
from __future__ import annotations

import warnings

from ..core import Ctx
from .. import matgen as M
from . import c04

ID = "C09"
PROPS = ["props/C09.v"]
COQ_EXTRA = ["model/ShowR.vo"]
RULE = ("(training frame, follow-up frame) pairs: follow-up columns flip kind in either direction (numeric <-> text), lose levels, gain an unseen "
        "level 'w', alone and inside interactions, rank reduction on/off, object/category/str dtypes; non-trivial = at least one flip, lost or "
        "gained level; distinct by literal")
EXPLANATION = ("replay model with the recorded-kind guard and pinned categories; theorems: a kind change yields the encoding error and nothing else does; "
               "any successful reuse has exactly the recorded column names; absent levels give all-zero columns; rows with unseen levels are zero in "
               "that factor's columns; the model must return the implementation's outcome (matrix or error class) on every pair; exception class, "
               "warning category and shapes are also checked directly")
TRUSTED = ["modelled, not verified: pandas Categorical(data, categories=levels) mapping unseen values to NaN; warnings machinery"]
ASSUMPTIONS = ["follow-up frames contain every variable of the formula (a missing variable is a factor-evaluation error, C17)",
               "null policy 'raise' is not combined with kind flips: which of two simultaneous errors surfaces depends on set order (C18)"]


def followup(rng, frame: M.Frame, terms):
    """derive follow-up data: flips, lost levels, gained levels"""
    n2 = rng.randint(1, 7)
    used = {x for t in terms for x, m in t if m == "lookup"}
    events = []
    num, cat = {}, {}
    flip_p = rng.choice([0, 0, 0.35])
    for c in M.NUM + list(M.CAT):
        was_cat = c in frame.cat
        is_cat = was_cat
        if c in used and rng.random() < flip_p:
            is_cat = not was_cat
            events.append("flip")
        if is_cat:
            seen = sorted({v for v in frame.cat.get(c, ["m", "n"]) if v is not None}) or ["m"]
            lv = rng.sample(seen, rng.randint(1, len(seen)))
            if len(lv) < len(seen) and c in used:
                events.append("lost")
            if rng.random() < 0.3:
                lv = lv + ["w"]
                if c in used:
                    events.append("gained")
            cat[c] = [rng.choice(lv) for _ in range(n2)]
        else:
            num[c] = [float(rng.choice(M.VALS)) for _ in range(n2)]
    # the follow-up data may arrive with another storage type for its text columns (object, pandas string, categorical with its own
    # declared categories in its own order): the recorded levels decide, not the new column's
    dt = rng.choice(["object", "object", "category", "str"])
    declared = None
    if dt == "category":
        declared = {}
        for c, v in cat.items():
            lv = sorted({x for x in v if x is not None})
            rng.shuffle(lv)
            if rng.random() < 0.4:
                lv.insert(rng.randrange(len(lv) + 1), "w2")
            declared[c] = lv
    f2 = M.Frame(n2, num, cat, None, dt, declared)
    return f2, events


def _multipart(ctx: Ctx, rng):
    """the kind guard and the level pinning hold for every part of a multi-part formula, not only the first"""
    import pandas as pd
    from formulaic import model_matrix
    from formulaic.errors import FactorEncodingError
    n = 6
    df = pd.DataFrame({"y": [float(rng.randint(0, 9)) for _ in range(n)], "a": [float(rng.randint(0, 9)) for _ in range(n)],
                       "A": pd.Series([rng.choice(["x", "y", "z"]) for _ in range(n - 3)] + ["x", "y", "z"], dtype=object),
                       "B": pd.Series([rng.choice(["u", "v"]) for _ in range(n - 2)] + ["u", "v"], dtype=object)})
    f = rng.choice(["y ~ A", "y ~ a + A", "y ~ A | B", "y ~ a | A:B", "y + a ~ B + A", "A ~ a", "y ~ a | B", "y ~ A | A + a", "y ~ a + B | B:A | A", "A ~ A:B | B"])
    victim = rng.choice([c for c in ("A", "B", "a") if c in f.replace("y ~", "").replace("~", " ") or c in f])
    rp = {"kind": "multipart", "formula": f, "changed": victim}
    ctx.oracle_runs += 1
    try:
        specs = model_matrix(f, df).model_spec
    except Exception as e:
        ctx.fail(f"model_matrix({f!r}): {type(e).__name__}: {e}", rp)
        return
    new = df.copy()
    if victim in ("A", "B"):
        new[victim] = [float(k) for k in range(n)]
    else:
        new[victim] = pd.Series(["p", "q"] * (n // 2), dtype=object)
    try:
        specs.get_model_matrix(new)
        ctx.fail(f"the spec of {f!r} was reused on data where {victim!r} changed kind and no encoding error was raised", rp)
    except FactorEncodingError:
        pass
    except Exception as e:
        ctx.fail(f"the spec of {f!r} reused on data where {victim!r} changed kind raised {type(e).__name__} instead of the encoding error: {e}", rp)
    # every part carries its own guard: the spec of a single part, re-used alone
    for k, part in enumerate(specs._flatten()):
        uses = {str(v) for v in part.required_variables}
        if victim not in uses:
            continue
        try:
            part.get_model_matrix(new)
            ctx.fail(f"part {k} of the spec of {f!r} was reused alone on data where {victim!r} changed kind and no encoding error was raised", rp)
        except FactorEncodingError:
            pass
        except Exception as e:
            ctx.fail(f"part {k} of the spec of {f!r} reused alone on data where {victim!r} changed kind raised {type(e).__name__}: {e}", rp)
    # compatible follow-up with a lost level: same columns in every part
    new2 = df.copy()
    new2["A"] = pd.Series(["x"] * n, dtype=object)
    try:
        mm2 = specs.get_model_matrix(new2)
        names1 = [list(s_.column_names) for s_ in specs._flatten()]
        names2 = [list(m_.model_spec.column_names) for m_ in mm2._flatten()]
        if names1 != names2:
            ctx.fail(f"the spec of {f!r} reused on data that lost levels of 'A' changed its columns: {names2} instead of {names1}", rp)
    except Exception as e:
        ctx.fail(f"the spec of {f!r} reused on data that lost levels of 'A': {type(e).__name__}: {e}", rp)
    ctx.count("multipart", f)


def _levels_and_arrow(ctx: Ctx, rng):
    """the recorded level list governs follow-up data for C(x, levels=...) and for dictionary-encoded Arrow columns, like for plain factors:
    lost levels keep their (zero) columns, gained levels are announced with a DataMismatchWarning and give zero rows, the columns never change"""
    import numpy as np
    import pandas as pd
    import pyarrow as pa
    from formulaic import model_matrix
    from formulaic.errors import DataMismatchWarning
    train = ["a", "b", "c", "c", "a", "b"]          # first appearances in sorted order: an Arrow dictionary then declares a, b, c
    xs = [float(k) for k in range(6)]
    form = rng.choice(["C(g, levels=['a', 'b', 'c']) + x", "g + x", "C(g) + x", "C(g, contr.sum, levels=['c', 'a', 'b']) + x", "0 + g", "g:x"])
    route = rng.choice(["pandas", "arrow-dictionary", "arrow-string", "narwhals-pandas"])
    event = rng.choice(["lost", "gained", "both", "same"])
    new_g = {"lost": ["c", "a", "c", "a"], "gained": ["a", "b", "d", "c"], "both": ["a", "d", "a", "d"], "same": ["b", "c", "a", "b"]}[event]
    new_x = [1.0, 2.0, 3.0, 4.0]

    def mk(g, x):
        df = pd.DataFrame({"g": pd.Series(g, dtype=object), "x": x})
        if route == "arrow-dictionary":
            return pa.table({"g": pa.array(g).dictionary_encode(), "x": pa.array(x)})
        if route == "arrow-string":
            return pa.table({"g": pa.array(g), "x": pa.array(x)})
        return df
    kw = {"materializer": "narwhals"} if route == "narwhals-pandas" else {}
    rp = {"kind": "levels-arrow", "formula": form, "route": route, "event": event, "new": new_g}
    ctx.oracle_runs += 1
    try:
        mm = model_matrix(form, mk(train, xs), **kw)
        names = list(mm.model_spec.column_names)
        with warnings.catch_warnings(record=True) as wl:
            warnings.simplefilter("always")
            mm2 = mm.model_spec.get_model_matrix(mk(new_g, new_x))
        warned = any(issubclass(w.category, DataMismatchWarning) for w in wl)
    except Exception as e:
        ctx.fail(f"{form!r} via {route}: fit on {train}, re-use on {new_g}: {type(e).__name__}: {e}", rp)
        return
    if list(mm2.model_spec.column_names) != names:
        ctx.fail(f"{form!r} via {route}: re-use on {new_g} changed the columns to {list(mm2.model_spec.column_names)} (recorded {names})", rp)
        return
    if event in ("gained", "both") and not warned:
        ctx.fail(f"{form!r} via {route}: the unseen level 'd' in {new_g} was not announced with a DataMismatchWarning", rp)
    # the spec is re-used again and again (every follow-up data set is a new occasion): announced every time, same columns, same numbers
    first = np.asarray(mm2, dtype=float)
    for rep in range(2, rng.randint(2, 4) + 1):
        try:
            with warnings.catch_warnings(record=True) as wl:
                warnings.simplefilter("always")
                mm3 = mm.model_spec.get_model_matrix(mk(new_g, new_x))
        except Exception as e:
            ctx.fail(f"{form!r} via {route}: re-use number {rep} on {new_g}: {type(e).__name__}: {e}", rp)
            break
        if event in ("gained", "both") and not any(issubclass(w.category, DataMismatchWarning) for w in wl):
            ctx.fail(f"{form!r} via {route}: re-use number {rep} of the same spec on {new_g}: the unseen level 'd' was not announced (it was the first time)", rp)
            break
        if list(mm3.model_spec.column_names) != names or not np.array_equal(np.asarray(mm3, dtype=float), first, equal_nan=True):
            ctx.fail(f"{form!r} via {route}: re-use number {rep} of the same spec on {new_g} differs from the first re-use", rp)
            break
    # the same request through the reference route: pandas object columns
    ref = model_matrix(form, pd.DataFrame({"g": pd.Series(train, dtype=object), "x": xs}))
    with warnings.catch_warnings():
        warnings.simplefilter("ignore")
        ref2 = ref.model_spec.get_model_matrix(pd.DataFrame({"g": pd.Series(new_g, dtype=object), "x": new_x}))
    a, b = np.asarray(mm2, dtype=float), np.asarray(ref2, dtype=float)
    if a.shape != b.shape or not np.allclose(a, b, atol=1e-12, equal_nan=True):
        ctx.fail(f"{form!r} via {route}: re-use on {new_g} gives {a.tolist()}, plain pandas text columns give {b.tolist()}", rp)
    ctx.count("levels-arrow", f"{route}/{event}")


def _kind_flips(ctx: Ctx, rng):
    """kind changes that are easy to overlook: a text column arriving as numbers, as an all-missing float column, as booleans; a numeric
    column arriving as text -- always the encoding error, under every null policy, never a matrix"""
    import numpy as np
    import pandas as pd
    from formulaic import model_matrix
    from formulaic.errors import FactorEncodingError
    train = pd.DataFrame({"A": pd.Series(list("abcabc"), dtype=object), "x": [1.0, 2.0, 3.0, 4.0, 5.0, 6.0]})
    form = rng.choice(["A + x", "A:x", "x + A:x", "0 + A", "x + A"])
    na = rng.choice(["drop", "ignore", "raise"])
    flip = rng.choice(["text->all-nan", "text->float", "text->int", "num->text", "text->nan-and-number"])
    if flip == "num->text" and "x" not in form.replace("0 + A", ""):
        flip = "text->float"
    new = {"text->all-nan": {"A": [np.nan, np.nan, np.nan], "x": [1.0, 2.0, 3.0]}, "text->float": {"A": [1.5, 2.5, 1.5], "x": [1.0, 2.0, 3.0]},
           "text->int": {"A": [1, 2, 1], "x": [1.0, 2.0, 3.0]}, "num->text": {"A": ["a", "b", "c"], "x": ["p", "q", "p"]},
           "text->nan-and-number": {"A": [np.nan, 2.0, np.nan], "x": [1.0, 2.0, 3.0]}}[flip]
    rp = {"kind": "kind-flip", "formula": form, "flip": flip, "na_action": na}
    ctx.oracle_runs += 1
    try:
        spec = model_matrix(form, train, na_action=na).model_spec
    except Exception as e:
        ctx.fail(f"{form!r}: {type(e).__name__}: {e}", rp)
        return
    try:
        with warnings.catch_warnings():
            warnings.simplefilter("ignore")
            got = spec.get_model_matrix(pd.DataFrame(new))
        ctx.fail(f"{form!r} fitted on a text column A / numeric x, re-used on {new} ({flip}, na_action={na}): a matrix of shape {got.shape} came back instead of the encoding error", rp)
    except FactorEncodingError:
        pass
    except Exception as e:
        ctx.fail(f"{form!r} re-used on {new} ({flip}): {type(e).__name__} instead of the encoding error: {str(e)[:150]}", rp)
    ctx.count("kind-flips", flip)


def run(ctx: Ctx):
    from formulaic import model_matrix
    from formulaic.errors import FactorEncodingError, DataMismatchWarning
    rng = ctx.fork("c09")
    lits, descr = [], []
    wlits, wdescr = [], []
    n = ctx.n(450, 8000)
    tries = 0
    while len(lits) < n and tries < 10 * n:
        tries += 1
        frame = M.gen_frame(rng, pnull=0, cat_dtypes=("object", "object", "category", "str"))
        terms = M.dedupe(M.gen_terms(rng, missing_p=0.0))
        efr = rng.random() < 0.7
        na = rng.choice(["drop", "ignore"])
        try:
            mm = model_matrix(M.formula_of(terms), frame.to_pandas(), ensure_full_rank=efr, na_action=na)
        except Exception:
            continue
        ms = mm.model_spec
        slit = c04.spec_literal(ms, terms, efr, na)
        frame2, events = followup(rng, frame, terms)

        # coq frame literal needs columns of either kind under their name
        class F2(M.Frame):
            pass
        with warnings.catch_warnings(record=True) as wlist:
            warnings.simplefilter("always")
            exp, kind, det = c04.run_replay(ms, frame2, [], rng.random() < 0.3, quiet=False)
        mismatch_warned = any(issubclass(w.category, DataMismatchWarning) for w in wlist)
        lits.append(c04.rcase_literal(slit, frame2, [], exp))
        if kind == "ok":
            # the warning itself: model `warns` against what was announced
            wlits.append("{| w_spec := %s; w_frame := %s; w_warned := %s |}" % (slit, frame2.coq(), "true" if mismatch_warned else "false"))
            wdescr.append({"train": frame.describe(), "terms": terms, "followup": frame2.describe(), "events": events, "announced": mismatch_warned})
            ctx.count("warnings", f"announced={mismatch_warned}")
        rp = {"train": frame.describe(), "terms": terms, "ensure_full_rank": efr, "followup": frame2.describe(), "events": events, "implementation": kind}
        descr.append(rp)
        ctx.count("pairs", "outcome=" + kind.split(":")[0])
        for e in set(events) or {"none"}:
            ctx.count("pairs", "event=" + e)
        if events:
            ctx.distinct.add(lits[-1])
        # ---- direct oracle
        ctx.oracle_runs += 1
        encoded = set(ms.encoder_state)
        flipped = [c for c in encoded if (c in frame.cat) != (c in frame2.cat)]
        if flipped:
            if kind != "enc7":
                ctx.fail(f"factor(s) {flipped} changed kind between fit and reuse but the outcome was {kind} instead of an encoding error", rp)
            continue
        if kind != "ok":
            ctx.fail(f"reuse on compatible data failed with {kind}", rp)
            continue
        if list(det["names"]) != list(ms.column_names):
            ctx.fail(f"columns were reshaped: {det['names']} instead of {list(ms.column_names)}", rp)
            continue
        gained = [c for c in encoded if c in frame2.cat and "w" in frame2.cat[c]
                  and "w" not in [str(x) for x in ms.encoder_state[c][1].get("categories", [])]]
        if gained and not mismatch_warned:
            ctx.fail(f"unseen level in {gained} was not announced with a DataMismatchWarning", rp)
        # absent levels -> all-zero columns ; unseen levels -> zero rows in the factor's own (non-interaction) columns
        for c in encoded:
            if c not in frame2.cat:
                continue
            present = set(frame2.cat[c])
            for name, col in zip(det["names"], det["cols"]):
                if ":" in name or not name.startswith(c + "["):
                    continue
                lvl = name[len(c) + 1:-1]
                lvl = lvl[2:] if lvl.startswith("T.") else lvl
                want = [1.0 if v == lvl else 0.0 for v in frame2.cat[c]]
                scale = 1.0
                if col != want and all(x in (0.0, None) or True for x in col):
                    # literal scalings multiply the indicator
                    nz = [a / b for a, b in zip(col, want) if b]
                    if any(b == 0 and a not in (0.0,) for a, b in zip(col, want)) or (nz and len(set(nz)) > 1):
                        ctx.fail(f"column {name!r} is {col}; the indicator of level {lvl!r} on the new data is {want}", rp)
        if len(lits) <= 3:
            ctx.sample({k: rp[k] for k in ("terms", "events", "implementation")})
    for _ in range(ctx.n(60, 600)):
        _multipart(ctx, rng)
    for _ in range(ctx.n(80, 800)):
        _levels_and_arrow(ctx, rng)
    for _ in range(ctx.n(60, 600)):
        _kind_flips(ctx, rng)
    ctx.run_cases("pairs", c04.RIMPORTS, "", "rcase", "chk_replay", lits, descr, shard=150)
    ctx.run_cases("warnings", c04.RIMPORTS, "", "wcase", "chk_warn", wlits, wdescr, shard=150)


def search(ctx: Ctx):
    big = Ctx(ctx.pid, "thorough", ctx.seed + 1)
    big.casedir = ctx.casedir
    big.run_cases = lambda *a, **k: []
    try:
        run(big)
    except Exception as e:
        ctx.notes.append(f"search crashed: {type(e).__name__}: {e}")
    ctx.failures += big.failures
    ctx.oracle_runs += big.oracle_runs
