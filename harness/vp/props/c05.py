"""C05 — output types, entry points and materializers agree with one another."""
from __future__ import annotations

import warnings
from fractions import Fraction

from ..core import Ctx, cstr, cbool, clist
from .. import matgen as M

ID = "C05"
PROPS = ["props/C05.v"]
COQ_EXTRA = ["model/ShowSparse.vo"]
SIMPORTS = ("From Coq Require Import List NArith ZArith QArith Qcanon Bool Arith.\nImport ListNotations.\n"
            "Require Import Struct Sparse ShowSparse.\nOpen Scope N_scope.")
RULE = ("for each random (formula, frame, options): pandas/numpy/sparse outputs x 5 entry points x {pandas materializer, narwhals on pandas input, "
        "narwhals on pyarrow input} x null policies must hold the same numbers in the same column order; the sparse primitives (dummy encoding, "
        "column product, dense->CSC) are compared with the Gallina model on random inputs; non-trivial = formula with a categorical factor or an "
        "interaction; distinct by (formula, frame, options)")
EXPLANATION = ("Coq: CSC-column model; element-wise sparse product, scaling, dense->sparse conversion and sparse dummy encoding hold at every row exactly "
               "the numbers of the dense computation; the regenerated entry-point table forwards drop_rows on every edge. The sparse primitives of "
               "/repo are compared with the model; the agreement of outputs, entry points and materializers is evaluated directly on the implementation.")
TRUSTED = ["the narwhals materializer and the pyarrow route are a second implementation: agreement by differential testing only",
           "container construction (DataFrame, scipy.sparse.hstack) is trusted"]
ASSUMPTIONS = ["duplicate column labels (only producible by list specifications that repeat a term) are excluded"]


def qc(x):
    f = Fraction(float(x))
    return f"(qq ({f.numerator}) {f.denominator})"


def _sparse_stream(ctx: Ctx):
    import numpy as np
    import scipy.sparse as sp
    from formulaic.utils.sparse import categorical_encode_series_to_sparse_csc_matrix as enc
    rng = ctx.fork("sparse")
    lits, descr = [], []
    for i in range(ctx.n(400, 6000)):
        r = rng.random()
        if r < 0.35:
            n = rng.randint(0, 8)
            pool = ["x", "y", "z", "w"]
            v = [None if rng.random() < 0.15 else rng.choice(pool) for _ in range(n)]
            levels = rng.choice([None, ["x", "y"], ["z", "x", "y"], ["y"], []])
            df = rng.random() < 0.5
            import pandas as pd
            try:
                lv, m = enc(pd.Series(v, dtype=object), levels=levels, drop_first=df)
            except Exception as e:
                continue
            m = sp.csc_matrix(m)
            cols = []
            for j in range(m.shape[1]):
                c = m.getcol(j).tocoo()
                cols.append(sorted(zip(c.row.tolist(), c.data.tolist())))
            # `pandas.Categorical(series, levels)`: None -> sorted distinct values; an explicit list (even empty) is used as given
            used_levels = levels if levels is not None else sorted({x for x in v if x is not None})
            lit = "SDummies %s %s %s %s %s" % (clist("None" if x is None else "(Some " + cstr(x) + ")" for x in v), clist(cstr(x) for x in used_levels),
                                               cbool(df), clist(cstr(str(x)) for x in lv),
                                               clist(clist(f"({a}%nat, {qc(b)})" for a, b in col) for col in cols))
            ctx.count("sparse", "dummies")
        elif r < 0.65:
            # the real PandasMaterializer._get_columns_for_term on synthetic CSC factor columns (one to four factors, single-column factors are
            # pre-multiplied by the implementation), against the model's sparse Kronecker product
            import pandas as pd
            from formulaic import ModelSpec
            from formulaic.materializers import PandasMaterializer
            n = rng.randint(1, 6)
            nf = rng.randint(1, 5)
            scale = float(rng.choice([1, 1, 2, 0.5, -3]))
            factors, flit = [], []
            for fi in range(nf):
                ncols = rng.choice([1, 1, 1, 2, 3])
                fac, cl = {}, []
                for ci in range(ncols):
                    rows = sorted(rng.sample(range(n), rng.randint(0, n)))
                    vals = [float(rng.choice([v for v in M.VALS if v != 0])) for _ in rows]
                    name = "f%d" % fi if ncols == 1 else "f%d[%s]" % (fi, "xyz"[ci])
                    fac[name] = sp.csc_matrix((vals, (rows, [0] * len(rows))), shape=(n, 1))
                    cl.append("(%s, %s)" % (cstr(name), clist(f"({a}%nat, {qc(b)})" for a, b in zip(rows, vals))))
                factors.append(fac)
                flit.append(clist(cl))
            mat = PandasMaterializer(pd.DataFrame({"_": [0.0] * n}))
            try:
                out = mat._get_columns_for_term([dict(f) for f in factors], ModelSpec(formula=[], output="sparse"), scale)
            except Exception as e:
                ctx.fail(f"_get_columns_for_term (sparse) raised {type(e).__name__}: {e}", {"kind": "sparse-term", "factors": [list(f) for f in factors]})
                continue
            exp = []
            for name, col in out.items():
                c = sp.csc_matrix(col).tocoo()
                exp.append("(%s, %s)" % (cstr(name), clist(f"({a}%nat, {qc(b)})" for a, b in sorted(zip(c.row.tolist(), c.data.tolist())))))
            lit = "STerm %s %s %s" % (qc(scale), clist(flit), clist(exp))
            ctx.count("sparse", "term nf=%d" % nf)
        elif r < 0.85:
            n = rng.randint(1, 8)

            def col():
                rows = sorted(rng.sample(range(n), rng.randint(0, n)))
                return rows, [float(rng.choice([v for v in M.VALS if v != 0])) for _ in rows]
            (ra, va), (rb, vb) = col(), col()
            A = sp.csc_matrix((va, (ra, [0] * len(ra))), shape=(n, 1))
            B = sp.csc_matrix((vb, (rb, [0] * len(rb))), shape=(n, 1))
            P = sp.csc_matrix(A.multiply(B)).tocoo()
            exp = sorted(zip(P.row.tolist(), P.data.tolist()))
            lit = "SMul %s %s %s" % (clist(f"({a}%nat, {qc(b)})" for a, b in zip(ra, va)), clist(f"({a}%nat, {qc(b)})" for a, b in zip(rb, vb)),
                                     clist(f"({a}%nat, {qc(b)})" for a, b in exp))
            ctx.count("sparse", "multiply")
        else:
            n = rng.randint(0, 8)
            d = [float(rng.choice(M.VALS + [0, 0])) for _ in range(n)]
            C = sp.csc_matrix(np.array(d).reshape((n, 1))).tocoo()
            exp = sorted(zip(C.row.tolist(), C.data.tolist()))
            lit = "SDense %s %s" % (clist(qc(x) for x in d), clist(f"({a}%nat, {qc(b)})" for a, b in exp))
            ctx.count("sparse", "from-dense")
        lits.append(lit)
        descr.append(lit[:300])
    ctx.run_cases("sparse", SIMPORTS, "", "spcase", "chk_sparse", lits, descr, shard=200)


def _agreement(ctx: Ctx):
    import numpy as np
    import pandas as pd
    import pyarrow as pa
    from formulaic import Formula, ModelSpec, model_matrix
    from formulaic.materializers import PandasMaterializer, NarwhalsMaterializer
    warnings.simplefilter("ignore")
    rng = ctx.fork("agree")
    for i in range(ctx.n(120, 2500)):
        frame = M.gen_frame(rng, nmax=8, pnull=rng.choice([0, 0.15]), cat_dtypes=("object", "str", "category"))
        terms = M.dedupe(M.gen_terms(rng, missing_p=0.0))
        f = M.formula_string(terms)
        if rng.random() < 0.25:
            f += " + " + rng.choice(["center(a)", "poly(b, 2)", "C(A, contr.sum)", "np.log(c*c + 1)", "a:C(B, contr.helmert)", "C(A)", "C(G)",
                                     "C(A, contr.diff(backward=False))", "C(G, contr.helmert(reverse=False, scale=True))", "C(B, contr.SAS):a",
                                     "C(G, contr.poly)", "C(A, contr.treatment(base='y'))" if any(v == 'y' and all(col[k] is not None for col in list(frame.num.values()) + list(frame.cat.values()))
                                                                              for k, v in enumerate(frame.cat['A'])) else "C(A, contr.diff)"])   # (the base level must survive the null rows)
        efr = rng.random() < 0.6
        na = rng.choice(["drop", "drop", "ignore"])
        df = frame.to_pandas()
        if rng.random() < 0.3:            # a boolean column: numerical 0/1 for every materializer
            df["flag"] = [bool((k * 7 + i) % 3 == 0) for k in range(len(df))]
            f += rng.choice([" + flag", " + flag:a", " + flag:A"])
        cx = {}
        if rng.random() < 0.25:           # a factor supplied by the caller's context as a plain list / dict of lists / array (not a data column)
            cx = {"wl": [float((k * 5 + i) % 7) - 2.0 for k in range(len(df))], "wd": {"u": [float(k % 3) for k in range(len(df))], "v": [1.5 * k for k in range(len(df))]},
                  "wa": np.array([float((k * 3 + i) % 5) for k in range(len(df))])}
            f += rng.choice([" + wl", " + wd", " + wl:a", " + wa:A", " + wl + wa", " + wl:A"])
        rp = {"kind": "agreement", "formula": f, "frame": frame.describe(), "ensure_full_rank": efr, "na_action": na, "context": sorted(cx)}
        ctx.oracle_runs += 1

        def arr(m_, out):
            a = m_.toarray() if out == "sparse" else (m_.to_numpy() if hasattr(m_, "to_numpy") else m_)
            return np.asarray(a, dtype=float)
        results = {}
        try:
            for out in ("pandas", "numpy", "sparse"):
                routes = {
                    "sugar": lambda: model_matrix(f, df, output=out, ensure_full_rank=efr, na_action=na, context=cx),
                    "formula": lambda: Formula(f).get_model_matrix(df, output=out, ensure_full_rank=efr, na_action=na, context=cx),
                    "spec": lambda: ModelSpec(formula=Formula(f), output=out, ensure_full_rank=efr, na_action=na).get_model_matrix(df, context=cx),
                    "spec+override": lambda: ModelSpec(formula=Formula(f)).get_model_matrix(df, output=out, ensure_full_rank=efr, na_action=na, context=cx),
                    "materializer": lambda: PandasMaterializer(df, context=cx).get_model_matrix(f, output=out, ensure_full_rank=efr, na_action=na),
                    "narwhals/pandas": lambda: NarwhalsMaterializer(df, context=cx).get_model_matrix(f, output=out, ensure_full_rank=efr, na_action=na),
                }
                # the spec produced by a build is itself an entry point: same data, same result
                routes["fitted-spec"] = lambda: model_matrix(f, df, output=out, ensure_full_rank=efr, na_action=na, context=cx).model_spec.get_model_matrix(df, context=cx)
                routes["sugar(fitted-spec)"] = lambda: model_matrix(model_matrix(f, df, output=out, ensure_full_rank=efr, na_action=na, context=cx).model_spec, df, context=cx)
                if na != "ignore" or not df.isnull().any().any():
                    routes["narwhals/arrow"] = lambda: NarwhalsMaterializer(pa.Table.from_pandas(df), context=cx).get_model_matrix(f, output=out, ensure_full_rank=efr, na_action=na)
                for name, fn in routes.items():
                    m_ = fn()
                    results[(out, name)] = (arr(m_, out), list(m_.model_spec.column_names))
                    ctx.count("agreement", f"{out}/{name}")
        except Exception as e:
            ctx.fail(f"{type(e).__name__} for {f!r}: {e}", rp)
            continue
        ref_key = ("pandas", "sugar")
        ref, ref_names = results[ref_key]
        for key, (a, names) in results.items():
            if names != ref_names:
                ctx.fail(f"column names differ between {ref_key} and {key} for {f!r}: {ref_names} vs {names}", rp)
                break
            if a.shape != ref.shape or not np.allclose(a, ref, rtol=1e-12, atol=1e-12, equal_nan=True):
                ctx.fail(f"values differ between {ref_key} and {key} for {f!r}", rp)
                break
        if any(len(t) > 1 for t in terms):
            ctx.distinct.add((f, frame.coq(), efr, na))
        if i < 2:
            ctx.sample({"formula": f, "routes": len(results), "columns": ref_names})


def _codings(ctx: Ctx):
    """every built-in coding with every option, as a main effect (reduced and full rank) and inside an interaction: the three outputs and
    both materializers hold the same numbers"""
    import numpy as np
    import pandas as pd
    from formulaic import model_matrix
    rng = ctx.fork("codings")
    codings = ["contr.treatment", "contr.treatment(base='y')", "contr.SAS", "contr.sum", "contr.helmert", "contr.helmert(reverse=False)", "contr.helmert(scale=True)",
               "contr.helmert(reverse=False, scale=True)", "contr.diff", "contr.diff(backward=False)", "contr.poly", "contr.poly(scores=[1, 2, 4, 8])"]
    n = 9
    for coding in codings:
        for nlev in (2, 3, 4):
            if "scores" in coding and nlev != 4:
                continue
            lv = ["w", "x", "y", "z"][4 - nlev:] if "base='y'" in coding else ["w", "x", "y", "z"][:nlev]
            df = pd.DataFrame({"A": pd.Series([lv[(k * 3 + k // 2) % nlev] for k in range(n)], dtype=object), "a": [float(k % 4) + 0.5 * k for k in range(n)]})
            for f in (f"C(A, {coding})", f"0 + C(A, {coding})", f"a + a:C(A, {coding})", f"0 + C(A, {coding}):a"):
                ctx.oracle_runs += 1
                rp = {"kind": "codings", "formula": f, "levels": lv}
                try:
                    res = {(out, mat): model_matrix(f, df, output=out, materializer=mat) for out in ("pandas", "numpy", "sparse") for mat in ("pandas", "narwhals")}
                except Exception as e:
                    ctx.fail(f"{f!r} with levels {lv}: {type(e).__name__}: {str(e)[:200]}", rp)
                    continue
                ref = np.asarray(res[("pandas", "pandas")], dtype=float)
                refn = list(res[("pandas", "pandas")].model_spec.column_names)
                for (out, mat), m_ in res.items():
                    a = np.asarray(m_.toarray() if out == "sparse" else m_, dtype=float)
                    if list(m_.model_spec.column_names) != refn or a.shape != ref.shape or not np.allclose(a, ref, rtol=1e-12, atol=1e-12):
                        ctx.fail(f"{f!r} with levels {lv}: output={out}, materializer={mat} gives {a.tolist()} {list(m_.model_spec.column_names)}; "
                                 f"pandas/pandas gives {ref.tolist()} {refn}", rp)
                        break
                ctx.count("codings", coding.split("(")[0])


def run(ctx: Ctx):
    _codings(ctx)
    _sparse_stream(ctx)
    _agreement(ctx)


def search(ctx: Ctx):
    big = Ctx(ctx.pid, "thorough", ctx.seed + 1)
    big.casedir = ctx.casedir
    big.run_cases = lambda *a, **k: []
    try:
        run(big)
    except Exception as e:
        ctx.notes.append(f"search crashed: {type(e).__name__}: {e}")
    ctx.failures += big.failures
    ctx.oracle_runs += big.oracle_runs
