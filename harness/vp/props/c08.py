"""C08 — text and categorical columns are dummy-coded; the matrix is always numeric."""
from __future__ import annotations

import warnings

from ..core import Ctx
from .. import matgen as M

ID = "C08"
PROPS = ["props/C08.v"]
COQ_EXTRA = ["model/ShowM.vo"]
RULE = ("frames whose text column has dtype object / str / string[python] / string[pyarrow] / category (sorted, shuffled and with unobserved declared "
        "levels) and whose numeric column has dtype int8..int64, uint8..uint64, float32/64, bool, Int64, Float64, boolean; formulas A, A + a, A:a, "
        "A:B, 0 + A; three outputs; pandas materializer, narwhals on pandas, narwhals on pyarrow; non-trivial = every case; distinct by (dtypes, formula, output, route)")
EXPLANATION = ("the dtype->kind table of both materializers is regenerated from /repo by asking the real `_is_categorical` on one Series per dtype; Coq "
               "proves over that table that text and categorical dtypes are categorical and numeric dtypes numerical, for both materializers; the build "
               "model encodes categorical factors as 0/1 indicators in sorted (text) or declared (category) level order and passes numerical factors "
               "through; model = implementation for object/str/category frames; numeric cells, level order and pass-through are checked directly for "
               "every dtype, output and route")
TRUSTED = ["what `series.dtype == object` / isinstance(dtype, CategoricalDtype/StringDtype) / narwhals `is_numeric` return per dtype is library behaviour: "
           "captured in the regenerated oracle table, not proved"]
ASSUMPTIONS = []

TEXT = ["object", "str", "string[python]", "string[pyarrow]", "arrow[string]", "arrow[large_string]", "arrow[dictionary]", "category", "category-shuffled", "category-extra"]
NUMS = ["int8", "int16", "int32", "int64", "uint8", "uint16", "uint32", "uint64", "float32", "float64", "bool", "Int64", "Float64", "boolean"]
FORMS = ["A", "A + a", "A:a", "A:B", "0 + A", "0 + A:a", "a + B"]


def run(ctx: Ctx):
    import numpy as np
    import pandas as pd
    import pyarrow as pa
    from formulaic import model_matrix
    from formulaic.materializers import NarwhalsMaterializer
    warnings.simplefilter("ignore")
    rng = ctx.fork("c08")
    # (1) correspondence with the build model for the three dtypes the model distinguishes
    lits, descr = [], []
    for i in range(ctx.n(200, 3000)):
        frame = M.gen_frame(rng, pnull=rng.choice([0, 0.15]), cat_dtypes=("object", "str", "category"))
        terms = M.dedupe(M.gen_terms(rng, missing_p=0.0))
        efr = rng.random() < 0.5
        out = rng.choice(["pandas", "numpy", "sparse"])
        exp, kind, det = M.run_build(frame, terms, efr, "drop", [], out)
        if kind.startswith("nonnumeric"):
            ctx.fail(f"the model matrix of {M.formula_of(terms)!r} holds a non-numeric cell ({kind.split(':', 1)[1]}); text columns must be dummy-coded",
                     {"kind": "build", "frame": frame.describe(), "terms": terms, "output": out})
        lits.append(M.case_literal(frame, terms, efr, "drop", [], exp))
        descr.append({"frame": frame.describe(), "terms": terms, "output": out, "implementation": kind})
        ctx.count("build", f"cat_dtype={frame.cat_dtype}")
    ctx.run_cases("build", M.IMPORTS, "", "mcase", "chk_build", lits, descr, shard=150)
    # (2) every dtype x output x route, on the implementation
    combos = [(t, n, f, o) for t in TEXT for n in NUMS for f in FORMS for o in ("pandas", "numpy", "sparse")]
    rng.shuffle(combos)
    for t, nd, f, out in combos[: ctx.n(450, len(combos))]:
        n = rng.randint(4, 8)
        Avals = [["x", "y", "z"][k % 3] for k in range(n)]
        rng.shuffle(Avals)
        Bvals = [rng.choice(["u", "v"]) for _ in range(n)]
        Bvals[:2] = ["u", "v"]
        declared = sorted(set(Avals))
        if t == "category-shuffled":
            declared = list(reversed(declared))
        if t == "category-extra":
            declared = declared + ["w"]

        def text_series(vals, decl=None):
            if t.startswith("category"):
                return pd.Series(pd.Categorical(vals, categories=decl or sorted(set(vals))))
            if t == "arrow[dictionary]":     # a dictionary-encoded Arrow column held by pandas (recorded finding: not recognised as categorical)
                return pd.Series(pa.array(vals).dictionary_encode().to_pandas(types_mapper=pd.ArrowDtype))
            if t.startswith("arrow["):       # pandas.ArrowDtype text columns (what reading parquet/csv with the pyarrow backend gives)
                return pd.Series(vals, dtype=pd.ArrowDtype(pa.string() if t == "arrow[string]" else pa.large_string()))
            return pd.Series(vals, dtype=t)
        try:
            avals = [0, 1, 1, 0, 1, 0, 1, 1][:n] if nd in ("bool", "boolean") else [k + 1 for k in range(n)]
            df = pd.DataFrame({"A": text_series(Avals, declared), "B": text_series(Bvals), "a": pd.Series(avals).astype(nd)})
        except Exception:
            continue
        rp = {"kind": "dtypes", "text_dtype": t, "numeric_dtype": nd, "formula": f, "output": out, "A": Avals, "declared": declared}
        ktags = ["C08-arrow-dictionary-dtype"] if t == "arrow[dictionary]" else []
        routes = {"pandas": lambda: model_matrix(f, df, output=out),
                  "narwhals/pandas": lambda: NarwhalsMaterializer(df).get_model_matrix(f, output=out)}
        if t != "string[python]":
            routes["narwhals/arrow"] = lambda: NarwhalsMaterializer(pa.Table.from_pandas(df)).get_model_matrix(f, output=out)
        for route, fn in routes.items():
            ctx.oracle_runs += 1
            ctx.count("dtypes", f"route={route}")
            ctx.count("dtypes", f"text={t}")
            ctx.distinct.add((t, nd, f, out, route))
            try:
                mm = fn()
            except Exception as e:
                ctx.fail(f"{route}: {type(e).__name__} for {f!r} with text dtype {t} / numeric dtype {nd}: {e}", {**rp, "route": route}, ktags)
                continue
            raw = mm.toarray() if out == "sparse" else (mm.to_numpy() if hasattr(mm, "to_numpy") else np.asarray(mm))
            raw = np.asarray(raw)
            if not (np.issubdtype(raw.dtype, np.number) or raw.dtype == bool):
                ok = all(isinstance(x, (int, float, np.integer, np.floating, bool, np.bool_)) for x in raw.ravel())
                if not ok:
                    ctx.fail(f"{route}: the model matrix for {f!r} contains non-numeric cells (dtype {raw.dtype}): {raw.tolist()[:2]}", {**rp, "route": route}, ktags)
                    continue
            arr = np.asarray(raw, dtype=float)
            names = list(mm.model_spec.column_names)
            # level order
            want_levels = declared if t.startswith("category") else sorted(set(Avals))
            if t == "arrow[dictionary]":
                want_levels = list(dict.fromkeys(Avals))          # the dictionary of the column: its values in order of first appearance
            Acols = [c for c in names if c.startswith("A[") and ":" not in c]
            if f in ("A", "A + a", "0 + A"):
                lv = [c[2:-1].replace("T.", "") for c in Acols]
                exp_lv = want_levels if f.startswith("0") else want_levels[1:]
                if lv != exp_lv:
                    ctx.fail(f"{route}: levels of A are encoded as {lv}, expected {exp_lv} ({'declared' if t.startswith('category') else 'sorted'} order)", {**rp, "route": route})
                for c, l in zip(Acols, lv):
                    col = arr[:, names.index(c)].tolist()
                    if col != [1.0 if v == l else 0.0 for v in Avals]:
                        ctx.fail(f"{route}: column {c!r} is not the indicator of level {l!r}", {**rp, "route": route})
            if f in ("A + a", "a + B"):
                if "a" not in names or arr[:, names.index("a")].tolist() != [float(v) for v in avals]:
                    ctx.fail(f"{route}: numeric column a (dtype {nd}) did not pass through unchanged: {names}", {**rp, "route": route})
    # (3) text columns with missing entries (in first position too): still dummy-coded, the null rows dropped, every cell numeric
    for t in TEXT:
        for pos in (0, 2, 4):
            for out in ("pandas", "numpy", "sparse"):
                vals = ["b", "a", "c", "a", "c", "b", "a"]          # every level survives the removals below
                vals[pos] = None
                if rng.random() < 0.5:
                    vals[(pos + 3) % 7] = None
                keep = [k for k, v in enumerate(vals) if v is not None]
                try:
                    if t.startswith("category"):
                        ser = pd.Series(pd.Categorical(vals, categories=["a", "b", "c"]))
                    elif t == "object":
                        ser = pd.Series([np.nan if v is None else v for v in vals], dtype=object) if rng.random() < 0.5 else pd.Series(vals, dtype=object)
                    else:
                        ser = pd.Series(vals, dtype=t)
                    df = pd.DataFrame({"A": ser, "a": [float(k) for k in range(7)]})
                except Exception:
                    continue
                # the null rows are removed (default) or, when the caller asks to keep them, carry no level at all: zeros in every indicator
                na = rng.choice(["drop", "ignore"])
                if na == "ignore":
                    keep = list(range(7))
                rp = {"kind": "dtypes-nulls", "text_dtype": t, "A": vals, "output": out, "na_action": na}
                routes = {"pandas": lambda: model_matrix("A + a", df, output=out, na_action=na),
                          "narwhals/pandas": lambda: NarwhalsMaterializer(df).get_model_matrix("A + a", output=out, na_action=na)}
                for route, fn in routes.items():
                    ctx.oracle_runs += 1
                    try:
                        mm = fn()
                        raw = np.asarray(mm.toarray() if out == "sparse" else (mm.to_numpy() if hasattr(mm, "to_numpy") else mm))
                        arr = np.asarray(raw, dtype=float)
                    except Exception as e:
                        ctx.fail(f"{route}: text column {vals} (dtype {t}) with missing entries: {type(e).__name__}: {e}", {**rp, "route": route})
                        continue
                    names = list(mm.model_spec.column_names)
                    want = np.array([[1.0, 1.0 if vals[k] == "b" else 0.0, 1.0 if vals[k] == "c" else 0.0, float(k)] for k in keep])
                    if names != ["Intercept", "A[T.b]", "A[T.c]", "a"] or arr.shape != want.shape or not np.array_equal(arr, want):
                        ctx.fail(f"{route}: text column {vals} (dtype {t}) is not dummy-coded over its non-missing rows: columns {names}, values {arr.tolist()}", {**rp, "route": route})
                    ctx.count("dtypes", "text-with-nulls")
    ctx.samples.append({"text dtypes": TEXT, "numeric dtypes": NUMS, "formulas": FORMS})


def search(ctx: Ctx):
    big = Ctx(ctx.pid, "thorough", ctx.seed + 1)
    big.casedir = ctx.casedir
    big.run_cases = lambda *a, **k: []
    try:
        run(big)
    except Exception as e:
        ctx.notes.append(f"search crashed: {type(e).__name__}: {e}")
    ctx.failures += big.failures
    ctx.oracle_runs += big.oracle_runs
