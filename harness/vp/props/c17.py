"""C17 — required variables, name resolution order and '.' expansion are exact."""
from __future__ import annotations

import warnings

from ..core import Ctx, cstr, clist, copt
from .. import matgen as M
from .. import parsergen as G

ID = "C17"
PROPS = ["props/C17.v"]
COQ_EXTRA = ["model/ShowC19.vo", "model/ShowM.vo", "model/Show.vo"]
LIMPORTS = ("From Coq Require Import List NArith ZArith Bool Arith.\nImport ListNotations.\n"
            "Require Import Struct Layered FormulaSeq ShowC19.\nOpen Scope N_scope.")
RULE = ("formulas over plain names, quoted names, nested calls, attribute access and Python expressions; data column sets; context mappings that shadow "
        "or extend the data and the built-in transforms in all 7 overlap patterns; '.' with and without a left-hand side; for each reported variable: "
        "remove it and rebuild; non-trivial = at least two variables or a shadowed name; distinct by (formula, layers)")
EXPLANATION = ("Coq: in the three-layer context (data, context, transforms) a name resolves to the first layer holding it and the reported source is that "
               "layer; '.' is exactly the available variables not used on the lhs, in order; for formulas of looked-up names the reported list of names (required_vars, compared with "
               "Formula.required_variables case by case) is sufficient on the restricted data and each entry necessary, for single and structured formulas. The layered-mapping model, the parser model ('.') and the build model (missing "
               "variables) are evaluated in Coq on the implementation's cases; sufficiency/necessity, sources and '.' are checked directly, including "
               "Python-expression factors.")
TRUSTED = ["Python expressions: which names a fragment needs is decided by CPython evaluation; required_variables for them is validated by actually "
           "materializing on restricted data (direct oracle), not proved"]
ASSUMPTIONS = ["a data column named like a transform (e.g. `C`, `log`) shadows it by the documented resolution order; such names are omitted from "
               "Formula.required_variables by design and are excluded from the necessity oracle"]

FORMULAS = ["a + b", "y ~ a:b", "`x y` + a", "log(a) + b", "np.exp(a) + C(A)", "I(a + b) + c", "scale(a) : A", "a + `z-1`:b", "center(a) + poly(b, 2)",
            "f(a) + b", "g(a, k) + A", "a ** 2 + b", "C(A, contr.sum) + a", "log(`x y`) + b", "y + b ~ a", "a + I(m.n)", "h(b)[0] + a", "a:k",
            "g(a, w=b) + c", "np.clip(a, a_min=b, a_max=c)", "y ~ g(v=a, w=c):b", "f(v=`x y`) + a",
            # names bound inside the expression (comprehension / lambda variables that are ALSO data columns), calls and attributes on expressions
            "f(np.asarray([c * 2.0 for c in a])) + b", "f(np.asarray([k + c for k, c in zip(a, b)]))", "mk(a)(b) + c", "hs[0](a) + b", "{(a + b).abs()} + c",
            "f(np.asarray(list(map(lambda c: c + 1.0, a))))", "f(np.asarray([c + k for c in a for k in (0.5,)]))", "f(np.asarray([[c * k for k in (1.0, 2.0)] for c in b]).sum(axis=1))",
            "f(np.asarray([c for k in (1,) for c in a if c > -100]))", "mk(`x y`)(b):A", "I(hs[0](c) + mk(a)(a))"]


def _resolution_stream(ctx: Ctx):
    """LayeredMapping exactly as the materializer stacks it, with every overlap pattern."""
    from formulaic.utils.layered_mapping import LayeredMapping as LM
    rng = ctx.fork("layers")
    lits, descr = [], []
    keys = ["a", "b", "c", "d"]
    def plain(j):
        return {k: rng.randrange(100) + 100 * j for k in keys if rng.random() < 0.5}

    def nest(j, depth):
        """what a caller may pass as data / context: a plain mapping, or a LayeredMapping (unnamed like the captured caller frame
        LayeredMapping(locals, globals), or carrying its own name) of such, possibly with private writes"""
        if depth == 0 or rng.random() < 0.5:
            return plain(j)
        sub = LM(*[nest(j, depth - 1) for _ in range(rng.randint(1, 3))], name=rng.choice([None, None, "frame", "user"]))
        if rng.random() < 0.3:
            sub[rng.choice(keys)] = rng.randrange(100) + 100 * j + 50
        return sub

    def lit_of(x):
        if isinstance(x, LM):
            return "(Sub %s %s %s)" % (copt(x.name, cstr), clist(f"({cstr(k)}, {v})" for k, v in x._mutations.items()), clist(lit_of(y) for y in x._layers))
        return "(Plain " + clist(f"({cstr(k)}, {v})" for k, v in x.items()) + ")"

    def flat(x):
        if isinstance(x, LM):
            out = dict(x._mutations)
            for y in x._layers:
                for k, v in flat(y).items():
                    out.setdefault(k, v)
            return out
        return dict(x)

    for i in range(ctx.n(300, 4000)):
        parts = [nest(j, 2 if j == 1 else 1) for j in range(3)]
        layers = [flat(x) for x in parts]
        m = LM(LM(parts[0], name="data"), LM(parts[1], name="context"), LM(parts[2], name="transforms"))
        lit_in = lit_of(m)
        gets, named = [], []
        for k in keys:
            v, src = m.get_with_layer_name(k)
            gets.append(f"({cstr(k)}, {copt(m.get(k), str)})")
            named.append("(%s, %s)" % (cstr(k), "None" if v is None else f"(Some ({v}, {clist(cstr(x) for x in (src.split(':') if src else []))}))"))
            # ---- direct oracle: the value is that of the first of the three layers holding the name, and the reported source STARTS with that
            # layer's name (whatever unnamed or named mappings the caller nested inside it)
            ctx.oracle_runs += 1
            want = next(((d[k], nm) for nm, d in zip(("data", "context", "transforms"), layers) if k in d), (None, None))
            if (v, (src or "").split(":")[0] or None) != want:
                ctx.fail(f"{k!r} resolved to {(v, src)}, expected {want} (data, then context, then transforms)",
                         {"kind": "resolution", "layers": lit_in, "key": k})
        ctx.count("layers", "nested=%d" % sum(isinstance(x, LM) for x in parts))
        it = list(m)
        lits.append("{| l_in := %s; l_acts := []; l_iter := %s; l_len := %d%%nat; l_gets := %s; l_named := %s |}" % (
            lit_in, clist(cstr(k) for k in it), len(m), clist(gets), clist(named)))
        descr.append({"layers": lit_in})
        ctx.count("layers", "overlap=%d" % sum(1 for k in keys if sum(k in d for d in layers) > 1))
        ctx.distinct.add(lits[-1])
    ctx.run_cases("layers", LIMPORTS, "", "lcase", "chk_layered", lits, descr, shard=200)


def _dot_stream(ctx: Ctx):
    """'.' expansion through the parser model"""
    rng = ctx.fork("dot")
    lits, descr, strings = [], [], []
    cols = ["y", "a", "b", "c", "x1", "x y", "z-1"]           # two of the columns have names that must be quoted
    for i in range(ctx.n(250, 4000)):
        avail = rng.sample(cols, rng.randint(1, len(cols)))
        lhs = rng.sample(cols, rng.randint(0, 2))
        lhs_text = [v if v.isidentifier() else f"`{v}`" for v in lhs]
        # variables may be used on the left through Python code, {} blocks and quoted names, not only as bare names
        for k, v in enumerate(lhs):
            r = rng.random()
            if not v.isidentifier() and r < 0.35:
                r = 0.36 + r / 2
            if r < 0.15:
                lhs_text[k] = f"log({v})"
            elif r < 0.25:
                lhs_text[k] = "{" + v + " + 1}"
            elif r < 0.35:
                lhs_text[k] = f"`{v}`"
            elif r < 0.42:
                w = rng.choice(cols[:5])
                lhs_text[k] = f"I({v}*{w})" if v.isidentifier() else f"I(`{v}`*{w})"
                if w not in lhs:
                    lhs = lhs + [w]
            elif r < 0.6:
                lhs_text[k] = rng.choice([f"log(`{v}`)", "{`" + v + "` + 1}", f"I(`{v}` * 2)"])      # a quoted name inside Python code
        s = (" + ".join(lhs_text) + " ~ " if lhs_text else "") + rng.choice([".", ". - a", ". + a:b", "(.)^2", ". : b", "a + ."])
        ic = rng.random() < 0.7
        if rng.random() < 0.15:
            # one-sided: nothing is on a left-hand side, whatever stands before the '.'
            s = rng.choice(["log(a) + .", "I(b*2) + c + .", "`x y` + .", ". + log(b)", "{a + 1} + ."])
            lhs = []
        out, kind, res = G.run_impl(s, ic, (True, True, False), avail)
        lits.append(G.case_literal(s, ic, (True, True, False), avail, out))
        descr.append({"formula": s, "available": avail})
        strings.append(s)
        ctx.count("dot", "outcome=" + kind)
        ctx.oracle_runs += 1
        if "~" not in s and s.endswith("+ .") and kind == "ok":
            side = res._structure["root"]
            got1 = [t.factors[0].expr for t in side if len(t.factors) == 1 and t.factors[0].expr in avail]
            if sorted(got1) != sorted(avail):           # (terms written before the '.' keep their earlier place)
                ctx.fail(f"'.' in the one-sided {s!r} (include_intercept={ic}) with columns {avail} expanded to {got1}, expected every column", {"kind": "dot", "formula": s, "available": avail})
        if s.endswith("~ .") or s == ".":
            want = [v for v in avail if v not in lhs]
            got = None
            if kind == "ok":
                d = res._structure
                side = d["rhs"] if "rhs" in d else d["root"]
                got = [t.factors[0].expr for t in side if len(t.factors) == 1 and t.factors[0].expr != "1"]
            if got != want:
                ctx.fail(f"'.' in {s!r} with columns {avail} expanded to {got}, expected {want}", {"kind": "dot", "formula": s, "available": avail})
        ctx.distinct.add((s, tuple(avail)))
    ctx.run_cases("dot", G.IMPORTS, G.extra_classes(strings), "pcase", "chk_parser extra", lits, descr, shard=250)


def _required_oracle(ctx: Ctx):
    import numpy as np
    import pandas as pd
    from formulaic import Formula, model_matrix
    from formulaic.errors import FactorEvaluationError
    from formulaic.transforms import TRANSFORMS
    warnings.simplefilter("ignore")
    rng = ctx.fork("required")
    n = 6
    all_cols = {"a": [1.0, 2, 3, 4, 5, 6.5], "b": [2.0, 1, 0.5, 3, 4, 1], "c": [1.0, 4, 2, 8, 1, 2], "y": [0.0, 1, 0, 1, 1, 0], "k": [1.0] * n,
                "x y": [3.0, 1, 2, 2, 1, 5], "z-1": [1.0, 2, 1, 2, 1, 2], "A": ["x", "y", "z", "x", "y", "z"]}
    ctxs = {"f": lambda v: v * 2, "g": lambda v, w: v + w, "h": lambda v: [v, v], "k": 3.0, "mk": lambda v: (lambda w: v + w), "hs": [lambda v: v * 2],
            "m": type("M", (), {"n": np.array([1.0, 0, 1, 0, 1, 0])})(), "a": [9.0] * n}
    for i in range(ctx.n(200, 3000)):
        f = rng.choice(FORMULAS)
        df_all = pd.DataFrame({k: (pd.Series(v, dtype=object) if isinstance(v[0], str) else v) for k, v in all_cols.items()})
        context = {k: v for k, v in ctxs.items() if k != "a" or rng.random() < 0.3}
        how = rng.choice(["dict", "dict", "layered", "layered-named"])
        if how != "dict":
            # the context as a LayeredMapping of two mappings (this is what the default, the captured caller frame (locals, globals), looks like)
            from formulaic.utils.layered_mapping import LayeredMapping as _LM
            ks = sorted(context)
            cut = rng.randint(0, len(ks))
            context = _LM({k: context[k] for k in ks[:cut]}, {k: context[k] for k in ks[cut:]}, name="mine" if how == "layered-named" else None)
        rp = {"kind": "required", "formula": f, "context": sorted(context), "context_type": how}
        ctx.oracle_runs += 1
        ctx.count("required", f.split(" ")[0][:12])
        try:
            req = {str(v) for v in Formula(f).required_variables}
        except Exception as e:
            ctx.fail(f"required_variables of {f!r}: {type(e).__name__}: {e}", rp)
            continue
        data_req = [v for v in req if v in all_cols]
        # names that must come from the context (not data) are not data requirements
        try:
            mm = model_matrix(f, df_all[data_req] if data_req else df_all[[]].assign(_=0.0)[[]], context=context)
        except Exception as e:
            missing = [v for v in req if v not in all_cols and v.split(".")[0] not in context]
            if not missing:
                ctx.fail(f"required variables {sorted(req)} are not sufficient for {f!r}: {type(e).__name__}: {e}", rp)
            continue
        specs = [s_ for s_ in (mm.model_spec._flatten() if hasattr(mm.model_spec, "_flatten") else [mm.model_spec])]
        after = set()
        for s_ in specs:
            after |= {str(v) for v in s_.required_variables}
        if not after <= set(all_cols) or not set(data_req) >= after:
            ctx.fail(f"after materialization the spec of {f!r} requires {sorted(after)}, the formula reported {sorted(data_req)}", rp)
        for v in sorted(after):
            if v in context or v in TRANSFORMS:
                continue            # shadowed: the context (or a transform) supplies it when the column is absent
            try:
                model_matrix(f, df_all[[c for c in data_req if c != v]], context=context)
                ctx.fail(f"variable {v!r} is reported as required by {f!r} but materialization succeeds without it", rp)
            except FactorEvaluationError:
                pass
            except Exception as e:
                ctx.fail(f"removing {v!r} from the data of {f!r} fails with {type(e).__name__} instead of the factor-evaluation error", rp)
        # sources
        for s_ in specs:
            for src, vs in s_.variables_by_source.items():
                for v in vs:
                    base = str(v).split(".")[0]
                    want = "data" if base in data_req else "context" if base in context else "transforms" if base in TRANSFORMS else None
                    if src is not None and want == "context" and how == "layered-named":
                        src = src.split(":")[0]               # context:mine -- the caller's own layer name follows
                    if src != want and "value" in v.roles:
                        ctx.fail(f"variable {v!r} of {f!r} is reported to come from {src!r}; it came from {want!r}", rp)
        ctx.distinct.add((f, tuple(sorted(context))))
        if i < 2:
            ctx.sample({"formula": f, "required": sorted(req)})


def _shadow_oracle(ctx: Ctx):
    """the materializer's own stacking: a data column shadows a context value shadows a built-in transform of the same name"""
    import numpy as np
    import pandas as pd
    from formulaic import model_matrix
    rng = ctx.fork("shadow")
    for i in range(ctx.n(30, 300)):
        n = 5
        a = [float(rng.randint(-5, 9)) for _ in range(n)]
        df = pd.DataFrame({"a": a, "b": [float(rng.randint(1, 9)) for _ in range(n)]})
        name = rng.choice(["center", "scale", "log", "exp10", "poly"])
        mark = float(rng.randint(50, 90))
        out = rng.choice(["pandas", "numpy", "sparse"])
        rp = {"kind": "shadow", "name": name, "a": a}
        ctx.oracle_runs += 1
        try:
            # context function named like a transform
            mm = model_matrix(f"0 + {name}(a)", df, context={name: (lambda v, _m=mark: np.asarray(v, dtype=float) * 0 + _m)}, output=out)
            col = np.asarray(mm.toarray() if out == "sparse" else mm, dtype=float)[:, 0].tolist()
            if col != [mark] * n:
                ctx.fail(f"a context function named {name!r} does not shadow the built-in transform: column {col}", rp)
            src = {str(v): s_ for s_, vs in mm.model_spec.variables_by_source.items() for v in vs}
            if src.get(name) != "context":
                ctx.fail(f"the source of {name!r} is reported as {src.get(name)!r}; the context supplied it", rp)
            # a data column named like a transform / a context value
            df2 = df.assign(**{name: [mark + k for k in range(n)]})
            mm2 = model_matrix(f"0 + {name}", df2, context={name: 1.0}, output=out)
            col2 = np.asarray(mm2.toarray() if out == "sparse" else mm2, dtype=float)[:, 0].tolist()
            if col2 != [mark + k for k in range(n)]:
                ctx.fail(f"a data column named {name!r} does not shadow the context value / transform of that name: column {col2}", rp)
            src2 = {str(v): s_ for s_, vs in mm2.model_spec.variables_by_source.items() for v in vs}
            if src2.get(name) != "data":
                ctx.fail(f"the source of column {name!r} is reported as {src2.get(name)!r}; the data supplied it", rp)
        except Exception as e:
            ctx.fail(f"shadowing {name!r}: {type(e).__name__}: {e}", rp)
        ctx.count("shadow", name)


def _missing_stream(ctx: Ctx):
    """build model: a missing looked-up name is the factor-evaluation error"""
    rng = ctx.fork("missing")
    lits, descr = [], []
    for i in range(ctx.n(150, 2500)):
        frame = M.gen_frame(rng, pnull=0)
        terms = M.dedupe(M.gen_terms(rng, missing_p=0.5))
        exp, kind, det = M.run_build(frame, terms, True, "drop", [], "pandas")
        lits.append(M.case_literal(frame, terms, True, "drop", [], exp))
        descr.append({"terms": terms, "implementation": kind})
        ctx.count("missing", "outcome=" + kind.split(":")[0])
    ctx.run_cases("missing", M.IMPORTS, "", "mcase", "chk_build", lits, descr, shard=150)


def _required_stream(ctx: Ctx):
    """required_vars model: the names the model lists for a term list are the names Formula.required_variables reports (before and after
    materialization), and on the implementation they are sufficient and, one by one, necessary (the theorems' statement, replayed)"""
    import pandas as pd
    from formulaic import model_matrix
    from formulaic.errors import FactorEvaluationError
    warnings.simplefilter("ignore")
    rng = ctx.fork("requiredvars")
    lits, descr = [], []
    for i in range(ctx.n(150, 2000)):
        frame = M.gen_frame(rng, pnull=0)
        terms = M.dedupe(M.gen_terms(rng, missing_p=0))
        f = M.formula_of(terms)
        rp = {"kind": "required-vars", "terms": terms}
        ctx.oracle_runs += 1
        try:
            req = sorted({str(v) for v in f.required_variables})
        except Exception as e:
            ctx.fail(f"required_variables of {terms!r}: {type(e).__name__}: {e}", rp)
            continue
        ctx.count("requiredvars", f"n={len(req)}")
        lits.append("{| r_terms := %s; r_names := %s |}" % (M.terms_coq(terms), clist(cstr(v) for v in req)))
        descr.append({"terms": terms, "implementation": req})
        df = frame.to_pandas()
        if not req:
            continue
        try:
            mm = model_matrix(f, df[req], context={})
            after = sorted({str(v) for v in mm.model_spec.required_variables})
            if after != req:
                ctx.fail(f"the spec of {terms!r} requires {after} after materialization; the formula reported {req}", rp)
        except Exception as e:
            ctx.fail(f"required variables {req} are not sufficient for {terms!r}: {type(e).__name__}: {e}", rp)
            continue
        for v in req:
            try:
                model_matrix(f, df[[c for c in req if c != v]], context={})
                ctx.fail(f"{v!r} is reported as required by {terms!r} but materialization succeeds without it", rp)
            except FactorEvaluationError:
                pass
            except Exception as e:
                ctx.fail(f"removing {v!r} from the data of {terms!r} fails with {type(e).__name__} instead of the factor-evaluation error", rp)
    ctx.run_cases("required", M.IMPORTS, "", "rcase", "chk_required", lits, descr, shard=200)


def _mutated_formulas(ctx: Ctx):
    """required_variables describes the formula AS IT IS NOW: after any sequence of deletions, insertions and replacements of terms it equals
    what a fresh formula with the same terms reports (also through a ModelSpec holding the formula)"""
    from formulaic import Formula, ModelSpec
    rng = ctx.fork("mutated-formulas")
    pool = ["a", "b:d", "np.log(c)", "e", "f(g, h)", "a:e", "`x y`", "center(k)"]
    for i in range(ctx.n(80, 800)):
        f = Formula(" + ".join(rng.sample(pool, rng.randint(2, 4))))
        hist = [repr(f)]
        for step in range(rng.randint(2, 6)):
            if rng.random() < 0.6:
                _ = f.required_variables, ModelSpec(formula=f).required_variables          # read (and possibly cache)
                hist.append("read")
            r = rng.random()
            try:
                if r < 0.35 and len(f) > 1:
                    k = rng.randrange(len(f)); del f[k]; hist.append(f"del [{k}]")
                elif r < 0.5 and len(f) > 1:
                    f.pop(); hist.append("pop()")
                elif r < 0.65 and len(f) > 1:
                    t = f[rng.randrange(len(f))]; f.remove(t); hist.append(f"remove({t!r})")
                elif r < 0.85:
                    t = list(Formula(rng.choice(pool)))[-1]; f.append(t); hist.append(f"append({t!r})")
                else:
                    t = list(Formula(rng.choice(pool)))[-1]; k = rng.randrange(len(f)); f[k] = t; hist.append(f"[{k}] = {t!r}")
            except Exception as e:
                hist.append(f"{type(e).__name__}")
                continue
            ctx.oracle_runs += 1
            want = {str(v) for v in Formula(list(f), _ordering="none").required_variables}
            got = {str(v) for v in f.required_variables}
            got2 = {str(v) for v in ModelSpec(formula=f).required_variables}
            if got != want or got2 != want:
                ctx.fail(f"after {hist} the formula {f!r} reports the required variables {sorted(got)} (through a ModelSpec: {sorted(got2)}); its terms need {sorted(want)}",
                         {"kind": "mutated-formula", "history": hist})
                break
        ctx.count("mutated-formulas", "histories")


def run(ctx: Ctx):
    _mutated_formulas(ctx)
    _resolution_stream(ctx)
    _dot_stream(ctx)
    _missing_stream(ctx)
    _required_stream(ctx)
    _required_oracle(ctx)
    _shadow_oracle(ctx)


def search(ctx: Ctx):
    big = Ctx(ctx.pid, "thorough", ctx.seed + 1)
    big.casedir = ctx.casedir
    big.run_cases = lambda *a, **k: []
    try:
        run(big)
    except Exception as e:
        ctx.notes.append(f"search crashed: {type(e).__name__}: {e}")
    ctx.failures += big.failures
    ctx.oracle_runs += big.oracle_runs
