"""C07 — multi-part formulas give row-aligned parts equal to separate builds."""
from __future__ import annotations

import warnings

from ..core import Ctx, clist
from .. import matgen as M

ID = "C07"
PROPS = ["props/C07.v"]
COQ_EXTRA = ["model/ShowM.vo"]
RULE = ("structured formulas built from '~', '|', tuples, keywords and nesting (depth <= 3) over random term lists; frames with nulls spread over the "
        "variables of different parts; three null policies, rank reduction on/off, caller drop sets, three outputs; non-trivial = at least two parts "
        "sharing a factor or a null in one part only; distinct by literal")
EXPLANATION = ("model `build_parts`: the factors of all parts are pooled and evaluated once, one joint drop set, every part assembled from the shared pool; "
               "theorems: same number of parts in the same order, all parts report the same drop set, which is caller's rows u nulls of the factors of "
               "ALL parts; the model's parts must equal the implementation's parts (names, exact values, drop set, recorded scoped terms); shape, row "
               "alignment, equality with separate builds under the joint drop set and regeneration from each part's own spec are checked directly")
TRUSTED = ["the mapping between nested Structured results and the flat part list (flatten order) is done by the harness"]
ASSUMPTIONS = ["theorem `C07_part_equals_separate_build` holds under `consistent`: the kind of a factor is a function of its expression (one pool entry per expression)"]


def gen_structure(rng, depth=2):
    """returns a nested spec: ('leaf', terms) | ('tuple', [children]) | ('dict', {key: child})"""
    r = rng.random()
    if depth <= 0 or r < 0.45:
        return ("leaf", M.dedupe(M.gen_terms(rng, max_terms=3, missing_p=0.0)))
    if r < 0.7:
        return ("tuple", [gen_structure(rng, depth - 1) if rng.random() < 0.3 else ("leaf", M.dedupe(M.gen_terms(rng, max_terms=3, missing_p=0.0)))
                          for _ in range(rng.randint(2, 3))])
    keys = rng.sample(["lhs", "rhs", "extra", "root"], rng.randint(1, 3))
    return ("dict", {k: gen_structure(rng, depth - 1) for k in keys})


def to_formula(node):
    from formulaic import Formula
    kind, v = node
    if kind == "leaf":
        return M.formula_of(v)
    if kind == "tuple":
        return tuple(to_formula(c) for c in v)
    kw = {k: to_formula(c) for k, c in v.items()}
    root = kw.pop("root", None)
    return Formula(root, **kw) if root is not None else Formula(**kw)


def shape_of(x):
    from formulaic.utils.structured import Structured
    if isinstance(x, Structured):
        return ("S", tuple((k, shape_of(v)) for k, v in x._structure.items()))
    if isinstance(x, tuple):
        return ("T", tuple(shape_of(v) for v in x))
    return "L"


def flatten(x):
    from formulaic.utils.structured import Structured
    if isinstance(x, Structured):
        return [y for v in x._structure.values() for y in flatten(v)]
    if isinstance(x, tuple):
        return [y for v in x for y in flatten(v)]
    return [x]


def run(ctx: Ctx):
    import numpy as np
    from formulaic import Formula, model_matrix
    from formulaic.errors import FactorEvaluationError
    from formulaic.utils.structured import Structured
    warnings.simplefilter("ignore")
    rng = ctx.fork("c07")
    lits, descr = [], []
    for i in range(ctx.n(350, 6000)):
        frame = M.gen_frame(rng, pnull=rng.choice([0, 0.1, 0.25]), cat_dtypes=("object", "category"))
        node = gen_structure(rng, 2)
        if node[0] == "leaf":
            node = ("dict", {"lhs": node, "rhs": ("leaf", M.dedupe(M.gen_terms(rng, max_terms=3, missing_p=0.0)))})
        try:
            f = to_formula(node)
            if not isinstance(f, Structured):
                f = Formula(root=f) if isinstance(f, tuple) else f
        except Exception as e:
            continue
        efr = rng.random() < 0.6
        na = rng.choice(["drop", "drop", "raise", "ignore"])
        cd = sorted(set(rng.randrange(frame.n) for _ in range(rng.choice([0, 0, 1]))))
        output = rng.choice(["pandas", "numpy", "sparse"])
        df = frame.to_pandas()
        dr = set(cd)
        formulas = flatten(f)
        parts_terms = [[[(fc.expr, fc.eval_method.value) for fc in t.factors] for t in sf] for sf in formulas]
        rp = {"kind": "structured", "frame": frame.describe(), "parts": parts_terms, "shape": str(shape_of(f)), "ensure_full_rank": efr,
              "na_action": na, "drop_rows": cd, "output": output}
        try:
            mms = model_matrix(f, df, ensure_full_rank=efr, na_action=na, drop_rows=dr, output=output)
            kind = "ok"
        except FactorEvaluationError:
            kind, exp = "eval", "inr 1%nat"
        except ValueError as e:
            kind, exp = ("nullraise", "inr 2%nat") if "null" in str(e) else ("valueerror", "inr 3%nat")
        except Exception as e:
            kind, exp = "other:" + type(e).__name__, "inr 3%nat"
        ctx.count("structured", "outcome=" + kind.split(":")[0])
        ctx.count("structured", f"parts={len(formulas)}")
        if kind == "ok":
            mats = flatten(mms)
            exps = []
            for m_ in mats:
                names, pnames, cols, nrows = M.matrix_columns(m_, output)
                exps.append("XOk %s %s %s %s" % (clist(M.cstr(c) for c in (pnames if pnames is not None else names)),
                                                  clist(clist(M.qlit(v) for v in col) for col in cols),
                                                  clist(str(int(k)) + "%nat" for k in sorted(dr)), M.struct_coq(m_.model_spec)))
            exp = "inl " + clist(exps)
            # ---- direct oracle
            ctx.oracle_runs += 1
            if shape_of(mms) != shape_of(f):
                ctx.fail(f"result shape {shape_of(mms)} differs from formula shape {shape_of(f)}", rp)
            if shape_of(mms.model_spec) != shape_of(f):
                ctx.fail("the attached specs do not have the shape of the formula", rp)
            nr = {m_.shape[0] for m_ in mats}
            if len(nr) != 1:
                ctx.fail(f"parts have different numbers of rows: {sorted(nr)}", rp)
            if output == "pandas" and len({tuple(m_.index) for m_ in mats}) != 1:
                ctx.fail("parts are not row-aligned (different indexes)", rp)
            for sf, m_ in zip(formulas, mats):
                alone = model_matrix(sf, df, ensure_full_rank=efr, na_action="ignore" if na == "raise" else na, drop_rows=set(dr), output=output)
                a = np.asarray(alone.toarray() if output == "sparse" else alone, dtype=float)
                b = np.asarray(m_.toarray() if output == "sparse" else m_, dtype=float)
                if a.shape != b.shape or not np.array_equal(a, b, equal_nan=True) or list(alone.model_spec.column_names) != list(m_.model_spec.column_names):
                    ctx.fail(f"part {sf!r} differs from the separate build of its terms with the joint drop set {sorted(dr)}", rp)
                again = m_.model_spec.get_model_matrix(df, drop_rows=set(cd) if na != "drop" else set(dr))
                c_ = np.asarray(again.toarray() if output == "sparse" else again, dtype=float)
                if c_.shape != b.shape or not np.array_equal(c_, b, equal_nan=True):
                    ctx.fail(f"the spec of part {sf!r} does not regenerate its part", rp)
            # the attached specs re-used AS A WHOLE (ModelSpecs.get_model_matrix) on the same data with the caller's rows: the nulls of every
            # part are found again, so all parts come back row-aligned and equal to the first result, and the set is extended to the joint one
            dr2 = set(cd)
            try:
                whole = flatten(mms.model_spec.get_model_matrix(df, drop_rows=dr2))
                if len(whole) != len(mats):
                    ctx.fail(f"re-using the attached specs as a whole gave {len(whole)} parts for {len(mats)}", rp)
                for sf, m_, w_ in zip(formulas, mats, whole):
                    b = np.asarray(m_.toarray() if output == "sparse" else m_, dtype=float)
                    c_ = np.asarray(w_.toarray() if output == "sparse" else w_, dtype=float)
                    if c_.shape != b.shape or not np.array_equal(c_, b, equal_nan=True):
                        ctx.fail(f"re-using the attached specs as a whole: part {sf!r} has shape {c_.shape}, the first build gave {b.shape} "
                                 f"(parts {'differ in values' if c_.shape == b.shape else 'are no longer row-aligned'})", rp)
                        break
                if dr2 != dr:
                    ctx.fail(f"re-using the attached specs as a whole reports the dropped rows {sorted(dr2)}, the first build {sorted(dr)}", rp)
            except Exception as e:
                ctx.fail(f"re-using the attached specs as a whole: {type(e).__name__}: {e}", rp)
        lit = "{| p_frame := %s; p_nrows := %d%%nat; p_cfg := %s; p_parts := %s; p_expect := %s |}" % (
            frame.coq(), frame.n, M.cfg_coq(efr, na, cd), clist(M.terms_coq(p) for p in parts_terms), exp)
        lits.append(lit)
        descr.append(rp)
        if len(formulas) >= 2:
            ctx.distinct.add(lit)
        if i < 3:
            ctx.sample({"shape": rp["shape"], "parts": parts_terms, "implementation": kind})
    for _ in range(ctx.n(120, 1500)):
        _coded_parts(ctx, rng)
    ctx.run_cases("structured", M.IMPORTS, "", "pcase", "chk_parts", lits, descr, shard=120)


PART_TEXTS = ["0 + C(A, contr.sum) + a", "C(A, contr.sum)", "C(A, contr.helmert):a", "A", "0 + A", "a + A:B", "C(B, contr.treatment(base='v'))",
              "poly(a, 2)", "0 + C(A)", "C(A)", "A:B", "0 + A:B", "center(a) + A", "a", "0 + C(A, contr.helmert)", "C(A, contr.helmert)", "b + C(A, contr.sum):B"]


def _coded_parts(ctx: Ctx, rng):
    """parts that share factors under different codings / ranks / transforms: each part equals its separate build"""
    import numpy as np
    import pandas as pd
    from formulaic import model_matrix
    n = rng.randint(6, 10)
    lv = {"A": ["x", "y", "z"], "B": ["u", "v"]}
    df = pd.DataFrame({"y": [float(rng.randint(0, 9)) for _ in range(n)], "a": [float(rng.choice([-1, 0, 0.5, 2, 3, 4])) + 0.125 * k for k in range(n)],
                       "b": [float(rng.randint(-3, 3)) for _ in range(n)],
                       **{c: pd.Series([v[k % len(v)] for k in range(n)], dtype=object) for c, v in lv.items()}})
    if rng.random() < 0.4:
        df.loc[rng.randrange(n), rng.choice(["a", "b", "A"])] = None
    parts = [rng.choice(PART_TEXTS) for _ in range(rng.randint(2, 3))]
    f = ("y ~ " if rng.random() < 0.6 else "") + " | ".join(parts)
    out = rng.choice(["pandas", "numpy", "sparse"])
    rp = {"kind": "coded-parts", "formula": f, "output": out, "rows": n}
    ctx.oracle_runs += 1
    dr = set()
    try:
        mms = model_matrix(f, df, drop_rows=dr, output=out)
    except Exception as e:
        ctx.fail(f"model_matrix({f!r}): {type(e).__name__}: {e}", rp)
        return
    mats = flatten(mms)
    texts = (["y"] if f.startswith("y ~") else []) + parts
    if len(mats) != len(texts):
        ctx.fail(f"{f!r} gave {len(mats)} parts for {len(texts)} written parts", rp)
        return
    arr = lambda m_: np.asarray(m_.toarray() if out == "sparse" else m_, dtype=float)
    for text, m_ in zip(texts, mats):
        if text == "y":
            text = "0 + y"
        try:
            alone = model_matrix(text, df, drop_rows=set(dr), output=out)
        except Exception as e:
            ctx.fail(f"separate build of part {text!r} of {f!r}: {type(e).__name__}: {e}", rp)
            continue
        if list(alone.model_spec.column_names) != list(m_.model_spec.column_names):
            ctx.fail(f"part {text!r} of {f!r} has columns {list(m_.model_spec.column_names)}; built alone it has {list(alone.model_spec.column_names)}", rp)
        elif arr(alone).shape != arr(m_).shape or not np.allclose(arr(alone), arr(m_), atol=1e-12, equal_nan=True):
            ctx.fail(f"part {text!r} of {f!r} differs in values from its separate build on the jointly kept rows", rp)
        try:
            again = m_.model_spec.get_model_matrix(df, drop_rows=set(dr))
            if list(again.model_spec.column_names) != list(m_.model_spec.column_names) or not np.allclose(arr(again), arr(m_), atol=1e-12, equal_nan=True):
                ctx.fail(f"the spec of part {text!r} of {f!r} does not regenerate the part", rp)
        except Exception as e:
            ctx.fail(f"the spec of part {text!r} of {f!r} cannot be re-used: {type(e).__name__}: {e}", rp)
        # ... and ALONE on other data: rows of the training data in which one level of A does not occur give the corresponding rows of the
        # part (the part's own spec carries the recorded levels of every factor it encodes, also of factors first encoded for an earlier part)
        try:
            kept = [r for r in range(n) if r not in dr]
            sel = [k for k, r in enumerate(kept) if df["A"].iloc[r] != "z"][: max(2, len(kept) - 1)]
            if sel and "bs(" not in text and "poly(" not in text:
                sub_df = df.iloc[[kept[k] for k in sel]].reset_index(drop=True)
                part_alone = m_.model_spec.get_model_matrix(sub_df)
                if arr(part_alone).shape != arr(m_)[sel, :].shape or not np.allclose(arr(part_alone), arr(m_)[sel, :], atol=1e-12, equal_nan=True):
                    ctx.fail(f"the spec of part {text!r} of {f!r}, re-used alone on the rows {[kept[k] for k in sel]} (level 'z' of A absent), gives "
                             f"{arr(part_alone).tolist()}; these rows of the part are {arr(m_)[sel, :].tolist()}", rp)
        except Exception as e:
            ctx.fail(f"the spec of part {text!r} of {f!r} re-used alone on a row subset: {type(e).__name__}: {e}", rp)
    ctx.count("coded-parts", f"parts={len(parts)}")


def search(ctx: Ctx):
    big = Ctx(ctx.pid, "thorough", ctx.seed + 1)
    big.casedir = ctx.casedir
    big.run_cases = lambda *a, **k: []
    try:
        run(big)
    except Exception as e:
        ctx.notes.append(f"search crashed: {type(e).__name__}: {e}")
    ctx.failures += big.failures
    ctx.oracle_runs += big.oracle_runs
