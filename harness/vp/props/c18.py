"""C18 — materialization is pure and deterministic across calls, histories and hash seeds."""
from __future__ import annotations

import hashlib
import json
import os
import pickle
import subprocess
import sys
import warnings

from ..core import Ctx, clist, REPO, ROOT

ID = "C18"
PROPS = ["props/C18.v"]
COQ_EXTRA = ["model/ShowHist.vo"]
HIMPORTS = ("From Coq Require Import List Arith Bool.\nImport ListNotations.\nRequire Import GenPurity History ShowHist.")
RULE = ("histories of length <= 8 over 4 shared formulas (with stateful transforms and categoricals), un-fitted and fitted specs, spec.update copies and "
        "3 frames: after every operation all earlier specs are fingerprinted, at the end every call is repeated; 6 fixed histories are replayed in "
        "subprocesses under 5 PYTHONHASHSEED values; non-trivial = history with at least two builds through a shared spec; distinct by op list")
EXPLANATION = ("heap model of specs that hold references to their state dictionaries; theorem: after any operation sequence every earlier spec reaches the "
               "same dictionary contents, given that preparing a spec for a build copies both dictionaries -- a fact regenerated from /repo's AST each "
               "run (and refuted for the un-copied regime); the drop set is independent of the iteration order of the hash-ordered factor pool. The "
               "implementation's histories are compared with the model (which earlier specs changed: none) and re-executed call by call; results "
               "are compared across interpreter hash seeds in subprocesses.")
TRUSTED = ["hash-seed independence of CPython itself is observed (subprocesses under 5 seeds), not proved",
           "immutability of the input data/formula is checked by deep snapshots on the implementation (the functional model cannot mutate them)"]
ASSUMPTIONS = ["results are compared as values (matrix bytes, column names, drop sets); dictionary key ORDER inside a spec's state may differ between seeds"]

FORMULAS = ["center(a) + A", "scale(b) + a:A + B", "poly(a, 2) + C(A, contr.sum)", "a + b + A:B", "bs(a, knots=KN, degree=2, extrapolation='extend') + b",
            "a + lag(b) + lag(a, -1)", "np.add(a, OFF) + b", "a + lag(np.asarray(b)) + lag(np.asarray(a), -1)"]
CONTEXT = {"KN": [2.0, 4.0], "unused": {"k": [1, 2, 3]}, "OFF": 1.5}          # user objects reachable from the formula: never written to


def _frames():
    import numpy as np
    import pandas as pd
    out = []
    for k in range(3):
        n = 6 + k
        out.append(pd.DataFrame({"a": [float((i * 7 + k) % 5) + 0.5 * i for i in range(n)], "b": [float((i * 3 + k) % 4) - 1 for i in range(n)],
                                 "A": pd.Series([["x", "y", "z"][(i + k) % 3] for i in range(n)], dtype=object),
                                 "B": pd.Series([["u", "v"][(i * (k + 1)) % 2] for i in range(n)], dtype=object)}))
    out[1].loc[2, "a"] = np.nan
    return out


def _fingerprint(spec):
    """observable state of a spec, by content"""
    def enc(v):
        try:
            return hashlib.sha1(pickle.dumps(v)).hexdigest()[:12]
        except Exception:
            return repr(v)[:60]
    return (tuple(sorted((repr(k), enc(v)) for k, v in spec.transform_state.items())),
            tuple(sorted((repr(k), repr(v[0]), enc(sorted(map(repr, v[1].get("categories", []))) if isinstance(v[1], dict) else v[1])) for k, v in spec.encoder_state.items())),
            None if spec.structure is None else tuple(tuple(r.columns) for r in spec.structure))


def _matrix_key(mm):
    import numpy as np
    a = np.asarray(mm, dtype=float)
    return (a.shape, a.tobytes(), tuple(mm.model_spec.column_names))


def _history(ctx: Ctx, rng):
    from formulaic import Formula, ModelSpec
    warnings.simplefilter("ignore")
    frames = _frames()
    import numpy as np
    snap = [f.copy(deep=True) for f in frames]
    arrays = [(f["a"].to_numpy().copy(), f["b"].to_numpy().copy()) for f in frames]
    specs, calls, ops_lit, changed_lit, ops_d = [], [], [], [], []
    import copy
    context = copy.deepcopy(CONTEXT)
    formulas = [Formula(f) for f in FORMULAS]
    fsnap = [repr(f) for f in formulas]
    for step in range(rng.randint(2, 8)):
        before = [_fingerprint(s) for s in specs]
        r = rng.random()
        if not specs or r < 0.25:
            k = rng.randrange(len(formulas))
            specs.append(ModelSpec(formula=formulas[k]))
            ops_lit.append("HNew")
            ops_d.append(("new", k))
        elif r < 0.4:
            s = rng.randrange(len(specs))
            specs.append(specs[s].update(output=rng.choice(["pandas", "numpy"])))
            ops_lit.append(f"(HUpdate {s})")
            ops_d.append(("update", s))
        else:
            s = rng.randrange(len(specs))
            d = rng.randrange(len(frames))
            try:
                mm = specs[s].get_model_matrix(frames[d], context=context)
            except Exception as e:
                ctx.fail(f"history step {ops_d + [('build', s, d)]}: {type(e).__name__}: {e}", {"kind": "history", "ops": ops_d})
                return
            calls.append((s, d, _matrix_key(mm)))
            specs.append(mm.model_spec)
            ops_lit.append(f"(HBuild {s} [1])")
            ops_d.append(("build", s, d))
        after = [_fingerprint(s) for s in specs[:len(before)]]
        ch = [i for i, (x, y) in enumerate(zip(before, after)) if x != y]
        changed_lit.append(clist(str(i) for i in ch))
        ctx.oracle_runs += 1
        if ch:
            ctx.fail(f"operation {ops_d[-1]} changed the state of earlier spec(s) {ch}", {"kind": "history", "ops": ops_d})
    # derived specs: metadata of a spec obtained by update()/subset() describes THAT spec, whatever was read from its parent before
    for k, sp in enumerate(list(specs)):
        if sp.structure is None:
            continue
        ctx.oracle_runs += 1
        try:
            _ = (sp.column_names, sp.term_indices, sp.variable_indices)          # fill the parent's caches
            terms = list(sp.formula)
            keep = terms[1:] if len(terms) > 1 else terms
            sub = sp.subset(keep)
            d = rng.randrange(len(frames))
            mm = sub.get_model_matrix(frames[d], context=context)
            got_names = list(mm.model_spec.column_names)
            arr = np.asarray(mm, dtype=float)
            if len(got_names) != arr.shape[1] or list(sub.column_names) != got_names:
                ctx.fail(f"a subset of spec {k} reports columns {got_names} / {list(sub.column_names)} for a matrix with {arr.shape[1]} columns", {"kind": "history", "ops": ops_d})
            want_names = [c for row in sp.structure if row.term in keep for c in row.columns]
            if got_names != want_names:
                ctx.fail(f"a subset of spec {k} to {keep} has columns {got_names}, the parent's columns for these terms are {want_names}", {"kind": "history", "ops": ops_d})
            upd = sp.update(output="numpy")
            if list(upd.column_names) != list(sp.column_names):
                ctx.fail(f"update() of spec {k} changed the reported columns", {"kind": "history", "ops": ops_d})
        except Exception as e:
            ctx.fail(f"deriving specs from spec {k}: {type(e).__name__}: {e}", {"kind": "history", "ops": ops_d})
    # repeat every call: bit-identical
    for s, d, key in calls:
        ctx.oracle_runs += 1
        again = _matrix_key(specs[s].get_model_matrix(frames[d], context=context))
        if again != key:
            ctx.fail(f"repeating spec {s} on frame {d} at the end of the history gives a different result", {"kind": "history", "ops": ops_d})
    for f, s_ in zip(frames, snap):
        if not f.equals(s_) or list(f.dtypes) != list(s_.dtypes):
            ctx.fail("a build mutated the input data frame", {"kind": "history", "ops": ops_d})
    for f_, a0 in zip(frames, arrays):
        if not np.array_equal(f_["a"].to_numpy(), a0[0], equal_nan=True) or not np.array_equal(f_["b"].to_numpy(), a0[1], equal_nan=True):
            ctx.fail("a build wrote into the arrays of the input data frame", {"kind": "history", "ops": ops_d})
    if context != CONTEXT:
        ctx.fail(f"a build wrote to an object of the caller's context: {context} (was {CONTEXT})", {"kind": "history", "ops": ops_d})
    if [repr(f) for f in formulas] != fsnap:
        ctx.fail("a build mutated a formula", {"kind": "history", "ops": ops_d})
    nb = sum(1 for o in ops_d if o[0] == "build")
    ctx.count("history", f"builds={nb}")
    if nb >= 2:
        ctx.distinct.add(tuple(ops_d))
    return "{| h_ops := %s; h_changed := %s |}" % (clist(ops_lit), clist(changed_lit)), ops_d


SEED_SCRIPT = r'''
import sys, json, hashlib, warnings
warnings.simplefilter("ignore")
import numpy as np, pandas as pd
from formulaic import model_matrix
n = 9
df = pd.DataFrame({"a": [float((i*7) % 5) + 0.5*i for i in range(n)], "b": [float((i*3) % 4) - 1 for i in range(n)], "c": [1.0 + i for i in range(n)],
                   "A": pd.Series([["x","y","z"][i % 3] for i in range(n)], dtype=object), "B": pd.Series([["u","v"][i % 2] for i in range(n)], dtype=object),
                   "G": pd.Series([["p","q"][(i // 2) % 2] for i in range(n)], dtype=object), "H": pd.Series([["m","n","o","k"][(i * 3) % 4] for i in range(n)], dtype=object)})
df.loc[4, "b"] = np.nan
out = {}
for f in sys.argv[1:]:
    dr = set()
    mm = model_matrix(f, df, drop_rows=dr)
    mats = list(mm) if not hasattr(mm, "shape") else [mm]
    again = [m.model_spec.get_model_matrix(df) for m in mats]
    # derived specs (subset to all but the first term) are part of the result too
    subs = []
    for m in mats:
        try:
            terms = list(m.model_spec.formula)
            sub = m.model_spec.subset(terms[1:] if len(terms) > 2 else terms)
            subs.append([list(sub.column_names), hashlib.sha1(np.asarray(sub.get_model_matrix(df), dtype=float).tobytes()).hexdigest()])
        except Exception as e:
            subs.append([type(e).__name__])
    out[f] = [[list(m.model_spec.column_names), hashlib.sha1(np.asarray(m, dtype=float).tobytes()).hexdigest(), sorted(int(x) for x in dr),
               hashlib.sha1(np.asarray(g, dtype=float).tobytes()).hexdigest(), sb] for m, g, sb in zip(mats, again, subs)]
print(json.dumps(out, sort_keys=True))
'''
SEED_FORMULAS = ["a + b + A + B + a:A + b:B + A:B", "y ~ x".replace("y", "c").replace("x", "center(a) + scale(b) + A:B + poly(c, 2)"),
                 "b:a:A + B:A + a + c:B + A", "bs(a, df=4) + C(A, contr.helmert):b | B + c", "(a + b + c + A + B)**2", "cr(c, df=3) + hashed(A, levels=5) + b",
                 # interactions of three and four categorical factors: the rank-reduction recombines equally long scoped terms, ties broken by insertion order
                 "a + A:B:G", "0 + G:A:B + a:B", "A:B:G:H + A:B", "(A + B + G)**3 | a:A:B:G", "H:G:B:A:a + G"]


def _hash_seeds(ctx: Ctx):
    env = dict(os.environ, PYTHONPATH=str(REPO))
    seeds = ["0", "1", "7", "123", "4242"] if not ctx.thorough else [str(s) for s in range(12)]
    results = {}
    for sd in seeds:
        env["PYTHONHASHSEED"] = sd
        p = subprocess.run([sys.executable, "-W", "ignore", "-c", SEED_SCRIPT, *SEED_FORMULAS], env=env, capture_output=True, text=True, timeout=300)
        ctx.oracle_runs += 1
        if p.returncode != 0:
            ctx.fail(f"build under PYTHONHASHSEED={sd} failed: {p.stderr[-300:]}", {"kind": "hashseed", "seed": sd})
            continue
        results[sd] = json.loads(p.stdout.strip().splitlines()[-1])
    base = results.get(seeds[0])
    for sd, r in results.items():
        for f in SEED_FORMULAS:
            if base is not None and r.get(f) != base.get(f):
                ctx.fail(f"results for {f!r} differ between PYTHONHASHSEED={seeds[0]} and {sd}: {base.get(f)} vs {r.get(f)}", {"kind": "hashseed", "formula": f, "seeds": [seeds[0], sd]})
    ctx.count("hashseed", "seeds", len(results))
    ctx.samples.append({"hash seeds": seeds, "formulas": SEED_FORMULAS})


def _rebinding(ctx: Ctx):
    """the meaning of a name is decided by what it is bound to in THIS call: the same callable name bound to a stateful transform in one
    build and to a plain function in another (either order, also a user function named like a built-in transform) -- nothing remembered
    from an earlier build of the process may change a later result"""
    import numpy as np
    from formulaic import model_matrix
    from formulaic.transforms import TRANSFORMS
    rng = ctx.fork("rebinding")
    frames = _frames()
    train, test = frames[0], frames[2]
    mean_a = float(np.mean(train["a"]))

    def plain(v):
        return np.asarray(v, dtype=float) - 1.0
    want = {"stateful": (np.asarray(train["a"]) - mean_a, np.asarray(test["a"]) - mean_a), "plain": (np.asarray(train["a"]) - 1.0, np.asarray(test["a"]) - 1.0)}
    bind = {"stateful": TRANSFORMS["center"], "plain": plain}
    for i in range(ctx.n(24, 200)):
        name = rng.choice(["center", "scale", "fn_%d_%d" % (ctx.seed, i), "tr%d" % i, "np2.shift"])
        order = rng.choice([["stateful", "plain"], ["plain", "stateful"], ["plain", "stateful", "plain"], ["stateful", "plain", "stateful"]])
        if name in ("center", "scale"):
            order = [o for o in order] + ["builtin"]
        hist = []
        for what in order:
            hist.append(what)
            ctx.oracle_runs += 1
            rp = {"kind": "rebinding", "name": name, "bound_to": hist[:]}
            if what == "builtin":
                context, f = {}, f"0 + {name}(a)"
                sd = float(np.std(train["a"], ddof=1))
                w = want["stateful"] if name == "center" else ((np.asarray(train["a"]) - mean_a) / sd, (np.asarray(test["a"]) - mean_a) / sd)
            elif "." in name:
                holder = type("NS", (), {})()
                setattr(holder, name.split(".")[1], bind[what])
                context, f, w = {name.split(".")[0]: holder}, f"0 + {name}(a)", want[what]
            else:
                context, f, w = {name: bind[what]}, f"0 + {name}(a)", want[what]
            try:
                mm = model_matrix(f, train, context=context)
                again = mm.model_spec.get_model_matrix(test, context=context)
                got = (np.asarray(mm, dtype=float)[:, 0], np.asarray(again, dtype=float)[:, 0])
            except Exception as e:
                ctx.fail(f"{f!r} with {name!r} bound in turn to {hist}: {type(e).__name__}: {str(e)[:200]}", rp)
                break
            if not (np.allclose(got[0], w[0], atol=1e-12) and np.allclose(got[1], w[1], atol=1e-12)):
                ctx.fail(f"{f!r} with {name!r} bound in turn to {hist}: the last build gives {got[0].tolist()} / on new data {got[1].tolist()}; "
                         f"the function bound in that call gives {w[0].tolist()} / {w[1].tolist()}", rp)
                break
        ctx.count("rebinding", "name=" + ("builtin-name" if name in ("center", "scale") else "dotted" if "." in name else "fresh"))


def _dot_order(ctx: Ctx):
    """'.' follows the column order of the data of THIS call: frames with the same column names in different orders, built one after the other"""
    import numpy as np
    import pandas as pd
    from formulaic import model_matrix
    rng = ctx.fork("dot-order")
    base = pd.DataFrame({"y": [1.0, 2.0, 3.0, 5.0], "a": [2.0, 1.0, 0.0, 1.0], "b": [0.5, 0.25, 1.0, 2.0], "c": [3.0, 1.0, 4.0, 1.0], "d": [1.0, 0.0, 0.0, 1.0]})
    for i in range(ctx.n(20, 200)):
        cols = rng.sample(list(base.columns), rng.randint(3, 5))
        if "y" not in cols:
            cols[0] = "y"
        hist = []
        for step in range(rng.randint(2, 4)):
            order = cols[:]
            rng.shuffle(order)
            f = rng.choice(["y ~ .", "y ~ . - 1", "y ~ 0 + .", "np.log(y + 1) ~ ."])
            hist.append((f, order))
            ctx.oracle_runs += 1
            try:
                mm = model_matrix(f, base[order])
            except Exception as e:
                ctx.fail(f"builds {hist}: {type(e).__name__}: {e}", {"kind": "dot-order", "history": hist})
                break
            want = ([] if ("- 1" in f or "0 +" in f) else ["Intercept"]) + [c for c in order if c != "y"]
            if list(mm.rhs.columns) != want:
                ctx.fail(f"after the builds {hist[:-1]}, {f!r} on columns {order} gives {list(mm.rhs.columns)}; the data columns in order are {want}",
                         {"kind": "dot-order", "history": hist})
                break
        ctx.count("dot-order", "histories")


def _shared_formula_kinds(ctx: Ctx):
    """one Formula object used for several builds over data in which a column holds text in one frame and numbers in another: every build
    equals the build from the formula's text alone, in any order, and the formula object is left as it was"""
    import numpy as np
    import pandas as pd
    from formulaic import Formula, model_matrix
    rng = ctx.fork("shared-formula")
    frames = {"text": pd.DataFrame({"y": [1.0, 2.0, 3.0, 4.0], "code": pd.Series(["k1", "k2", "k3", "k1"], dtype=object), "x": [0.5, 1.5, 2.5, 3.5]}),
              "int": pd.DataFrame({"y": [1.0, 2.0, 3.0, 4.0], "code": [10, 20, 30, 10], "x": [0.5, 1.5, 2.5, 3.5]}),
              "float": pd.DataFrame({"y": [1.0, 2.0, 3.0, 4.0], "code": [0.25, 0.5, 0.75, 0.25], "x": [0.5, 1.5, 2.5, 3.5]}),
              "category": pd.DataFrame({"y": [1.0, 2.0, 3.0, 4.0], "code": pd.Categorical(["b", "a", "b", "c"]), "x": [0.5, 1.5, 2.5, 3.5]})}
    for i in range(ctx.n(24, 200)):
        text = rng.choice(["y ~ code + x", "code + x", "code:x", "y ~ x + code:x", "0 + code"])
        F = Formula(text)
        before = repr([(repr(t), [(fc.expr, fc.eval_method, fc.kind) for fc in t.factors]) for sf in (F._flatten() if hasattr(F, "_flatten") else [F]) for t in sf])
        hist = []
        for step in range(rng.randint(2, 4)):
            which = rng.choice(list(frames))
            hist.append(which)
            ctx.oracle_runs += 1
            rp = {"kind": "shared-formula", "formula": text, "frames": hist[:]}
            try:
                got = F.get_model_matrix(frames[which])
                want = model_matrix(text, frames[which])
            except Exception as e:
                ctx.fail(f"Formula({text!r}) used in turn on frames with a {hist} column 'code': {type(e).__name__}: {str(e)[:150]}", rp)
                break
            gs = got._flatten() if hasattr(got, "_flatten") else [got]
            ws_ = want._flatten() if hasattr(want, "_flatten") else [want]
            if any(list(g.columns) != list(w.columns) or not np.array_equal(np.asarray(g, dtype=float), np.asarray(w, dtype=float)) for g, w in zip(gs, ws_)):
                ctx.fail(f"Formula({text!r}) used in turn on frames with a {hist} column 'code': the last build has columns {[list(g.columns) for g in gs]}, "
                         f"the same text built alone gives {[list(w.columns) for w in ws_]}", rp)
                break
        after = repr([(repr(t), [(fc.expr, fc.eval_method, fc.kind) for fc in t.factors]) for sf in (F._flatten() if hasattr(F, "_flatten") else [F]) for t in sf])
        if after != before:
            ctx.fail(f"building from Formula({text!r}) on frames {hist} changed the formula object: {before} -> {after}", {"kind": "shared-formula", "formula": text, "frames": hist})
        ctx.count("shared-formula", "histories")


def _shared_contrast_objects(ctx: Ctx):
    """one contrasts object (from the caller's context) used by several builds over columns with different level sets: every build equals the
    build with a fresh object of the same configuration"""
    import numpy as np
    import pandas as pd
    from formulaic import model_matrix
    from formulaic.transforms.contrasts import TreatmentContrasts, SumContrasts, HelmertContrasts, DiffContrasts, PolyContrasts, SASContrasts
    rng = ctx.fork("shared-contrasts")
    makers = [lambda: TreatmentContrasts(base="b"), lambda: TreatmentContrasts(), lambda: SumContrasts(), lambda: HelmertContrasts(scale=True),
              lambda: DiffContrasts(backward=False), lambda: PolyContrasts(), lambda: SASContrasts()]
    level_sets = [["a", "b", "c"], ["b", "c", "d"], ["b", "a"], ["c", "b", "a", "d"], ["b", "x", "y", "z", "w"]]
    fixed = [[["a", "b", "c"], ["b", "c", "d"], ["c", "b", "a"], ["a", "b", "c"]], [["b", "a"], ["a", "b"], ["b", "c"]],
             [["c", "b", "a", "d"], ["a", "b", "c", "d"], ["b", "x", "y", "z"]]]      # equal sizes, the same level at other positions
    plans = [(mk, seq) for mk in makers for seq in fixed] + [(rng.choice(makers), None) for _ in range(ctx.n(20, 300))]
    for mk, seq in plans:
        shared = mk()
        hist = []
        for step in range(len(seq) if seq else rng.randint(2, 4)):
            lv = seq[step] if seq else rng.choice(level_sets)
            hist.append(lv)
            n = 2 * len(lv)
            df = pd.DataFrame({"A": pd.Series([lv[k % len(lv)] for k in range(n)], dtype=object), "x": [float(k) for k in range(n)]})
            f = rng.choice(["C(A, K)", "C(A, K) + x", "0 + C(A, K):x"])
            ctx.oracle_runs += 1
            rp = {"kind": "shared-contrasts", "contrasts": type(shared).__name__, "levels_in_turn": hist[:], "formula": f}
            try:
                got = model_matrix(f, df, context={"K": shared})
                want = model_matrix(f, df, context={"K": mk()})
            except Exception as e:
                ctx.fail(f"{type(shared).__name__} object shared by builds over the level sets {hist}: {type(e).__name__}: {str(e)[:150]}", rp)
                break
            if list(got.columns) != list(want.columns) or not np.allclose(np.asarray(got, dtype=float), np.asarray(want, dtype=float), atol=1e-12):
                ctx.fail(f"{type(shared).__name__} object shared by builds over the level sets {hist}: the last build has columns {list(got.columns)}, "
                         f"a fresh object gives {list(want.columns)} (or other values)", rp)
                break
        ctx.count("shared-contrasts", type(shared).__name__)


def run(ctx: Ctx):
    _shared_contrast_objects(ctx)
    _rebinding(ctx)
    _dot_order(ctx)
    _shared_formula_kinds(ctx)
    rng = ctx.fork("c18")
    lits, descr = [], []
    for i in range(ctx.n(150, 2500)):
        r = _history(ctx, rng)
        if r:
            lits.append(r[0])
            descr.append({"ops": r[1]})
            if i < 2:
                ctx.sample({"ops": r[1]})
    ctx.run_cases("history", HIMPORTS, "", "hcase", "chk_hist", lits, descr, shard=200)
    _hash_seeds(ctx)


def search(ctx: Ctx):
    big = Ctx(ctx.pid, "thorough", ctx.seed + 1)
    big.casedir = ctx.casedir
    big.run_cases = lambda *a, **k: []
    try:
        run(big)
    except Exception as e:
        ctx.notes.append(f"search crashed: {type(e).__name__}: {e}")
    ctx.failures += big.failures
    ctx.oracle_runs += big.oracle_runs
