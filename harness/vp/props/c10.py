"""C10 — model-spec metadata indexes the generated columns truthfully."""
from __future__ import annotations

import warnings

from ..core import Ctx, cstr, clist, copt
from .. import matgen as M

ID = "C10"
PROPS = ["props/C10.v"]
COQ_EXTRA = ["model/ShowMeta.vo", "model/ShowM.vo", "model/ShowR.vo"]
XIMPORTS = ("From Coq Require Import List NArith Bool Arith.\nImport ListNotations.\n"
            "Require Import StrOrder Struct SpecMeta ShowMeta.\nOpen Scope N_scope.")
RULE = ("formulas with interactions whose factors are not in alphabetical order, terms generating zero columns (single-level reduced factors), "
        "multi-column transforms (poly, bs, C with contrasts), literal scalings; three outputs; lookups by Term object, by printed form with the "
        "factors in every order, by column name, by variable; subsets to random term selections; non-trivial = at least one interaction; distinct by formula+frame")
EXPLANATION = ("Gallina model of the metadata derived from `structure` (column_names, column_indices, term_indices with Term identity = sorted factor key, "
               "term_slices, variable_indices); theorems: per-term ranges concatenate to 0..ncols-1 (contiguous, disjoint, ordered, covering); a term "
               "looked up by object or by its printed form in ANY factor order gets the range of its own row; a column name selects a position "
               "carrying that name; the labels of the built matrix are the structure's column entries. The model's answers equal the implementation's "
               "on every accessor; `subset`/`get_term_indices`/`variable_indices` are modelled and proved (subset = parent's names at the parent's positions in the order chosen; "
               "replaying any selection of structure rows gives each term the parent's columns); subsets in shuffled order, with unknown terms and on new data are also checked directly.")
TRUSTED = ["Python dict lookup of a str key in a Term-keyed mapping is modelled as equality of sorted factor keys (hash collisions ignored)",
           "`subset`: names/positions and per-term columns are proved on the models (SubsetLaws, SubsetReplay); the models are tied to the code by the metadata and subsetreplay streams"]
ASSUMPTIONS = ["term lists are duplicate-free (a list specification repeating a term is a recorded finding)"]

FORMULAS = ["B:A + a", "a + A:B:a", "b:a + A", "A + B + A:B", "G:B:A", "0 + A + a:A", "a + poly(b, 2) + A", "bs(a, df=4) + B:A", "C(A, contr.sum):b + a",
            "a:b + b:a:c", "A + G:A", "2:a + b", "c + C(G, contr.helmert) + B", "B:a + A:b + a:b", "a + b + c + a:b:c", "G + G:a", "center(a):A + B",
            "a + np.abs(center(b)) + A:np.abs(center(b))", "np.exp(scale(a)) + b + B", "I(center(a) * 2):B + c", "poly(center(b), 2) + a",
            # factor expressions that themselves contain ':' (printed back-quoted inside a term)
            "`a:b` + b:a", "b:a + `a:b`:A + b", "`a:b`:c + c:b:a", "a + I({0: a}[0]):A", "I(b[0:]) + a + B:I(b[0:])", "a + I({0: a}[0]):I(b[0:]):B", "I(b[0:]):a + c"]


def run(ctx: Ctx):
    import numpy as np
    import pandas as pd
    from formulaic import Formula, model_matrix
    from formulaic.parser.types import Term, Factor
    warnings.simplefilter("ignore")
    rng = ctx.fork("c10")
    lits, descr = [], []
    for i in range(ctx.n(300, 5000)):
        n = rng.randint(5, 9)
        nlev = {c: rng.randint(1, len(lv)) for c, lv in M.CAT.items()}
        df = pd.DataFrame({**{c: [float(rng.choice(M.VALS)) + 0.0625 * k for k in range(n)] for c in M.NUM},
                           **{c: pd.Series([lv[k % nlev[c]] for k in range(n)], dtype=object) for c, lv in M.CAT.items()}})
        df["a:b"] = [float((k * 5) % 7) - 3.0 for k in range(n)]          # a column whose NAME spells an interaction
        if rng.random() < 0.5:
            f = rng.choice(FORMULAS)
        else:
            terms = M.dedupe(M.gen_terms(rng, missing_p=0.0, lit_p=0.15))
            f = M.formula_string(terms)
        out = rng.choice(["pandas", "numpy", "sparse"])
        cluster = rng.choice(["none", "none", "numerical_factors"])
        rp = {"kind": "metadata", "formula": f, "output": out, "levels": nlev, "rows": n, "cluster_by": cluster}
        try:
            mm = model_matrix(f, df, output=out, cluster_by=cluster)
        except Exception as e:
            continue
        ms = mm.model_spec
        ctx.oracle_runs += 1
        if f in FORMULAS:
            # the fixed formulas are plain sums of pairwise different terms: the spec has one term per summand (plus the intercept)
            pieces = f.split(" + ")
            want_n = len(pieces) - 1 if pieces[0] == "0" else len(pieces) + 1
            if len(ms.terms) != want_n or len(ms.structure) != want_n:
                ctx.fail(f"{f!r} has {want_n} different terms; the spec lists {[repr(t) for t in ms.terms]}", rp)
        arr = np.asarray(mm.toarray() if out == "sparse" else mm, dtype=float)
        names = list(ms.column_names)
        # ---- direct oracle
        if out == "pandas" and [str(c) for c in mm.columns] != names:
            ctx.fail(f"column_names {names} differ from the labels {list(mm.columns)}", rp)
        if arr.shape[1] != len(names):
            ctx.fail(f"{len(names)} column names for {arr.shape[1]} columns", rp)
        # in the order in which the terms were materialized (the recorded structure; with cluster_by this is not the formula order)
        flat = [ix for row in ms.structure for ix in ms.term_indices[row.term]]
        for row in ms.structure:
            want_ix = [k for k, c in enumerate(names) if c in row.columns] if len(set(names)) == len(names) else None
            if want_ix is not None and list(ms.term_indices[row.term]) != want_ix:
                ctx.fail(f"term {row.term!r} is given columns {list(ms.term_indices[row.term])}; its columns {list(row.columns)} are at {want_ix}", rp)
        if flat != list(range(arr.shape[1])):
            ctx.fail(f"term index ranges {dict(ms.term_indices)} are not a contiguous ordered partition of 0..{arr.shape[1]-1}", rp)
        rows_lit, look, slices = [], [], []
        for row in ms.structure:
            t = row.term
            facs = [fc.expr for fc in t.factors]
            vars_ = sorted(str(v) for v in ms.term_variables[t])
            rows_lit.append("{| r_factors := %s; r_cols := %s; r_vars := %s |}" % (clist(cstr(x) for x in facs), clist(cstr(c) for c in row.columns), clist(cstr(v) for v in vars_)))
            want = list(ms.term_indices[t])
            orders = [facs, list(reversed(facs)), sorted(facs)]
            if len(facs) > 2:
                p = facs[:]
                rng.shuffle(p)
                orders.append(p)
            for o in orders:
                key = ":".join(repr(Factor(x)) for x in o)       # the printed form: a factor containing ':' is back-quoted
                got = {}
                for nm, fn in (("term_indices", lambda: list(ms.term_indices[key])), ("term_slices", lambda: ms.term_slices[key]),
                               ("get_slice", lambda: ms.get_slice(key)), ("Term", lambda: list(ms.term_indices[Term([Factor(x) for x in o])]))):
                    try:
                        got[nm] = fn()
                    except Exception as e:
                        got[nm] = f"{type(e).__name__}"
                sl = slice(want[0], want[-1] + 1) if want else slice(0, 0)
                if key not in names or key == repr(t):
                    if got["term_indices"] != want or got["Term"] != want or got["term_slices"] != sl or got["get_slice"] != sl:
                        ctx.fail(f"looking up term {key!r} gives {got}; its columns are {want}", rp)
                look.append(f"({clist(cstr(x) for x in o)}, {copt(got['term_indices'] if isinstance(got['term_indices'], list) else None, lambda v: clist(str(k) + '%nat' for k in v))})")
                s_ = got["term_slices"]
                slices.append(f"({clist(cstr(x) for x in o)}, {copt(None if isinstance(s_, str) else (s_.start, s_.stop), lambda v: f'({v[0]}%nat, {v[1]}%nat)')})")
            for c in row.columns:
                if ms.get_slice(c) != slice(names.index(c), names.index(c) + 1) and names.count(c) == 1 and not any(x == c for x in ms.terms):   # (a label that also reads as a term names the term)
                    ctx.fail(f"get_slice({c!r}) does not select column {names.index(c)}", rp)
        cols = [f"({cstr(c)}, {copt(ms.column_indices.get(c), lambda v: str(v) + '%nat')})" for c in names + ["nope"]]
        vlit = []
        # independently of term_variables: a data column is a variable of exactly the terms whose factor expressions mention it
        import re as _re
        for col in df.columns:
            uses = [t for t in ms.terms if any((fc.expr == col) if fc.eval_method.value == "lookup" else
                                               (fc.eval_method.value == "python" and _re.search(r"(?<![\w.])" + _re.escape(col) + r"(?![\w(])", fc.expr)) for fc in t.factors)]
            want_ix = sorted({k for t in uses for k in ms.term_indices[t]})
            got_ix = list(ms.variable_indices.get(col, []))
            if got_ix != want_ix:
                ctx.fail(f"variable_indices[{col!r}] = {got_ix}; the terms mentioning {col!r} ({[repr(t) for t in uses]}) occupy columns {want_ix}", rp)
            for t in ms.terms:
                has = col in {str(x) for x in ms.term_variables[t]}
                if has != (t in uses):
                    ctx.fail(f"term_variables[{t!r}] {'contains' if has else 'lacks'} {col!r}", rp)
        for v, ix in ms.variable_indices.items():
            want = sorted({k for t in ms.terms if str(v) in {str(x) for x in ms.term_variables[t]} for k in ms.term_indices[t]})
            if list(ix) != want:
                ctx.fail(f"variable_indices[{v!r}] = {ix}, the terms using it occupy {want}", rp)
            vlit.append(f"({cstr(str(v))}, {clist(str(k) + '%nat' for k in ix)})")
        # ---- subset regenerates exactly the parent's columns for those terms, in the ORDER CHOSEN (documented), and its own metadata is truthful
        keep = [t for t in ms.terms if rng.random() < 0.6] or list(ms.terms)[:1]
        rng.shuffle(keep)
        chosen_f = [list(t.factors) for t in keep]
        chosen_f = [list(reversed(c)) if rng.random() < 0.3 else c for c in chosen_f]      # a term is its factor SET: any factor order
        absent = rng.random() < 0.12
        if absent:
            chosen_f.insert(rng.randrange(len(chosen_f) + 1), [Factor("zz")])
        chosen = [[fc.expr for fc in c] for c in chosen_f]
        chosen_terms = [Term(c) for c in chosen_f]
        sub_names, getix = None, None
        try:
            getix = [int(k) for k in ms.get_term_indices(Formula(chosen_terms, _ordering="none"))]
        except ValueError:
            pass
        except Exception as e:
            ctx.fail(f"get_term_indices({chosen}): {type(e).__name__}: {e}", rp)
        try:
            sub = ms.subset(Formula(chosen_terms, _ordering="none"))
            sub_names = list(sub.column_names)
        except ValueError:
            sub = None
        except Exception as e:
            sub = None
            ctx.fail(f"subset to {chosen}: {type(e).__name__}: {e}", rp)
        if absent and (sub is not None or getix is not None):
            ctx.fail(f"subset / get_term_indices with the unknown term 'zz' in {chosen} did not raise", rp)
        if not absent and (sub is None or getix is None):
            ctx.fail(f"subset / get_term_indices to the spec's own terms {chosen} raised", rp)
        if sub is not None and not absent:
          try:
            parent_ix = [k for t in keep for k in ms.term_indices[t]]
            if getix != parent_ix:
                ctx.fail(f"get_term_indices({chosen}) = {getix}; the terms occupy {parent_ix} in the order chosen", rp)
            sm = sub.get_model_matrix(df)
            sarr = np.asarray(sm.toarray() if out == "sparse" else sm, dtype=float)
            if sub_names != [names[k] for k in parent_ix] or not np.array_equal(sarr, arr[:, parent_ix], equal_nan=True):
                ctx.fail(f"the spec subset to {keep} has columns {sub_names}; the parent's columns for those terms in that order are {[names[k] for k in parent_ix]} (or the values differ)", rp)
            if out == "pandas" and [str(c) for c in sm.columns] != sub_names:
                ctx.fail(f"subset to {keep}: column_names {sub_names} differ from the labels {list(sm.columns)} of its matrix", rp)
            if list(sub.terms) != list(keep):
                ctx.fail(f"subset to {keep}: its terms are {list(sub.terms)}", rp)
            sflat = [k for t in sub.terms for k in sub.term_indices[t]]
            if sflat != list(range(len(sub_names))):
                ctx.fail(f"subset to {keep}: its term index ranges {dict(sub.term_indices)} are not a contiguous partition in term order", rp)
            for t in sub.terms:
                if [sub_names[k] for k in sub.term_indices[t]] != [names[k] for k in ms.term_indices[t]]:
                    ctx.fail(f"subset to {keep}: term {t!r} indexes columns {[sub_names[k] for k in sub.term_indices[t]]}, in the parent it owns {[names[k] for k in ms.term_indices[t]]}", rp)
            # ... on NEW data as well: the subset carries the recorded state of everything its terms use (nested transforms included)
            new = df.iloc[: max(3, n // 2)].copy()
            for cnum in M.NUM:                       # values from other training rows: inside every recorded bound, another mean
                new[cnum] = list(df[cnum].iloc[::-1][: len(new)])
            pn = ms.get_model_matrix(new)
            sn = sub.get_model_matrix(new)
            pa_ = np.asarray(pn.toarray() if out == "sparse" else pn, dtype=float)
            sa_ = np.asarray(sn.toarray() if out == "sparse" else sn, dtype=float)
            if sa_.shape != pa_[:, parent_ix].shape or not np.allclose(sa_, pa_[:, parent_ix], rtol=1e-12, atol=1e-12, equal_nan=True):
                ctx.fail(f"on new data the spec subset to {keep} differs from the parent's columns {parent_ix} (recorded state lost in the subset)", rp)
          except Exception as e:
            ctx.fail(f"subset to {keep}: {type(e).__name__}: {e}", rp)
        ctx.count("metadata", "subset=" + ("unknown-term" if absent else "reordered" if [repr(t) for t in keep] != [repr(t) for t in ms.terms if t in keep] else "in-order"))
        lit = "{| x_rows := %s; x_names := %s; x_term_lookups := %s; x_slices := %s; x_cols := %s; x_vars := %s; x_chosen := %s; x_subset := %s; x_getix := %s |}" % (
            clist(rows_lit), clist(cstr(c) for c in names), clist(look), clist(slices), clist(cols), clist(vlit),
            clist(clist(cstr(x) for x in c) for c in chosen), copt(sub_names, lambda v: clist(cstr(c) for c in v)),
            copt(getix, lambda v: clist(str(k) + "%nat" for k in v)))
        lits.append(lit)
        descr.append(rp)
        ctx.count("metadata", f"output={out}")
        ctx.count("metadata", f"terms={len(ms.terms)}")
        if any(len(t.factors) > 1 for t in ms.terms):
            ctx.distinct.add((f, tuple(sorted(nlev.items()))))
        if i < 3:
            ctx.sample({"formula": f, "column_names": names, "term_indices": {repr(k): v for k, v in ms.term_indices.items()}})
    ctx.run_cases("metadata", XIMPORTS, "", "xcase", "chk_meta", lits, descr, shard=150)
    _subset_replay_stream(ctx)


def _subset_replay_stream(ctx: Ctx):
    """the replay MODEL on subset specs: a spec subset to shuffled terms of its parent, re-used on the training data or on rows drawn
    from it, gives what the model `replay` computes from the subset's own structure rows and the parent's recorded encoder state"""
    from formulaic import Formula, model_matrix
    from . import c04
    rng = ctx.fork("subset-replay")
    lits, descr = [], []
    n = ctx.n(150, 3000)
    tries = 0
    while len(lits) < n and tries < 10 * n:
        tries += 1
        frame = M.gen_frame(rng, pnull=rng.choice([0, 0, 0.15]), cat_dtypes=("object", "object", "category", "str"))
        terms = M.dedupe(M.gen_terms(rng, missing_p=0.0))
        efr = rng.random() < 0.7
        na = rng.choice(["drop", "drop", "ignore"])
        output = rng.choice(["pandas", "numpy", "sparse"])
        try:
            mm = model_matrix(M.formula_of(terms), frame.to_pandas(), ensure_full_rank=efr, na_action=na, output=output)
        except Exception:
            continue
        ms = mm.model_spec
        keep = [t for t in ms.terms if rng.random() < 0.6] or list(ms.terms)[:1]
        rng.shuffle(keep)
        try:
            sub = ms.subset(Formula(keep, _ordering="none"))
        except Exception as e:
            ctx.fail(f"subset to {keep}: {type(e).__name__}: {e}", {"kind": "subset-replay", "terms": terms})
            continue
        sub_terms = [[(fc.expr, fc.eval_method.value) for fc in t.factors] for t in sub.formula]
        slit = c04.spec_literal(sub, sub_terms, efr, na)
        mode = rng.choice(["same", "subset", "dup", "perm"])
        frame2, ix = c04.derive_frame(rng, frame, mode)
        cd = sorted(set(rng.randrange(frame2.n) for _ in range(rng.choice([0, 0, 1]))))
        exp, kind, det = c04.run_replay(sub, frame2, cd, rng.random() < 0.3)
        lits.append(c04.rcase_literal(slit, frame2, cd, exp))
        descr.append({"train": frame.describe(), "terms": terms, "subset": [repr(t) for t in keep], "ensure_full_rank": efr, "na_action": na, "output": output,
                      "followup": frame2.describe(), "mode": mode, "drop_rows": cd, "implementation": kind})
        ctx.count("subset-replay", "mode=" + mode)
        ctx.count("subset-replay", "outcome=" + kind.split(":")[0])
        ctx.count("subset-replay", f"kept={len(keep)}/{len(ms.terms)}")
        ctx.distinct.add(lits[-1])
    ctx.run_cases("subsetreplay", c04.RIMPORTS, "", "rcase", "chk_replay", lits, descr, shard=150)


def search(ctx: Ctx):
    big = Ctx(ctx.pid, "thorough", ctx.seed + 1)
    big.casedir = ctx.casedir
    big.run_cases = lambda *a, **k: []
    try:
        run(big)
    except Exception as e:
        ctx.notes.append(f"search crashed: {type(e).__name__}: {e}")
    ctx.failures += big.failures
    ctx.oracle_runs += big.oracle_runs
