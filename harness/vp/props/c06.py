"""C06 — missing-data policy removes exactly the right rows, by position, and reports it."""
from __future__ import annotations

import itertools

from ..core import Ctx
from .. import matgen as M

ID = "C06"
PROPS = ["props/C06.v"]
COQ_EXTRA = ["model/ShowM.vo"]
RULE = ("(i) every null pattern over 2 columns x 3 rows (and 3 x 3 in the thorough tier) for three formulas; (ii) random frames with nulls in any "
        "column, index kinds default/string/non-unique/unsorted, three null policies, caller drop sets, three output types; (iii) the same call "
        "through every entry point (top-level function, formula method, model-spec method with and without overrides, structured specs, "
        "materializer method); non-trivial = at least one null or caller-dropped row; distinct by literal")
EXPLANATION = ("Coq: the drop set of the model is exactly caller's set u null positions of evaluated factors, sorted and duplicate-free, independent of "
               "the evaluation order of the factor pool; kept rows are exactly the positions outside it in order; raise iff a null; ignore keeps all; "
               "every call edge between entry points (regenerated from /repo's AST) forwards drop_rows. The model's drop set, row values and error "
               "class must equal the implementation's on every case; the property is also evaluated directly on every entry point.")
TRUSTED = ["modelled, not verified: pandas/numpy null detection (isnull/isnan) on the generated float/object columns; pandas index handling"]
ASSUMPTIONS = ["D is computed from EVALUATED factors (a transform such as center(a) turns one null into an all-null factor and therefore drops every row)"]


def _expected_D(frame, terms, cd, na):
    D = set(cd)
    if na == "drop":
        for t in terms:
            for x, m in t:
                col = frame.num.get(x) if x in frame.num else frame.cat.get(x)
                if m == "lookup" and col is not None:
                    D |= {i for i, v in enumerate(col) if v is None}
    return D


def _has_null(frame, terms):
    return any(v is None for t in terms for x, m in t if m == "lookup" for v in (frame.num.get(x) or frame.cat.get(x) or []))


def _direct(ctx: Ctx, frame, terms, efr, na, cd, output, kind, det, tag=""):
    ctx.oracle_runs += 1
    rp = {"kind": "nulls", "frame": frame.describe(), "terms": terms, "na_action": na, "drop_rows": cd, "output": output, "entry": tag}
    if any(x not in frame.num and x not in frame.cat for t in terms for x, m in t if m == "lookup"):
        return
    nulls = _has_null(frame, terms)
    if na == "raise":
        if nulls and kind != "nullraise":
            ctx.fail(f"raise policy: a factor has a null but the outcome was {kind}", rp)
        if not nulls and kind == "nullraise":
            ctx.fail("raise policy: error although no factor has a null", rp)
        if kind != "ok":
            return
    if kind != "ok":
        ctx.fail(f"unexpected {kind} under na_action={na}", rp)
        return
    D = _expected_D(frame, terms, cd, na)
    kept = [i for i in range(frame.n) if i not in D]
    if det["drop"] != sorted(D):
        ctx.fail(f"the caller's drop set ended as {det['drop']}, rows removed should be {sorted(D)}", rp)
    if det["nrows"] != len(kept):
        ctx.fail(f"the output has {det['nrows']} rows, expected the {len(kept)} rows at positions {kept}", rp)
        return
    mm = det["mm"]
    if output == "pandas" and not str(det.get("route", "")).startswith("narwhals"):
        # (the narwhals materializer is index-agnostic: labels are a notion of the pandas route, as the property says)
        idx = list(det["df"].index)
        if list(mm.index) != [idx[i] for i in kept]:
            ctx.fail(f"index labels of the output are {list(mm.index)}, expected {[idx[i] for i in kept]}", rp)
    # a numeric column that appears alone identifies the rows
    names = det["names"]
    for c in frame.num:
        if c in names and names.count(c) == 1 and [(c, "lookup")] in terms:
            col = det["cols"][names.index(c)]
            want = [frame.num[c][i] for i in kept]
            if col != want:
                ctx.fail(f"column {c!r} holds {col}; the kept input rows hold {want}", rp)


def _entry_points(ctx: Ctx, rng):
    """the same request through every entry point: same rows, same reported set"""
    import pandas as pd
    from formulaic import Formula, ModelSpec, model_matrix
    from formulaic.materializers import PandasMaterializer
    frame = M.gen_frame(rng, nmax=7, pnull=rng.choice([0.15, 0.3]), index_kinds=("default", "string", "nonunique", "unsorted"))
    df = frame.to_pandas()
    names = rng.sample(M.NUM + list(M.CAT), rng.randint(1, 3))
    # factors whose evaluated values are 2-D arrays, dictionaries of columns or wrapped series: nulls are found row-wise in all of them
    def wrap(nm):
        if nm in M.NUM and len({v for v in frame.num[nm] if v is not None}) >= 3 and rng.random() < 0.5:
            return rng.choice(["poly({n}, 2)", "np.log({n}*{n} + 1)", "I({n})", "bs({n}, df=3, degree=1)",
                               "poly(np.log({n}*{n}), 2, raw=True)"]).format(n=nm)      # log(0) = -inf, squared = +inf: infinite, not null
        if nm in M.CAT and rng.random() < 0.3:
            return rng.choice(["C({n})", "C({n}, contr.sum)"]).format(n=nm)
        return nm
    rhs = " + ".join(wrap(nm) for nm in names)
    lhs = rng.choice([n for n in M.NUM])
    cd = sorted(set(rng.randrange(frame.n) for _ in range(rng.choice([0, 1, 2]))))
    terms = [[(x, "lookup")] for x in names]
    D = _expected_D(frame, terms + [[(lhs, "lookup")]], cd, "drop")
    D1 = _expected_D(frame, terms, cd, "drop")
    out = rng.choice(["pandas", "numpy", "sparse"])
    calls = {
        "sugar": (lambda s: model_matrix(rhs, df, drop_rows=s, output=out), D1),
        "formula": (lambda s: Formula(rhs).get_model_matrix(df, drop_rows=s, output=out), D1),
        "formula+override": (lambda s: Formula(rhs).get_model_matrix(df, drop_rows=s, output=out, ensure_full_rank=False), D1),
        "modelspec": (lambda s: ModelSpec(formula=Formula(rhs), output=out).get_model_matrix(df, drop_rows=s), D1),
        "modelspec+override": (lambda s: ModelSpec(formula=Formula(rhs)).get_model_matrix(df, drop_rows=s, output=out), D1),
        "materializer": (lambda s: PandasMaterializer(df).get_model_matrix(rhs, drop_rows=s, output=out), D1),
        "structured": (lambda s: model_matrix(f"{lhs} ~ {rhs}", df, drop_rows=s, output=out), D),
        "modelspecs": (lambda s: ModelSpec.from_spec(Formula(f"{lhs} ~ {rhs}"), output=out).get_model_matrix(df, drop_rows=s), D),
        "modelspecs+override": (lambda s: ModelSpec.from_spec(Formula(f"{lhs} ~ {rhs}")).get_model_matrix(df, drop_rows=s, output=out), D),
    }
    # reuse of a fitted spec
    fitted = model_matrix(rhs, df, output=out).model_spec
    calls["fitted-spec"] = (lambda s: fitted.get_model_matrix(df, drop_rows=s), D1)
    calls["fitted-spec+override"] = (lambda s: fitted.get_model_matrix(df, drop_rows=s, output=out), D1)
    for tag, (fn, want) in calls.items():
        ctx.oracle_runs += 1
        ctx.count("entry-points", tag)
        s = set(cd)
        rp = {"kind": "entry", "entry": tag, "frame": frame.describe(), "rhs": rhs, "lhs": lhs, "drop_rows": cd, "output": out}
        try:
            r = fn(s)
        except Exception as e:
            ctx.fail(f"{tag}: {type(e).__name__}: {e}", rp)
            continue
        mats = list(r) if not hasattr(r, "shape") else [r]
        if sorted(s) != sorted(want):
            ctx.fail(f"{tag}: the caller's drop set ended as {sorted(s)}, expected {sorted(want)}", rp)
        for m_ in mats:
            if m_.shape[0] != frame.n - len(want):
                ctx.fail(f"{tag}: output has {m_.shape[0]} rows, expected {frame.n - len(want)}", rp)
            if out == "pandas":
                idx = list(df.index)
                if list(m_.index) != [idx[i] for i in range(frame.n) if i not in want]:
                    ctx.fail(f"{tag}: index labels not preserved: {list(m_.index)}", rp)
    ctx.distinct.add(("entry", frame.coq(), rhs, tuple(cd)))


def _value_types(ctx: Ctx):
    """factors whose values are supplied by the caller's context in each container type the null handling dispatches on (list, 1-D and 2-D
    numpy arrays, pandas Series, dict of columns), with nulls in several rows next to a data column with its own nulls: exactly the rows
    with a null in some evaluated factor (and the caller's rows) go, and every remaining cell sits in the row it came from"""
    import numpy as np
    import pandas as pd
    from formulaic import model_matrix
    rng = ctx.fork("value-types")
    nan = float("nan")
    for i in range(ctx.n(150, 2500)):
        n = rng.randint(4, 9)
        def col(p):
            return [nan if rng.random() < p else float(rng.randint(-9, 9)) + 100.0 * k for k in range(n)]
        x = col(rng.choice([0, 0.2, 0.4]))
        kind = rng.choice(["list", "array", "array2d", "series", "dict", "intlist"])
        p = rng.choice([0.15, 0.3, 0.5])
        if kind == "list":
            cols = [col(p)]; val = list(cols[0])
        elif kind == "intlist":
            cols = [[float(rng.randint(0, 5)) for _ in range(n)]]; val = [int(v) for v in cols[0]]
        elif kind == "array":
            cols = [col(p)]; val = np.array(cols[0])
        elif kind == "series":
            cols = [col(p)]; val = pd.Series(cols[0])
        elif kind == "array2d":
            cols = [col(p), col(p / 2)]; val = np.array(cols).T.copy()
        else:
            cols = [col(p), col(p / 2)]; val = {"u": list(cols[0]), "v": list(cols[1])}
        na = rng.choice(["drop", "drop", "drop", "raise", "ignore"])
        cd = sorted(set(rng.randrange(n) for _ in range(rng.choice([0, 0, 1, 2]))))
        out = rng.choice(["pandas", "numpy", "sparse"])
        mat = rng.choice(["pandas", "pandas", "narwhals"])
        idx = rng.choice([None, "rev", "dup"])
        df = pd.DataFrame({"x": x}, index=None if idx is None else (list(range(n, 0, -1)) if idx == "rev" else [7] * n))
        rp = {"kind": "value-types", "value": kind, "x": x, "w": cols, "na_action": na, "drop_rows": cd, "output": out, "materializer": mat, "index": idx}
        nulls = sorted(r for r in range(n) if x[r] != x[r] or any(c[r] != c[r] for c in cols))
        ctx.oracle_runs += 1
        ctx.count("value-types", kind)
        dr = set(cd)
        try:
            mm = model_matrix("0 + x + w", df, context={"w": val}, na_action=na, drop_rows=dr, output=out, materializer=mat)
        except ValueError as e:
            if not (na == "raise" and nulls):
                ctx.fail(f"value of type {kind}: {type(e).__name__}: {str(e)[:200]}", rp)
            continue
        except Exception as e:
            ctx.fail(f"value of type {kind}: {type(e).__name__}: {str(e)[:200]}", rp)
            continue
        if na == "raise" and nulls:
            ctx.fail(f"na_action='raise' with nulls in rows {nulls} (value of type {kind}) did not raise", rp)
            continue
        gone = sorted(set(cd) | set(nulls)) if na == "drop" else sorted(cd)
        kept = [r for r in range(n) if r not in gone]
        got = np.asarray(mm.toarray() if out == "sparse" else mm, dtype=float)
        want = np.array([[x[r]] + [c[r] for c in cols] for r in kept], dtype=float).reshape(len(kept), 1 + len(cols))
        if sorted(int(r) for r in dr) != gone:
            ctx.fail(f"value of type {kind}: the drop set ended as {sorted(int(r) for r in dr)}, the rows with a null (or listed by the caller) are {gone}", rp)
        elif got.shape != want.shape or not np.array_equal(got, want, equal_nan=True):
            ctx.fail(f"value of type {kind}: rows {gone} removed, the matrix is {got.tolist()}; the kept rows {kept} of (x, w) are {want.tolist()}", rp)
        elif out == "pandas" and mat == "pandas" and list(mm.index) != [list(df.index)[r] for r in kept]:
            ctx.fail(f"value of type {kind}: index labels {list(mm.index)} are not those of the kept rows", rp)


def run(ctx: Ctx):
    _value_types(ctx)
    rng = ctx.fork("c06")
    lits, descr = [], []
    # (i) exhaustive small null patterns
    ncols, nrows = (3, 3) if ctx.thorough else (2, 3)
    formulas = [[[("a", "lookup")], [("A", "lookup")]], [[("a", "lookup"), ("A", "lookup")]], [[("1", "literal")], [("A", "lookup"), ("b", "lookup")]]]
    base_num = {"a": [1.0, 2.0, 3.0], "b": [0.5, -1.0, 2.0], "c": [4.0, 4.0, 4.0]}
    base_cat = {"A": ["x", "y", "x"], "B": ["u", "v", "v"], "G": ["p", "p", "p"]}
    cols = ["a", "A", "b"][:ncols]
    for pattern in itertools.product([False, True], repeat=ncols * nrows):
        num = {k: list(v) for k, v in base_num.items()}
        cat = {k: list(v) for k, v in base_cat.items()}
        for ci, c in enumerate(cols):
            for r in range(nrows):
                if pattern[ci * nrows + r]:
                    (num if c in num else cat)[c][r] = None
        frame = M.Frame(3, num, cat)
        for terms in formulas:
            na = ["drop", "raise", "ignore"][(sum(pattern) + len(terms)) % 3] if sum(pattern) % 2 else "drop"
            cd = [2] if sum(pattern) % 5 == 0 else []
            exp, kind, det = M.run_build(frame, terms, True, na, cd, "pandas")
            _direct(ctx, frame, terms, True, na, cd, "pandas", kind, det, "exhaustive")
            lit = M.case_literal(frame, terms, True, na, cd, exp)
            lits.append(lit)
            descr.append({"frame": frame.describe(), "terms": terms, "na_action": na, "drop_rows": cd, "implementation": kind})
            ctx.count("exhaustive", "outcome=" + kind.split(":")[0])
            if any(pattern) or cd:
                ctx.distinct.add(lit)
    ctx.run_cases("exhaustive", M.IMPORTS, "", "mcase", "chk_build", lits, descr, shard=150)
    # (ii) random frames
    lits, descr = [], []
    for i in range(ctx.n(500, 8000)):
        frame = M.gen_frame(rng, pnull=rng.choice([0.1, 0.2, 0.35]), index_kinds=("default", "string", "nonunique", "unsorted"),
                            cat_dtypes=("object", "category", "str"))
        terms = M.dedupe(M.gen_terms(rng, missing_p=0.0))
        efr = rng.random() < 0.6
        na = rng.choice(["drop", "drop", "raise", "ignore"])
        cd = sorted(set(rng.randrange(frame.n) for _ in range(rng.choice([0, 0, 1, 2]))))
        output = rng.choice(["pandas", "numpy", "sparse"])
        exp, kind, det = M.run_build(frame, terms, efr, na, cd, output)
        _direct(ctx, frame, terms, efr, na, cd, output, kind, det, "random")
        lit = M.case_literal(frame, terms, efr, na, cd, exp)
        lits.append(lit)
        descr.append({"frame": frame.describe(), "terms": terms, "na_action": na, "drop_rows": cd, "output": output, "implementation": kind})
        ctx.count("random", "outcome=" + kind.split(":")[0])
        ctx.count("random", "index=" + ("default" if frame.index is None else "custom"))
        ctx.distinct.add(lit)
        if i < 3:
            ctx.sample(descr[-1])
    ctx.run_cases("random", M.IMPORTS, "", "mcase", "chk_build", lits, descr, shard=150)
    # (iii) entry points
    for _ in range(ctx.n(120, 2000)):
        _entry_points(ctx, rng)


def search(ctx: Ctx):
    big = Ctx(ctx.pid, "thorough", ctx.seed + 1)
    big.casedir = ctx.casedir
    big.run_cases = lambda *a, **k: []
    try:
        run(big)
    except Exception as e:
        ctx.notes.append(f"search crashed: {type(e).__name__}: {e}")
    ctx.failures += big.failures
    ctx.oracle_runs += big.oracle_runs
