"""C03 — rank reduction yields a structurally full-rank matrix with unchanged span."""
from __future__ import annotations

import itertools
from fractions import Fraction

from ..core import Ctx
from .. import matgen as M

ID = "C03"
PROPS = ["props/C03.v"]
COQ_EXTRA = ["model/ShowM.vo"]
RULE = ("term sets drawn from the subset lattice of interactions over <=3 categorical (1-3 levels) and <=2 numeric factors, in random order, with and "
        "without intercept, literal scalings, cluster_by on/off, every built-in contrast; data = fully crossed design, each cell replicated with "
        "numeric values in general position; exact rank over the rationals; non-trivial = at least one interaction; distinct by (terms, levels)")
EXPLANATION = ("Coq: `_simplify_scoped_terms` preserves the multiset of components (interval semantics over the subset lattice) for every family of "
               "scoped terms, terminates within the stated fuel, and the spans handed to it are component-disjoint from everything emitted before; the "
               "recorded scoped terms of every build are compared with the model; the bridge from components to linear independence (a Kronecker-rank "
               "argument) is not mechanised and is validated by exact-rank computation on the implementation's matrices")
TRUSTED = ["bridge 'component sets <-> column space' argued on paper (DESIGN section 8 C03), validated numerically with exact rational rank",
           "contrast codings other than treatment enter only the rank oracle, not the Coq model"]
ASSUMPTIONS = ["each data variable is encoded by a single factor expression (as the property states)"]


def rank(rows):
    """exact rank of a list of rows of Fractions"""
    m = [list(r) for r in rows]
    rk = 0
    ncol = len(m[0]) if m else 0
    for c in range(ncol):
        piv = next((i for i in range(rk, len(m)) if m[i][c] != 0), None)
        if piv is None:
            continue
        m[rk], m[piv] = m[piv], m[rk]
        pv = m[rk][c]
        m[rk] = [x / pv for x in m[rk]]
        for i in range(len(m)):
            if i != rk and m[i][c] != 0:
                f = m[i][c]
                m[i] = [a - f * b for a, b in zip(m[i], m[rk])]
        rk += 1
        if rk == len(m):
            break
    return rk


PRIMES = [2, 3, 5, 7, 11, 13, 17, 19, 23, 29, 31, 37, 41, 43, 47, 53, 59, 61, 67, 71, 73, 79, 83, 89, 97, 101, 103, 107, 109, 113]


def crossed_frame(rng, cats, nums):
    """fully crossed design over `cats` = {name: levels}; every cell replicated 2^len(nums)+1 times with fresh numeric values"""
    import pandas as pd
    cells = list(itertools.product(*cats.values())) if cats else [()]
    reps = 2 ** len(nums) + 1
    rows = []
    k = 0
    for cell in cells:
        for _ in range(reps):
            row = dict(zip(cats.keys(), cell))
            for nme in nums:
                row[nme] = float(PRIMES[k % len(PRIMES)] + (k // len(PRIMES)) * 127)
                k += 1
            rows.append(row)
    rng.shuffle(rows)
    return pd.DataFrame(rows)


def gen_lattice_terms(rng, cats, nums):
    vars_ = list(cats) + list(nums)
    subsets = [s for r in range(1, len(vars_) + 1) for s in itertools.combinations(vars_, r)]
    k = rng.randint(1, min(6, len(subsets)))
    chosen = rng.sample(subsets, k)
    terms = [list(rng.sample(s, len(s))) for s in chosen]
    return terms


def _rank_oracle(ctx: Ctx, rng, odd=False):
    import numpy as np
    from formulaic import model_matrix
    ncat = rng.randint(0, 3) if not odd else rng.randint(1, 2)
    nnum = rng.randint(0, 2) if ncat else rng.randint(1, 2)
    if odd:
        nnum = max(nnum, 1)
    cats = {c: M.CAT[c][: rng.randint(1, 3) if not odd else rng.randint(2, 3)] for c in sorted(rng.sample(list(M.CAT), ncat))}      # any of the factors, incl. the one whose first level is ''
    nums = M.NUM[:nnum]
    terms = gen_lattice_terms(rng, cats, nums)
    contrast = rng.choice([None, None, "treatment", "sum", "helmert", "diff", "poly", "SAS"])
    intercept = rng.random() < 0.7
    cluster = rng.random() < 0.3

    # some of the variables get names that resemble what the materializer writes itself: another factor's name followed by '-' (the mark
    # of a reduced factor in a scoped term), a level label, an interaction label, the intercept's name
    allv = list(cats) + list(nums)
    rename = {}
    if (odd or rng.random() < 0.3) and len(allv) >= 2:
        for x in rng.sample(allv, rng.randint(1, len(allv))):
            other = rng.choice([v for v in allv if v != x and v not in rename] or [v for v in allv if v != x])
            new = rng.choice([f"{other}-"] * (6 if odd else 1) + [f"{other}-", f"{other}[T.{(cats.get(other) or ['k'])[-1]}]", f"{other}:{x}", f"{other}+", "Intercept", f"{other} ", f"-{other}"])
            if new not in rename.values() and new not in allv:
                rename[x] = new

    def fac(x):
        nm = f"`{rename[x]}`" if x in rename else x
        if x in cats and contrast:
            return f"C({nm}, contr.{contrast})"
        return nm
    rhs = " + ".join(":".join(fac(x) for x in t) for t in terms)
    formula = ("1 + " if intercept else "0 + ") + rhs
    df = crossed_frame(rng, cats, nums).rename(columns=rename)
    ctx.count("rank-oracle", "odd-names=" + ("yes" if rename else "no"))
    rp = {"kind": "rank", "formula": formula, "levels": cats, "numeric": nums, "cluster_by": cluster, "rows": len(df)}
    ctx.oracle_runs += 1
    kw = {"cluster_by": "numerical_factors"} if cluster else {}
    try:
        R = model_matrix(formula, df, output="numpy", **kw)
        U = model_matrix(formula, df, output="numpy", ensure_full_rank=False, **kw)
    except Exception as e:
        ctx.fail(f"{type(e).__name__} while building {formula!r}: {e}", rp)
        return
    Rf = [[Fraction(float(x)).limit_denominator(10 ** 9) for x in row] for row in np.asarray(R, dtype=float)]
    Uf = [[Fraction(float(x)).limit_denominator(10 ** 9) for x in row] for row in np.asarray(U, dtype=float)]
    if contrast in ("poly",):
        # irrational codings: rank decided in floating point with a safe tolerance
        rR = int(np.linalg.matrix_rank(np.asarray(R, dtype=float)))
        rU = int(np.linalg.matrix_rank(np.asarray(U, dtype=float)))
        rRU = int(np.linalg.matrix_rank(np.hstack([np.asarray(R, dtype=float), np.asarray(U, dtype=float)])))
    else:
        rR, rU = rank(Rf), rank(Uf)
        rRU = rank([a + b for a, b in zip(Rf, Uf)])
    ncol = len(Rf[0]) if Rf else 0
    ctx.count("rank-oracle", f"contrast={contrast}")
    ctx.count("rank-oracle", f"cols={min(ncol // 5 * 5, 40)}")
    if rR != ncol:
        ctx.fail(f"reduced matrix of {formula!r} has {ncol} columns but rank {rR}", rp)
    elif not (rR == rU == rRU):
        ctx.fail(f"column space changed by rank reduction for {formula!r}: rank(R)={rR}, rank(U)={rU}, rank([R|U])={rRU}", rp)
    if len(terms) >= 2:
        ctx.distinct.add((formula, tuple(sorted((k, tuple(v)) for k, v in cats.items()))))


def run(ctx: Ctx):
    rng = ctx.fork("c03")
    # (1) structure correspondence: recorded scoped terms of the implementation vs the model
    lits, descr = [], []
    for i in range(ctx.n(500, 8000)):
        frame = M.gen_frame(rng, nmax=6, pnull=rng.choice([0, 0, 0.1]), cat_dtypes=("object", "category"))
        ncat = rng.randint(0, 3)
        cats = sorted(rng.sample(list(M.CAT), ncat))
        nums = M.NUM[: rng.randint(0, 2)] or (["a"] if not cats else [])
        terms = [[(x, "lookup") for x in t] for t in gen_lattice_terms(rng, {c: None for c in cats}, nums)]
        if rng.random() < 0.7:
            terms.insert(0, [("1", "literal")])
        if rng.random() < 0.2:
            t = rng.choice(terms)
            t.insert(rng.randrange(len(t) + 1), (rng.choice(["2", "0.5"]), "literal"))
        exp, kind, det = M.run_build(frame, terms, True, "drop", [], "pandas")
        lit = M.case_literal(frame, terms, True, "drop", [], exp)
        lits.append(lit)
        descr.append({"frame": frame.describe(), "terms": terms, "implementation": kind})
        ctx.count("structure", "outcome=" + kind.split(":")[0])
        ctx.count("structure", f"terms={len(terms)}")
        if i < 2 and kind == "ok":
            ctx.sample({"terms": terms, "structure": [[repr(st) for st in s.scoped_terms] for s in det["mm"].model_spec.structure]})
    ctx.run_cases("structure", M.IMPORTS, "", "mcase", "chk_build", lits, descr, shard=150)
    # (2) exact-rank oracle on the implementation
    for _ in range(ctx.n(250, 4000)):
        _rank_oracle(ctx, rng)
    for _ in range(ctx.n(120, 1500)):
        _rank_oracle(ctx, rng, odd=True)
    ctx.samples.append({"rank_oracle": "R = reduced, U = unreduced build on a fully crossed frame; require rank(R)=ncols(R)=rank(U)=rank([R|U])"})


def search(ctx: Ctx):
    rng = ctx.fork("search")
    for _ in range(3000):
        _rank_oracle(ctx, rng)
