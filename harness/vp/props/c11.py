"""C11 — built-in contrast codings are valid and standard for every level count."""
from __future__ import annotations

import warnings
from fractions import Fraction

from ..core import Ctx, clist

ID = "C11"
PROPS = ["props/C11.v"]
COQ_EXTRA = ["model/ShowContr.vo", "model/ShowPoly.vo"]
KIMPORTS = ("From Coq Require Import List ZArith Bool Arith.\nImport ListNotations.\nRequire Import Contrasts ShowContr.\nOpen Scope nat_scope.")
PIMPORTS = ("From Coq Require Import List ZArith QArith Qcanon Bool Arith.\nImport ListNotations.\nRequire Import Poly ShowPoly.\nOpen Scope nat_scope.")
RULE = ("every built-in contrast and option (treatment with every base, SAS, sum, Helmert reverse/forward x scaled/unscaled, difference backward/forward, "
        "polynomial with default and explicit dyadic scores) for every n in 1..12 (quick) / 1..40 (thorough; polynomial up to 12) with str, int and "
        "shuffled-order level labels; data vectors over 0..6 levels with absent levels, nulls and values outside the level list, three outputs, "
        "reduced and full rank, with and without recorded state; non-trivial = n >= 3; distinct by (contrast, options, n) / data vector")
EXPLANATION = ("Coq: entry-wise definitions of every coding matrix for symbolic n; theorems for every n: columns sum to zero (sum, Helmert x4, difference x2, "
               "polynomial), K.[1|C] = I with the textbook K (treatment any base, sum, difference), Helmert columns orthogonal with the stated norms, the "
               "polynomial basis is the orthogonal monic family with unit columns, the full coding is the identity, indicator x coding = row selection. "
               "Model = implementation: every coding matrix cell (exact, or within 2^-40 / 2^-24 for divided columns / polynomials), every encoded row. "
               "Directly on the implementation: shape, rank, coefficient matrix = inverse and = textbook contrast, dense = sparse, independent R-style "
               "constructions (contr.treatment/SAS/sum/helmert/poly, MASS contr.sdif), names / drop field / spans_intercept, C(x, contr...) in model_matrix.")
TRUSTED = ["numpy/scipy linear algebra (inv, matmul, sqrt) is observed, not modelled: the implementation's inverse is compared with the proved textbook "
           "coefficient matrix within 1e-9", "pandas.Categorical / get_dummies produce the indicator matrix of the level list (checked against an "
           "independent indicator construction on every case)"]
ASSUMPTIONS = ["polynomial scores are distinct (otherwise a norm is zero and the implementation divides by zero, as R's contr.poly refuses)"]


def fq(x):
    f = Fraction(float(x))
    return f"(({f.numerator})%Z, {f.denominator}%positive)"


def labels(kind, n, rng):
    # level labels include the falsy ones: '' and 0 are ordinary levels (and ordinary reference levels)
    if kind == "str":
        lv = [f"l{i:02d}" for i in range(n)]
        if n and rng.random() < 0.3:
            lv[rng.randrange(n)] = ""
        return lv
    if kind == "int":
        off = rng.choice([3, 0, -10])
        return [10 * i + off for i in range(n)]
    lv = [f"l{i:02d}" for i in range(n)]
    rng.shuffle(lv)
    return lv


def r_reference(kind, n, scores=None):
    """independent R / textbook constructions, exact fractions (polynomial: floats)"""
    F = Fraction
    if kind[0] == "treatment":
        b = kind[1]
        return [[F(int(r == c + (c >= b))) for c in range(n - 1)] for r in range(n)]
    if kind[0] == "sas":
        return [[F(int(r == c)) for c in range(n - 1)] for r in range(n)]
    if kind[0] == "sum":
        return [[F(-1) if r == n - 1 else F(int(r == c)) for c in range(n - 1)] for r in range(n)]
    if kind[0] == "helmert":
        _, reverse, scale = kind
        out = [[F(0)] * (n - 1) for _ in range(n)]
        for j in range(n - 1):
            if reverse:   # R contr.helmert: column j: -1 for the first j+1 levels, j+1 for the next
                for r in range(j + 1):
                    out[r][j] = F(-1)
                out[j + 1][j] = F(j + 1)
                d = j + 2
            else:         # level j against the mean of the following ones
                out[j][j] = F(n - j - 1)
                for r in range(j + 1, n):
                    out[r][j] = F(-1)
                d = n - j
            if scale:
                for r in range(n):
                    out[r][j] /= d
        return out
    if kind[0] == "diff":   # MASS::contr.sdif, negated for forward
        sgn = 1 if kind[1] else -1
        return [[sgn * (F(c + 1, n) - (1 if r <= c else 0)) for c in range(n - 1)] for r in range(n)]
    raise ValueError(kind)


def textbook_K(kind, n):
    """rows = what each coefficient estimates, as weights on the level means"""
    F = Fraction
    e = lambda i: [F(int(k == i)) for k in range(n)]
    mean = lambda idx: [F(int(k in idx), len(idx)) for k in range(n)]
    sub = lambda a, b: [x - y for x, y in zip(a, b)]
    scl = lambda a, s: [x * s for x in a]
    if kind[0] in ("treatment", "sas"):
        b = kind[1] if kind[0] == "treatment" else n - 1
        return [e(b)] + [sub(e(l), e(b)) for l in range(n) if l != b]
    if kind[0] == "sum":
        return [mean(range(n))] + [sub(e(j), mean(range(n))) for j in range(n - 1)]
    if kind[0] == "diff":
        if kind[1]:
            return [mean(range(n))] + [sub(e(j + 1), e(j)) for j in range(n - 1)]
        return [mean(range(n))] + [sub(e(j), e(j + 1)) for j in range(n - 1)]
    if kind[0] == "helmert":
        _, reverse, scale = kind
        rows = [mean(range(n))]
        for j in range(n - 1):
            if reverse:
                row = sub(e(j + 1), mean(range(j + 1)))
                d = j + 2
            else:
                row = sub(e(j), mean(range(j + 1, n)))
                d = n - j
            rows.append(row if scale else scl(row, F(1, d)))
        return rows
    raise ValueError(kind)


def make(kind, lv):
    from formulaic.transforms import contrasts as C
    if kind[0] == "treatment":
        return C.TreatmentContrasts(base=lv[kind[1]]) if kind[2] else C.TreatmentContrasts()
    if kind[0] == "sas":
        return C.SASContrasts()
    if kind[0] == "sum":
        return C.SumContrasts()
    if kind[0] == "helmert":
        return C.HelmertContrasts(reverse=kind[1], scale=kind[2])
    if kind[0] == "diff":
        return C.DiffContrasts(backward=kind[1])
    if kind[0] == "poly":
        return C.PolyContrasts(scores=kind[1])
    raise ValueError(kind)


def coq_kind(kind, n):
    b = lambda x: "true" if x else "false"
    if kind[0] == "treatment":
        return f"(KTreatment {kind[1]})"
    if kind[0] == "sas":
        return "KSas"
    if kind[0] == "sum":
        return "KSum"
    if kind[0] == "helmert":
        return f"(KHelmert {b(kind[1])} {b(kind[2])})"
    return f"(KDiff {b(kind[1])})"


def rank_exact(rows):
    m = [list(r) for r in rows]
    rk, ncols = 0, len(m[0]) if m else 0
    for c in range(ncols):
        p = next((i for i in range(rk, len(m)) if m[i][c] != 0), None)
        if p is None:
            continue
        m[rk], m[p] = m[p], m[rk]
        for i in range(len(m)):
            if i != rk and m[i][c] != 0:
                f = m[i][c] / m[rk][c]
                m[i] = [a - f * b for a, b in zip(m[i], m[rk])]
        rk += 1
    return rk


def kinds_for(n):
    ks = [("treatment", 0, False)] + [("treatment", b, True) for b in range(n)] + [("sas",), ("sum",)]
    ks += [("helmert", r, s) for r in (True, False) for s in (False, True)] + [("diff", True), ("diff", False)]
    return ks


def check_matrix(ctx, kind, n, lv, K, klits, kdescr):
    """one (contrast, n): correspondence literal + direct oracle"""
    import numpy as np
    name = f"{kind} n={n}"
    rp = {"kind": "coding", "contrast": list(map(str, kind)), "n": n, "levels": [str(x) for x in lv]}
    ctx.oracle_runs += 1
    try:
        dense = K.get_coding_matrix(lv, reduced_rank=True, sparse=False)
        sp = K.get_coding_matrix(lv, reduced_rank=True, sparse=True)
        full_d = K.get_coding_matrix(lv, reduced_rank=False, sparse=False)
        full_s = K.get_coding_matrix(lv, reduced_rank=False, sparse=True)
        coef = K.get_coefficient_matrix(lv, reduced_rank=True, sparse=False) if n >= 1 else None
    except Exception as e:
        ctx.fail(f"{name}: {type(e).__name__}: {e}", rp)
        return
    A = np.asarray(dense, dtype=float).reshape(n, -1) if n else np.zeros((0, 0))
    if A.shape != (n, n - 1):
        ctx.fail(f"{name}: reduced coding matrix has shape {A.shape}, expected {(n, n - 1)}", rp)
        return
    S = np.asarray(sp.toarray(), dtype=float)
    if S.shape != A.shape or not (S == A).all():
        ctx.fail(f"{name}: dense and sparse coding matrices differ", rp)
    Fd, Fs = np.asarray(full_d, dtype=float), np.asarray(full_s.toarray(), dtype=float)
    if Fd.shape != (n, n) or not (Fd == np.eye(n)).all() or not (Fs == np.eye(n)).all():
        ctx.fail(f"{name}: the full-rank coding is not the identity", rp)
    if kind[0] != "poly":
        klits.append("{| k_kind := %s; k_n := %d; k_cells := %s |}" % (coq_kind(kind, n), n, clist(clist(fq(v) for v in row) for row in A.tolist())))
        kdescr.append(rp)
        ref = r_reference(kind, n)
        exact = [[Fraction(float(v)) for v in row] for row in A.tolist()]
        for r in range(n):
            for c in range(n - 1):
                if abs(exact[r][c] - ref[r][c]) > Fraction(1, 2 ** 40):
                    ctx.fail(f"{name}: cell ({r},{c}) is {float(exact[r][c])}, the standard definition gives {ref[r][c]}", rp)
                    return
        full = [[Fraction(1)] + ref[r] for r in range(n)]
        if rank_exact(full) != n:
            ctx.fail(f"{name}: [1 | coding] is singular", rp)
    else:
        if n >= 1 and np.linalg.matrix_rank(np.hstack([np.ones((n, 1)), A])) != n:
            ctx.fail(f"{name}: [1 | coding] is singular", rp)
        if n >= 2:
            G = A.T @ A
            if not np.allclose(G, np.eye(n - 1), atol=1e-7):
                ctx.fail(f"{name}: polynomial coding columns are not orthonormal (max deviation {abs(G - np.eye(n - 1)).max():.3g})", rp)
    if kind[0] in ("sum", "helmert", "diff", "poly") and n >= 2:
        cs = A.sum(axis=0)
        if not np.allclose(cs, 0, atol=1e-9 * max(1, n)):
            ctx.fail(f"{name}: column sums are {cs.tolist()}, expected zeros", rp)
    if coef is not None:
        Cm = np.asarray(coef, dtype=float)
        X = np.hstack([np.ones((n, 1)), A])
        if Cm.shape != (n, n) or not np.allclose(Cm @ X, np.eye(n), atol=1e-8) or not np.allclose(X @ Cm, np.eye(n), atol=1e-8):
            ctx.fail(f"{name}: the coefficient matrix is not the inverse of [1 | coding]", rp)
        elif kind[0] != "poly":
            Kt = np.array([[float(v) for v in row] for row in textbook_K(kind, n)])
            if not np.allclose(Cm, Kt, atol=1e-9):
                ctx.fail(f"{name}: the coefficient matrix is not the textbook contrast (row {int(abs(Cm - Kt).max(axis=1).argmax())} differs)", rp)
        try:
            cs_ = K.get_coefficient_matrix(lv, reduced_rank=True, sparse=True)
            if n >= 2 and not np.allclose(np.asarray(cs_.toarray(), dtype=float), Cm, atol=1e-8):
                ctx.fail(f"{name}: sparse and dense coefficient matrices differ", rp)
        except Exception as e:
            if n >= 2:
                ctx.fail(f"{name}: sparse coefficient matrix: {type(e).__name__}: {e}", rp)
    # names and metadata
    try:
        names = list(K.get_coding_column_names(lv, reduced_rank=True))
        fnames = list(K.get_coding_column_names(lv, reduced_rank=False))
        if kind[0] == "treatment":
            exp = [l for i, l in enumerate(lv) if i != kind[1]]
            drop = lv[kind[1]]
        elif kind[0] == "sas":
            exp, drop = lv[:-1], lv[-1]
        elif kind[0] == "sum":
            exp, drop = lv[:-1], lv[0]
        elif kind[0] == "helmert":
            exp, drop = (lv[1:] if kind[1] else lv[:-1]), lv[0]
        elif kind[0] == "diff":
            exp, drop = (lv[1:] if kind[1] else lv[:-1]), lv[0]
        else:
            exp, drop = [{1: ".L", 2: ".Q", 3: ".C"}.get(d, f"^{d}") for d in range(1, n)], lv[0]
        if names != list(exp):
            ctx.fail(f"{name}: reduced coding column names {names}, expected {list(exp)}", rp)
        if fnames != list(lv):
            ctx.fail(f"{name}: full coding column names {fnames}, expected the levels", rp)
        if K.get_drop_field(lv, reduced_rank=True) is not None or K.get_drop_field(lv, reduced_rank=False) != drop:
            ctx.fail(f"{name}: drop field {K.get_drop_field(lv, reduced_rank=False)!r}, expected {drop!r} (None when reduced)", rp)
        if K.get_spans_intercept(lv, reduced_rank=True) is not False or K.get_spans_intercept(lv, reduced_rank=False) is not True:
            ctx.fail(f"{name}: spans_intercept must be False for the reduced and True for the full coding", rp)
        if len(K.get_coefficient_row_names(lv, reduced_rank=True)) != n:
            ctx.fail(f"{name}: {len(K.get_coefficient_row_names(lv, reduced_rank=True))} coefficient row names for {n} rows", rp)
    except Exception as e:
        ctx.fail(f"{name}: metadata: {type(e).__name__}: {e}", rp)
    ctx.count("coding", kind[0])
    if n >= 3:
        ctx.distinct.add((tuple(map(str, kind)), n))


def poly_cases(ctx, rng, plits, pdescr):
    import numpy as np
    from formulaic.transforms.contrasts import PolyContrasts
    nmax = 10 if not ctx.thorough else 12
    todo = [(n, None) for n in range(1, nmax + 1)]
    for _ in range(ctx.n(12, 80)):
        n = rng.randint(2, 8)
        sc = rng.sample([x / 4 for x in range(-40, 41)], n)
        if rng.random() < 0.5:
            sc.sort()
        todo.append((n, sc))
    for n, sc in todo:
        lv = labels(rng.choice(["str", "int", "mixed"]), n, rng)
        K = PolyContrasts(scores=sc)
        kind = ("poly", sc)
        check_matrix(ctx, kind, n, lv, K, None, None)
        # model: poly(scores, degree n-1) fitted on the scores; the state is not observable through PolyContrasts, so recompute it with the transform
        from formulaic.transforms.poly import poly
        st = {}
        scores = list(sc) if sc else list(range(n))
        try:
            out = np.asarray(poly(np.array(scores, dtype=float), degree=n - 1, _state=st), dtype=float).reshape(n, n - 1)
            A = np.asarray(K.get_coding_matrix(lv, reduced_rank=True), dtype=float).reshape(n, n - 1)
        except Exception as e:
            ctx.fail(f"poly contrast n={n} scores={sc}: {type(e).__name__}: {e}", {"kind": "coding", "contrast": ["poly", str(sc)], "n": n})
            continue
        if not (out == A).all():
            ctx.fail(f"poly contrast n={n} scores={sc}: the coding matrix is not poly(scores, degree=n-1)", {"kind": "coding", "contrast": ["poly", str(sc)], "n": n})
        al = [st.get("alpha", {}).get(k) for k in range(n - 1)]
        nr = [st.get("norms2", {}).get(k) for k in range(n)]
        if n >= 2 and (None in al or None in nr):
            ctx.fail(f"poly n={n}: recorded state is incomplete: {st}", {"kind": "coding", "contrast": ["poly", str(sc)], "n": n})
            continue
        if n == 1:
            al, nr = [], [float(n)]
            nr = [st.get("norms2", {}).get(0, 1.0)]
        data = clist("Some " + fq(v) for v in scores)
        plits.append("{| pl_train := %s; pl_degree := %d; pl_new := %s; pl_alpha := %s; pl_norms := %s; pl_out := %s |}" % (
            data, n - 1, data, clist(fq(v) for v in al), clist(fq(v) for v in nr), clist("Some " + clist(fq(v) for v in row) for row in A.tolist())))
        pdescr.append({"kind": "coding", "contrast": ["poly", str(sc)], "n": n})
        # R's contr.poly: QR of the centred Vandermonde matrix, columns scaled to unit length, leading coefficient positive
        if n >= 2:
            x = np.array(scores, dtype=float)
            V = np.vander(x - x.mean(), n, increasing=True)
            Q, R = np.linalg.qr(V)
            Z = Q * np.sign(np.diag(R))
            Z = Z[:, 1:] / np.sqrt((Z[:, 1:] ** 2).sum(axis=0))
            if not np.allclose(Z, A, atol=1e-6):
                ctx.fail(f"poly contrast n={n} scores={sc}: differs from the QR construction of R's contr.poly by {abs(Z - A).max():.3g}", {"kind": "coding", "contrast": ["poly", str(sc)], "n": n})


def encode_cases(ctx, rng, elits, edescr):
    import numpy as np
    import pandas as pd
    from formulaic.transforms.contrasts import encode_contrasts
    for i in range(ctx.n(500, 8000)):
        n = rng.choice([0, 1, 1, 2, 2, 3, 3, 4, 5, 6])
        ltype = rng.choice(["str", "int", "mixed"])
        lv = labels(ltype, n, rng)
        ks = kinds_for(n) if n else [("sum",), ("helmert", True, False), ("diff", True), ("treatment", 0, False)]
        kind = rng.choice(ks)
        explicit = ltype == "mixed" or n == 0 or rng.random() < 0.5
        m = rng.randint(0, 9)
        pool = list(lv)
        extra = ("zz" if ltype != "int" else 999)
        data = []
        for _ in range(m):
            r = rng.random()
            if r < 0.12:
                data.append(None)
            elif r < 0.2 and explicit:
                data.append(extra)
            elif pool:
                data.append(rng.choice(pool))
            else:
                data.append(None)
        if not explicit:
            present = sorted({d for d in data if d is not None})
            base_label = lv[kind[1]] if kind[0] == "treatment" and kind[2] and kind[1] < len(lv) else None
            if present != list(lv):      # inferred levels: only the levels present count, in sorted order
                lv = present
                n = len(lv)
                if kind[0] == "treatment":
                    if base_label is not None and base_label in lv:
                        kind = ("treatment", lv.index(base_label), True)
                    else:
                        kind = ("treatment", 0, False)
        if n == 0 and kind[0] == "treatment":
            kind = ("treatment", 0, False)
        idx = [lv.index(d) if d in lv else None for d in data]
        reduced = rng.random() < 0.6
        out = rng.choice(["pandas", "numpy", "sparse"])
        K = make(kind, lv)
        ser = pd.Series(data, dtype=object)
        stored = "object"
        if explicit and rng.random() < 0.35 and all(d is None or d in lv for d in data) and len(set(map(type, lv))) == 1:
            # the data already is a pandas categorical, declaring the SAME categories in ANOTHER order: the explicit level list still decides
            cats = list(lv)
            rng.shuffle(cats)
            ser = pd.Series(pd.Categorical(data, categories=cats))
            stored = "category(shuffled)"
        rp = {"kind": "encode", "contrast": list(map(str, kind)), "levels": [str(x) for x in lv], "explicit_levels": explicit, "stored_as": stored,
              "data": [None if d is None else str(d) for d in data], "reduced_rank": reduced, "output": out}
        ctx.oracle_runs += 1
        try:
            with warnings.catch_warnings():
                warnings.simplefilter("ignore")
                st = {}
                res = encode_contrasts(ser, contrasts=K, levels=list(lv) if explicit else None, reduced_rank=reduced, output=out, _state=st)
        except Exception as e:
            ctx.fail(f"encode_contrasts {rp}: {type(e).__name__}: {e}", rp)
            continue
        raw = getattr(res, "__wrapped__", res)
        arr = np.asarray(raw.toarray() if out == "sparse" else raw, dtype=float)
        arr = arr.reshape(m, -1) if m else arr.reshape(0, arr.shape[1] if arr.ndim == 2 else 0)
        ncol = (n - 1 if reduced else n) if n else 0
        ncol = max(ncol, 0)
        if arr.shape != (m, ncol):
            ctx.fail(f"encode_contrasts {rp}: shape {arr.shape}, expected {(m, ncol)}", rp)
            continue
        if list(st.get("categories", lv)) != list(lv):
            ctx.fail(f"encode_contrasts {rp}: recorded categories {st.get('categories')}, expected {lv}", rp)
        # indicator x coding, with the implementation's own coding matrix
        if n and ncol:
            cm = np.asarray(K.get_coding_matrix(lv, reduced_rank=reduced), dtype=float).reshape(n, ncol)
            ind = np.array([[1.0 if j == k else 0.0 for k in range(n)] for j in idx]).reshape(m, n)
            if not np.allclose(ind @ cm, arr, atol=1e-12):
                ctx.fail(f"encode_contrasts {rp}: the encoding is not indicator x coding matrix", rp)
        md = getattr(res, "__formulaic_metadata__", None)
        if md is not None and n and ncol:
            exp_names = list(K.get_coding_column_names(lv, reduced_rank=reduced))
            if list(md.column_names) != exp_names:
                ctx.fail(f"encode_contrasts {rp}: column names {md.column_names}, expected {exp_names}", rp)
        if kind[0] != "poly":
            elits.append("{| e_kind := %s; e_n := %d; e_reduced := %s; e_data := %s; e_rows := %s |}" % (
                coq_kind(kind, n), n, "true" if reduced else "false", clist("None" if j is None else f"(Some {j})" for j in idx),
                clist(clist(fq(v) for v in row) for row in arr.tolist())))
            edescr.append(rp)
        # replay with the recorded state on new data with an unseen value: same coding, unseen -> zero row
        if n and "categories" in st and rng.random() < 0.4:
            new = [rng.choice(pool + [extra]) for _ in range(4)]
            try:
                with warnings.catch_warnings():
                    warnings.simplefilter("ignore")
                    res2 = encode_contrasts(pd.Series(new, dtype=object), contrasts=K, reduced_rank=reduced, output=out, _state=dict(st))
                raw2 = getattr(res2, "__wrapped__", res2)
                arr2 = np.asarray(raw2.toarray() if out == "sparse" else raw2, dtype=float).reshape(4, -1)
                cm = np.asarray(K.get_coding_matrix(lv, reduced_rank=reduced), dtype=float).reshape(n, ncol)
                want = np.array([cm[lv.index(d)] if d in lv else np.zeros(ncol) for d in new]).reshape(4, ncol)
                if arr2.shape != want.shape or not np.allclose(arr2, want, atol=1e-12):
                    ctx.fail(f"encode_contrasts with recorded categories {lv} on {new}: rows differ from the recorded coding", rp)
            except Exception as e:
                ctx.fail(f"encode_contrasts with recorded state on {new}: {type(e).__name__}: {e}", rp)
        ctx.count("encode", f"{kind[0]} reduced={reduced} out={out}")
        ctx.distinct.add(("enc", tuple(map(str, kind)), tuple(map(str, data)), reduced, out))
        if i < 2:
            ctx.sample(rp)


def formula_cases(ctx, rng):
    """C(x, contr.<name>(...)) through model_matrix: reference level, explicit levels, names"""
    import numpy as np
    import pandas as pd
    from formulaic import model_matrix
    specs = [("contr.treatment", lambda n, lv: ("treatment", 0, False), ""), ("contr.treatment(base={b!r})", None, "T."), ("contr.SAS", lambda n, lv: ("sas",), "T."),
             ("contr.sum", lambda n, lv: ("sum",), "S."), ("contr.helmert", lambda n, lv: ("helmert", True, False), "H."),
             ("contr.helmert(reverse=False, scale=True)", lambda n, lv: ("helmert", False, True), "H."), ("contr.diff", lambda n, lv: ("diff", True), "D."),
             ("contr.diff(backward=False)", lambda n, lv: ("diff", False), "D."), ("contr.poly", lambda n, lv: ("poly", None), "")]
    for i in range(ctx.n(60, 600)):
        n = rng.randint(2, 6)
        lv = [f"l{k}" for k in range(n)]
        rows = rng.randint(n, 12)
        data = lv + [rng.choice(lv) for _ in range(rows - n)]
        rng.shuffle(data)
        df = pd.DataFrame({"x": pd.Series(data, dtype=object), "y": [float(k) for k in range(rows)]})
        text, mk, tag = rng.choice(specs)
        if mk is None:
            b = rng.randrange(n)
            text = text.format(b=lv[b])
            kind = ("treatment", b, True)
        else:
            kind = mk(n, lv)
        explicit = rng.random() < 0.4
        order = list(lv)
        if explicit:
            rng.shuffle(order)
            if kind[0] == "treatment" and kind[2]:
                kind = ("treatment", order.index(lv[kind[1]]), True)
        term = f"C(x, {text}" + (f", levels={order!r})" if explicit else ")")
        rp = {"kind": "formula", "formula": term, "data": data}
        ctx.oracle_runs += 1
        try:
            with warnings.catch_warnings():
                warnings.simplefilter("ignore")
                mm = model_matrix(term, df, output=rng.choice(["pandas", "numpy", "sparse"]))
                mm0 = model_matrix("0 + " + term, df)
        except Exception as e:
            ctx.fail(f"model_matrix({term!r}): {type(e).__name__}: {e}", rp)
            continue
        arr = np.asarray(mm.toarray() if hasattr(mm, "toarray") else mm, dtype=float)
        K = make(kind, order)
        cm = np.asarray(K.get_coding_matrix(order, reduced_rank=True), dtype=float).reshape(n, n - 1)
        want = np.hstack([np.ones((rows, 1)), np.array([cm[order.index(d)] for d in data]).reshape(rows, n - 1)])
        if arr.shape != want.shape or not np.allclose(arr, want, atol=1e-12):
            ctx.fail(f"model_matrix({term!r}): columns are not [1 | indicator x coding] for levels {order}", rp)
        names = list(mm.model_spec.column_names)
        cn = list(K.get_coding_column_names(order, reduced_rank=True))
        fmt = K.get_factor_format(order, reduced_rank=True)
        exp = ["Intercept"] + [fmt.format(name=term, field=c) for c in cn]
        if names != exp:
            ctx.fail(f"model_matrix({term!r}): column names {names}, expected {exp}", rp)
        a0 = np.asarray(mm0, dtype=float)
        want0 = np.array([[1.0 if order.index(d) == k else 0.0 for k in range(n)] for d in data])
        if a0.shape != want0.shape or not (a0 == want0).all():
            ctx.fail(f"model_matrix('0 + {term}'): the full-rank coding is not the indicator matrix of the levels {order}", rp)
        ctx.count("formula", kind[0])


def shared_instance_cases(ctx, rng):
    """one contrast object used for several factors / level lists behaves like a fresh object each time"""
    import numpy as np
    import pandas as pd
    from formulaic import model_matrix
    for i in range(ctx.n(40, 400)):
        n1, n2 = rng.randint(2, 5), rng.randint(2, 5)
        pool = [f"l{k}" for k in range(7)]
        lv1 = sorted(rng.sample(pool, n1))
        lv2 = sorted(rng.sample(pool, n2))
        common = [l for l in lv1 if l in lv2]
        kind = rng.choice([("treatment", 0, False), ("sas",), ("sum",), ("helmert", True, False), ("helmert", False, True), ("diff", True), ("diff", False), ("poly", None)]
                          + ([("treatment", None, True)] if common else []))
        base_label = rng.choice(common) if kind[0] == "treatment" and kind[2] else None
        mk = lambda lv: make(("treatment", lv.index(base_label), True) if base_label is not None else kind, lv)
        shared = mk(lv1)
        rp = {"kind": "shared-instance", "contrast": list(map(str, kind)), "base": base_label, "levels": [lv1, lv2]}
        ctx.oracle_runs += 1
        try:
            for lv in (lv1, lv2, lv1):
                for sparse in (False, True):
                    got = shared.get_coding_matrix(lv, reduced_rank=True, sparse=sparse)
                    want = mk(lv).get_coding_matrix(lv, reduced_rank=True, sparse=sparse)
                    g = np.asarray(got.toarray() if sparse else got, dtype=float)
                    w = np.asarray(want.toarray() if sparse else want, dtype=float)
                    if g.shape != w.shape or not np.allclose(g, w, atol=1e-12):
                        ctx.fail(f"a {kind} object (base {base_label!r}) used for levels {lv1} and then {lv2} gives a different coding for {lv} than a fresh object", rp)
                    if list(shared.get_coding_column_names(lv, reduced_rank=True)) != list(mk(lv).get_coding_column_names(lv, reduced_rank=True)):
                        ctx.fail(f"a shared {kind} object names the columns for {lv} differently from a fresh object", rp)
            # through a formula: one object from the context for two factors
            rows = 8
            df = pd.DataFrame({"x": pd.Series(lv1 + [rng.choice(lv1) for _ in range(rows - n1)] if rows >= n1 else lv1, dtype=object)})
            df["z"] = pd.Series((lv2 * rows)[: len(df)], dtype=object)
            t = mk(lv1)
            out = rng.choice(["pandas", "numpy", "sparse"])
            mm = model_matrix("C(x, t) + C(z, t)", df, context={"t": t}, output=out)
            a = np.asarray(mm.toarray() if out == "sparse" else mm, dtype=float)
            cx = np.asarray(mk(lv1).get_coding_matrix(lv1, reduced_rank=True), dtype=float).reshape(n1, n1 - 1)
            lvz = sorted(set(df["z"]))
            cz = np.asarray(mk(lvz).get_coding_matrix(lvz, reduced_rank=True), dtype=float).reshape(len(lvz), len(lvz) - 1)
            want = np.hstack([np.ones((len(df), 1)), np.array([cx[lv1.index(v)] for v in df["x"]]).reshape(len(df), -1),
                              np.array([cz[lvz.index(v)] for v in df["z"]]).reshape(len(df), -1)])
            if a.shape != want.shape or not np.allclose(a, want, atol=1e-12):
                ctx.fail(f"'C(x, t) + C(z, t)' with one {kind} object t (base {base_label!r}): columns are not [1 | coding of x | coding of z]", rp)
        except Exception as e:
            ctx.fail(f"shared contrast object {kind}: {type(e).__name__}: {e}", rp)
        ctx.count("shared-instance", kind[0])


def run(ctx: Ctx):
    warnings.simplefilter("ignore")
    rng = ctx.fork("c11")
    klits, kdescr, plits, pdescr, elits, edescr = [], [], [], [], [], []
    nmax = 12 if not ctx.thorough else 40
    for n in range(1, nmax + 1):
        for kind in kinds_for(n):
            ltype = rng.choice(["str", "int", "mixed"])
            lv = labels(ltype, n, rng)
            check_matrix(ctx, kind, n, lv, make(kind, lv), klits, kdescr)
    ctx.sample({"coding matrices": f"n=1..{nmax}", "contrasts": [str(k) for k in kinds_for(2)]})
    poly_cases(ctx, rng, plits, pdescr)
    encode_cases(ctx, rng, elits, edescr)
    formula_cases(ctx, rng)
    shared_instance_cases(ctx, rng)
    ctx.run_cases("coding", KIMPORTS, "", "kcase", "chk_contr", klits, kdescr, shard=60)
    ctx.run_cases("polycoding", PIMPORTS, "", "plcase", "chk_poly", plits, pdescr, shard=8)
    ctx.run_cases("encode", KIMPORTS, "", "ecase", "chk_enc", elits, edescr, shard=400)


def search(ctx: Ctx):
    big = Ctx(ctx.pid, "thorough", ctx.seed + 1)
    big.casedir = ctx.casedir
    big.run_cases = lambda *a, **k: []
    try:
        run(big)
    except Exception as e:
        ctx.notes.append(f"search crashed: {type(e).__name__}: {e}")
    ctx.failures += big.failures
    ctx.oracle_runs += big.oracle_runs
