"""C16 — linear-constraint specifications compile to the affine map they express."""
from __future__ import annotations

import warnings
from fractions import Fraction

from ..core import Ctx, cstr, clist
from .. import parsergen as G

ID = "C16"
PROPS = ["props/C16.v"]
COQ_EXTRA = ["model/ShowC.vo"]
CIMPORTS = ("From Coq Require Import List NArith ZArith QArith Qcanon Bool Arith.\nImport ListNotations.\n"
            "Require Import Tok Classify Cons ShowC.\nOpen Scope N_scope.")
RULE = ("1-3 constraints, each an expression tree of depth <= 4 (quick) over three column names, dyadic literals, + - * / parentheses, unary signs, "
        "optional '=' with an expression on the right, 15% with a stray character inserted; given as a string, a list of strings and a mapping; "
        "the affine map is additionally evaluated at n+1 affinely independent points; non-trivial = at least one binary operator; distinct by string")
EXPLANATION = ("Gallina model of the constraint compiler (tokenizer + shunting-yard with the constraint table + ScaledFactor algebra + get_matrix); theorems: "
               "the table equals the regenerated one; for every expression tree the compiled factor set denotes, at every point x, the arithmetic value "
               "of the expression ('l = r' as l - r); the row and constant satisfy A.x - b = that value; products of two variable-bearing factors, "
               "variable-bearing divisors and unknown columns are rejected. Model = implementation (exact rows or error class) on every case; the affine "
               "identity is also evaluated directly on the implementation.")
TRUSTED = ["numeric literals are compared as exact rationals: generated literals are dyadic so that float arithmetic in the implementation is exact",
           "when two sub-expressions fail with different exception classes the implementation's evaluation order (graphlib) decides which one surfaces; "
           "such inputs are compared up to the error class being one of the two"]
ASSUMPTIONS = []

VARS = ["a", "b", "c"]
ECL = {"AttributeError": 1, "TypeError": 3, "ValueError": 4, "KeyError": 6, "ZeroDivisionError": 8, "RuntimeError": 9, "SyntaxError": 10}


def q(x):
    f = Fraction(float(x))
    return f"(qq ({f.numerator}) {f.denominator})"


class Gen:
    def __init__(self, rng):
        self.rng = rng

    def atom(self):
        r = self.rng
        if r.random() < 0.5:
            return r.choice(VARS + (["d"] if r.random() < 0.05 else []))
        return r.choice(["1", "2", "3", "4", "0.5", "2.5", "0", "8", ".25", "16"])

    def expr(self, d):
        r = self.rng
        x = r.random()
        if d <= 0 or x < 0.3:
            return self.atom()
        if x < 0.4:
            return "(" + self.expr(d - 1) + ")"
        if x < 0.47:
            return "(" + r.choice("-+") + self.expr(d - 1) + ")"
        op = r.choice(["+", "-", "+", "-", "*", "*", "/"])
        l, rr = self.expr(d - 1), self.expr(d - 1)
        if op == "/":
            rr = r.choice(["2", "4", "8", "0.5", "2", "4", "(2)", "(1 + 1)", "0", "a", "(4 - 4)", "0.25"])
        if op == "*" and r.random() < 0.7:
            if r.random() < 0.5:
                l = r.choice(["2", "3", "0.5", "4"])
            else:
                rr = r.choice(["2", "3", "0.5", "4"])
        w = r.choice(["", " "])
        if r.random() < 0.12:            # a sign directly after the operator, without parentheses: a + -b, a * -2
            rr = r.choice("-+") + r.choice(["", " "]) + rr
        return l + w + op + w + rr

    def constraint(self, depth):
        r = self.rng
        s = (r.choice(["-", "+", ""]) if r.random() < 0.2 else "") + self.expr(r.randint(0, depth))
        if r.random() < 0.5:
            s += r.choice([" = ", "="]) + (r.choice(["-", "- ", "+"]) if r.random() < 0.25 else "") + self.expr(r.randint(0, depth - 1))
        return s


def _compile(spec, vars_):
    from formulaic.utils.constraints import LinearConstraints
    from formulaic.errors import FormulaSyntaxError
    try:
        lc = LinearConstraints.from_spec(spec, vars_)
        return "ok", lc
    except FormulaSyntaxError as e:
        return "syntax", e
    except Exception as e:
        return type(e).__name__, e


def _py_eval(expr_side, env):
    """independent evaluation of one side of a constraint with exact fractions"""
    import ast as pyast

    def ev(n):
        if isinstance(n, pyast.Expression):
            return ev(n.body)
        if isinstance(n, pyast.BinOp):
            l, r = ev(n.left), ev(n.right)
            if isinstance(n.op, pyast.Add):
                return l + r
            if isinstance(n.op, pyast.Sub):
                return l - r
            if isinstance(n.op, pyast.Mult):
                return l * r
            if isinstance(n.op, pyast.Div):
                return l / r
        if isinstance(n, pyast.UnaryOp):
            return -ev(n.operand) if isinstance(n.op, pyast.USub) else ev(n.operand)
        if isinstance(n, pyast.Name):
            return env[n.id]
        if isinstance(n, pyast.Constant):
            return Fraction(str(n.value)) if not isinstance(n.value, float) else Fraction(n.value)
        raise ValueError(type(n).__name__)
    return ev(pyast.parse(expr_side.strip(), mode="eval"))


def run(ctx: Ctx):
    warnings.simplefilter("ignore")
    rng = ctx.fork("c16")
    g = Gen(rng)
    lits, descr, strings = [], [], []
    depth = 4 if not ctx.thorough else 6
    for i in range(ctx.n(900, 15000)):
        cons = [g.constraint(depth) for _ in range(rng.choice([1, 1, 2, 3]))]
        s = ", ".join(cons)
        mutated = False
        if rng.random() < 0.15:
            k = rng.randrange(len(s) + 1)
            s = s[:k] + rng.choice(list("+-*/=,() ab")) + s[k:]
            mutated = True
        kind, res = _compile(s, VARS)
        if kind == "ok":
            rows = [f"({clist(q(v) for v in res.constraint_matrix[k])}, {q(res.constraint_values[k])})" for k in range(res.constraint_matrix.shape[0])]
            exp = "inl " + clist(rows)
        elif kind == "syntax":
            exp = "inr 0%nat"
        else:
            exp = f"inr {ECL.get(kind, 5)}%nat"
        # two failing nodes of different classes: which surfaces depends on the evaluation order (not modelled)
        ambiguous = kind in ("ZeroDivisionError", "RuntimeError", "KeyError") and sum(1 for t in ("/0", "/ 0", "(4 - 4)", "/a", "/ a", "d") if t in s) + s.count("*") >= 2
        import re as _re
        nondyadic = any((lambda f: f.denominator & (f.denominator - 1))(Fraction(m)) for m in _re.findall(r"(?<![\w.])(?:[0-9]+\.?[0-9]*|\.[0-9]+)(?![\w.])", s))
        if kind == "ok" and not nondyadic:
            # the implementation works in binary64: keep for exact comparison only results that are exact (no rounded quotient)
            try:
                for k_, ctext in enumerate(s.split(",")):
                    lhs_, _, rhs_ = ctext.partition("=")
                    f0 = _py_eval(lhs_, dict.fromkeys(VARS, Fraction(0))) - (_py_eval(rhs_, dict.fromkeys(VARS, Fraction(0))) if rhs_.strip() else 0)
                    if Fraction(float(res.constraint_values[k_])) != -f0:
                        nondyadic = True
                    for j_, v_ in enumerate(VARS):
                        e_ = {w: Fraction(int(w == v_)) for w in VARS}
                        fj = _py_eval(lhs_, e_) - (_py_eval(rhs_, e_) if rhs_.strip() else 0)
                        if Fraction(float(res.constraint_matrix[k_][j_])) != fj - f0:
                            nondyadic = True
            except Exception:
                pass
        if not ambiguous and not nondyadic:
            lits.append("{| c_vars := %s; c_src := %s; c_expect := %s |}" % (clist(cstr(v) for v in VARS), cstr(s), exp))
            descr.append({"spec": s, "implementation": kind})
            strings.append(s)
        ctx.count("compile", "outcome=" + kind)
        if any(o in s for o in "+-*/"):
            ctx.distinct.add(s)
        # ---- direct oracle: A.x - b = lhs(x) - rhs(x) at n+1 affinely independent points, one row per constraint in order
        ctx.oracle_runs += 1
        rp = {"kind": "constraint", "spec": s}
        if kind == "ok" and not mutated:
            A, b = res.constraint_matrix, res.constraint_values
            if A.shape[0] != len(cons):
                ctx.fail(f"{len(cons)} constraints were written but {A.shape[0]} rows returned for {s!r}", rp)
                continue
            pts = [{"a": Fraction(0), "b": Fraction(0), "c": Fraction(0)}] + [{v: Fraction(int(v == w) * 3 + 0) for v in VARS} for w in VARS]
            for k, ctext in enumerate(cons):
                lhs, _, rhs = ctext.partition("=")
                for x in pts:
                    try:
                        want = _py_eval(lhs, x) - (_py_eval(rhs, x) if rhs.strip() else 0)
                    except ZeroDivisionError:
                        want = None
                    if want is None:
                        continue
                    got = sum(Fraction(float(A[k][j])) * x[v] for j, v in enumerate(VARS)) - Fraction(float(b[k]))
                    if got != want:
                        ctx.fail(f"row {k} of {s!r}: A.x - b = {got} but lhs(x) - rhs(x) = {want} at x = {x}", rp)
                        break
            # equivalent specification forms
            kind2, res2 = _compile(cons, VARS)
            if kind2 != "ok" or not (res2.constraint_matrix == A).all() or not (res2.constraint_values == b).all():
                ctx.fail(f"list form of {cons} differs from the string form", rp)
            if all("=" not in c for c in cons) and len(set(cons)) == len(cons):
                vals = [float(rng.choice([0, 1, 2.5])) for _ in cons]
                kind3, res3 = _compile(dict(zip(cons, vals)), VARS)
                if kind3 != "ok" or not (res3.constraint_matrix == A).all() or [Fraction(float(v)) for v in res3.constraint_values] != [Fraction(float(u)) + Fraction(v) for u, v in zip(b, vals)]:
                    ctx.fail(f"mapping form of {cons} with values {vals} differs from the string form plus the values", rp)
        elif kind == "ok" and mutated:
            pass
        elif not mutated and kind == "syntax":
            # every generated specification is well formed: a rejection is a violation. Recorded finding: a sign directly after * or /
            # (the sign's precedence is below the product's, so the product is applied before its right operand exists)
            tags = ["C16-sign-after-mul-div"] if _re.search(r"[*/]\s*[+-]", s) else []
            ctx.fail(f"the well-formed constraint {s!r} is rejected: {str(res).splitlines()[0] if str(res) else res!r}", rp, tags)
        elif not mutated and kind not in ("ZeroDivisionError", "RuntimeError", "KeyError", "SyntaxError"):
            ctx.fail(f"{kind} escaped while compiling the constraint {s!r}", rp)
        if i < 3:
            ctx.sample({"spec": s, "implementation": kind})
    ctx.run_cases("compile", CIMPORTS, G.extra_classes(strings), "ccase", "chk_cons extra", lits, descr, shard=300)


def search(ctx: Ctx):
    big = Ctx(ctx.pid, "thorough", ctx.seed + 1)
    big.casedir = ctx.casedir
    big.run_cases = lambda *a, **k: []
    try:
        run(big)
    except Exception as e:
        ctx.notes.append(f"search crashed: {type(e).__name__}: {e}")
    ctx.failures += big.failures
    ctx.oracle_runs += big.oracle_runs
