"""C14 — any input string is parsed or rejected with the library's parsing error."""
from __future__ import annotations

import itertools

from ..core import Ctx, cstr
from .. import parsergen as G

ID = "C14"
PROPS = ["props/C14.v"]
COQ_EXTRA = ["model/Show.vo"]
RULE = ("grammar-directed formula strings (depth<=3 quick), 20% of them mutated by one insertion/replacement, token soup over a 45-symbol "
        "alphabet, and every string of length<=L over a 20-character alphabet (L=3 quick, 4 thorough); x intercept on/off x feature-flag "
        "subsets x variable lists; non-trivial = at least two tokens; distinct by (string, configuration)")
EXPLANATION = ("theorem C14_no_internal_error_escapes: with MULTISTAGE off, for every string / flags / variable list / classifier the parser model never returns an "
               "internal exception class (every AST the shunting-yard machine returns is well-sorted -- an invariant of the machine under the context rules of "
               "'~' and '|' -- and the evaluator never gets stuck on a well-sorted AST); the complete parsing pipeline (tokenizer, token rewriting, operator resolution, shunting-yard, term algebra, check_terms) is a total "
               "Gallina function whose error type has an explicit constructor for every Python exception class the code can raise; theorems show which "
               "constructors are unreachable for all inputs; the function is evaluated in Coq on every case and must return exactly the implementation's "
               "outcome (term lists or exception class)")
TRUSTED = ["modelled, not verified: Python's ast.parse/ast.unparse and Token.required_variables on Python fragments (oracles passed with each case)",
           "modelled, not verified: regex classes of non-ASCII code points (computed per case with the real patterns)"]
ASSUMPTIONS = ["MULTISTAGE formulas: only acceptance/rejection and the presence of `deps` are modelled, not the nested result",
               "inputs whose Python fragments are nested so deeply that CPython raises RecursionError are out of scope"]

ALPHA20 = list("a10.+-*/:^~|%()[]{}`\"' ")[:24]


def _settings(rng):
    intercept = rng.random() < 0.6
    fl = (rng.random() < 0.85, rng.random() < 0.85, False)
    avail = rng.choice([None, None, ["a", "b", "x"], ["y", "c"]])
    return intercept, fl, avail


def _allowed(ctx: Ctx, s, intercept, fl, avail, kind, exc, stream):
    """Direct oracle for C14 on one input."""
    ctx.oracle_runs += 1
    rp = {"kind": "parse", "formula": s, "include_intercept": intercept, "flags": fl, "available": avail, "observed": kind}
    if kind.startswith("internal:"):
        tags = []
        if kind == "internal:KeyError" and not intercept and "." in s:
            tags.append("C14-dot-without-intercept")
        ctx.fail(f"{kind.split(':')[1]} escaped from parsing {s!r} (include_intercept={intercept}, flags={fl})", rp, tags)
    elif kind == "pysyntax":
        bad, _, _ = G.py_oracles(s)
        if 0 not in bad.values():
            ctx.fail(f"plain SyntaxError for {s!r} although every Python fragment is valid", rp)
    elif kind in ("ok", "multi"):
        d = exc._structure
        if not fl[0] and ("lhs" in d or "rhs" in d):
            ctx.fail(f"two-sided formula accepted with TWOSIDED disabled: {s!r}", rp)
        if not fl[1] and any(isinstance(v, tuple) for v in d.values()):
            ctx.fail(f"multi-part formula accepted with MULTIPART disabled: {s!r}", rp)
        if not fl[2] and ("deps" in d or kind == "multi"):
            ctx.fail(f"multi-stage formula accepted with MULTISTAGE disabled: {s!r}", rp)


def _lifecycle(ctx: Ctx, rng):
    """a parser object keeps rejecting what its CURRENT feature flags disable: after re-configuration, copying and pickling"""
    import copy
    import pickle
    from formulaic.parser import DefaultFormulaParser
    from formulaic.errors import FormulaParsingError
    names = ["twosided", "multipart", "multistage"]
    probes = [("y ~ x", 0), ("x | z", 1), ("y ~ x | z", 0), ("y ~ x | z", 1), ("[y ~ x] ~ z", 2), ("a + b", None), ("~ x", None)]
    for i in range(ctx.n(150, 2000)):
        first = {n for n in names if rng.random() < 0.6}
        final = {n for n in names if rng.random() < 0.5}
        p = DefaultFormulaParser(feature_flags=set(first), include_intercept=rng.random() < 0.7)
        steps = ["new(%s)" % sorted(first)]
        if rng.random() < 0.7:                       # use it, so that caches are filled
            try:
                p.get_terms(rng.choice(["a + b", "y ~ x", "x | z"]))
            except FormulaParsingError:
                pass
            steps.append("use")
        if rng.random() < 0.7:
            p.set_feature_flags(set(final))
            steps.append("set_feature_flags(%s)" % sorted(final))
        else:
            final = first
        how = rng.choice(["none", "pickle", "deepcopy", "copy"])
        if how == "pickle":
            p = pickle.loads(pickle.dumps(p))
        elif how == "deepcopy":
            p = copy.deepcopy(p)
        elif how == "copy":
            p = copy.copy(p)
        steps.append(how)
        fresh = DefaultFormulaParser(feature_flags=set(final), include_intercept=p.include_intercept)
        for s, needs in probes:
            ctx.oracle_runs += 1
            rp = {"kind": "lifecycle", "steps": steps, "formula": s}

            def outcome(q):
                try:
                    return "ok", repr(q.get_terms(s))
                except FormulaParsingError:
                    return "reject", None
                except NotImplementedError:
                    return "internal:NotImplementedError", None
                except Exception as e:
                    return "internal:" + type(e).__name__, None
            got, want = outcome(p), outcome(fresh)
            if got[0].startswith("internal"):
                tags = ["C14-multistage-nested-lhs"] if got[0] == "internal:NotImplementedError" else []
                ctx.fail(f"{got[0].split(':')[1]} escaped from parsing {s!r} after {steps}", rp, tags)
                continue
            if needs is not None and names[needs] not in final and got[0] == "ok":
                ctx.fail(f"{s!r} was accepted although {names[needs].upper()} is disabled (parser history: {steps})", rp)
            elif got != want:
                ctx.fail(f"{s!r}: a parser with history {steps} gives {got}, a fresh parser with flags {sorted(final)} gives {want}", rp)
        ctx.count("lifecycle", how)


def _run_stream(ctx: Ctx, stream, inputs):
    lits, descr, strings = [], [], []
    for s, intercept, fl, avail in inputs:
        out, kind, exc = G.run_impl(s, intercept, fl, avail)
        _allowed(ctx, s, intercept, fl, avail, kind, exc, stream)
        ctx.count(stream, "outcome=" + kind)
        ctx.count(stream, f"len={min(len(s) // 5 * 5, 30)}")
        lits.append(G.case_literal(s, intercept, fl, avail, out))
        descr.append({"formula": s, "include_intercept": intercept, "flags": fl, "available": avail, "implementation": kind})
        strings.append(s)
        if len(s) >= 3:
            ctx.distinct.add((s, intercept, fl, tuple(avail) if avail else None))
    ctx.run_cases(stream, G.IMPORTS, G.extra_classes(strings), "pcase", "chk_parser extra", lits, descr, shard=250)


def run(ctx: Ctx, only=None):
    rng = ctx.fork("c14")
    # 1. grammar trees and mutations
    inputs = []
    for _ in range(ctx.n(900, 12000)):
        s, _info = G.gen_formula(rng, depth=3 if not ctx.thorough else rng.choice([3, 4, 5]), dots=rng.random() < 0.3, mutate=0.3)
        inputs.append((s, *_settings(rng)))
    for i in range(3):
        ctx.sample({"formula": inputs[i][0], "include_intercept": inputs[i][1], "flags": inputs[i][2]})
    _run_stream(ctx, "grammar", inputs)
    # 2. token soup
    inputs = [(G.gen_soup(rng, 10 if not ctx.thorough else 16), *_settings(rng)) for _ in range(ctx.n(700, 12000))]
    _run_stream(ctx, "soup", inputs)
    # 3. every short string
    L = 4 if ctx.thorough else 3
    allshort = ["".join(t) for n in range(0, L + 1) for t in itertools.product(ALPHA20[:20], repeat=n)]
    if not ctx.thorough:
        # quick: every string up to length 2, a fixed-seed sample of length 3
        short = [s for s in allshort if len(s) <= 2] + rng.sample([s for s in allshort if len(s) == 3], 1200)
    else:
        short = [s for s in allshort if len(s) <= 3] + rng.sample([s for s in allshort if len(s) == 4], 30000)
    inputs = [(s, rng.random() < 0.5, (True, True, False), None) for s in short]
    _run_stream(ctx, "short", inputs)
    # 3b. every spelling of an exponent: '**' and '^' accept exactly one positive integer literal
    bases = ["a", "(a+b)", "a:b", "1", "(a)", "a + b"]
    pops = ["**", "^", " ** ", "^ "]
    exps = ["0", "00", "000", "1", "01", "2", "02", "3", "(0)", "(1)", "(2)", "(00)", "1.0", "2.", "0.5", "-1", "+1", "+0", "-0", "1e1", "0x2", "1_0",
            "b", "(a)", "()", "", "2 2", "2**2", "2^0", "0**2", "2 + 1", "(2+1)", "`2`"]
    inputs = [(b + o + e, rng.random() < 0.8, (True, True, False), None) for b in bases for o in pops for e in exps]
    # ... and '.' (a factor that was not lexed from the string) as exponent or base, expanding to no, one or several variables
    for av in (["y", "a"], ["y", "a", "b"], ["y"], ["a"], ["y", "a", "b", "c"], []):
        for lhs in ("y ~ ", "y + a ~ ", "", "a ~ "):
            for body in ("b ** .", "a ^ .", "(a + b)**.", ". ** 2", ".^.", "b ** (.)", "a:(b ** .)", ". ** ."):
                inputs.append((lhs + body, rng.random() < 0.7, (True, True, False), av))
    _run_stream(ctx, "powers", inputs)
    # 3d. Python fragments of unusual shape (callees that are not names, subscripts, lambdas, comprehensions, conditional expressions, keyword
    #     arguments, string literals with operator characters), on either side of '~' and between operators: whatever the variable extraction
    #     or the normalisation makes of them, only the library's error (or SyntaxError for invalid Python) may come out
    frags = ["a[0](b)", "f(a)(b)", "f(a)[0]", "{(lambda: 1)()}", "{a if b else c}", "f(x=[i for i in a])", "f({1:2}[a])", "{a[0](b)}", "f(g(a)(b))",
             "f(a).g(b)", "{a.b.c(d)}", "{-a}", "{not a}", "f(*a, **b)", "{[a, b][0]}", "f(a)(", "{a[}", "f(lambda: a)", "{(a, b)}", "f(a := b)",
             "{a @ b}", "f('~ | +')", "log(`a\\d`)", "f(`a\\n`, b)", "{`x\\y` + 1}", "g(`q\\1`)", "{ x }", "{  a + b }", "{\ta}", "{ {1, 2} }", "{{a}}", "{ {1: a}[1] }", "{ {a} | {b} }", "{ { }", "{ } }", "{ '}' }", "{ {'}': 1} }", "f({a: {b}})", "{{{a}}}", "{f'{a}'}", "{a[1:2]}", "{...}", "{a(b)(c)(d)}", "f(a)()", "{await a}", "{yield}", "{a = b}", "f(a=)", "{1 if}"]
    shapes = ["{0}", "{0} ~ y", "y ~ {0}", "{0} + b", "b:{0}", "({0} + a)**2", "{0} ~ {0}", "{0} | b", "y ~ a | {0}", "{0} ~ .", "-{0}", "a %in% {0}", "{0} {0}"]
    inputs = [(sh.replace("{0}", fr), rng.random() < 0.7, (True, True, False), rng.choice([None, ["a", "b", "y"]])) for fr in frags for sh in shapes]
    _run_stream(ctx, "pyfrag", inputs)
    # 3c. parser objects with a history (re-configured, copied, pickled)
    _lifecycle(ctx, rng)
    # 4. multistage enabled: implementation-side oracle only (the model does not cover nested results)
    for _ in range(ctx.n(200, 3000)):
        s, _ = G.gen_formula(rng, depth=2, mutate=0.3)
        if rng.random() < 0.5:
            i = rng.randrange(len(s) + 1)
            j = rng.randrange(i, len(s) + 1)
            s = s[:i] + "[" + s[i:j] + "]" + s[j:]
        out, kind, exc = G.run_impl(s, True, (True, True, True), None)
        ctx.count("multistage-oracle", "outcome=" + kind)
        ctx.oracle_runs += 1
        if kind.startswith("internal:"):
            tags = ["C14-multistage-nested-lhs"] if kind == "internal:NotImplementedError" else []
            ctx.fail(f"{kind.split(':')[1]} escaped from parsing {s!r} with MULTISTAGE enabled", {"kind": "parse", "formula": s, "flags": "all"}, tags)


def search(ctx: Ctx):
    big = Ctx(ctx.pid, "thorough", ctx.seed + 1)
    big.casedir = ctx.casedir
    big.run_cases = lambda *a, **k: []
    try:
        run(big)
    except Exception as e:
        ctx.notes.append(f"search crashed: {type(e).__name__}: {e}")
    ctx.failures += big.failures
    ctx.oracle_runs += big.oracle_runs
