"""C13 — scaling, polynomial and elementwise transforms meet their numeric contracts."""
from __future__ import annotations

import math
import warnings
from fractions import Fraction

from ..core import Ctx, clist

ID = "C13"
PROPS = ["props/C13.v"]
COQ_EXTRA = ["model/ShowScale.vo", "model/ShowPoly.vo"]
SIMPORTS = ("From Coq Require Import List ZArith QArith Qcanon Bool Arith.\nImport ListNotations.\nRequire Import Poly Scale ShowPoly ShowScale.\nOpen Scope nat_scope.")
RULE = ("dyadic-rational vectors of length 2..12 times 2^k (k in -40..40), with ties; center/scale flags (True, False, explicit number), ddof in "
        "{0, 1, 2, 1/2}; a second call with different flags on a follow-up vector; poly degree 1..5 (thorough 7) with nulls in training and follow-up "
        "data; elementwise functions at integer points (exact) and on random reals; magnitudes 1e-100..1e100 on the implementation only; "
        "non-trivial = at least 3 distinct values; distinct by (vector, options)")
EXPLANATION = ("Coq (exact rationals, numpy.sqrt symbolic): center gives mean zero; scale gives mean zero and unit deviation for the chosen ddof; recorded "
               "keys win over later arguments and are applied unchanged; the code's three-term recurrence with its recorded state is the monic orthogonal "
               "family of the training data (orthogonal, orthogonal to the constant, unit length, unit-triangular in the raw powers), null rows propagate "
               "row-wise; over the reals the regenerated TRANSFORMS table denotes ln / log2 / log10 / exp / 2^x / 10^x and partners are inverses. "
               "Model = implementation on recorded statistics and every output cell (relative 2^-24), exp10/exp2/log10/log2 at integer points (2^-40). "
               "Directly on the implementation: means, deviations, orthonormality, span, null propagation, state replay through model specs, and every "
               "elementwise function against Python's math module.")
TRUSTED = ["numpy.sqrt / numpy.mean / numpy.sum are observed, not modelled (the model keeps the root symbolic and compares squares)",
           "numpy ufuncs log, log2, log10, exp, exp2 compute the function they are named after (checked against Python's math module on every run); "
           "the Coq denotation maps the ufunc NAME recorded by the translator to the real function",
           "binary64 rounding: the exact model is compared within a relative tolerance; overflow beyond ~1e150 (squares) is outside the model"]
ASSUMPTIONS = ["the fitting vector is not constant and has more than `degree` distinct values (otherwise the deviation / a norm is zero and the "
               "implementation divides by zero)"]


def fq(x):
    f = Fraction(float(x))
    return f"(({f.numerator})%Z, {f.denominator}%positive)"


def gflag(v):
    if isinstance(v, bool):
        return "(GBool true)" if v else "(GBool false)"
    return f"(GVal {fq(v)})"


def vec(rng, n, k):
    base = [rng.choice([-8, -5, -3, -2, -1, -0.5, 0, 0.25, 0.5, 1, 1.5, 2, 3, 4, 6, 7, 9, 12]) for _ in range(n)]
    if len(set(base)) < 2:
        base[0] = base[0] + 1
    return [b * (2.0 ** k) for b in base]


def scale_cases(ctx, rng, lits, descr):
    import numpy as np
    from formulaic.transforms.scale import scale, center
    for i in range(ctx.n(400, 6000)):
        n = rng.randint(2, 12)
        k = rng.choice([0, 0, 0, 1, -1, 10, -10, 40, -40])
        xs = vec(rng, n, k)
        ys = vec(rng, rng.randint(1, 6), k)
        cf = rng.choice([True, True, True, False, 0.5 * 2.0 ** k])
        sf = rng.choice([True, True, True, False, 2.0 ** (k + 1), -(2.0 ** k)])
        ddof = rng.choice([1, 1, 1, 0, 2, 0.5])
        cf2 = rng.choice([True, False, 3.0])
        sf2 = rng.choice([True, False, 5.0])
        ddof2 = rng.choice([0, 1, 2])
        use_center = rng.random() < 0.15
        rp = {"kind": "scale", "x": xs, "new": ys, "center": cf, "scale": sf, "ddof": ddof, "second_call": [cf2, sf2, ddof2], "via_center()": use_center}
        st = {}
        ctx.oracle_runs += 1
        try:
            with np.errstate(all="ignore"):
                if use_center:
                    cf, sf, ddof = True, False, 1
                    out = center(np.array(xs), _state=st)
                    out2 = center(np.array(ys), _state=st)
                    cf2, sf2, ddof2 = True, False, 1
                else:
                    out = scale(np.array(xs), center=cf, scale=sf, ddof=ddof, _state=st)
                    out2 = scale(np.array(ys), center=cf2, scale=sf2, ddof=ddof2, _state=st)
        except Exception as e:
            ctx.fail(f"scale {rp}: {type(e).__name__}: {e}", rp)
            continue
        out, out2 = np.asarray(out, dtype=float), np.asarray(out2, dtype=float)
        if not (np.isfinite(out).all() and np.isfinite(out2).all()) or any(v is not None and not np.isfinite(v) for v in (st.get("center"), st.get("scale"))):
            ctx.count("scale", "degenerate (non-finite)")
            continue
        mag = max(abs(v) for v in xs + ys + [1e-300])
        rc, rs = st.get("center"), st.get("scale")
        lits.append("{| sc_train := %s; sc_center := %s; sc_scale := %s; sc_ddof := %s; sc_new := %s; sc_center2 := %s; sc_scale2 := %s; sc_ddof2 := %s; "
                    "sc_mag := %s; sc_rec_center := %s; sc_rec_scale := %s; sc_out := %s; sc_out2 := %s |}" % (
                        clist(map(fq, xs)), gflag(cf), gflag(sf), fq(ddof), clist(map(fq, ys)), gflag(cf2), gflag(sf2), fq(ddof2), fq(mag),
                        "None" if rc is None else f"(Some {fq(rc)})", "None" if rs is None else f"(Some {fq(rs)})",
                        clist(map(fq, out.tolist())), clist(map(fq, out2.tolist()))))
        descr.append(rp)
        # direct oracle on the fitting data
        if cf is True:
            c0 = out * (1.0 if rs is None else float(rs))
            if abs(c0.mean()) > 1e-12 * mag:
                ctx.fail(f"scale {rp}: centred data has mean {c0.mean()}", rp)
        if cf is True and sf is True and n - ddof > 0:
            sd = math.sqrt(float((out ** 2).sum()) / (n - ddof))
            if abs(sd - 1) > 1e-9 or abs(out.mean()) > 1e-9:
                ctx.fail(f"scale {rp}: fitted output has mean {out.mean()} and deviation {sd} (ddof={ddof})", rp)
        # state applied unchanged: the follow-up rows are (y - center) / scale with the RECORDED numbers
        want2 = np.array(ys, dtype=float)
        if rc is not None:
            want2 = want2 - float(rc)
        if rs is not None:
            want2 = want2 / float(rs)
        if not np.allclose(out2, want2, rtol=1e-12, atol=0):
            ctx.fail(f"scale {rp}: the follow-up call did not apply the recorded statistics {st}", rp)
        ctx.count("scale", f"center={cf if isinstance(cf, bool) else 'value'} scale={sf if isinstance(sf, bool) else 'value'} ddof={ddof}")
        if len(set(xs)) >= 3:
            ctx.distinct.add(("scale", tuple(xs), str(cf), str(sf), ddof))
        if i < 2:
            ctx.sample(rp)
    # a large offset relative to the spread: the statistics are those of the centred data (no cancellation)
    for off in (1e4, 1e6, 1e8, 1.7e9, -3e10):
        for n in (3, 5, 12):
            base = [float(rng.choice([0, 0.25, 0.5, 1, 1.5, 2, 3, 5])) + 0.125 * k for k in range(n)]
            xs = np.array([off + b for b in base])
            ctx.oracle_runs += 1
            for ddof in (0, 1):
                st = {}
                o = np.asarray(scale(xs, ddof=ddof, _state=st), dtype=float)
                ref = (np.array(base) - np.mean(base)) / math.sqrt(sum((b - np.mean(base)) ** 2 for b in base) / (n - ddof))
                if not np.isfinite(o).all() or not np.allclose(o, ref, rtol=1e-5, atol=1e-5):
                    ctx.fail(f"scale of {off!r} + {base}: {o.tolist()} instead of {ref.tolist()} (the spread, not the offset, determines the result)",
                             {"kind": "scale", "x": xs.tolist(), "ddof": ddof})
            c = np.asarray(center(xs, _state={}), dtype=float)
            if not np.allclose(c, np.array(base) - np.mean(base), rtol=1e-5, atol=1e-5 * max(1.0, abs(off) * 1e-12)):
                ctx.fail(f"center of {off!r} + {base}: {c.tolist()}", {"kind": "scale", "x": xs.tolist()})
    # magnitudes, 2-D input and sparse input on the implementation only
    import scipy.sparse as sps
    for e in (-100, -30, 0, 30, 100):
        for n in (2, 3, 17):
            xs = np.array([(rng.random() - 0.3) * 10.0 ** e for _ in range(n)])
            ctx.oracle_runs += 1
            for ddof in (0, 1):
                st = {}
                o = np.asarray(scale(xs, ddof=ddof, _state=st), dtype=float)
                sd = math.sqrt(float((o ** 2).sum()) / (n - ddof))
                if not np.isfinite(o).all() or abs(o.mean()) > 1e-9 or abs(sd - 1) > 1e-9:
                    ctx.fail(f"scale at magnitude 1e{e}, n={n}, ddof={ddof}: mean {o.mean()}, deviation {sd}", {"kind": "scale", "x": xs.tolist(), "ddof": ddof})
            two = np.stack([xs, xs[::-1] * 3 + 10.0 ** e], axis=1)
            o2 = np.asarray(scale(two, _state={}), dtype=float)
            o1a, o1b = np.asarray(scale(two[:, 0], _state={}), dtype=float), np.asarray(scale(two[:, 1], _state={}), dtype=float)
            if not (np.allclose(o2[:, 0], o1a, rtol=1e-12) and np.allclose(o2[:, 1], o1b, rtol=1e-12)):
                ctx.fail(f"scale on a 2-column array differs from scaling each column (magnitude 1e{e})", {"kind": "scale", "x": two.tolist()})
            osp = np.asarray(scale(sps.csc_matrix(xs.reshape(-1, 1)), _state={}), dtype=float)
            if not np.allclose(osp, np.asarray(scale(xs, _state={}), dtype=float), rtol=1e-12):
                ctx.fail(f"scale on a sparse column differs from the dense result (magnitude 1e{e})", {"kind": "scale", "x": xs.tolist()})


def poly_cases(ctx, rng, lits, descr):
    import numpy as np
    from formulaic.transforms.poly import poly
    dmax = 5 if not ctx.thorough else 7
    for i in range(ctx.n(120, 1500)):
        degree = rng.randint(1, dmax)
        n = rng.randint(degree + 1, degree + 6)
        k = rng.choice([0, 0, 0, 1, -2, 6, -6])
        pool = [v * 2.0 ** k for v in (-6, -4, -3, -2, -1, -0.5, 0, 0.5, 1, 2, 3, 4, 5, 7, 8, 10)]
        xs = rng.sample(pool, min(n, len(pool)))
        xs += [rng.choice(xs) for _ in range(rng.randint(0, 2))]           # ties
        data = list(xs)
        for _ in range(rng.choice([0, 0, 1, 2])):
            data.insert(rng.randrange(len(data) + 1), None)
        new = [rng.choice(pool + [None, 11 * 2.0 ** k, -9 * 2.0 ** k]) for _ in range(rng.randint(1, 5))]
        rp = {"kind": "poly", "x": data, "degree": degree, "new": new}
        tofl = lambda l: np.array([np.nan if v is None else v for v in l], dtype=float)
        st = {}
        ctx.oracle_runs += 1
        try:
            with np.errstate(all="ignore"):
                out = np.asarray(poly(tofl(data), degree=degree, _state=st), dtype=float)
                out2 = np.asarray(poly(tofl(new), degree=degree, _state=st), dtype=float)
        except Exception as e:
            ctx.fail(f"poly {rp}: {type(e).__name__}: {e}", rp)
            continue
        al = [st["alpha"][j] for j in range(degree)]
        nr = [st["norms2"][j] for j in range(degree + 1)]
        opt = lambda l: clist("None" if v is None else f"(Some {fq(v)})" for v in l)
        rows = lambda a, src: clist("None" if v is None else "(Some " + clist(map(fq, r)) + ")" for v, r in zip(src, a.tolist()))
        ok_rows = all((v is None) == bool(np.isnan(r).all()) and (v is None or np.isfinite(r).all()) for v, r in list(zip(data, out)) + list(zip(new, out2)))
        if not ok_rows:
            ctx.fail(f"poly {rp}: null rows must be null in every column and only those", rp)
            continue
        for src, o in ((data, out), (new, out2)):
            lits.append("{| pl_train := %s; pl_degree := %d; pl_new := %s; pl_alpha := %s; pl_norms := %s; pl_out := %s |}" % (
                opt(data), degree, opt(src), clist(map(fq, al)), clist(map(fq, nr)), rows(o, src)))
            descr.append(rp)
        # direct oracle: orthonormal, orthogonal to the constant, spans the raw powers, nulls do not disturb the other rows
        keep = [j for j, v in enumerate(data) if v is not None]
        A = out[keep]
        G = A.T @ A
        if not np.allclose(G, np.eye(degree), atol=1e-7) or not np.allclose(A.sum(axis=0), 0, atol=1e-7):
            ctx.fail(f"poly {rp}: columns are not orthonormal / not orthogonal to the constant", rp)
        xv = np.array([data[j] for j in keep], dtype=float)
        sc = max(abs(xv).max(), 1e-300)
        raw = np.stack([(xv / sc) ** d for d in range(degree + 1)], axis=1)
        basis = np.hstack([np.ones((len(keep), 1)), A])
        res = raw - basis @ np.linalg.lstsq(basis, raw, rcond=None)[0]
        if abs(res).max() > 1e-7:
            ctx.fail(f"poly {rp}: the raw powers are not in the span of [1 | poly] (residual {abs(res).max():.3g})", rp)
        nn = np.asarray(poly(xv, degree=degree, _state={}), dtype=float)
        if not np.allclose(nn, A, rtol=1e-9, atol=1e-12):
            ctx.fail(f"poly {rp}: rows of non-null data change when null rows are present", rp)
        ctx.count("poly", f"degree={degree} nulls={len(data) - len(keep)}")
        ctx.distinct.add(("poly", tuple(map(str, data)), degree))
        if i < 2:
            ctx.sample(rp)


def elem_cases(ctx, rng, lits, descr):
    import numpy as np
    import pandas as pd
    from formulaic import model_matrix
    from formulaic.transforms import TRANSFORMS
    ns = list(range(0, 23))
    # float and integer-typed columns: the functions are real functions of the VALUE, whatever the storage type
    df = pd.DataFrame({"n": [float(v) for v in ns], "p10": [10.0 ** v for v in ns], "p2": [2.0 ** v for v in ns],
                       "ni": pd.array(ns, dtype="int64"), "ns": pd.array(ns, dtype="int16"), "pi2": pd.array([2 ** v for v in ns], dtype="int64")})
    terms = [("exp10(n)", 0), ("exp2(n)", 1), ("log10(p10)", 2), ("log2(p2)", 3), ("exp10(ni)", 0), ("exp2(ni)", 1), ("exp10(ns)", 0), ("log2(pi2)", 3)]
    for term, fn in terms:
        rp = {"kind": "elementwise", "term": term}
        try:
            with np.errstate(all="ignore"):
                col = np.asarray(model_matrix("0 + " + term, df), dtype=float)[:, 0].tolist()
        except Exception as e:
            ctx.fail(f"{term}: {type(e).__name__}: {e}", rp)
            continue
        for v, got in zip(ns, col):
            if not math.isfinite(got):
                ctx.fail(f"{term} at {v}: {got!r}", rp)
                continue
            lits.append("{| el_fn := %d; el_n := %d; el_v := %s |}" % (fn, v, fq(got)))
            descr.append({"kind": "elementwise", "term": term, "n": v, "value": got})
            want = [10.0 ** v, 2.0 ** v, float(v), float(v)][fn]
            ctx.oracle_runs += 1
            if not math.isclose(got, want, rel_tol=1e-12, abs_tol=1e-12):
                ctx.fail(f"{term} at {v} is {got!r}, the function of that name gives {want!r}", rp)
    ref = {"log": math.log, "log2": math.log2, "log10": math.log10, "exp": math.exp, "exp2": lambda x: 2.0 ** x, "exp10": lambda x: 10.0 ** x}
    partner = {"log": "exp", "log2": "exp2", "log10": "exp10", "exp": "log", "exp2": "log2", "exp10": "log10"}
    for i in range(ctx.n(60, 600)):
        xs = [rng.choice([rng.uniform(-20, 20), rng.uniform(-1, 1), float(rng.randint(-8, 8)), rng.uniform(0, 300) - 150]) for _ in range(6)]
        pos = [abs(x) + rng.choice([1e-9, 0.5, 1.0]) for x in xs]
        d = pd.DataFrame({"x": xs, "p": pos})
        for name, f in ref.items():
            arg = "p" if name.startswith("log") else "x"
            ctx.oracle_runs += 1
            rp = {"kind": "elementwise", "term": f"{name}({arg})", "data": d[arg].tolist()}
            try:
                with np.errstate(all="ignore"):
                    got = model_matrix(f"0 + {name}({arg})", d).iloc[:, 0].tolist()
                    direct = np.asarray(TRANSFORMS[name](d[arg].values), dtype=float).tolist()
                    rt = model_matrix(f"0 + {partner[name]}({name}({arg}))", d).iloc[:, 0].tolist()
            except Exception as e:
                ctx.fail(f"{name}: {type(e).__name__}: {e}", rp)
                continue
            for a, g, g2, back in zip(d[arg].tolist(), got, direct, rt):
                try:
                    want = f(a)
                except OverflowError:
                    continue
                if g != g2 or not math.isclose(g, want, rel_tol=1e-12, abs_tol=1e-300):
                    ctx.fail(f"{name}({a!r}) = {g!r} in a formula ({g2!r} from TRANSFORMS), the function of that name gives {want!r}", rp)
                    break
                if math.isfinite(want) and abs(want) < 1e300 and want != 0 and not math.isclose(back, a, rel_tol=1e-9, abs_tol=1e-9):
                    if not (name.startswith("exp") and want < 1e-300):
                        ctx.fail(f"{partner[name]}({name}({a!r})) = {back!r}: the partners are not inverses", rp)
                        break
            ctx.count("elementwise", name)


def spec_cases(ctx, rng):
    """state replay through model specs: the recorded statistics are applied unchanged to new data"""
    import numpy as np
    import pandas as pd
    from formulaic import model_matrix
    for i in range(ctx.n(25, 250)):
        n = rng.randint(5, 12)
        xs = rng.sample([v / 2 for v in range(-20, 21)], n)
        df = pd.DataFrame({"x": xs})
        new = pd.DataFrame({"x": [rng.uniform(-12, 12) for _ in range(4)] + xs[:2]})
        ddof = rng.choice([0, 1])
        f = f"scale(x, ddof={ddof}) + center(x) + poly(x, 3) + standardize(x)"
        rp = {"kind": "spec", "formula": f, "x": xs, "new": new["x"].tolist()}
        ctx.oracle_runs += 1
        try:
            mm = model_matrix(f, df)
            mm2 = mm.model_spec.get_model_matrix(new)
        except Exception as e:
            ctx.fail(f"model_matrix({f!r}): {type(e).__name__}: {e}", rp)
            continue
        a, a2 = np.asarray(mm, dtype=float), np.asarray(mm2, dtype=float)
        mu = float(np.mean(xs))
        sd = math.sqrt(sum((v - mu) ** 2 for v in xs) / (n - ddof))
        sd1 = math.sqrt(sum((v - mu) ** 2 for v in xs) / n)   # patsy's standardize: ddof = 0
        nx = new["x"].values
        want = [(nx - mu) / sd, nx - mu]
        if not np.allclose(a2[:, 1], want[0], rtol=1e-10, atol=1e-12) or not np.allclose(a2[:, 2], want[1], rtol=1e-10, atol=1e-12):
            ctx.fail(f"model_matrix({f!r}): scale/center on new data do not use the training mean {mu} and deviation {sd}", rp)
        if not np.allclose(a2[:, 6], (nx - mu) / sd1, rtol=1e-10, atol=1e-12):
            ctx.fail(f"model_matrix({f!r}): standardize on new data does not use the training statistics", rp)
        if not np.allclose(a2[-2:, 3:6], a[:2, 3:6], rtol=1e-9, atol=1e-10):
            ctx.fail(f"model_matrix({f!r}): poly on new data differs from the fitted polynomial at training points", rp)
        if abs(a[:, 1].mean()) > 1e-9 or abs(a[:, 2].mean()) > 1e-9 or abs(math.sqrt((a[:, 1] ** 2).sum() / (n - ddof)) - 1) > 1e-9:
            ctx.fail(f"model_matrix({f!r}): fitted scale/center columns do not have mean 0 / deviation 1", rp)
        ctx.count("spec", "replay")


def run(ctx: Ctx):
    warnings.simplefilter("ignore")
    rng = ctx.fork("c13")
    sl, sd, pl, pd_, el, ed = [], [], [], [], [], []
    scale_cases(ctx, rng, sl, sd)
    poly_cases(ctx, rng, pl, pd_)
    elem_cases(ctx, rng, el, ed)
    spec_cases(ctx, rng)
    ctx.run_cases("scale", SIMPORTS, "", "scase", "chk_scale", sl, sd, shard=250)
    ctx.run_cases("poly", SIMPORTS, "", "plcase", "chk_poly", pl, pd_, shard=60)
    ctx.run_cases("elementwise", SIMPORTS, "", "elcase", "chk_elem", el, ed, shard=200)


def search(ctx: Ctx):
    big = Ctx(ctx.pid, "thorough", ctx.seed + 1)
    big.casedir = ctx.casedir
    big.run_cases = lambda *a, **k: []
    try:
        run(big)
    except Exception as e:
        ctx.notes.append(f"search crashed: {type(e).__name__}: {e}")
    ctx.failures += big.failures
    ctx.oracle_runs += big.oracle_runs
