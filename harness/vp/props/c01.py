"""C01 — formula strings denote exactly the documented Wilkinson term algebra."""
from __future__ import annotations

import re

from ..core import Ctx
from .. import parsergen as G

ID = "C01"
PROPS = ["props/C01.v"]
COQ_EXTRA = ["model/Show.vo"]
RULE = ("grammar-directed surface trees (names, quoted names, calls, 0/1, numeric scalings, parentheses, + - * / : ** ^ %in% ~ | ., sign runs of "
        "length 1-4 in prefix and infix position, random whitespace) printed to strings; each string x intercept on/off x feature-flag subsets x "
        "variable lists; a case is non-trivial when the tree has >= 3 nodes; distinct by (string, configuration)")
EXPLANATION = ("(A) the operator semantics of the model satisfy the documented identities for all ordered term sets; (B) the shunting-yard machine parses the "
               "token sequence of every expression tree that respects the documented precedence table to that tree (any nesting, any flags), incl. '|' parts "
               "and two-sided formulas; the operator table of the model equals the one regenerated from /repo; the full pipeline model is evaluated in Coq "
               "on every generated string and must return exactly the implementation's term lists; independently, an evaluator of the documented algebra "
               "that owns the generator's trees (no parsing) is compared with the implementation")
TRUSTED = ["modelled, not verified: ast.unparse normal form and required_variables of Python fragments (oracles)",
           "the reference evaluator of the documented algebra in harness/vp/parsergen.py (used as the search/direct oracle, not in any theorem)"]
ASSUMPTIONS = ["`C01_tokens_denote` composes parsing and evaluation from the TOKEN sequence of an inner expression tree to its denotation; the characters -> tokens "
               "step (tokenizer, 0 -> -1 rewriting, intercept insertion, sign-run collapsing) and the top-level '~' / '|' assembly are covered by the "
               "correspondence on whole strings and by the reference evaluator, not by that theorem"]


def _known_tags(s, intercept):
    tags = []
    z = re.sub(r"(?<![\w.`])0(?![\w.`])", "-1", s)
    if not intercept and re.search(r"[~|]\s*[+-]?\s*-\s*1|[~|]\s*[+-](\s*[+-])+", z):
        tags.append("C01-nointercept-sign-run-after-separator")
    return tags


def _settings(rng):
    intercept = rng.random() < 0.6
    fl = (rng.random() < 0.9, rng.random() < 0.9, False)
    avail = rng.choice([None, ["a", "b", "x"], ["y", "c", "a"]])
    return intercept, fl, avail


def _grammar(ctx: Ctx):
    rng = ctx.fork("grammar")
    lits, descr, strings = [], [], []
    for i in range(ctx.n(1200, 20000)):
        dots = rng.random() < 0.25
        s, info = G.gen_formula(rng, depth=3 if not ctx.thorough else rng.choice([3, 4]), dots=dots, mutate=0.0)
        intercept, fl, avail = _settings(rng)
        out, kind, res = G.run_impl(s, intercept, fl, avail)
        lits.append(G.case_literal(s, intercept, fl, avail, out))
        descr.append({"formula": s, "include_intercept": intercept, "flags": fl, "available": avail, "implementation": kind})
        strings.append(s)
        ctx.count("grammar", "outcome=" + kind)
        lhs, rhs = info
        size = sum(G.tree_size(t) for t in ([lhs] if lhs else []) + rhs)
        ctx.count("grammar", f"nodes={min(size // 5 * 5, 40)}")
        if size >= 3:
            ctx.distinct.add((s, intercept, fl, tuple(avail) if avail else None))
        # ---- direct oracle: the documented algebra on the generator's own tree
        ctx.oracle_runs += 1
        rp = {"kind": "formula", "formula": s, "include_intercept": intercept, "flags": fl, "available": avail}
        needs_two = lhs is not None
        needs_parts = len(rhs) > 1
        if (needs_two and not fl[0]) or (needs_parts and not fl[1]):
            exp = ("reject",)
        else:
            exp = G.reference_outcome(info, intercept, avail)
        tags = _known_tags(s, intercept)
        if kind.startswith("internal"):
            ctx.fail(f"{kind} while parsing {s!r}", rp, tags)
        elif exp[0] == "reject" and kind != "reject":
            ctx.fail(f"{s!r} is outside the documented grammar/algebra but was accepted as {G.struct_to_py(res)}", rp, tags)
        elif exp[0] == "ok":
            if kind != "ok":
                ctx.fail(f"{s!r} denotes {exp[1]} but was {kind}", rp, tags)
            else:
                got = G.struct_to_py(res)
                if got != exp[1]:
                    ctx.fail(f"{s!r} (include_intercept={intercept}) denotes {exp[1]} but was read as {got}", rp, tags)
        # ---- final ordering by interaction degree (Formula(...) with the same parser): each part is the STABLE sort of the parsed term
        # set by the number of non-literal factors (a numeric scaling such as the 2 in 2:a does not count)
        if kind == "ok" and exp[0] == "ok":
            ctx.oracle_runs += 1
            try:
                from formulaic import Formula
                from formulaic.parser import DefaultFormulaParser
                P = DefaultFormulaParser(include_intercept=intercept, feature_flags={n for n, b in zip(("twosided", "multipart", "multistage"), fl) if b})
                F = Formula(s, _parser=P, _nested_parser=P, _context={"__formulaic_variables_available__": avail} if avail is not None else None) \
                    if "." in s else Formula(s, _parser=P, _nested_parser=P)

                def parts_of(x):
                    return [x] if not isinstance(x, tuple) else list(x)
                fd = {k: [[tuple(f.expr for f in t.factors) for t in part] for part in parts_of(v)] for k, v in
                      (F._structure.items() if hasattr(F, "_structure") else [("root", F)])}
                for k, v in exp[1].items():
                    for part, got_part in zip(parts_of(v), fd.get(k, [])):
                        want_part = sorted(part, key=lambda t: sum(1 for f in t if not G._is_lit(f)))
                        if [tuple(t) for t in got_part] != [tuple(t) for t in want_part]:
                            ctx.fail(f"Formula({s!r}) orders the terms of {k} as {got_part}; by interaction degree (stable) they are {want_part}", rp, tags)
            except Exception as e:
                if "." not in s:
                    ctx.fail(f"Formula({s!r}) with the parser that parsed it: {type(e).__name__}: {e}", rp, tags)
        if i < 3:
            ctx.sample({"formula": s, "include_intercept": intercept, "reference": str(exp)[:200]})
    ctx.run_cases("grammar", G.IMPORTS, G.extra_classes(strings), "pcase", "chk_parser extra", lits, descr, shard=250)


def _identities(ctx: Ctx):
    """Documented identities and equivalent specification forms, on the implementation."""
    from formulaic import Formula
    rng = ctx.fork("ident")
    g = G.TreeGen(rng, 2)
    for i in range(ctx.n(300, 5000)):
        while True:
            A, B, C = g.mul(1), g.mul(1), g.mul(1)
            try:
                if G.est_terms(A) * G.est_terms(B) * G.est_terms(C) < 200:
                    break
            except G.TooBig:
                pass
        a, b, c = (f"({G.pr(x)})" for x in (A, B, C))
        pairs = [
            (f"{a}*{b}", f"{a}+{b}+{a}:{b}"),
            (f"{b} %in% {a}", f"{a}/{b}"),
            (f"({a}+{b}+{c})**2", f"({a}+{b}+{c})^2"),
            (f"{a}+{b}-{b}", f"{a}-{b}"),
            (f"{a}+{b}+0", f"{a}+{b}-1"),
        ]
        if G.est_terms(A) == 1:
            pairs.append((f"{a}/{b}", f"{a}+{a}:{b}"))
        for x, y in pairs:
            ctx.oracle_runs += 1
            rp = {"kind": "identity", "left": x, "right": y}
            try:
                fx = Formula(x)
            except Exception as e:
                fx = type(e).__name__
            try:
                fy = Formula(y)
            except Exception as e:
                fy = type(e).__name__
            same = (fx == fy) if not isinstance(fx, str) and not isinstance(fy, str) else (isinstance(fx, str) and isinstance(fy, str))
            if not same:
                ctx.fail(f"documented identity broken: {x!r} -> {fx!r} but {y!r} -> {fy!r}", rp)
        # equivalent specification forms
        names = rng.sample(G.NAMES, 3)
        terms = [names[0], names[1], f"{names[0]}:{names[2]}"]
        ctx.oracle_runs += 1
        f_str = Formula(" + ".join(terms))
        f_list = Formula(["1"] + terms)
        if list(f_str) != list(f_list):
            ctx.fail(f"string and list specification differ: {list(f_str)} vs {list(f_list)}", {"kind": "forms", "terms": terms})
        f_two = Formula(f"{names[2]} ~ " + " + ".join(terms[:2]))
        f_kw = Formula(lhs=[names[2]], rhs=["1"] + terms[:2])
        if f_two != f_kw:
            ctx.fail(f"'lhs ~ rhs' string and lhs=/rhs= keywords differ: {f_two!r} vs {f_kw!r}", {"kind": "forms", "terms": terms})
        ctx.count("identities", "checked", len(pairs) + 2)


def _parser_history(ctx: Ctx):
    """one parser object, re-configured between uses (include_intercept toggled, feature flags changed), gives for every string what a fresh parser
    with the current configuration gives -- also for a string it has parsed before under another configuration"""
    from formulaic.parser import DefaultFormulaParser
    from formulaic.errors import FormulaParsingError
    rng = ctx.fork("parser-history")
    strings = ["y ~ a + b", "a | b", "a + b", "y ~ a | b", "a*b - a", "0 + a", "~ a", "a:b + 1", "(a + b)**2 | c", "y ~ 0 + a"]
    allf = ["twosided", "multipart"]

    def outcome(p, s):
        try:
            return "ok", G.struct_to_py(p.get_terms(s))
        except FormulaParsingError:
            return "reject", None
        except Exception as e:
            return "internal:" + type(e).__name__, None
    for i in range(ctx.n(80, 1000)):
        ic = rng.random() < 0.5
        flags = {f for f in allf if rng.random() < 0.8}
        p = DefaultFormulaParser(include_intercept=ic, feature_flags=set(flags))
        hist = [f"new(include_intercept={ic}, flags={sorted(flags)})"]
        pool = rng.sample(strings, 3)
        for step in range(rng.randint(3, 7)):
            r = rng.random()
            if r < 0.3:
                ic = not ic
                p.include_intercept = ic
                hist.append(f"include_intercept={ic}")
            elif r < 0.45:
                flags = {f for f in allf if rng.random() < 0.7}
                p.set_feature_flags(set(flags))
                hist.append(f"set_feature_flags({sorted(flags)})")
            s = rng.choice(pool)
            hist.append(f"parse {s!r}")
            ctx.oracle_runs += 1
            got = outcome(p, s)
            want = outcome(DefaultFormulaParser(include_intercept=ic, feature_flags=set(flags)), s)
            if got != want:
                ctx.fail(f"a parser with the history {hist} reads {s!r} as {got}; a fresh parser with include_intercept={ic}, flags={sorted(flags)} gives {want}",
                         {"kind": "parser-history", "history": hist, "formula": s})
                break
        ctx.count("parser-history", "histories")


def run(ctx: Ctx):
    _parser_history(ctx)
    _grammar(ctx)
    _identities(ctx)


def search(ctx: Ctx):
    big = Ctx(ctx.pid, "thorough", ctx.seed + 1)
    big.casedir = ctx.casedir
    big.run_cases = lambda *a, **k: []
    try:
        run(big)
    except Exception as e:
        ctx.notes.append(f"search crashed: {type(e).__name__}: {e}")
    ctx.failures += big.failures
    ctx.oracle_runs += big.oracle_runs
