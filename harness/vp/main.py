import importlib
import os
import sys

from . import core


def main(argv):
    if len(argv) < 1:
        print("usage: vcheck <Cxx> [quick|thorough] | vcheck --replay <file>")
        return 2
    if argv[0] == "--replay":
        from . import replay
        return replay.main(argv[1:])
    pid = argv[0].upper()
    tier = argv[1] if len(argv) > 1 else os.environ.get("VERIF_TIER", "quick")
    if tier not in ("quick", "thorough"):
        tier = "quick"
    seed = int(os.environ.get("VERIF_SEED", "0") or 0)
    mod = importlib.import_module(f"vp.props.{pid.lower()}")
    return core.run_property(mod, tier, seed)


if __name__ == "__main__":
    sys.exit(main(sys.argv[1:]))
