"""Shared machinery for the materializer family: frames, term lists, the implementation runner, Coq literals for model/Mat.v."""
from __future__ import annotations

import math
import warnings
from fractions import Fraction

from .core import cstr, cbool, clist

IMPORTS = ("From Coq Require Import List NArith ZArith QArith Qcanon Bool Arith.\nImport ListNotations.\n"
           "Require Import Mat ShowM.\nOpen Scope N_scope.")
NUM = ["a", "b", "c"]
CAT = {"A": ["x", "y", "z"], "B": ["u", "v"], "G": ["p", "q", "_r", "s"], "H": ["", "k", "m"]}      # a level name with a leading underscore included (two underscores mark metadata keys in the code)
VALS = [-2, -1, 0, 0.5, 1, 2, 3, 4, 0.25, -0.5]


def isnan(x):
    return x is None or (isinstance(x, float) and math.isnan(x))


def qlit(x):
    if isnan(x):
        return "None"
    f = Fraction(float(x))
    return f"(q ({f.numerator}) {f.denominator})"


def qq(x):
    f = Fraction(float(x))
    return f"(qq ({f.numerator}) {f.denominator})"


class Frame:
    """A small data frame description: columns as python lists with None for nulls."""

    def __init__(self, n, num, cat, index=None, cat_dtype="object", declared=None):
        self.n, self.num, self.cat, self.index, self.cat_dtype = n, num, cat, index, cat_dtype
        # declared category order for the pandas `category` dtype (any order, may contain unobserved levels)
        self.declared = declared or {}
        if cat_dtype == "category":
            for c, v in cat.items():
                self.declared.setdefault(c, sorted({x for x in v if x is not None}))

    def to_pandas(self):
        import pandas as pd
        d = {}
        for c, v in self.num.items():
            d[c] = pd.Series(v, dtype=float)
        for c, v in self.cat.items():
            if self.cat_dtype == "category":
                d[c] = pd.Series(pd.Categorical(v, categories=self.declared[c]))
            elif self.cat_dtype == "str":
                d[c] = pd.Series(v, dtype="str")
            else:
                d[c] = pd.Series(v, dtype=object)
        df = pd.DataFrame(d)
        if self.index is not None:
            df.index = self.index
        return df

    def coq(self):
        fr = []
        for c, v in self.num.items():
            fr.append(f"({cstr(c)}, CNum {clist(qlit(x) for x in v)})")
        for c, v in self.cat.items():
            dl = "None" if self.cat_dtype != "category" else "(Some " + clist(cstr(x) for x in self.declared[c]) + ")"
            fr.append(f"({cstr(c)}, CCat {clist('None' if x is None else 'Some ' + cstr(x) for x in v)} {dl})")
        return clist(fr)

    def describe(self):
        return {"rows": self.n, "num": self.num, "cat": self.cat, "index": None if self.index is None else list(self.index), "cat_dtype": self.cat_dtype, "declared": self.declared}


def gen_frame(rng, nmax=8, pnull=None, index_kinds=("default",), cat_dtypes=("object",)):
    n = rng.randint(1, nmax)
    if pnull is None:
        pnull = rng.choice([0, 0, 0.15, 0.3])
    num = {c: [None if rng.random() < pnull else float(rng.choice(VALS)) for _ in range(n)] for c in NUM}
    cat = {}
    for c, lv in CAT.items():
        lv = rng.sample(lv, rng.randint(1, len(lv)))
        cat[c] = [None if rng.random() < pnull else rng.choice(lv) for _ in range(n)]
    kind = rng.choice(index_kinds)
    index = None
    if kind == "string":
        index = [f"r{i}" for i in range(n)]
    elif kind == "nonunique":
        index = [rng.choice(["p", "q", "r"]) for _ in range(n)]
    elif kind == "unsorted":
        index = list(range(100, 100 + n))
        rng.shuffle(index)
    dt = rng.choice(cat_dtypes)
    declared = None
    if dt == "category":
        declared = {}
        for c, v in cat.items():
            lv = sorted({x for x in v if x is not None})
            if rng.random() < 0.5:
                rng.shuffle(lv)
            if rng.random() < 0.3:
                lv.insert(rng.randrange(len(lv) + 1), "w")       # a declared but unobserved category
            declared[c] = lv
    return Frame(n, num, cat, index, dt, declared)


def gen_terms(rng, names=None, max_terms=5, lit_p=0.25, missing_p=0.03):
    names = list(names or (NUM + list(CAT)))
    if rng.random() < missing_p:
        names = names + ["zz"]
    terms = []
    for _t in range(rng.randint(1, max_terms)):
        k = rng.choice([0, 1, 1, 2, 2, 3])
        fs = [(x, "lookup") for x in rng.sample(names, min(k, len(names)))]
        if rng.random() < lit_p or k == 0:
            lit = rng.choice(["1", "2", "0.5", "3", "1"])
            fs.insert(rng.randrange(len(fs) + 1), (lit, "literal"))
            if k >= 1 and rng.random() < 0.3:            # a second, different literal factor in the same term (2:3:a)
                fs.insert(rng.randrange(len(fs) + 1), (rng.choice([x for x in ["2", "0.5", "3", "4"] if x != lit]), "literal"))
        terms.append(fs)
    return terms


def dedupe(terms):
    """drop terms that repeat an earlier term up to literal scalings (the parser rejects those; list specifications that repeat a term
    are a recorded C10 finding)"""
    seen, out = set(), []
    for t in terms:
        key = tuple(sorted(x for x, m in t if m != "literal"))
        if key in seen:
            continue
        seen.add(key)
        out.append(t)
    return out


def formula_string(terms):
    """a formula string for a term list (a lone numeric literal other than 1 is not a valid term of a formula string)"""
    parts = []
    for t in terms:
        if all(m == "literal" for _, m in t):
            if "1" not in parts:
                parts.append("1")
            continue
        parts.append(":".join(x for x, m in t))
    rhs = " + ".join(p for p in parts if p != "1")
    if "1" in parts:
        return ("1 + " + rhs) if rhs else "1"
    return "0 + " + rhs if rhs else "0"


def terms_coq(terms):
    return clist(clist(f"Build_factor {cstr(x)} {'FLit' if m == 'literal' else 'FLookup'}" for x, m in t) for t in terms)


def formula_of(terms):
    from formulaic import Formula
    from formulaic.parser.types import Term, Factor
    return Formula([Term([Factor(x, eval_method=m) for x, m in t]) for t in terms], _ordering="none")


def cfg_coq(efr, na, cd):
    return f"Build_cfg {cbool(efr)} {'NaDrop' if na == 'drop' else 'NaRaise' if na == 'raise' else 'NaIgnore'} {clist(str(i) + '%nat' for i in cd)}"


def matrix_columns(mm, output):
    """-> (names, list of columns as python floats / None)"""
    import numpy as np
    names = list(mm.model_spec.column_names)
    if output == "pandas":
        arr = mm.to_numpy() if hasattr(mm, "to_numpy") else np.asarray(mm)
        pnames = [str(c) for c in mm.columns]
    elif output == "sparse":
        arr = mm.toarray()
        pnames = None
    else:
        arr = np.asarray(mm)
        pnames = None
    arr = np.asarray(arr, dtype=float).reshape((arr.shape[0], -1)) if arr.shape[0] else np.zeros((0, len(names)))
    cols = [[None if math.isnan(v) else float(v) for v in arr[:, j]] for j in range(arr.shape[1])]
    return names, pnames, cols, arr.shape[0]


def struct_coq(spec):
    return clist(clist("(" + clist(f"({cstr(sf.factor.expr)}, {cbool(bool(sf.reduced))})" for sf in stt.factors) + ", " + qq(stt.scale) + ")"
                       for stt in s.scoped_terms) for s in spec.structure)


def run_build(frame: Frame, terms, efr, na, cd, output="pandas", route=None):
    """Run the implementation; returns (expect literal, kind, detail dict)."""
    from formulaic import model_matrix
    from formulaic.errors import FactorEvaluationError
    warnings.simplefilter("ignore")
    df = frame.to_pandas()
    f = formula_of(terms)
    dr = set(cd)
    # the same request is sent through one of the equivalent entry points (chosen deterministically from the request): the public
    # function, a Formula object, a fresh ModelSpec, the materializer classes (pandas; narwhals over pandas or Arrow data), or the
    # spec fitted by a first build (as is, or pickled) re-used on the same data.  All must give the result the model computes.
    import pickle
    import random as _random
    r_ = _random.Random(repr((f, frame.describe(), efr, na, cd, output)))
    has_null = any(v is None for col in list(frame.num.values()) + list(frame.cat.values()) for v in col)
    routes = ["sugar", "sugar", "formula", "modelspec", "materializer", "narwhals-pandas", "fitted-spec", "pickled-spec"]
    if not (has_null and na == "ignore") and frame.cat_dtype != "str":
        routes.append("narwhals-arrow")
    route = r_.choice(routes) if route is None else route
    kwargs = dict(ensure_full_rank=efr, na_action=na, output=output)

    def call():
        from formulaic import Formula, ModelSpec
        if route == "formula":
            return Formula(f).get_model_matrix(df, drop_rows=dr, **kwargs)
        if route == "modelspec":
            return ModelSpec(formula=Formula(f), **kwargs).get_model_matrix(df, drop_rows=dr)
        if route == "materializer":
            from formulaic.materializers import PandasMaterializer
            return PandasMaterializer(df).get_model_matrix(f, drop_rows=dr, **kwargs)
        if route == "narwhals-pandas":
            from formulaic.materializers import NarwhalsMaterializer
            return NarwhalsMaterializer(df).get_model_matrix(f, drop_rows=dr, **kwargs)
        if route == "narwhals-arrow":
            import pyarrow as pa
            from formulaic.materializers import NarwhalsMaterializer
            return NarwhalsMaterializer(pa.Table.from_pandas(df, preserve_index=False)).get_model_matrix(f, drop_rows=dr, **kwargs)
        if route in ("fitted-spec", "pickled-spec"):
            first = model_matrix(f, df, drop_rows=set(cd), **kwargs)
            spec = first.model_spec
            if route == "pickled-spec":
                spec = pickle.loads(pickle.dumps(spec))
            return spec.get_model_matrix(df, drop_rows=dr)
        return model_matrix(f, df, drop_rows=dr, **kwargs)
    try:
        mm = call()
    except FactorEvaluationError as e:
        return "XErr 1", "eval", {"exception": e}
    except ValueError as e:
        if "null" in str(e):
            return "XErr 2", "nullraise", {"exception": e}
        return "XErr 3", "valueerror:" + str(e)[:60], {"exception": e}
    except Exception as e:
        return "XErr 3", "other:" + type(e).__name__ + ":" + str(e)[:60], {"exception": e}
    try:
        names, pnames, cols, nrows = matrix_columns(mm, output)
    except (ValueError, TypeError) as e:
        # a cell of the result is not a number (e.g. raw text copied into the matrix): a C08 violation in its own right
        return "XErr 9", "nonnumeric:" + str(e)[:80], {"exception": e, "mm": mm}
    exp = "XOk %s %s %s %s" % (clist(cstr(c) for c in (pnames if pnames is not None else names)),
                               clist(clist(qlit(v) for v in col) for col in cols),
                               clist(str(int(i)) + "%nat" for i in sorted(dr)), struct_coq(mm.model_spec))
    return exp, "ok", {"mm": mm, "names": names, "pnames": pnames, "cols": cols, "drop": sorted(dr), "nrows": nrows, "df": df, "route": route}


def case_literal(frame, terms, efr, na, cd, exp):
    return "{| m_frame := %s; m_nrows := %d%%nat; m_cfg := %s; m_terms := %s; m_expect := %s |}" % (
        frame.coq(), frame.n, cfg_coq(efr, na, cd), terms_coq(terms), exp)


# ------------------------------------------------------------------------------------------------
# independent re-computation of a column from its label (search/direct oracle for C02)
# ------------------------------------------------------------------------------------------------
def column_from_label(label, frame: Frame, kept, scale):
    """label = ':'-joined encoded factor columns; each is `name`, `name[level]` or `name[T.level]`."""
    import re
    vals = [Fraction(scale)] * len(kept)
    if label == "Intercept":
        return [float(v) for v in vals]
    for part in label.split(":"):
        m = re.fullmatch(r"(\w+)\[(?:T\.)?(\w*)\]", part)
        if m:
            col = frame.cat[m.group(1)]
            vals = [None if v is None else v * (1 if col[i] == m.group(2) else 0) for v, i in zip(vals, kept)]
        else:
            col = frame.num[part]
            vals = [None if (v is None or col[i] is None) else v * Fraction(col[i]) for v, i in zip(vals, kept)]
    return [None if v is None else float(v) for v in vals]
