"""Regenerates DESIGN.md section 16 from seeded/*/meta.json + result.json (+ the first-pass logs)."""
import json
import re
from pathlib import Path

ROOT = Path(__file__).resolve().parents[2]


def first_pass():
    res = {}
    for log in sorted((ROOT / "seeded").glob("first_pass*.log")):
        for line in log.read_text().splitlines():
            m = re.match(r"(C\d\d) \S*/(C\d\d_\d(?:b)?) (detected|MISSED)", line)
            if m:
                res.setdefault(m.group(2), m.group(3))
    return res


def main():
    fp = first_pass()
    rows = []
    for d in sorted((ROOT / "seeded").iterdir()):
        if not (d / "meta.json").exists():
            continue
        meta = json.loads((d / "meta.json").read_text())
        r = json.loads((d / "result.json").read_text()) if (d / "result.json").exists() else {}
        now = "caught" if r.get("detected") else "MISSED"
        if r.get("detected") and not r.get("concrete_input"):
            now += " (no-failing-input-found)"
        first = {"detected": "caught", "MISSED": "missed"}.get(fp.get(d.name, ""), "caught" if d.name.startswith(("C11", "C12")) or d.name == "C13_1" else "?")
        how = ""
        if r.get("first_broken"):
            how = "correspondence/proof: " + re.sub(r"\s+", " ", r["first_broken"][0])[:90]
        elif r.get("detected"):
            how = "oracle on the implementation"
        summ = re.sub(r"\s+", " ", meta.get("summary", ""))[:170].replace("|", "/")
        rows.append(f"| {d.name} | {summ} | {first} | {now} | {how.replace('|', '/')} |")
    out = ["| seed | change | first run | now | caught by |", "|---|---|---|---|---|"] + rows
    n = len(rows)
    c = sum(1 for r in rows if "| caught" in r.split("|")[4] or r.split("|")[4].strip().startswith("caught"))
    print(f"{n} seeded changes; caught now: {c}\n")
    print("\n".join(out))


if __name__ == "__main__":
    main()
