"""Regenerates DESIGN.md section 16 from seeded/*/meta.json + result.json (+ the first-pass logs)."""
import json
import re
from pathlib import Path

ROOT = Path(__file__).resolve().parents[2]


def first_pass():
    res = {}
    for log in sorted((ROOT / "seeded").glob("first_pass*.log")):
        for line in log.read_text().splitlines():
            m = re.match(r"(C\d\d) \S*/(C\d\d_\d+(?:b)?) (detected|MISSED)", line)
            if m:
                res.setdefault(m.group(2), m.group(3))
    return res


def main():
    fp = first_pass()
    rows = []
    def rnd_of(name):
        m = re.match(r"C\d\d_(\d+)", name)
        return (int(m.group(1)) + 1) // 2 if m else 0
    for d in sorted((ROOT / "seeded").iterdir(), key=lambda x: (rnd_of(x.name), x.name)):
        if not (d / "meta.json").exists():
            continue
        meta = json.loads((d / "meta.json").read_text())
        r = json.loads((d / "result.json").read_text()) if (d / "result.json").exists() else {}
        now = "caught" if r.get("detected") else "MISSED"
        if meta.get("moot") and r.get("demo_exit_with_patch") == 0:
            now = "moot (no longer a violation)"
        if r.get("detected") and not r.get("concrete_input"):
            now += " (no-failing-input-found)"
        first = {"detected": "caught", "MISSED": "missed"}.get(fp.get(d.name, ""), "")
        if not first:
            first = "missed" if d.name in ("C13_2",) else "caught"      # group E of round 1 was run by hand before the log existed
        how = ""
        if r.get("first_broken"):
            how = "correspondence/proof: " + re.sub(r"\s+", " ", r["first_broken"][0])[:90]
        elif r.get("detected"):
            how = "oracle on the implementation"
        summ = re.sub(r"\s+", " ", meta.get("summary", ""))[:170].replace("|", "/")
        rnd = str(rnd_of(d.name))
        rows.append(f"| {d.name} | {rnd} | {summ} | {first} | {now} | {how.replace('|', '/')} |")
    out = ["| seed | round | change | first run | now | caught by |", "|---|---|---|---|---|---|"] + rows
    n = len(rows)
    c = sum(1 for r in rows if r.split("|")[5].strip().startswith("caught"))
    moot = sum(1 for r in rows if r.split("|")[5].strip().startswith("moot"))
    per = {}
    for r in rows:
        cells = [x.strip() for x in r.split("|")]
        per.setdefault(cells[2], [0, 0])
        per[cells[2]][1] += 1
        per[cells[2]][0] += cells[4] == "caught"
    print(f"{n} seeded changes; caught at first run: " + ", ".join(f"round {k}: {a}/{b}" for k, (a, b) in sorted(per.items())) + f"; caught now: {c}/{n - moot} ({moot} moot)\n")
    print("\n".join(out))


if __name__ == "__main__":
    main()
