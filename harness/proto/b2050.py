# ===== gen3.py : model (fixed collapse) vs reference semantics =====
# model(fixed collapse) versus the independent reference semantics, on grammar trees only
import random, re, sys
seed = int(sys.argv[1]); N = int(sys.argv[2]); outp = sys.argv[3]
rng = random.Random(seed)
src = open('/tmp/probe/c01ref.py').read().split("P1 = DefaultFormulaParser()")[0]
src = src.replace("rng = random.Random(int(sys.argv[1]) if len(sys.argv) > 1 else 0)", "")
g = {'rng': rng, '__name__': 'c01gen'}
exec(compile(src, 'c01gen', 'exec'), g)
gen_add, pr, ref_side, Reject = g['gen_add'], g['pr'], g['ref_side'], g['Reject']
word = re.compile(r"[\.\_\w]"); num = re.compile(r"[0-9\.]"); ws = re.compile(r"\s")
def lit(s): return '[' + ';'.join(str(ord(c)) for c in s) + ']'
def conv_set(ts): return '[' + ';'.join('[' + ';'.join(lit(f) for f in t) + ']' for t in ts) + ']'
def conv_side(v): return ('inr [' + ';'.join(conv_set(p) for p in v) + ']') if isinstance(v, tuple) else 'inl ' + conv_set(v)
cases = []; st = {'ok':0,'rej':0}
for _ in range(N):
    shape = rng.choice(['rhs', 'two', 'parts', 'twoparts'])
    lhs = [gen_add()] if shape in ('two', 'twoparts') else None
    rhs = [gen_add() for _ in range(rng.randint(2, 3) if 'parts' in shape else 1)]
    w = (lambda: rng.choice(['', '', ' '])) if rng.random() < 0.5 else (lambda: '')
    s = ''
    if lhs: s += pr(lhs[0], w) + w() + '~'
    s += '|'.join(w() + pr(p, w) for p in rhs)
    intercept = rng.random() < 0.5
    try:
        r = [ref_side(p, intercept) for p in rhs]
        rr = tuple(r) if len(r) > 1 else r[0]
        exp = f"OTwo ({conv_side(ref_side(lhs[0], False))}) ({conv_side(rr)})" if lhs else f"ORoot ({conv_side(rr)})"
        st['ok'] += 1
    except Reject:
        exp = 'OReject'; st['rej'] += 1
    cases.append(f"(({lit(s)}, {str(intercept).lower()}, (true,true,false), None, [], []), {exp})")
cls = []
for cp in range(128):
    ch = chr(cp)
    cls.append(f"(Build_cls {str(bool(word.match(ch))).lower()} {str(bool(num.match(ch))).lower()} {str(bool(ws.match(ch))).lower()})")
with open(outp, 'w') as f:
    f.write("Require Import Tok Parser Parser2 Parser3 Show. From Coq Require Import List NArith Bool Arith. Import ListNotations. Open Scope N_scope.\n")
    f.write("Definition table128 : list cls := [" + ';'.join(cls) + "].\n")
    f.write("Definition classify (c : N) : cls := nth (N.to_nat c) table128 (Build_cls true false false).\n")
    f.write("Definition cases : list (str * bool * (bool*bool*bool) * option (list str) * list (str * nat) * list (str * list str) * outcome) := [\n" + ';\n'.join(cases) + "].\n")
    f.write("Eval vm_compute in (let '(m, fl) := chkf true classify cases 0 in (m, firstn 8 fl)).\n")
    f.write("Eval vm_compute in (let '(m, fl) := chkf false classify cases 0 in (m, firstn 8 fl)).\n")
print(st)
