def evaluation_order(ast):
    info = {}                                   # id(node) -> [node, npredecessors, successors]; insertion-ordered
    def get(n): return info.setdefault(id(n), [n, 0, []])
    stack, graph = [ast], []
    while stack:                                # __generate_evaluation_graph: LIFO work list
        node = stack.pop()
        ch = [c for c in node.args if isinstance(c, ASTNode)]
        stack.extend(ch); graph.append((node, ch))
    for node, ch in graph:                      # TopologicalSorter(graph): add(node, *children)
        get(node)[1] += len(ch)
        for c in ch: get(c)[2].append(node)
    ready = [v[0] for v in info.values() if v[1] == 0]      # prepare()
    order = []
    while ready:                                # get_ready() / done() waves
        cur, ready = ready, []
        for n in cur:
            order.append(n)
            for s in info[id(n)][2]:
                info[id(s)][1] -= 1
                if info[id(s)][1] == 0: ready.append(s)
    return order                                # the first failing node in this order raises
