# ===== genc.py =====
import warnings; warnings.simplefilter('ignore')
import random, re, sys
from fractions import Fraction
import numpy as np
from formulaic.utils.constraints import LinearConstraints
from formulaic.errors import FormulaSyntaxError
seed = int(sys.argv[1]); N = int(sys.argv[2]); outp = sys.argv[3]
rng = random.Random(seed)
word = re.compile(r"[\.\_\w]"); num = re.compile(r"[0-9\.]"); ws = re.compile(r"\s")
VARS = ['a', 'b', 'c']
def lit(s): return '[' + ';'.join(str(ord(c)) for c in s) + ']'
def q(x): f = Fraction(float(x)); return f"(qq ({f.numerator}) {f.denominator})"
def atom():
    r = rng.random()
    if r < 0.5: return rng.choice(VARS + (['d'] if rng.random() < 0.05 else []))
    return rng.choice(['1', '2', '3', '4', '0.5', '2.5', '0', '8', '.25', '16'])
def expr(d):
    r = rng.random()
    if d <= 0 or r < 0.3: return atom()
    if r < 0.4: return '(' + expr(d - 1) + ')'
    if r < 0.47: return '(' + rng.choice('-+') + expr(d - 1) + ')'
    op = rng.choice(['+', '-', '+', '-', '*', '*', '/'])
    l, rr = expr(d - 1), expr(d - 1)
    if op == '/': rr = rng.choice(['2', '4', '8', '0.5', '2', '4', '(2)', '(1 + 1)', '0', 'a', '(4 - 4)', '0.25'])
    if op == '*' and rng.random() < 0.7:
        if rng.random() < 0.5: l = rng.choice(['2', '3', '0.5', '4'])
        else: rr = rng.choice(['2', '3', '0.5', '4'])
    w = rng.choice(['', ' '])
    return l + w + op + w + rr
def constraint():
    s = (rng.choice(['-', '+', '']) if rng.random() < 0.2 else '') + expr(rng.randint(0, 4))
    if rng.random() < 0.5: s += rng.choice([' = ', '=']) + expr(rng.randint(0, 3))
    return s
ECL = {'AttributeError': 1, 'TypeError': 3, 'ValueError': 4, 'KeyError': 6, 'ZeroDivisionError': 8, 'RuntimeError': 9, 'SyntaxError': 10}
cases = []; stats = {}
for _ in range(N):
    s = ', '.join(constraint() for _ in range(rng.choice([1, 1, 2, 3])))
    if rng.random() < 0.15:
        i = rng.randrange(len(s) + 1); s = s[:i] + rng.choice(list("+-*/=,() ab")) + s[i:]
    try:
        lc = LinearConstraints.from_spec(s, VARS)
        rows = [f"([{';'.join(q(v) for v in lc.constraint_matrix[i])}], {q(lc.constraint_values[i])})" for i in range(lc.constraint_matrix.shape[0])]
        exp = 'inl [' + ';'.join(rows) + ']'; k = 'ok'
    except FormulaSyntaxError: exp = 'inr 0%nat'; k = 'syntax'
    except Exception as e:
        exp = f"inr {ECL.get(type(e).__name__, 5)}%nat"; k = type(e).__name__
    stats[k] = stats.get(k, 0) + 1
    cases.append(f"({lit(s)}, [{';'.join(lit(v) for v in VARS)}], {exp})")
cls = []
for cp in range(128):
    ch = chr(cp)
    cls.append(f"(Build_cls {str(bool(word.match(ch))).lower()} {str(bool(num.match(ch))).lower()} {str(bool(ws.match(ch))).lower()})")
with open(outp, 'w') as f:
    f.write("Require Import Tok Cons ShowC. From Coq Require Import List NArith ZArith QArith Qcanon Bool Arith. Import ListNotations. Open Scope N_scope.\n")
    f.write("Definition table128 : list cls := [" + ';'.join(cls) + "].\n")
    f.write("Definition classify (c : N) : cls := nth (N.to_nat c) table128 (Build_cls true false false).\n")
    f.write("Definition cases : list ccase := [\n" + ';\n'.join(cases) + "].\n")
    f.write("Eval vm_compute in (let '(m, fl) := chk classify cases 0 in (m, firstn 8 fl)).\n")
print(stats)
