# ===== genm.py =====
import warnings; warnings.simplefilter('ignore')
import random, sys, math
from fractions import Fraction
import numpy as np, pandas as pd
from formulaic import Formula, model_matrix
from formulaic.parser.types import Term, Factor
from formulaic.errors import FactorEvaluationError
seed = int(sys.argv[1]); N = int(sys.argv[2]); outp = sys.argv[3]
rng = random.Random(seed)
def lit(s): return '[' + ';'.join(str(ord(c)) for c in s) + ']'
def qlit(x):
    if x is None or (isinstance(x, float) and math.isnan(x)): return 'None'
    f = Fraction(float(x)); return f"(q ({f.numerator}) {f.denominator})"
def qq(x): f = Fraction(float(x)); return f"(qq ({f.numerator}) {f.denominator})"
NUM = ['a', 'b']; CAT = {'A': ['x', 'y', 'z'], 'B': ['u', 'v'], 'G': ['p', 'q', 'r', 's']}
cases = []; stats = {}
for _ in range(N):
    n = rng.randint(1, 7); pnull = rng.choice([0, 0, 0.15, 0.3])
    d = {}; fr = []
    for c in NUM:
        v = [None if rng.random() < pnull else float(rng.choice([-2, -1, 0, 0.5, 1, 2, 3])) for _ in range(n)]
        d[c] = pd.Series(v, dtype=float); fr.append(f"({lit(c)}, CNum [{';'.join(qlit(x) for x in v)}])")
    for c, lv in CAT.items():
        lv = rng.sample(lv, rng.randint(1, len(lv)))
        v = [None if rng.random() < pnull else rng.choice(lv) for _ in range(n)]
        d[c] = pd.Series(v, dtype=object); fr.append(f"({lit(c)}, CCat [{';'.join('None' if x is None else 'Some ' + lit(x) for x in v)}])")
    df = pd.DataFrame(d)
    names = NUM + list(CAT) + (['zz'] if rng.random() < 0.03 else [])
    terms = []
    for _t in range(rng.randint(1, 5)):
        k = rng.choice([0, 1, 1, 2, 2, 3])
        fs = [(x, 'lookup') for x in rng.sample(names, min(k, len(names)))]
        if rng.random() < 0.25 or k == 0: fs.insert(rng.randrange(len(fs) + 1), (rng.choice(['1', '2', '0.5', '3', '1']), 'literal'))
        terms.append(fs)
    efr = rng.random() < 0.6; na = rng.choice(['drop', 'drop', 'raise', 'ignore'])
    cd = sorted(set(rng.randrange(n) for _ in range(rng.choice([0, 0, 1, 2]))))
    f = Formula([Term([Factor(x, eval_method=m) for x, m in t]) for t in terms], _ordering='none')
    try:
        dr = set(cd)
        mm = model_matrix(f, df, ensure_full_rank=efr, na_action=na, drop_rows=dr)
        cols = [[None if (isinstance(v, float) and math.isnan(v)) else float(v) for v in mm[c].tolist()] for c in mm.columns]
        st = '[' + ';'.join('[' + ';'.join('([' + ';'.join(f"({lit(sf.factor.expr)}, {str(bool(sf.reduced)).lower()})" for sf in stt.factors) + '], ' + qq(stt.scale) + ')' for stt in s.scoped_terms) + ']' for s in mm.model_spec.structure) + ']'
        exp = f"XOk [{';'.join(lit(c) for c in mm.columns)}] [{';'.join('[' + ';'.join(qlit(v) for v in col) + ']' for col in cols)}] [{';'.join(str(int(i)) + '%nat' for i in sorted(dr))}] {st}"
        k = 'ok'
    except FactorEvaluationError: exp = 'XErr 1'; k = 'eval'
    except ValueError as e:
        if 'null' in str(e): exp = 'XErr 2'; k = 'nullraise'
        else: exp = 'XErr 3'; k = 'valueerror:' + str(e)[:40]
    except Exception as e: exp = 'XErr 3'; k = 'other:' + type(e).__name__ + str(e)[:40]
    stats[k] = stats.get(k, 0) + 1
    tl = '[' + ';'.join('[' + ';'.join(f"Build_factor {lit(x)} {'FLit' if m == 'literal' else 'FLookup'}" for x, m in t) + ']' for t in terms) + ']'
    cfg = f"Build_cfg {str(efr).lower()} {'NaDrop' if na == 'drop' else 'NaRaise' if na == 'raise' else 'NaIgnore'} [{';'.join(str(i) + '%nat' for i in cd)}]"
    cases.append(f"([{';'.join(fr)}], {n}%nat, {cfg}, {tl}, {exp})")
with open(outp, 'w') as fo:
    fo.write("Require Import Mat ShowM. From Coq Require Import List NArith ZArith QArith Qcanon Bool Arith. Import ListNotations. Open Scope N_scope.\n")
    fo.write("Definition cases : list case := [\n" + ';\n'.join(cases) + "].\n")
    fo.write("Eval vm_compute in (let '(m, fl) := chk cases 0 in (m, firstn 10 fl)).\n")
print(stats)
