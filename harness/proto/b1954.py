# ===== gen2.py : implementation vs model =====
import random, re, sys, importlib.util
sys.argv_backup = sys.argv; 
from formulaic.parser import DefaultFormulaParser
from formulaic.parser.algos.tokenize import tokenize
from formulaic.parser.algos.sanitize_tokens import sanitize_python_code
from formulaic.errors import FormulaParsingError
seed = int(sys.argv[1]); N = int(sys.argv[2]); outp = sys.argv[3]; mode = sys.argv[4] if len(sys.argv) > 4 else 'mix'
rng = random.Random(seed)
# reuse the tree generator of c01ref.py
src = open('/tmp/probe/c01ref.py').read().split("P1 = DefaultFormulaParser()")[0]
src = src.replace("rng = random.Random(int(sys.argv[1]) if len(sys.argv) > 1 else 0)", "")
g = {'rng': rng, '__name__': 'c01gen'}
exec(compile(src, 'c01gen', 'exec'), g)
gen_add, pr = g['gen_add'], g['pr']
word = re.compile(r"[\.\_\w]"); num = re.compile(r"[0-9\.]"); ws = re.compile(r"\s")
soup = list("ab1 0.+-*/:^~|%(){}[]`\"'\\ ") + ["in", "a", "b", "+", "-", ":", "(", ")", "~", "|", "**", "2", " "] * 2
def gen_string():
    r = rng.random()
    if mode == 'soup' or (mode == 'mix' and r < 0.35):
        return ''.join(rng.choice(soup) for _ in range(rng.randint(0, 10)))
    shape = rng.choice(['rhs', 'two', 'parts', 'twoparts'])
    lhs = [gen_add()] if shape in ('two', 'twoparts') else None
    rhs = [gen_add() for _ in range(rng.randint(2, 3) if 'parts' in shape else 1)]
    w = (lambda: rng.choice(['', '', ' '])) if rng.random() < 0.5 else (lambda: '')
    s = ''
    if lhs: s += pr(lhs[0], w) + w() + '~'
    s += '|'.join(w() + pr(p, w) for p in rhs)
    if rng.random() < 0.2:   # mutate
        i = rng.randrange(len(s) + 1); s = s[:i] + rng.choice(soup) + s[i + rng.choice([0, 0, 1]):]
    if rng.random() < 0.1: s = s.replace('a', '.', 1)
    return s
def lit(s): return '[' + ';'.join(str(ord(c)) for c in s) + ']'
ICLS = {'AttributeError':1,'StopIteration':2,'TypeError':3,'ValueError':4,'KeyError':6,'IndexError':7}
def conv_set(x): return '[' + ';'.join('[' + ';'.join(lit(f.expr) for f in t.factors) + ']' for t in x) + ']'
def conv_side(v):
    if isinstance(v, tuple): return 'inr [' + ';'.join(conv_set(p) for p in v) + ']'
    return 'inl ' + conv_set(v)
cases = []; stats = {}
skipped = 0
while len(cases) < N:
    s = gen_string()
    # python-normalisation oracle: only keep cases where it is the identity
    toks = []
    try:
        for t in tokenize(s): toks.append(t)
    except Exception:
        pass
    skip = False; badpy = {}; pyv = {}
    for t in toks:
        if t.kind.value == 'python':
            try:
                if sanitize_python_code(t.token) != t.token: skip = True
                pyv[t.token] = sorted(str(v) for v in t.required_variables)
            except SyntaxError: badpy[t.token] = 0
            except Exception as e: badpy[t.token] = ICLS.get(type(e).__name__, 5)
    if skip: skipped += 1; continue
    intercept = rng.random() < 0.6
    fl = (rng.random() < 0.85, rng.random() < 0.85, rng.random() < 0.15)
    flags = set(n for n, b in zip(('twosided', 'multipart', 'multistage'), fl) if b)
    avail = rng.choice([None, ['a', 'b', 'x'], ['y', 'c']])
    P = DefaultFormulaParser(include_intercept=intercept, feature_flags=flags)
    ctx = {'__formulaic_variables_available__': avail} if avail is not None else {}
    try:
        st = P.get_terms(s, context=ctx)
        d = st._structure
        if getattr(st, '_metadata', None) or 'deps' in d or any(k not in ('root', 'lhs', 'rhs') for k in d): exp = 'OMulti'
        elif 'root' in d and len(d) == 1:
            exp = f"ORoot ({conv_side(d['root'])})" if not isinstance(d['root'], list) else "ORoot (inl [])"
        else: exp = f"OTwo ({conv_side(d['lhs'])}) ({conv_side(d['rhs'])})"
        k = 'ok'
    except FormulaParsingError:
        exp = 'OReject'; k = 'reject'
    except SyntaxError:
        exp = 'OPySyntax'; k = 'pysyntax'
    except Exception as e:
        exp = f"OInternal {ICLS.get(type(e).__name__, 5)}"; k = 'internal:' + type(e).__name__
    stats[k] = stats.get(k, 0) + 1
    av = 'None' if avail is None else 'Some [' + ';'.join(lit(v) for v in avail) + ']'
    bd = '[' + ';'.join(f"({lit(k)}, {v}%nat)" for k, v in badpy.items()) + ']'
    pvs = '[' + ';'.join(f"({lit(k)}, [" + ';'.join(lit(x) for x in v) + "])" for k, v in pyv.items()) + ']'
    cases.append(f"(({lit(s)}, {str(intercept).lower()}, ({str(fl[0]).lower()},{str(fl[1]).lower()},{str(fl[2]).lower()}), {av}, {bd}, {pvs}), {exp})")
cls = []
for cp in range(128):
    ch = chr(cp)
    cls.append(f"(Build_cls {str(bool(word.match(ch))).lower()} {str(bool(num.match(ch))).lower()} {str(bool(ws.match(ch))).lower()})")
with open(outp, 'w') as f:
    f.write("Require Import Tok Parser Parser2 Parser3 Show. From Coq Require Import List NArith Bool Arith. Import ListNotations. Open Scope N_scope.\n")
    f.write("Definition table128 : list cls := [" + ';'.join(cls) + "].\n")
    f.write("Definition classify (c : N) : cls := nth (N.to_nat c) table128 (Build_cls true false false).\n")
    f.write("Definition cases : list (str * bool * (bool*bool*bool) * option (list str) * list (str * nat) * list (str * list str) * outcome) := [\n" + ';\n'.join(cases) + "].\n")
    f.write("Eval vm_compute in (let '(m, fl) := chk classify cases 0 in (m, firstn 8 fl)).\n")
print(stats, 'skipped', skipped)
