"""Independent reference for the documented term algebra, on generator-owned trees."""
import random, sys, itertools
from formulaic.parser import DefaultFormulaParser
from formulaic.errors import FormulaParsingError

rng = random.Random(int(sys.argv[1]) if len(sys.argv) > 1 else 0)
NAMES = list("abcdef")

# ---- ordered sets of terms; term = tuple of factors (first-appearance order); identity = frozenset
def tkey(t): return tuple(sorted(t))
def oset(ts):
    out = {}; 
    for t in ts: out.setdefault(tkey(t), t)
    return list(out.values())
def union(a, b): return oset(a + b)
def diff(a, b):
    kb = {tkey(t) for t in b}; return [t for t in a if tkey(t) not in kb]
def tmul(s, t):
    out = list(s)
    for f in t:
        if f not in out: out.append(f)
    return tuple(out)
def colon(a, b): return oset([tmul(s, t) for s in a for t in b])
def star(a, b): return union(union(a, b), colon(a, b))
def slash(a, b):
    common = ()
    for t in a: common = tmul(common, t)
    return union(a, oset([tmul(common, t) for t in b]))
def power(a, n):
    out = []
    for tup in itertools.product(*[a] * n):
        t = ()
        for x in tup: t = tmul(t, x)
        out.append(t)
    return oset(out)

# ---- trees.  ('atom', s) ('par', e) ('add', [(signs, item), ...]) ('bin', op, l, r) ('pow', base, n) ('zero',)
def gen_atom():
    r = rng.random()
    if r < 0.75: return ('atom', rng.choice(NAMES))
    if r < 0.85: return ('atom', '1')
    if r < 0.95: return ('par', gen_add(2))
    return ('atom', rng.choice(['log(a)', '`x y`', 'f(b, c)']))
def gen_pow():
    a = gen_atom()
    if rng.random() < 0.15: return ('pow', a, rng.randint(1, 3), rng.choice(['**', '^']))
    return a
def gen_chain(ops, sub, p=0.35):
    e = sub()
    while rng.random() < p: e = ('bin', rng.choice(ops), e, sub())
    return e
def gen_colon(): return gen_chain([':'], gen_pow)
def gen_mul(): return gen_chain(['*', '/', '%in%'], gen_colon, 0.3)
def gen_signs(maxlen=3): return [rng.choice('+-') for _ in range(rng.randint(1, maxlen))]
def gen_add(depth=3):
    n = rng.randint(1, 4)
    items = []
    for i in range(n):
        if i == 0: signs = gen_signs() if rng.random() < 0.25 else []
        else: signs = gen_signs()
        item = ('zero',) if rng.random() < 0.1 else gen_mul()
        items.append((signs, item))
    return ('add', items)

def pr(e, ws=lambda: ''):
    k = e[0]
    if k == 'atom': return e[1]
    if k == 'zero': return '0'
    if k == 'par': return '(' + ws() + pr(e[1], ws) + ws() + ')'
    if k == 'pow': return pr(e[1], ws) + ws() + e[3] + ws() + str(e[2])
    if k == 'bin': return pr(e[2], ws) + ws() + e[1] + ws() + pr(e[3], ws)
    if k == 'add':
        return ''.join(ws() + (ws().join(s)) + ws() + pr(it, ws) for s, it in e[1])
def parity(signs, extra=0): return (sum(1 for c in signs if c == '-') + extra) % 2

class Reject(Exception): pass
def ev(e):
    k = e[0]
    if k == 'atom': return [(e[1].strip('`'),)]
    if k == 'par': return ev(e[1])
    if k == 'pow': return power(ev(e[1]), e[2])
    if k == 'bin':
        l, r = ev(e[2]), ev(e[3]); op = e[1]
        if op == ':': return colon(l, r)
        if op == '*': return star(l, r)
        if op == '/':
            if not l: raise Reject()
            return slash(l, r)
        if op == '%in%':
            if not r: raise Reject()
            return slash(r, l)
    if k == 'add': return ev_add(e, None)
def ev_add(e, lead):
    """lead: None, or an initial ordered set (the implicit intercept) that the first run attaches to."""
    acc = lead
    for i, (signs, it) in enumerate(e[1]):
        extra = 0
        if it[0] == 'zero': val = [('1',)]; extra = 1      # 0 == -1
        else: val = ev(it)
        odd = parity(signs, extra)
        if acc is None:                                       # unary position
            acc = [] if odd else val
        else:
            acc = diff(acc, val) if odd else union(acc, val)
    return acc
def check(ts):
    seen = set()
    for t in ts:
        nonlit = tuple(f for f in t if f != '1')
        if len(t) == 1 and False: pass
        if nonlit in seen: raise Reject()
        seen.add(nonlit)
def degree_sort(ts): return sorted(ts, key=lambda t: len([f for f in t if f != '1']))   # stable

def ref_side(e, intercept):
    ts = ev_add(e, [('1',)] if intercept else None)
    check(ts); return ts

def impl(parser, s):
    try:
        st = parser.get_terms(s)
    except FormulaParsingError as ex:
        return ('reject', type(ex).__name__)
    except Exception as ex:
        return ('internal', type(ex).__name__)
    def conv(x):
        if isinstance(x, tuple): return tuple(conv(y) for y in x)
        return [tuple(f.expr for f in t.factors) for t in x]
    return ('ok', {k: conv(v) for k, v in st._structure.items()})

P1 = DefaultFormulaParser(); P0 = DefaultFormulaParser(include_intercept=False)
N = int(sys.argv[2]) if len(sys.argv) > 2 else 2000
bad = {}; n_ok = n_rej = 0
for it in range(N):
    shape = rng.choice(['rhs', 'two', 'parts', 'twoparts'])
    lhs = [gen_add()] if shape in ('two', 'twoparts') else None
    rhs = [gen_add() for _ in range(rng.randint(2, 3) if 'parts' in shape else 1)]
    ws = (lambda: rng.choice(['', '', ' ', '  '])) if rng.random() < 0.5 else (lambda: '')
    s = ''
    if lhs: s += pr(lhs[0], ws) + ws() + '~'
    s += '|'.join(ws() + pr(p, ws) for p in rhs)
    for intercept, P in ((True, P1), (False, P0)):
        try:
            r = [ref_side(p, intercept) for p in rhs]
            exp = {}
            if lhs: exp['lhs'] = ref_side(lhs[0], False); exp['rhs'] = tuple(r) if len(r) > 1 else r[0]
            else: exp['root'] = tuple(r) if len(r) > 1 else r[0]
            exp = ('ok', exp)
        except Reject:
            exp = ('reject',)
        got = impl(P, s)
        if exp[0] == 'ok': n_ok += 1
        else: n_rej += 1
        agree = (got[0] == 'ok' and exp[0] == 'ok' and got[1] == exp[1]) or (exp[0] == 'reject' and got[0] == 'reject')
        import re
        known = (not intercept) and re.search(r'[~|]\s*[+-](\s*[+-])+', re.sub(r'(?<![\w.])0(?![\w.])','-1',s)) is not None
        if got[0]=='internal' and exp[0]=='reject': known=True
        if not agree and not known:
            key = (got[0], exp[0])
            bad.setdefault(key, []).append((s, intercept, got[1] if got[0] != 'ok' else got[1], exp[1] if exp[0]=='ok' else None))
print('cases ok-expected', n_ok, 'reject-expected', n_rej)
for k, v in bad.items():
    print(k, len(v))
    for x in v[:6]: print('    ', x)
