# ===== gen.py (throw-away correspondence driver; pattern for harness/vp/cases.py) =====
import random, re, sys
from formulaic.parser.algos.tokenize import tokenize
from formulaic.errors import FormulaSyntaxError
rng = random.Random(int(sys.argv[1]))
N = int(sys.argv[2])
word = re.compile(r"[\.\_\w]"); num = re.compile(r"[0-9\.]"); ws = re.compile(r"\s")
alpha = list("ab1 0.+-*/:^~|%(){}[]`\"'\\_ \t") + ["é","x"] + list("abc+-:* ()")*3
KIND = {'context':0,'operator':1,'value':2,'name':3,'python':4}
def lit(s): return '[' + ';'.join(str(ord(c)) for c in s) + ']'
cases = []
stats = {'ok':0,'err':0}
for _ in range(N):
    n = rng.randint(0, 14)
    s = ''.join(rng.choice(alpha) for _ in range(n))
    try:
        toks = list(tokenize(s))
        exp = 'inl [' + ';'.join(f"({lit(t.token)},{KIND[t.kind.value]}%nat,{t.source_start}%nat,{t.source_end}%nat)" for t in toks) + ']'
        stats['ok'] += 1
    except FormulaSyntaxError as e:
        m = str(e)
        code = 0 if 'quote context' in m else (1 if 'Unexpected character' in m else 2)
        exp = f'inr {code}%nat'
        stats['err'] += 1
    cases.append(f"({lit(s)}, {exp})")
cls = []
for cp in range(128):
    c = chr(cp)
    cls.append(f"(mkcls {str(bool(word.match(c))).lower()} {str(bool(num.match(c))).lower()} {str(bool(ws.match(c))).lower()})")
with open(sys.argv[3], 'w') as f:
    f.write("Require Import Tok. From Coq Require Import List NArith Bool Arith. Import ListNotations. Open Scope N_scope.\n")
    f.write("Definition mkcls a b c := Build_cls a b c.\n")
    f.write("Definition table : list cls := [" + ';'.join(cls) + "].\n")
    f.write("Definition classify (c : N) : cls := nth (N.to_nat c) table (mkcls true false false).\n")
    f.write("Definition kcode (k : option kind) : nat := match k with Some KContext => 0 | Some KOperator => 1 | Some KValue => 2 | Some KName => 3 | Some KPython => 4 | None => 9 end%nat.\n")
    f.write("Definition ecode (e : terr) : nat := match e with EUnterminated => 0 | EUnexpectedQuote => 1 | EUnexpectedKind => 2 end%nat.\n")
    f.write("Definition on (o : option nat) := match o with Some n => n | None => 999%nat end.\n")
    f.write("Definition show (r : list token + terr) : list (list N * nat * nat * nat) + nat := match r with inl ts => inl (map (fun t => (ttext t, kcode (tkind t), on (tstart t), on (tend t))) ts) | inr e => inr (ecode e) end.\n")
    f.write("Fixpoint leqb (a b : list N) := match a, b with [], [] => true | x :: a', y :: b' => (x =? y) && leqb a' b' | _, _ => false end.\n")
    f.write("Fixpoint teqb (a b : list (list N * nat * nat * nat)) := match a, b with [], [] => true | (t1,k1,s1,e1) :: a', (t2,k2,s2,e2) :: b' => leqb t1 t2 && Nat.eqb k1 k2 && Nat.eqb s1 s2 && Nat.eqb e1 e2 && teqb a' b' | _, _ => false end.\n")
    f.write("Definition agree (x y : list (list N * nat * nat * nat) + nat) := match x, y with inl a, inl b => teqb a b | inr a, inr b => Nat.eqb a b | _, _ => false end.\n")
    f.write("Definition cases : list (list N * (list (list N * nat * nat * nat) + nat)) := [\n" + ';\n'.join(cases) + "].\n")
    f.write("Fixpoint chk (cs : list (list N * (list (list N * nat * nat * nat) + nat))) (i : nat) : nat * list nat := match cs with [] => (O, []) | (a, b) :: r => let '(m, f) := chk r (S i) in if agree (show (tokenize classify a)) b then (m, f) else (S m, i :: f) end.\n")
    f.write("Eval vm_compute in (let '(m, f) := chk cases 0 in (m, firstn 5 f)).\n")
print(stats)
