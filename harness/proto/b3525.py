# ===== genr.py =====
import warnings; warnings.simplefilter('ignore')
import random, sys, math
from fractions import Fraction
import numpy as np, pandas as pd
from formulaic import Formula, model_matrix
from formulaic.parser.types import Term, Factor
from formulaic.errors import FactorEvaluationError, FactorEncodingError
seed = int(sys.argv[1]); N = int(sys.argv[2]); outp = sys.argv[3]
rng = random.Random(seed)
def lit(s): return '[' + ';'.join(str(ord(c)) for c in str(s)) + ']'
def qlit(x):
    if x is None or (isinstance(x, float) and math.isnan(x)): return 'None'
    f = Fraction(float(x)); return f"(q ({f.numerator}) {f.denominator})"
def qq(x): f = Fraction(float(x)); return f"(qq ({f.numerator}) {f.denominator})"
NUM = ['a', 'b']; CAT = {'A': ['x', 'y', 'z'], 'B': ['u', 'v'], 'G': ['p', 'q', 'r', 's']}
def mkframe(n, pnull, flip=False, extra=False):
    d = {}; fr = []
    for c in NUM + list(CAT):
        iscat = (c in CAT)
        if flip and rng.random() < 0.25: iscat = not iscat
        if not iscat:
            v = [None if rng.random() < pnull else float(rng.choice([-2, -1, 0, 0.5, 1, 2, 3])) for _ in range(n)]
            d[c] = pd.Series(v, dtype=float); fr.append(f"({lit(c)}, CNum [{';'.join(qlit(x) for x in v)}])")
        else:
            lv = list(CAT.get(c, ['m', 'n']))
            lv = rng.sample(lv, rng.randint(1, len(lv)))
            if extra and rng.random() < 0.3: lv = lv + ['w']
            v = [None if rng.random() < pnull else rng.choice(lv) for _ in range(n)]
            d[c] = pd.Series(v, dtype=object); fr.append(f"({lit(c)}, CCat [{';'.join('None' if x is None else 'Some ' + lit(x) for x in v)}])")
    return pd.DataFrame(d), '[' + ';'.join(fr) + ']'
cases = []; stats = {}
while len(cases) < N:
    n = rng.randint(1, 6)
    df, _ = mkframe(n, rng.choice([0, 0, 0.15]))
    names = NUM + list(CAT)
    terms = []
    for _t in range(rng.randint(1, 4)):
        k = rng.choice([0, 1, 1, 2, 2, 3])
        fs = [(x, 'lookup') for x in rng.sample(names, min(k, len(names)))]
        if rng.random() < 0.2 or k == 0: fs.insert(rng.randrange(len(fs) + 1), (rng.choice(['1', '2', '0.5', '1']), 'literal'))
        terms.append(fs)
    efr = rng.random() < 0.7; na = rng.choice(['drop', 'drop', 'raise', 'ignore'])
    f = Formula([Term([Factor(x, eval_method=m) for x, m in t]) for t in terms], _ordering='none')
    try: mm = model_matrix(f, df, ensure_full_rank=efr, na_action=na)
    except Exception: continue
    ms = mm.model_spec
    st = '[' + ';'.join('([' + ';'.join('mkst [' + ';'.join(f"({lit(sf.factor.expr)}, {str(bool(sf.reduced)).lower()})" for sf in stt.factors) + '] ' + qq(stt.scale) for stt in s.scoped_terms) + '], [' + ';'.join(lit(c) for c in s.columns) + '])' for s in ms.structure) + ']'
    enc = []
    for k, (kind, state) in ms.encoder_state.items():
        if kind.value == 'categorical': enc.append(f"({lit(k)}, KCat [{';'.join(lit(c) for c in state.get('categories', []))}])")
        else: enc.append(f"({lit(k)}, KNum)")
    tl = '[' + ';'.join('[' + ';'.join(f"Build_factor {lit(x)} {'FLit' if m == 'literal' else 'FLookup'}" for x, m in t) + ']' for t in terms) + ']'
    cfg = f"Build_cfg {str(efr).lower()} {'NaDrop' if na == 'drop' else 'NaRaise' if na == 'raise' else 'NaIgnore'} []"
    sp = f"Build_spec {tl} {st} [{';'.join(enc)}] ({cfg})"
    n2 = rng.randint(1, 6)
    df2, fr2 = mkframe(n2, rng.choice([0, 0, 0.2]), flip=rng.random() < 0.3, extra=True)
    cd = sorted(set(rng.randrange(n2) for _ in range(rng.choice([0, 0, 1]))))
    try:
        dr = set(cd)
        r = ms.get_model_matrix(df2, drop_rows=dr)
        cols = [[None if (isinstance(v, float) and math.isnan(v)) else float(v) for v in r[c].tolist()] for c in r.columns]
        exp = f"RXOk [{';'.join(lit(c) for c in r.columns)}] [{';'.join('[' + ';'.join(qlit(v) for v in col) + ']' for col in cols)}] [{';'.join(str(int(i)) + '%nat' for i in sorted(dr))}]"
        k = 'ok'
    except FactorEvaluationError: exp = 'RXErr 1'; k = 'eval'
    except FactorEncodingError as e:
        m = str(e)
        code = 3 if 'too many' in m else 4 if 'insufficient' in m else 5 if 'inconsistent' in m else 6
        exp = f'RXErr {code}'; k = 'enc%d' % code
    except ValueError as e:
        if 'null' in str(e): exp = 'RXErr 2'; k = 'nullraise'
        else: exp = 'RXErr 6'; k = 'valueerror:' + str(e)[:50]
    except Exception as e: exp = 'RXErr 6'; k = 'other:' + type(e).__name__ + ':' + str(e)[:50]
    stats[k] = stats.get(k, 0) + 1
    cases.append(f"({sp}, {fr2}, {n2}%nat, [{';'.join(str(i) + '%nat' for i in cd)}], {exp})")
with open(outp, 'w') as fo:
    fo.write("Require Import Mat ShowM Mat2 ShowR. From Coq Require Import List NArith ZArith QArith Qcanon Bool Arith. Import ListNotations. Open Scope N_scope.\n")
    fo.write("Definition cases : list rcase := [\n" + ';\n'.join(cases) + "].\n")
    fo.write("Eval vm_compute in (let '(m, fl) := rchk cases 0 in (m, firstn 10 fl)).\n")
print(stats)
