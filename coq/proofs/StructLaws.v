(* ===== StructLaws.v : laws of the Structured model (C19) ===== *)
From Coq Require Import List Arith Bool NArith Lia.
Import ListNotations.
Require Import Struct.

(* ---------- induction principle for the nested type ---------- *)
Section Ind.
Variable A : Type.
Variable P : node A -> Prop.
Hypothesis HL : forall a, P (Leaf a).
Hypothesis HT : forall items, Forall P items -> P (Tup items).
Hypothesis HS : forall fields, Forall (fun kv => P (snd kv)) fields -> P (Str fields).
Fixpoint node_ind' (n : node A) : P n :=
  match n with
  | Leaf a => HL a
  | Tup items => HT items ((fix go (l : list (node A)) : Forall P l :=
                              match l with [] => Forall_nil _ | x :: r => Forall_cons _ (node_ind' x) (go r) end) items)
  | Str fields => HS fields ((fix go (l : list (key * node A)) : Forall (fun kv => P (snd kv)) l :=
                                match l with [] => Forall_nil _ | x :: r => Forall_cons _ (node_ind' (snd x)) (go r) end) fields)
  end.
End Ind.

Lemma keqb_refl k : keqb k k = true.
Proof. induction k; cbn; auto. rewrite N.eqb_refl; auto. Qed.
Lemma keqb_eq a b : keqb a b = true <-> a = b.
Proof.
  revert b; induction a as [|x a IH]; destruct b as [|y b]; cbn; split; intro H; try discriminate; auto.
  - apply andb_true_iff in H as [H1 H2]. apply N.eqb_eq in H1. apply IH in H2. congruence.
  - inversion H; subst. rewrite N.eqb_refl. apply IH. reflexivity.
Qed.
Lemma keqb_sym a b : keqb a b = keqb b a.
Proof. destruct (keqb a b) eqn:E. apply keqb_eq in E; subst; symmetry; apply keqb_refl.
  destruct (keqb b a) eqn:E'; auto. apply keqb_eq in E'; subst. rewrite keqb_refl in E. discriminate. Qed.

(* ---------- _map ---------- *)
Theorem smap_shape {A B} (f : A -> B) n : shape_of (smap f n) = shape_of n.
Proof.
  induction n using node_ind'; cbn; auto.
  - f_equal. rewrite map_map. apply map_ext_in. intros x Hx. rewrite Forall_forall in H. auto.
  - f_equal. rewrite map_map. apply map_ext_in. intros [k v] Hx. cbn. rewrite Forall_forall in H. f_equal. apply (H (k, v) Hx).
Qed.

Theorem leaves_smap {A B} (f : A -> B) n : leaves (smap f n) = map f (leaves n).
Proof.
  induction n using node_ind'; cbn; auto.
  - induction H as [|x l Hx _ IH]; cbn; [reflexivity|]. rewrite map_app, Hx, IH. reflexivity.
  - induction H as [|x l Hx _ IH]; cbn; [reflexivity|]. rewrite map_app, Hx, IH. reflexivity.
Qed.

Theorem sflatten_leaves {A} (n : node A) : sflatten n = leaves n.
Proof.
  reflexivity.   (* after the fix the two traversals are the same recursion *)
Qed.

(* mapping visits each leaf exactly once, in flatten order: the list of values produced is [map f] of the flatten list *)
Theorem sflatten_smap {A B} (f : A -> B) n : sflatten (smap f n) = map f (sflatten n).
Proof. rewrite !sflatten_leaves. apply leaves_smap. Qed.

Theorem smap_id {A} (n : node A) : smap (fun x => x) n = n.
Proof.
  induction n using node_ind'; cbn; auto.
  - f_equal. induction H as [|x l Hx _ IH]; cbn; [reflexivity|]. rewrite Hx, IH. reflexivity.
  - f_equal. induction H as [|[k v] l Hx _ IH]; cbn in *; [reflexivity|]. rewrite Hx, IH. reflexivity.
Qed.

Theorem smap_compose {A B C} (f : A -> B) (g : B -> C) n : smap g (smap f n) = smap (fun x => g (f x)) n.
Proof.
  induction n using node_ind'; cbn; auto.
  - f_equal. rewrite map_map. apply map_ext_in. intros x Hx. rewrite Forall_forall in H. auto.
  - f_equal. rewrite map_map. apply map_ext_in. intros [k v] Hx. cbn. rewrite Forall_forall in H. f_equal. apply (H (k, v) Hx).
Qed.

Theorem leaves_length_smap {A B} (f : A -> B) n : length (leaves (smap f n)) = length (leaves n).
Proof. rewrite leaves_smap. apply map_length. Qed.

(* ---------- _simplify ---------- *)
Lemma simplify_tup_is_tup {A} (v : node A) : is_tup v = true -> is_tup (simplify v) = true.
Proof. destruct v; cbn; auto; discriminate. Qed.

Lemma map_simpl_idem {A} (fields : list (key * node A)) :
  Forall (fun kv => simplify (simplify (snd kv)) = simplify (snd kv)) fields ->
  map (fun kv => (fst kv, simplify (snd kv))) (map (fun kv => (fst kv, simplify (snd kv))) fields)
  = map (fun kv => (fst kv, simplify (snd kv))) fields.
Proof. intro H. rewrite map_map. apply map_ext_in. intros [k v] Hin. cbn. rewrite Forall_forall in H. f_equal. apply (H (k, v) Hin). Qed.

Theorem simplify_idempotent {A} (n : node A) : simplify (simplify n) = simplify n.
Proof.
  induction n using node_ind'.
  - reflexivity.
  - cbn. f_equal. rewrite map_map. apply map_ext_in. intros x Hx. rewrite Forall_forall in H. auto.
  - destruct fields as [|[k v] [|kv2 r]].
    + reflexivity.
    + inversion H as [|? ? Hv _]; subst. cbn in Hv.
      cbn [simplify]. destruct (keqb k kroot && negb (is_tup v)) eqn:E.
      * exact Hv.
      * cbn [simplify]. destruct (keqb k kroot && negb (is_tup (simplify v))) eqn:E2.
        -- apply andb_true_iff in E2 as [E3 E4]. rewrite E3 in E. cbn in E. apply negb_false_iff in E.
           apply simplify_tup_is_tup in E. rewrite E in E4. discriminate.
        -- rewrite Hv. reflexivity.
    + change (simplify (Str ((k, v) :: kv2 :: r))) with (Str (map (fun kv => (fst kv, simplify (snd kv))) ((k, v) :: kv2 :: r))).
      remember ((k, v) :: kv2 :: r) as fs eqn:Efs.
      assert (Hm := map_simpl_idem fs H).
      destruct (map (fun kv => (fst kv, simplify (snd kv))) fs) as [|[k1 v1] [|kv3 r3]] eqn:Em.
      * subst fs; discriminate.
      * subst fs; discriminate.
      * change (simplify (Str ((k1, v1) :: kv3 :: r3))) with (Str (map (fun kv => (fst kv, simplify (snd kv))) ((k1, v1) :: kv3 :: r3))).
        rewrite Hm. reflexivity.
Qed.

Theorem simplify_leaves {A} (n : node A) : leaves (simplify n) = leaves n.
Proof.
  induction n using node_ind'.
  - reflexivity.
  - cbn. induction H as [|x l Hx _ IH]; cbn; [reflexivity|]. rewrite Hx, IH. reflexivity.
  - assert (Hgen : leaves (Str (map (fun kv => (fst kv, simplify (snd kv))) fields)) = leaves (Str fields)).
    { cbn. induction H as [|[k v] l Hx _ IH]; cbn in *; [reflexivity|]. rewrite Hx, IH. reflexivity. }
    destruct fields as [|[k v] [|kv2 r]].
    + reflexivity.
    + inversion H as [|? ? Hv _]; subst. cbn in Hv.
      cbn [simplify]. destruct (keqb k kroot && negb (is_tup v)) eqn:E.
      * rewrite Hv. cbn. rewrite app_nil_r. reflexivity.
      * exact Hgen.
    + exact Hgen.
Qed.

(* simplification never leaves a removable wrapper behind *)
Definition wrapper {A} (n : node A) : bool :=
  match n with Str [(k, v)] => keqb k kroot && negb (is_tup v) | _ => false end.
Theorem simplify_no_wrapper {A} (n : node A) : wrapper (simplify n) = false.
Proof.
  induction n using node_ind'.
  - reflexivity.
  - reflexivity.
  - destruct fields as [|[k v] [|kv2 r]].
    + reflexivity.
    + inversion H as [|? ? Hv _]; subst. cbn in Hv. cbn [simplify].
      destruct (keqb k kroot && negb (is_tup v)) eqn:E; [exact Hv|].
      cbn [wrapper]. destruct (keqb k kroot) eqn:Ek; cbn in *; auto.
      apply negb_false_iff in E. apply simplify_tup_is_tup in E. rewrite E. reflexivity.
    + reflexivity.
Qed.

(* ---------- dict lemmas ---------- *)
Section DictL.
Context {V : Type}.
Implicit Types d e : list (key * V).

Lemma dget_dset_same k v d : dget k (dset k v d) = Some v.
Proof. induction d as [|[k' v'] r IH]; cbn. rewrite keqb_refl; auto.
  destruct (keqb k k') eqn:E; cbn; rewrite E; auto. Qed.
Lemma dget_dset_other k k' v d : keqb k' k = false -> dget k' (dset k v d) = dget k' d.
Proof. intro H. induction d as [|[k2 v2] r IH]; cbn. rewrite H; auto.
  destruct (keqb k k2) eqn:E; cbn.
  - apply keqb_eq in E; subst. rewrite H. reflexivity.
  - destruct (keqb k' k2); auto. Qed.
Lemma dget_notin k d : existsb (keqb k) (dkeys d) = false -> dget k d = None.
Proof. induction d as [|[k2 v2] r IH]; cbn; auto. intro H. apply orb_false_iff in H as [Ha Hb]. rewrite Ha. auto. Qed.
Lemma dget_ddel_same k d : uniq (dkeys d) = true -> dget k (ddel k d) = None.
Proof. induction d as [|[k2 v2] r IH]; cbn; auto. intro H. apply andb_true_iff in H as [H1 H2].
  destruct (keqb k k2) eqn:E.
  - apply keqb_eq in E; subst. apply dget_notin. apply negb_true_iff in H1. exact H1.
  - cbn. rewrite E. auto. Qed.
Lemma dget_ddel_other k k' d : keqb k' k = false -> dget k' (ddel k d) = dget k' d.
Proof. intro H. induction d as [|[k2 v2] r IH]; cbn; auto.
  destruct (keqb k k2) eqn:E; cbn.
  - apply keqb_eq in E; subst. rewrite H. reflexivity.
  - destruct (keqb k' k2); auto. Qed.
Lemma dget_app k d e : dget k (d ++ e) = match dget k d with Some v => Some v | None => dget k e end.
Proof. induction d as [|[k2 v2] r IH]; cbn; auto. destruct (keqb k k2); auto. Qed.

Lemma dget_root_last k d : uniq (dkeys d) = true -> dget k (root_last d) = dget k d.
Proof.
  intro U. unfold root_last. destruct (dget kroot d) as [v|] eqn:E; auto.
  rewrite dget_app. destruct (keqb k kroot) eqn:Ek.
  - apply keqb_eq in Ek; subst. rewrite dget_ddel_same by auto. cbn. symmetry. exact E.
  - rewrite dget_ddel_other by auto. destruct (dget k d); auto. cbn. rewrite Ek. reflexivity.
Qed.

(* {**d, **e}: the last binding of a key in e wins, else d's binding *)
Lemma dget_dupdate k d e : dget k (dupdate d e) = match dget k (rev e) with Some v => Some v | None => dget k d end.
Proof.
  unfold dupdate. revert d. induction e as [|[k2 v2] r IH]; intro d; cbn; auto.
  rewrite IH. rewrite dget_app. destruct (dget k (rev r)); auto. cbn.
  destruct (keqb k k2) eqn:E.
  - apply keqb_eq in E; subst. apply dget_dset_same.
  - apply dget_dset_other; auto.
Qed.

Lemma dkeys_dset_uniq k v d : uniq (dkeys d) = true -> uniq (dkeys (dset k v d)) = true.
Proof.
  unfold dkeys. induction d as [|[k2 v2] r IH]; cbn; auto. intro H. apply andb_true_iff in H as [H1 H2].
  destruct (keqb k k2) eqn:E; cbn.
  - rewrite H1, H2. auto.
  - rewrite IH by auto. rewrite andb_true_r. apply negb_true_iff. apply negb_true_iff in H1.
    clear IH H2. induction r as [|[k3 v3] r IH]; cbn in *.
    + rewrite keqb_sym, E. auto.
    + apply orb_false_iff in H1 as [Ha Hb]. destruct (keqb k k3) eqn:E3; cbn.
      * rewrite Ha, Hb. auto.
      * rewrite Ha. cbn. apply IH. auto.
Qed.
Lemma dupdate_uniq d e : uniq (dkeys d) = true -> uniq (dkeys (dupdate d e)) = true.
Proof. unfold dupdate. revert d. induction e as [|[k v] r IH]; intros d H; cbn; auto. apply IH. apply dkeys_dset_uniq. auto. Qed.
End DictL.

(* ---------- _update is a dictionary merge ---------- *)
Definition fields_of {A} (n : node A) : list (key * node A) := match n with Str f => f | _ => [] end.
Theorem supdate_is_merge {A} (fields upd : list (key * node A)) k :
  uniq (dkeys fields) = true ->
  dget k (fields_of (supdate (Str fields) upd)) = match dget k (rev upd) with Some v => Some v | None => dget k fields end.
Proof. intro U. cbn. rewrite dget_root_last by (apply dupdate_uniq; auto). apply dget_dupdate. Qed.
