(* ===== P2.v ===== *)
From Coq Require Import List Arith Bool Lia Permutation NArith.
Import ListNotations.
Require Import Scope ScopeP1.

Section P.
Variable isnum : fid_t -> bool.
Notation required := (required isnum).
Notation covers := (covers isnum).
Notation count := (count isnum).
Notation wf := (wf isnum).

(* ---- merge_into ---- *)
Lemma merge_ids st f : map fid (merge_into st f) = map fid st.
Proof. unfold merge_into. rewrite map_map. apply map_ext. intros g. destruct (sf_eqb g f); reflexivity. Qed.

Lemma in_merge st f x : In x (merge_into st f) <-> (In x st /\ x <> f) \/ (In f st /\ x = (fst f, false)).
Proof.
  unfold merge_into. rewrite in_map_iff. split.
  - intros (g & Hg & Hin). destruct (sf_eqb g f) eqn:E.
    + apply sf_eqb_spec in E. subst g. right. split; auto.
    + left. subst x. split; auto. intros ->. rewrite (proj2 (sf_eqb_spec f f) eq_refl) in E. discriminate.
  - intros [[Hin Hne] | [Hin ->]].
    + exists x. split; auto. destruct (sf_eqb x f) eqn:E; auto. apply sf_eqb_spec in E. contradiction.
    + exists f. split; auto. rewrite (proj2 (sf_eqb_spec f f) eq_refl). reflexivity.
Qed.

Lemma wf_merge st f : wf st -> In f st -> wf (merge_into st f).
Proof.
  intros [Hnd Hnum] Hf. split.
  - rewrite merge_ids. exact Hnd.
  - intros g Hg Hr. apply in_merge in Hg as [[Hg _] | [_ ->]]; [apply Hnum; auto | cbn in Hr; discriminate].
Qed.

Lemma nodup_ids_inj st f g : NoDup (map fid st) -> In f st -> In g st -> fid f = fid g -> f = g.
Proof.
  induction st as [|x st IH]; cbn; intros Hnd Hf Hg He; [contradiction|].
  inversion Hnd as [|? ? Hnin Hnd']; subst.
  destruct Hf as [->|Hf], Hg as [->|Hg]; auto.
  - exfalso. apply Hnin. rewrite He. apply in_map, Hg.
  - exfalso. apply Hnin. rewrite <- He. apply in_map, Hf.
Qed.

Lemma covers_merge st e f c : wf st -> fred f = true -> In f st -> ~ In f e ->
  (forall x, In x e <-> (In x st /\ x <> f)) ->
  covers (merge_into st f) c = covers st c || covers e c
  /\ covers st c && covers e c = false.
Proof.
  intros [Hnd Hnum] Hfr Hf Hnfe He.
  assert (Hreqf : required f = true) by (unfold Scope.required; rewrite Hfr; reflexivity).
  assert (Hfnum : isnum (fid f) = false) by (apply Hnum; auto).
  assert (Hide : forall i, In i (map fid e) <-> (In i (map fid st) /\ i <> fid f)).
  { intros i. rewrite !in_map_iff. split.
    - intros (x & <- & Hx). apply He in Hx as [Hx Hne]. split; [exists x; auto|].
      intros Heq. apply Hne. eapply nodup_ids_inj; eauto.
    - intros [(x & <- & Hx) Hne]. exists x. split; auto. apply He. split; auto. intros ->. apply Hne. reflexivity. }
  destruct (memn (fid f) c) eqn:Em.
  - (* fid f in c : e does not cover *)
    apply memn_spec in Em.
    assert (Hec : covers e c = false).
    { destruct (covers e c) eqn:E; auto. apply covers_spec in E as [_ E2]. apply E2, Hide in Em as [_ Hne]. contradiction. }
    rewrite Hec, orb_false_r, andb_false_r. split; auto.
    apply bool_eq_iff. rewrite !covers_spec. rewrite merge_ids. split; intros [H1 H2]; split; auto.
    + intros g Hg Hr. destruct (sf_eqb g f) eqn:E; [apply sf_eqb_spec in E; subst; exact Em|].
      apply H1; auto. apply in_merge. left. split; auto. intros ->. rewrite (proj2 (sf_eqb_spec f f) eq_refl) in E. discriminate.
    + intros g Hg Hr. apply in_merge in Hg as [[Hg _] | [_ ->]]; [apply H1; auto | exact Em].
  - (* fid f not in c : st does not cover *)
    assert (Hnm : ~ In (fid f) c) by (intros H; apply memn_spec in H; congruence).
    assert (Hsc : covers st c = false).
    { destruct (covers st c) eqn:E; auto. apply covers_spec in E as [E1 _]. exfalso. apply Hnm, E1; auto. }
    rewrite Hsc. cbn. split; auto.
    apply bool_eq_iff. rewrite !covers_spec. rewrite merge_ids. split; intros [H1 H2]; split.
    + intros g Hg Hr. apply He in Hg as [Hg Hne]. apply H1; auto. apply in_merge. left. auto.
    + intros i Hi. apply Hide. split; auto. intros ->. contradiction.
    + intros g Hg Hr. apply in_merge in Hg as [[Hg Hne] | [_ ->]].
      * apply H1; auto. apply He. auto.
      * unfold Scope.required in Hr. cbn in Hr. unfold fid in Hfnum. rewrite Hfnum in Hr. discriminate.
    + intros i Hi. apply H2, Hide in Hi as [Hi _]. exact Hi.
Qed.

(* ---- counting through remove/add ---- *)
Lemma st_eqb_covers a b c : st_eqb a b = true -> covers a c = covers b c.
Proof. intros H. apply covers_ext. apply st_eqb_spec, H. Qed.

Lemma count_remove c terms e :
  count c terms = count c (remove_term terms e) + length (filter (fun x => st_eqb x e) terms) * b2n (covers e c).
Proof.
  induction terms as [|t ts IH]; cbn [remove_term filter]; [reflexivity|].
  fold (remove_term ts e). rewrite !count_cons, IH.
  destruct (st_eqb t e) eqn:E; cbn [negb].
  - cbn [length]. rewrite (st_eqb_covers _ _ c E). lia.
  - rewrite count_cons. lia.
Qed.

Lemma removed_ge1 terms e : In e terms -> 1 <= length (filter (fun x => st_eqb x e) terms).
Proof.
  intros H. assert (In e (filter (fun x => st_eqb x e) terms)).
  { apply filter_In. split; auto. apply st_eqb_spec. tauto. }
  destruct (filter _ terms); [contradiction | cbn; lia].
Qed.

Lemma removed_eq1 terms e : In e terms -> (forall c, count c terms <= 1) ->
  length (filter (fun x => st_eqb x e) terms) = 1.
Proof.
  intros Hin Hb. pose proof (removed_ge1 _ _ Hin). pose proof (count_remove (c0 isnum e) terms e) as Hc.
  rewrite covers_c0 in Hc. cbn [b2n] in Hc. specialize (Hb (c0 isnum e)). lia.
Qed.

Lemma count_add c l M : (forall c, count c l + b2n (covers M c) <= 1) ->
  count c (add_term l M) = count c l + b2n (covers M c).
Proof.
  intros Hb. unfold add_term. destruct (mem_st M l) eqn:E.
  - exfalso. unfold mem_st in E. apply existsb_exists in E as (t & Ht & Heq).
    specialize (Hb (c0 isnum M)). rewrite covers_c0 in Hb. cbn in Hb.
    assert (1 <= count (c0 isnum M) l).
    { apply in_split in Ht as (l1 & l2 & ->). rewrite count_app, count_cons.
      rewrite <- (st_eqb_covers _ _ _ Heq), covers_c0. cbn. lia. }
    lia.
  - rewrite count_app, count_one. reflexivity.
Qed.
End P.
