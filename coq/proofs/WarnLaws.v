(* ===== WarnLaws.v : unseen levels are announced exactly when there are any (C09) ===== *)
From Coq Require Import List NArith ZArith QArith Qcanon Bool Arith.
Import ListNotations.
Require Import Mat Mat2 MatSep.
Open Scope nat_scope.

(* the warning is issued iff some value of a factor that was categorical at fit time is not among that factor's recorded levels *)
Theorem warns_iff sp d : warns sp d = true <->
  exists e lvs v dl s, In (e, KCat lvs) (sp_enc sp) /\ lookup d e = Some (CCat v dl) /\ In (Some s) v /\ ~ In s lvs.
Proof.
  unfold warns. split.
  - intro H. destruct (unseen_in sp d) as [|[e s] r] eqn:E; [discriminate|].
    assert (Hin : In (e, s) (unseen_in sp d)) by (rewrite E; left; reflexivity).
    unfold unseen_in in Hin. apply in_flat_map in Hin as ([e' k] & Hk & Hin). cbn [fst snd] in Hin.
    destruct k as [|lvs]; [destruct Hin|]. destruct (lookup d e') as [[v|v dl]|] eqn:L; try destruct Hin.
    apply in_map_iff in Hin as (s' & Heq & Hs'). inversion Heq; subst. apply filter_In in Hs' as [Hs1 Hs2].
    exists e, lvs, v, dl, s. repeat split; [exact Hk | exact L | apply somes_in, Hs1|].
    intro Hc. apply negb_true_iff in Hs2. apply (proj2 (mem_s_In s lvs)) in Hc. rewrite Hc in Hs2. discriminate.
  - intros (e & lvs & v & dl & s & Hk & L & Hv & Hn).
    assert (Hin : In (e, s) (unseen_in sp d)).
    { unfold unseen_in. apply in_flat_map. exists (e, KCat lvs). split; [exact Hk|]. cbn [fst snd]. rewrite L.
      apply in_map_iff. exists s. split; [reflexivity|]. apply filter_In. split.
      - clear - Hv. induction v as [|[x|] r IH]; cbn [somes] in *; [destruct Hv | destruct Hv as [Hv|Hv]; [inversion Hv; left; reflexivity | right; apply IH, Hv] | destruct Hv as [Hv|Hv]; [discriminate | apply IH, Hv]].
      - apply negb_true_iff. destruct (mem_s s lvs) eqn:M; [|reflexivity]. exfalso. apply Hn. apply (proj1 (mem_s_In s lvs)), M. }
    destruct (unseen_in sp d); [destruct Hin | reflexivity].
Qed.
