(* ===== Denote.v : an expression tree evaluates to its denotation in the documented term algebra (C01) =====
   [denote] is the documented algebra written directly on expression trees: '+' union (first appearance order), '-' difference,
   ':' pairwise products, '*' = a + b + a:b, '/' nesting, '%in%' flipped nesting, '**' powers, unary signs, '.', parentheses.
   The AST evaluator of the parser model computes exactly this on the tree's AST; with the shunting-yard completeness theorem this
   gives: the token sequence of every precedence-respecting inner expression is parsed AND evaluated to the denotation of the tree. *)
From Coq Require Import List NArith ZArith Bool Arith Lia.
Import ListNotations.
Require Import Tok Parser Parser2 Parser3 SYReal.
Open Scope nat_scope.

Definition dot_terms (cx : pctx) : res (list term) :=
  match used_lhs cx with
  | None => inr (EInternal 6)
  | Some used => match avail cx with
                 | None => inr ESyntax
                 | Some vs => inl (oset (map (fun v => [ {| tx := v; kd := KName |} ]) (filter (fun v => negb (mem_txt v used)) vs)) [])
                 end
  end.

Fixpoint denote (cx : pctx) (e : expr) : res (list term) :=
  match e with
  | EAtom t => inl [[t]]
  | EDot _ => dot_terms cx
  | EPar _ e => denote cx e
  | EUn u e => do a <- denote cx e;
               match osem u with SUPlus => inl a | SUMinus => inl [] | _ => inr (EInternal 5) end
  | EBin b l r => do a <- denote cx l; do c <- denote cx r;
                  match osem b with
                  | SPlus => inl (union a c)
                  | SMinus => inl (diff a c)
                  | SStar => inl (union (oset (a ++ c) []) (cross a c))
                  | SColon => inl (cross a c)
                  | SSlash => nested a c
                  | SIn => nested c a
                  | SPow => power a c
                  | _ => inr (EInternal 5)
                  end
  end.

(* operators of the inner grammar: the set operators, used with their arity *)
Definition set_bin (s : sem) : bool := match s with SPlus | SMinus | SStar | SSlash | SIn | SColon | SPow => true | _ => false end.
Definition set_un (s : sem) : bool := match s with SUPlus | SUMinus => true | _ => false end.
Fixpoint inner (e : expr) : Prop :=
  match e with
  | EAtom _ => True
  | EDot o => osem o = SDot
  | EPar _ e => inner e
  | EUn u e => set_un (osem u) = true /\ inner e
  | EBin b l r => set_bin (osem b) = true /\ inner l /\ inner r
  end.

Fixpoint depth (a : ast) : nat := match a with ALeaf _ => 0 | ANode _ args => S (fold_right (fun x n => Nat.max (depth x) n) 0 args) end.
Definition lift (r : res (list term)) : res val := match r with inl s => inl (VSide (SSet s)) | inr e => inr e end.

Lemma eval_S fuel cx a : eval (S fuel) cx a =
  match a with
  | ALeaf t => inl (VSide (SSet [[t]]))
  | ANode o args =>
      (fix go (l : list ast) (acc : list val) : res val :=
         match l with
         | [] => apply_op cx o (rev acc)
         | x :: r => match eval fuel cx x with inl v => go r (v :: acc) | inr e => inr e end
         end) args []
  end.
Proof. reflexivity. Qed.

Theorem eval_denotes cx : forall e, inner e -> forall fuel, depth (ast_of e) < fuel -> eval fuel cx (ast_of e) = lift (denote cx e).
Proof.
  induction e as [t|o|b l IHl r IHr|u e IH|sq e IH]; intros Hin fuel Hf; destruct fuel as [|fuel]; try lia; cbn [ast_of denote] in *.
  - reflexivity.
  - rewrite eval_S. cbn [rev]. unfold apply_op. cbn [inner] in Hin. rewrite Hin. unfold dot_terms.
    destruct (used_lhs cx); [|reflexivity]. destruct (avail cx); reflexivity.
  - destruct Hin as (Hb & Hl & Hr). rewrite eval_S. cbn [depth fold_right] in Hf.
    rewrite (IHl Hl fuel) by lia. destruct (denote cx l) as [a|err]; cbn [lift bind]; [|reflexivity].
    rewrite (IHr Hr fuel) by lia. destruct (denote cx r) as [c|err]; cbn [lift bind]; [|reflexivity].
    cbn [rev app]. unfold apply_op. destruct (osem b); try discriminate; cbn [as_set bind];
      try reflexivity; try (destruct (nested a c); reflexivity); try (destruct (nested c a); reflexivity); destruct (power a c); reflexivity.
  - destruct Hin as (Hu & He). rewrite eval_S. cbn [depth fold_right] in Hf.
    rewrite (IH He fuel) by lia. destruct (denote cx e) as [a|err]; cbn [lift bind]; [|reflexivity].
    cbn [rev app]. unfold apply_op. destruct (osem u); try discriminate; reflexivity.
  - apply IH; [exact Hin | exact Hf].
Qed.

Lemma depth_le_size e : depth (ast_of e) < S (asize (ast_of e)).
Proof. induction e as [t|o|b l IHl r IHr|u e IH|sq e IH]; cbn [ast_of depth asize fold_right] in *; lia. Qed.

(* with the fuel the parser model uses *)
Corollary eval_denotes_parser cx e : inner e -> eval (S (asize (ast_of e))) cx (ast_of e) = lift (denote cx e).
Proof. intro H. apply eval_denotes; [exact H | apply depth_le_size]. Qed.

(* tokens -> AST -> terms: the token sequence of every precedence-respecting inner expression tree denotes the tree's term set *)
Theorem tokens_denote fixed f cx e : ok f e -> inner e ->
  match to_ast fixed f (toks e) with
  | inl (Some a) => eval (S (asize a)) cx a
  | inl None => inl (VSide (SSet []))
  | inr err => inr err
  end = lift (denote cx e).
Proof. intros Hok Hin. rewrite (inner_complete fixed f e Hok). apply eval_denotes_parser, Hin. Qed.

(* ---------- the documented identities, as equalities of denotations of trees ---------- *)
Theorem denote_star cx star plus colon a b : osem star = SStar -> osem plus = SPlus -> osem colon = SColon ->
  denote cx (EBin star a b) = denote cx (EBin plus (EBin plus a b) (EBin colon a b)).
Proof.
  intros H1 H2 H3. cbn [denote]. rewrite H1, H2, H3. destruct (denote cx a) as [x|]; cbn [bind]; [|reflexivity].
  destruct (denote cx b) as [y|]; cbn [bind]; reflexivity.
Qed.
Theorem denote_in cx o_in slash a b x y : osem o_in = SIn -> osem slash = SSlash -> denote cx a = inl x -> denote cx b = inl y ->
  denote cx (EBin o_in b a) = denote cx (EBin slash a b).
Proof. intros H1 H2 Ha Hb. cbn [denote]. rewrite H1, H2, Ha, Hb. reflexivity. Qed.
Theorem denote_slash_single cx slash plus colon a b t : osem slash = SSlash -> osem plus = SPlus -> osem colon = SColon ->
  denote cx a = inl [t] -> denote cx (EBin slash a b) = denote cx (EBin plus a (EBin colon a b)).
Proof.
  intros H1 H2 H3 Ha. cbn [denote]. rewrite H1, H2, H3, Ha. cbn [bind]. destruct (denote cx b) as [y|]; cbn [bind]; [|reflexivity].
  unfold nested, reduce_mul, cross. cbn [fold_left flat_map]. rewrite app_nil_r. reflexivity.
Qed.
Theorem denote_caret cx p1 p2 a b : osem p1 = SPow -> osem p2 = SPow -> denote cx (EBin p1 a b) = denote cx (EBin p2 a b).
Proof. intros H1 H2. cbn [denote]. rewrite H1, H2. reflexivity. Qed.
Theorem denote_parentheses cx sq e : denote cx (EPar sq e) = denote cx e.
Proof. reflexivity. Qed.
