(* ===== MatScope.v : rank reduction in the materializer model, in terms of components (C03) ===== *)
From Coq Require Import List NArith ZArith QArith Qcanon Bool Arith Lia Permutation.
Import ListNotations.
Require Import Scope ScopeP1 ScopeP2 ScopeP3 Mat.

(* the factor sets produced by the materializer's simplification are those of the verified algorithm *)
Lemma simplify_factor_sets fuel ts : map st_f (Mat.simplify fuel ts) = Scope.simplify fuel (map st_f ts).
Proof. unfold Mat.simplify. rewrite map_map. cbn. apply map_id. Qed.

Section C.
Variable isnum : fid_t -> bool.

(* For every family of scoped terms handed to `_simplify_scoped_terms` whose components are pairwise distinct, the result
   has exactly the same components, each exactly once (so: same span, still independent). *)
Theorem simplify_span_components span :
  ScopeP1.wf_all isnum (map st_f span) -> (forall c, (count isnum c (map st_f span) <= 1)%nat) ->
  forall c, count isnum c (map st_f (Mat.simplify (S (Mat.nred span)) span)) = count isnum c (map st_f span).
Proof.
  intros Hw Hb c. rewrite simplify_factor_sets. unfold Mat.nred.
  apply (simplify_preserves_components isnum); auto.
Qed.

(* ---------- terms produced by _get_scoped_terms_spanned_by_evaled_factors are "canonical":
              categorical factors reduced, numerical factors not; such a term covers exactly one component ---------- *)
Definition canon (t : Scope.sterm) : Prop := forall f, In f t -> snd f = negb (isnum (fst f)).

Lemma canon_required t f : canon t -> In f t -> required isnum f = true.
Proof. intros Hc Hf. unfold required, fred, fid. rewrite (Hc f Hf). destruct (isnum (fst f)); reflexivity. Qed.

Lemma covers_canon t c : canon t -> covers isnum t c = true -> (forall i, In i c <-> In i (map fid t)).
Proof.
  intros Hc H. unfold covers in H. apply andb_true_iff in H as [H1 H2].
  rewrite forallb_forall in H1, H2. intro i. split.
  - intro Hi. apply memn_spec. apply H2. exact Hi.
  - intro Hi. apply in_map_iff in Hi as [f [<- Hf]]. specialize (H1 f Hf).
    rewrite (canon_required t f Hc Hf) in H1. cbn in H1. apply memn_spec. exact H1.
Qed.

(* two canonical terms that cover a common component are the same factor set *)
Lemma canon_same_component t t' c : canon t -> canon t' ->
  covers isnum t c = true -> covers isnum t' c = true -> Scope.st_eqb t t' = true.
Proof.
  intros Hc Hc' H H'. apply Scope.st_eqb_spec. intro f.
  pose proof (covers_canon t c Hc H) as E. pose proof (covers_canon t' c Hc' H') as E'.
  assert (forall a b, canon a -> canon b -> (forall i, In i (map fid a) <-> In i (map fid b)) -> In f a -> In f b) as K.
  { intros a b Ha Hb Hab Hf. assert (Hi : In (fid f) (map fid b)) by (apply Hab; apply in_map; exact Hf).
    apply in_map_iff in Hi as [g [Hg Hgb]]. destruct f as [i r], g as [j s]. unfold fid in Hg. cbn in Hg. subst j.
    pose proof (Ha _ Hf) as R1. pose proof (Hb _ Hgb) as R2. cbn in R1, R2. subst. exact Hgb. }
  split; apply K; auto; intro i; rewrite <- E, <- E' || rewrite <- E', <- E; reflexivity.
Qed.
End C.
