(* ===== CalcLaws.v : differentiation is the term-wise partial derivative (C20) ===== *)
From Coq Require Import List Arith Bool QArith Qcanon Lia NArith.
Import ListNotations.
Require Import Struct StructLaws Calc.
Open Scope Qc_scope.

Lemma prod_upd_notin rho v x fs : mem v fs = false -> prod (upd rho v x) fs = prod rho fs.
Proof.
  induction fs as [|f r IH]; [reflexivity|]. cbn [mem existsb prod]. intros H. apply orb_false_iff in H as [H1 H2].
  unfold upd at 1. rewrite (keqb_sym f v), H1. rewrite IH by assumption. reflexivity.
Qed.
Lemma remove_notin v fs : mem v fs = false -> remove v fs = fs.
Proof.
  induction fs as [|f r IH]; [reflexivity|]. cbn [mem existsb]. intros H. apply orb_false_iff in H as [H1 H2].
  unfold remove. cbn [filter]. rewrite (keqb_sym f v), H1. cbn [negb]. f_equal. apply IH. exact H2.
Qed.
Lemma mem_remove v fs : mem v (remove v fs) = false.
Proof.
  induction fs as [|f r IH]; [reflexivity|]. unfold remove. cbn [filter]. destruct (keqb f v) eqn:E; cbn [negb]; [exact IH|].
  cbn [mem existsb]. rewrite (keqb_sym v f), E. exact IH.
Qed.

(* multilinear: the variable occurs at most once (Term de-duplicates factors) *)
Lemma prod_split rho v fs : NoDup fs -> mem v fs = true -> prod rho fs = rho v * prod rho (remove v fs).
Proof.
  induction fs as [|f r IH]; [discriminate|]. cbn [mem existsb prod]. intros Hnd H. inversion Hnd as [|? ? Hnin Hnd']; subst.
  unfold remove. cbn [filter]. fold (remove v r).
  destruct (keqb v f) eqn:E.
  - apply keqb_eq in E. subst f. rewrite keqb_refl. cbn [negb].
    rewrite remove_notin; [reflexivity|]. destruct (mem v r) eqn:M; auto.
    exfalso. apply Hnin. unfold mem in M. apply existsb_exists in M as (y & Hy & Ey). apply keqb_eq in Ey. subst. exact Hy.
  - cbn [orb] in H. rewrite (keqb_sym f v), E. cbn [negb prod]. rewrite (IH Hnd' H). ring.
Qed.

(* one differentiation step is the exact finite difference of the term's value, for every environment and every step h <> 0 *)
Theorem diff_is_finite_difference rho v h fs : NoDup fs -> h <> Q2Qc 0 ->
  sem rho (diff fs [v]) = (prod (upd rho v (rho v + h)) fs - prod rho fs) / h.
Proof.
  intros Hnd Hh. cbn [diff]. destruct (mem v fs) eqn:M.
  - cbn [sem]. rewrite (prod_split rho v fs Hnd M). rewrite (prod_split (upd rho v (rho v + h)) v fs Hnd M).
    rewrite (prod_upd_notin rho v (rho v + h) _ (mem_remove v fs)). unfold upd at 1. rewrite keqb_refl. field. exact Hh.
  - cbn [sem]. rewrite (prod_upd_notin rho v (rho v + h) fs M). field. exact Hh.
Qed.

(* the product rule, factor by factor *)
Theorem diff_present v fs r : mem v fs = true -> diff fs (v :: r) = diff (remove v fs) r.
Proof. intro H. cbn. rewrite H. reflexivity. Qed.
Theorem diff_absent v fs r : mem v fs = false -> diff fs (v :: r) = DZero.
Proof. intros H. cbn. rewrite H. reflexivity. Qed.
Theorem diff_nothing_remains v : diff [v] [v] = DTerm [].
Proof. unfold diff, mem, remove. cbn [existsb filter]. rewrite keqb_refl. cbn [orb negb]. reflexivity. Qed.
(* second derivative in the same variable is zero *)
Theorem diff_twice v fs : diff fs [v; v] = DZero.
Proof. cbn. destruct (mem v fs); [rewrite mem_remove|]; reflexivity. Qed.
(* several variables: successive application *)
Theorem diff_successive fs v r : diff fs (v :: r) = match diff fs [v] with DZero => DZero | DTerm fs' => diff fs' r end.
Proof. cbn. destruct (mem v fs); reflexivity. Qed.
(* same number and order of terms *)
Theorem diff_formula_length ts wrt : length (diff_formula ts wrt) = length ts.
Proof. apply map_length. Qed.
Theorem diff_formula_nth ts wrt i t : nth_error ts i = Some t -> nth_error (diff_formula ts wrt) i = Some (diff t wrt).
Proof. intro H. unfold diff_formula. rewrite nth_error_map, H. reflexivity. Qed.
