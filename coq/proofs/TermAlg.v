(* ===== TermAlg.v : the operator semantics of the parser model satisfy the documented identities (C01 layer A) ===== *)
From Coq Require Import List NArith ZArith Bool Arith Lia.
Import ListNotations.
Require Import Tok Parser Parser2 Parser3.
Open Scope N_scope.

(* ---------- ordered sets: no two equal terms, first appearance wins ---------- *)
Lemma existsb_rev {A} (f : A -> bool) l : existsb f (rev l) = existsb f l.
Proof.
  induction l as [|x r IH]; cbn; auto. rewrite existsb_app, IH. cbn. rewrite orb_false_r. apply orb_comm.
Qed.
Lemma keyeqb_eq a b : keyeqb a b = true -> a = b.
Proof.
  revert b. induction a as [|p a IHa]; destruct b as [|q b]; cbn; intro H; try discriminate; auto.
  apply andb_true_iff in H as [H1 H2]. f_equal; auto.
  clear - H1. revert q H1. induction p as [|c p IHp]; destruct q as [|d q]; cbn; intro H; try discriminate; auto.
  apply andb_true_iff in H as [Ha Hb]. apply N.eqb_eq in Ha. subst. f_equal; auto.
Qed.
Lemma leqb_refl p : leqb p p = true.
Proof. induction p as [|c p IHp]; cbn; auto. rewrite N.eqb_refl; auto. Qed.
Lemma keyeqb_refl a : keyeqb a a = true.
Proof. induction a as [|p a IHa]; cbn; auto. rewrite leqb_refl, IHa. reflexivity. Qed.
Lemma teqb_trans t x y : teqb t x = true -> teqb x y = true -> teqb t y = true.
Proof. unfold teqb. intros H1 H2. apply keyeqb_eq in H1. apply keyeqb_eq in H2. rewrite H1, H2. apply keyeqb_refl. Qed.

Lemma mem_t_cons t x r : mem_t t (x :: r) = teqb t x || mem_t t r.
Proof. reflexivity. Qed.
Lemma oset_acc_in l : forall acc t, mem_t t (oset l acc) = mem_t t acc || mem_t t l.
Proof.
  induction l as [|x r IH]; intros acc t; cbn [oset].
  - unfold mem_t. cbn. rewrite orb_false_r. apply existsb_rev.
  - rewrite mem_t_cons. destruct (mem_t x acc) eqn:E.
    + rewrite IH. destruct (mem_t t acc) eqn:E2; [reflexivity|]. cbn [orb].
      destruct (teqb t x) eqn:E3; [|reflexivity].
      exfalso. unfold mem_t in E. apply existsb_exists in E as [y [Hy Hxy]].
      assert (Hm : mem_t t acc = true) by (unfold mem_t; apply existsb_exists; exists y; split; auto; eapply teqb_trans; eauto).
      congruence.
    + rewrite IH. rewrite mem_t_cons. rewrite orb_assoc. f_equal. apply orb_comm.
Qed.

(* ---------- the documented identities, as equalities of the operator semantics on ALL ordered term sets ---------- *)
Definition sem_op (s : sem) : op := mk [] 2 0%Z AL Infix CAlways false false s.
Definition v (l : list term) : val := VSide (SSet l).

(* a * b  =  a + b + a:b *)
Theorem star_is_plus_plus_colon cx a b :
  apply_op cx (sem_op SStar) [v a; v b] = inl (v (union (union a b) (cross a b))).
Proof. reflexivity. Qed.
Theorem star_via_operators cx a b :
  apply_op cx (sem_op SStar) [v a; v b] =
  bind (apply_op cx (sem_op SPlus) [v a; v b]) (fun ab =>
  bind (apply_op cx (sem_op SColon) [v a; v b]) (fun c => apply_op cx (sem_op SPlus) [ab; c])).
Proof. reflexivity. Qed.

(* b %in% a  =  a / b *)
Theorem in_is_slash_flipped cx a b :
  apply_op cx (sem_op SIn) [v b; v a] = apply_op cx (sem_op SSlash) [v a; v b].
Proof. reflexivity. Qed.

(* a / b  =  a + a:b  for a single parent term a (the documented spelling); for several parents the interaction is with
   the product of all of them *)
Theorem slash_single_parent cx t b :
  apply_op cx (sem_op SSlash) [v [t]; v b] = inl (v (union [t] (cross [t] b))).
Proof. cbn. rewrite app_nil_r. reflexivity. Qed.
Theorem slash_general cx t r b :
  apply_op cx (sem_op SSlash) [v (t :: r); v b] =
  inl (v (union (t :: r) (oset (map (fun x => tmul (fold_left tmul r t) x) b) []))).
Proof. reflexivity. Qed.

(* ^ and ** are the same operator: same semantics, same precedence, same associativity, under every flag set *)
Theorem caret_is_power f :
  map (fun o => (oarity o, oprec o, oassoc o, ofix o, octx o, odis o, osem o)) (candidates f [94]) =
  map (fun o => (oarity o, oprec o, oassoc o, ofix o, octx o, odis o, osem o)) (candidates f [42; 42]).
Proof. destruct f as [[] [] []]; reflexivity. Qed.

(* unary minus denotes the empty set, unary plus the identity *)
Theorem unary_minus_empty cx a : apply_op cx (mk [] 1 0%Z AR Prefix CAlways false false SUMinus) [v a] = inl (v []).
Proof. reflexivity. Qed.
Theorem unary_plus_identity cx a : apply_op cx (mk [] 1 0%Z AR Prefix CAlways false false SUPlus) [v a] = inl (v a).
Proof. reflexivity. Qed.

(* set semantics of + and - *)
Theorem plus_membership cx a b t :
  match apply_op cx (sem_op SPlus) [v a; v b] with
  | inl (VSide (SSet s)) => mem_t t s = mem_t t a || mem_t t b
  | _ => False end.
Proof. cbn. unfold union. rewrite oset_acc_in. cbn. unfold mem_t. rewrite existsb_app. reflexivity. Qed.
Theorem minus_removes cx a b t :
  match apply_op cx (sem_op SMinus) [v a; v b] with
  | inl (VSide (SSet s)) => In t s <-> In t a /\ mem_t t b = false
  | _ => False end.
Proof. cbn. unfold diff. rewrite filter_In. rewrite negb_true_iff. reflexivity. Qed.
Theorem minus_keeps_order cx a b :
  apply_op cx (sem_op SMinus) [v a; v b] = inl (v (filter (fun t => negb (mem_t t b)) a)).
Proof. reflexivity. Qed.

(* (a + b + c) ** 2 : all interactions up to order 2 (documented example), by computation on the model *)
Definition nm (x : N) : term := [{| tx := [x]; kd := KName |}].
Example power_two_of_three :
  power [nm 97; nm 98; nm 99] [[{| tx := [50]; kd := KValue |}]] =
  inl [nm 97; nm 97 ++ nm 98; nm 97 ++ nm 99; nm 98; nm 98 ++ nm 99; nm 99].
Proof. vm_compute. reflexivity. Qed.
