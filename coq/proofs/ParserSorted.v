(* ===== ParserSorted.v : every AST the parser returns is well-sorted, and well-sorted ASTs never get stuck (C14) =====
   With MULTISTAGE off (the default), the context rules of '~' and '|' (accepted only when nothing but '~'/'|' operators of at most
   their precedence, and no bracket, is open) confine structured values to the top of the tree: the operands of every set operator
   are term sets, the operands of '|' and '~' are term sets or tuples of them.  Hence the evaluator's stuck marker (class 5:
   an operator applied to ill-sorted operands, a wrong number of operands, fuel exhausted) is unreachable. *)
From Coq Require Import List NArith ZArith Bool Arith Lia.
Import ListNotations.
Require Import Tok Parser Parser2 Parser3 ParserDisabled.
Open Scope nat_scope.

(* ---------- sorts ---------- *)
Inductive srt := Sset | Stup | Stop.
Definition sort_sem (s : sem) : srt :=
  match s with SBar => Stup | STilde2 | STilde1 | SMulti => Stop | _ => Sset end.
Definition sort_of (a : ast) : srt := match a with ALeaf _ => Sset | ANode o _ => sort_sem (osem o) end.
Definition is_set (a : ast) : Prop := sort_of a = Sset.
Definition is_side (a : ast) : Prop := sort_of a <> Stop.

Definition kids_ok (s : sem) (args : list ast) : Prop :=
  match s with
  | SPlus | SMinus | SStar | SSlash | SIn | SColon | SPow => length args = 2 /\ Forall is_set args
  | SUPlus | SUMinus => length args = 1 /\ Forall is_set args
  | SDot => args = []
  | SBar | STilde2 => length args = 2 /\ Forall is_side args
  | STilde1 => length args = 1 /\ Forall is_side args
  | SMulti => False
  end.
Fixpoint ws (a : ast) : Prop :=
  match a with
  | ALeaf _ => True
  | ANode o args => kids_ok (osem o) args /\ (fix all (l : list ast) : Prop := match l with [] => True | x :: r => ws x /\ all r end) args
  end.
Fixpoint all_ws (l : list ast) : Prop := match l with [] => True | x :: r => ws x /\ all_ws r end.
Lemma ws_node o args : ws (ANode o args) <-> kids_ok (osem o) args /\ all_ws args.
Proof. cbn [ws]. split; intros [H1 H2]; split; auto; clear H1; induction args as [|x r IH]; cbn in *; auto; destruct H2; split; auto. Qed.
Lemma all_ws_Forall l : all_ws l <-> Forall ws l.
Proof. induction l as [|x r IH]; cbn [all_ws]; split; intro H; auto; [destruct H; constructor; [|apply IH]; auto | inversion H; subst; split; [|apply IH]; auto]. Qed.

(* ---------- evaluation of a well-sorted AST never gets stuck ---------- *)
Definition val_sort (v : val) : srt := match v with VSide (SSet _) => Sset | VSide (STup _) => Stup | _ => Stop end.
Definition not5 {A} (r : res A) : Prop := match r with inr (EInternal 5) => False | _ => True end.
(* the value of a node has the sort of the node, except that the prefix '~' hands its operand through *)
Definition sort_agrees (a : ast) (v : val) : Prop :=
  match sort_of a with Sset => val_sort v = Sset | Stup => val_sort v = Stup | Stop => True end.

Lemma power_not5 a b : not5 (power a b).
Proof.
  unfold power. destruct b as [|[|f [|f2 fr]] [|p2 pr]]; cbn; auto.
  destruct (kind_eqb (kd f) KValue); cbn; auto. destruct (classify_lit (tx f)) as [[|n]| | |]; cbn; auto.
  assert (G : forall l acc, (forall tup, In tup l -> tup <> []) ->
              not5 ((fix go (l : list (list term)) (acc : list term) : res (list term) :=
                       match l with [] => inl (oset (rev acc) []) | tup :: r => match reduce_mul tup with inl t => go r (t :: acc) | inr e => inr e end end) l acc)).
  { induction l as [|tup r IH]; intros acc Hne; cbn; auto. destruct tup as [|t tr]; [exfalso; apply (Hne []); [left|]; reflexivity|].
    cbn [reduce_mul]. apply IH. intros x Hx. apply Hne. right. exact Hx. }
  apply G. intros tup H. apply in_flat_map in H as [t [_ H]]. apply in_map_iff in H as [x [<- _]]. discriminate.
Qed.
Lemma nested_not5 a b : not5 (nested a b).
Proof. unfold nested. destruct a as [|t r]; cbn; auto. Qed.

Fixpoint height (a : ast) : nat :=
  match a with ALeaf _ => 0 | ANode _ args => S ((fix mx (l : list ast) : nat := match l with [] => 0 | x :: r => Nat.max (height x) (mx r) end) args) end.
Fixpoint max_height (l : list ast) : nat := match l with [] => 0 | x :: r => Nat.max (height x) (max_height r) end.
Lemma height_node o args : height (ANode o args) = S (max_height args).
Proof. cbn [height]. f_equal. Qed.
Lemma height_lt_size : forall a, height a < S (asize a).
Proof.
  fix IH 1. intros [t|o args]; [cbn; lia|]. rewrite height_node. cbn [asize].
  assert (G : max_height args <= fold_right (fun x n => asize x + n) 0 args).
  { induction args as [|x r IHr]; cbn [max_height fold_right]. - lia. - pose proof (IH x). lia. }
  lia.
Qed.

Definition good (a : ast) (r : res val) : Prop :=
  match r with inl v => sort_agrees a v | inr (EInternal 5) => False | inr _ => True end.

Lemma as_set_of v : val_sort v = Sset -> exists s, v = VSide (SSet s).
Proof. destruct v as [[s|p]|l r|]; cbn; try discriminate. eexists; reflexivity. Qed.
Lemma side_of_v v : val_sort v <> Stop -> exists s, v = VSide s.
Proof. destruct v as [s|l r|]; cbn; [eexists; reflexivity | congruence | congruence]. Qed.

(* the value of an operand has the operand's sort, unless the operand is of the top sort (then nothing is claimed) *)
Definition arg_ok (a : ast) (v : val) : Prop := sort_agrees a v.
Lemma arg_set a v : is_set a -> arg_ok a v -> exists s, v = VSide (SSet s).
Proof. unfold is_set, arg_ok, sort_agrees. intros -> H. apply as_set_of, H. Qed.
Lemma arg_side a v : is_side a -> arg_ok a v -> exists s, v = VSide s.
Proof.
  unfold is_side, arg_ok, sort_agrees. intros Hs H. apply side_of_v. destruct (sort_of a); [rewrite H; discriminate | rewrite H; discriminate | congruence].
Qed.

Lemma two_set args vals : length args = 2 -> Forall is_set args -> Forall2 arg_ok args vals -> exists s1 s2, vals = [VSide (SSet s1); VSide (SSet s2)].
Proof.
  intros Hl Hs Hv. destruct args as [|a1 [|a2 [|a3 ar]]]; cbn [length] in Hl; try discriminate.
  inversion Hv as [|? v1 ? vs1 H1 Hv1]; subst. inversion Hv1 as [|? v2 ? vs2 H2 Hv2]; subst. inversion Hv2; subst.
  inversion Hs as [|? ? Hs1 Hs']; subst. inversion Hs' as [|? ? Hs2 _]; subst.
  destruct (arg_set _ _ Hs1 H1) as [s1 ->], (arg_set _ _ Hs2 H2) as [s2 ->]. eexists; eexists; reflexivity.
Qed.
Lemma two_side args vals : length args = 2 -> Forall is_side args -> Forall2 arg_ok args vals -> exists s1 s2, vals = [VSide s1; VSide s2].
Proof.
  intros Hl Hs Hv. destruct args as [|a1 [|a2 [|a3 ar]]]; cbn [length] in Hl; try discriminate.
  inversion Hv as [|? v1 ? vs1 H1 Hv1]; subst. inversion Hv1 as [|? v2 ? vs2 H2 Hv2]; subst. inversion Hv2; subst.
  inversion Hs as [|? ? Hs1 Hs']; subst. inversion Hs' as [|? ? Hs2 _]; subst.
  destruct (arg_side _ _ Hs1 H1) as [s1 ->], (arg_side _ _ Hs2 H2) as [s2 ->]. eexists; eexists; reflexivity.
Qed.
Lemma one_set args vals : length args = 1 -> Forall is_set args -> Forall2 arg_ok args vals -> exists s1, vals = [VSide (SSet s1)].
Proof.
  intros Hl Hs Hv. destruct args as [|a1 [|a2 ar]]; cbn [length] in Hl; try discriminate.
  inversion Hv as [|? v1 ? vs1 H1 Hv1]; subst. inversion Hv1; subst. inversion Hs as [|? ? Hs1 _]; subst.
  destruct (arg_set _ _ Hs1 H1) as [s1 ->]. eexists; reflexivity.
Qed.
Lemma one_any args (vals : list val) : length args = 1 -> Forall2 arg_ok args vals -> exists v, vals = [v].
Proof.
  intros Hl Hv. destruct args as [|a1 [|a2 ar]]; cbn [length] in Hl; try discriminate.
  inversion Hv as [|? v1 ? vs1 H1 Hv1]; subst. inversion Hv1; subst. eexists; reflexivity.
Qed.
Lemma not5_cases {A} (r : res A) : not5 r -> match r with inr (EInternal 5) => False | _ => True end.
Proof. auto. Qed.

Lemma apply_op_good cx o args vals : kids_ok (osem o) args -> Forall2 arg_ok args vals -> good (ANode o args) (apply_op cx o vals).
Proof.
  intros Hk Hv. unfold good, sort_agrees, apply_op. cbn [sort_of]. destruct (osem o) eqn:S; cbn [kids_ok sort_sem] in *.
  - destruct Hk as [Hl Hs]. destruct (two_side _ _ Hl Hs Hv) as (s1 & s2 & ->). cbn. exact I.
  - destruct Hk as [Hl Hs]. destruct (one_any _ _ Hl Hv) as (v & ->). exact I.
  - contradiction.
  - destruct Hk as [Hl Hs]. destruct (two_side _ _ Hl Hs Hv) as (s1 & s2 & ->). destruct s1, s2; cbn; reflexivity.
  - destruct Hk as [Hl Hs]. destruct (two_set _ _ Hl Hs Hv) as (s1 & s2 & ->). cbn. reflexivity.
  - destruct Hk as [Hl Hs]. destruct (two_set _ _ Hl Hs Hv) as (s1 & s2 & ->). cbn. reflexivity.
  - destruct Hk as [Hl Hs]. destruct (one_set _ _ Hl Hs Hv) as (s1 & ->). cbn. reflexivity.
  - destruct Hk as [Hl Hs]. destruct (one_set _ _ Hl Hs Hv) as (s1 & ->). cbn. reflexivity.
  - destruct Hk as [Hl Hs]. destruct (two_set _ _ Hl Hs Hv) as (s1 & s2 & ->). cbn. reflexivity.
  - destruct Hk as [Hl Hs]. destruct (two_set _ _ Hl Hs Hv) as (s1 & s2 & ->). cbn [as_set bind].
    pose proof (nested_not5 s1 s2) as N. destruct (nested s1 s2) as [n|e]; cbn [bind]; [reflexivity | exact N].
  - destruct Hk as [Hl Hs]. destruct (two_set _ _ Hl Hs Hv) as (s1 & s2 & ->). cbn [as_set bind].
    pose proof (nested_not5 s2 s1) as N. destruct (nested s2 s1) as [n|e]; cbn [bind]; [reflexivity | exact N].
  - destruct Hk as [Hl Hs]. destruct (two_set _ _ Hl Hs Hv) as (s1 & s2 & ->). cbn. reflexivity.
  - destruct Hk as [Hl Hs]. destruct (two_set _ _ Hl Hs Hv) as (s1 & s2 & ->). cbn [as_set bind].
    pose proof (power_not5 s1 s2) as N. destruct (power s1 s2) as [n|e]; cbn [bind]; [reflexivity | exact N].
  - subst args. inversion Hv; subst. destruct (used_lhs cx); [|exact I]. destruct (avail cx); cbn; auto.
Qed.

Theorem eval_ws_good cx : forall fuel a, ws a -> height a < fuel -> good a (eval fuel cx a).
Proof.
  induction fuel as [|fuel IH]; intros a Hw Hh; [lia|].
  destruct a as [t|o args]; [cbn; reflexivity|].
  apply ws_node in Hw as [Hk Hall]. rewrite height_node in Hh.
  change (eval (S fuel) cx (ANode o args)) with
    ((fix go (l : list ast) (acc : list val) : res val :=
        match l with [] => apply_op cx o (rev acc) | x :: r => match eval fuel cx x with inl v => go r (v :: acc) | inr e => inr e end end) args []).
  assert (G : forall rest done acc, args = done ++ rest -> Forall2 arg_ok done (rev acc) ->
              good (ANode o args) ((fix go (l : list ast) (acc : list val) : res val :=
                match l with [] => apply_op cx o (rev acc) | x :: r => match eval fuel cx x with inl v => go r (v :: acc) | inr e => inr e end end) rest acc)).
  { induction rest as [|x r IHr]; intros done acc Heq Hd.
    - rewrite app_nil_r in Heq. subst done. apply apply_op_good; assumption.
    - assert (Hx : ws x /\ height x < fuel).
      { subst args. clear - Hall Hh. induction done as [|d ds IHd]; cbn [app all_ws max_height] in *; [destruct Hall; split; [assumption | lia]|].
        destruct Hall as [_ Hall]. apply IHd; [lia | exact Hall]. }
      destruct Hx as [Hwx Hhx]. pose proof (IH x Hwx Hhx) as Gx.
      destruct (eval fuel cx x) as [v|e].
      + apply (IHr (done ++ [x]) (v :: acc)); [rewrite <- app_assoc; exact Heq|]. cbn [rev]. apply Forall2_app; [exact Hd | constructor; [exact Gx | constructor]].
      + unfold good in *. exact Gx. }
  apply (G args [] []); [reflexivity | constructor].
Qed.

Corollary eval_ws_not_stuck cx a : ws a -> match eval (S (asize a)) cx a with inr (EInternal 5) => False | _ => True end.
Proof.
  intro Hw. pose proof (eval_ws_good cx (S (asize a)) a Hw (height_lt_size a)) as G. unfold good in G.
  destruct (eval (S (asize a)) cx a) as [v|[|n|]]; auto.
Qed.

(* ====================================================================================================
   the shunting-yard machine only builds well-sorted trees (MULTISTAGE off)
   ==================================================================================================== *)
Definition is_struct (o : op) : bool := match osem o with STilde2 | STilde1 | SBar | SMulti => true | _ => false end.
Definition is_tilde (o : op) : bool := match osem o with STilde2 | STilde1 | SMulti => true | _ => false end.

(* what the proof uses about an operator of the table *)
Record opfacts (o : op) : Prop := {
  of_nomulti : osem o <> SMulti;
  of_plain : is_struct o = false -> (100 <= oprec o)%Z /\ sym_in_tildebar (osym o) = false;
  of_struct : is_struct o = true -> (oprec o <= -50)%Z /\ oassoc o = AN /\ sym_in_tildebar (osym o) = true;
  of_tilde : is_tilde o = true -> octx o = CEmpty /\ oprec o = (-100)%Z;
  of_bar : osem o = SBar -> octx o = CTildeBar /\ oprec o = (-50)%Z /\ ofix o = Infix;
  of_arity : ofix o = Infix -> oarity o = 2;
  of_shape : match osem o with
             | SPlus | SMinus | SStar | SSlash | SIn | SColon | SPow | STilde2 | SBar => ofix o = Infix
             | SUPlus | SUMinus | STilde1 => ofix o = Prefix /\ oarity o = 1
             | SDot => ofix o = Postfix /\ oarity o = 0
             | SMulti => False
             end }.

Lemma table_facts f o : f_stage f = false -> In o (table f) -> odis o = false -> opfacts o.
Proof.
  intros Hst Hin Hd. destruct f as [t p st]. cbn [f_stage] in Hst. subst st.
  cbn [table In] in Hin.
  repeat (destruct Hin as [<-|Hin]; [try (cbn in Hd; discriminate); constructor; cbn; intros; try discriminate; try lia; try (repeat split; (reflexivity || lia || discriminate)); auto|]).
  contradiction.
Qed.

(* ---------- list facts ---------- *)
Lemma Forall_firstn' {A} (P : A -> Prop) n l : Forall P l -> Forall P (firstn n l).
Proof. revert l. induction n as [|n IH]; intros [|x l] H; cbn [firstn]; auto. inversion H; subst. constructor; auto. Qed.
Lemma Forall_skipn' {A} (P : A -> Prop) n l : Forall P l -> Forall P (skipn n l).
Proof. revert l. induction n as [|n IH]; intros [|x l] H; cbn [skipn]; auto. inversion H; subst. auto. Qed.
Lemma skipn_le_skipn {A} (P : A -> Prop) k m (l : list A) : k <= m -> Forall P (skipn k l) -> Forall P (skipn m l).
Proof.
  intros H F. replace m with ((m - k) + k) by lia. generalize (m - k). intro d. clear H.
  revert l F. induction k as [|k IH]; intros l F; [rewrite Nat.add_0_r; apply Forall_skipn', F|].
  destruct l as [|x l]; [rewrite skipn_nil; constructor|]. rewrite Nat.add_succ_r. cbn [skipn] in *. apply IH, F.
Qed.

(* ---------- the invariant ---------- *)
Definition ent_side (out : list ast) : Prop := Forall (fun a => ws a /\ is_side a) out.
Definition ent (k : nat) (out : list ast) : Prop := ent_side out /\ Forall is_set (skipn k out).

Fixpoint kidx (stk : list sitem) : nat :=
  match stk with [] => 0 | SOp o i :: r => if is_struct o then i else kidx r | SCtx _ _ :: r => kidx r end.
Fixpoint chain (stk : list sitem) (n : nat) : Prop :=
  match stk with
  | [] => True
  | it :: r => sidx it <= n /\ (match it with SOp o i => ofix o = Infix -> topidx r < i | SCtx _ _ => True end) /\ chain r (sidx it)
  end.
(* the structured operators sit at the bottom of the stack: bars, then at most one tilde *)
Fixpoint Bshape (B : list sitem) : Prop :=
  match B with
  | [] => True
  | SOp o _ :: r => match r with [] => is_struct o = true | _ :: _ => osem o = SBar /\ Bshape r end
  | SCtx _ _ :: _ => False
  end.
Fixpoint shape (stk : list sitem) : Prop :=
  match stk with
  | [] => True
  | SOp o i :: r => if is_struct o then Bshape stk else shape r
  | SCtx _ _ :: r => shape r
  end.

Lemma chain_mono stk a b : chain stk a -> topidx stk <= b -> chain stk b.
Proof. destruct stk as [|it r]; cbn [chain topidx]; [auto|]. intros (H1 & H2 & H3) Hb. repeat split; auto. Qed.
Lemma chain_top stk n : chain stk n -> topidx stk <= n.
Proof. destruct stk as [|it r]; cbn [chain topidx]; [lia | intros (H & _); exact H]. Qed.
Lemma kidx_le_top stk n : chain stk n -> kidx stk <= topidx stk.
Proof.
  revert n. induction stk as [|it r IH]; intros n H; cbn [kidx topidx]; [lia|]. destruct H as (H1 & H2 & H3).
  pose proof (IH _ H3) as K. pose proof (chain_top _ _ H3) as T. destruct it as [o i|t i]; cbn [sidx] in *; [destruct (is_struct o)|]; lia.
Qed.
Lemma kidx_le stk n : chain stk n -> kidx stk <= n.
Proof. intro H. pose proof (kidx_le_top _ _ H). pose proof (chain_top _ _ H). lia. Qed.

(* replacing the slice [lo, hi) by one set-sorted node *)
Lemma ent_splice k out lo hi node : ent k out -> k <= lo -> lo <= hi -> hi <= length out -> ws node -> is_set node ->
  ent k (firstn lo out ++ node :: skipn hi out).
Proof.
  intros [Hs Hk] Hkl Hlh Hh Hw Hn. split.
  - apply Forall_app. split; [apply Forall_firstn', Hs|]. constructor; [split; [exact Hw | unfold is_side; rewrite Hn; discriminate]|]. apply Forall_skipn', Hs.
  - rewrite skipn_app. rewrite firstn_length, Nat.min_l by lia. replace (k - lo) with 0 by lia. cbn [skipn].
    apply Forall_app. split.
    + rewrite skipn_firstn_comm. apply Forall_firstn', Hk.
    + constructor; [exact Hn|]. apply (skipn_le_skipn is_set k hi out); [lia | exact Hk].
Qed.
Lemma ent_children k out lo n : ent k out -> k <= lo ->
  Forall is_set (firstn n (skipn lo out)) /\ all_ws (firstn n (skipn lo out)).
Proof.
  intros [Hs Hk] Hkl. split.
  - apply Forall_firstn'. apply (skipn_le_skipn is_set k lo out Hkl Hk).
  - apply all_ws_Forall. apply Forall_firstn', Forall_skipn'. eapply Forall_impl; [|exact Hs]. intros a [H _]. exact H.
Qed.
Lemma side_children out lo n : ent_side out -> Forall is_side (firstn n (skipn lo out)) /\ all_ws (firstn n (skipn lo out)).
Proof.
  intros Hs. split.
  - apply Forall_firstn', Forall_skipn'. eapply Forall_impl; [|exact Hs]. intros a [_ H]. exact H.
  - apply all_ws_Forall. apply Forall_firstn', Forall_skipn'. eapply Forall_impl; [|exact Hs]. intros a [H _]. exact H.
Qed.
Lemma length_slice {A} (out : list A) lo hi : lo <= hi -> hi <= length out -> length (firstn (hi - lo) (skipn lo out)) = hi - lo.
Proof. intros H1 H2. rewrite firstn_length, skipn_length. lia. Qed.

(* ---------- one application of a stack operator ---------- *)
Lemma plain_sort o : is_struct o = false -> sort_sem (osem o) = Sset.
Proof. unfold is_struct. destruct (osem o); try discriminate; reflexivity. Qed.

Lemma splice_len {A} (out : list A) lo hi x : lo <= hi -> hi <= length out -> length (firstn lo out ++ x :: skipn hi out) = lo + 1 + (length out - hi).
Proof. intros H1 H2. rewrite app_length, firstn_length, Nat.min_l by lia. cbn [length]. rewrite skipn_length. lia. Qed.

Lemma operate_plain o i r out out' : opfacts o -> is_struct o = false ->
  chain (SOp o i :: r) (length out) -> ent (kidx r) out -> operate (SOp o i) out = inl out' ->
  chain r (length out') /\ ent (kidx r) out'.
Proof.
  intros F Hp (Hi & Hinf & Hr) He H. cbn [sidx] in *.
  pose proof (kidx_le_top _ _ Hr) as Kt. pose proof (chain_top _ _ Hr) as Tt.
  pose proof (of_shape o F) as Sh. pose proof (plain_sort o Hp) as Hsort.
  unfold operate in H. unfold is_struct in Hp.
  destruct (osem o) eqn:S; try discriminate; cbn beta iota in Sh.
  (* infix set operators *)
  1,2,5,6,7,8,9:
    (rewrite Sh in H; specialize (Hinf Sh); destruct (1 <=? i) eqn:E1; [|discriminate]; apply Nat.leb_le in E1;
     destruct (i + 1 <=? length out) eqn:E2; [|discriminate]; apply Nat.leb_le in E2; injection H as <-;
     destruct (ent_children (kidx r) out (i - 1) (i + 1 - (i - 1)) He ltac:(lia)) as [Cs Cw];
     split; [apply (chain_mono r i); [exact Hr | rewrite splice_len by lia; lia]|];
     apply ent_splice; try lia; try exact He;
     [apply ws_node; rewrite S; cbn [kids_ok]; split; [split; [rewrite length_slice by lia; lia | exact Cs] | exact Cw] | unfold is_set; cbn [sort_of]; rewrite S; reflexivity]).
  (* prefix signs *)
  1,2:
    (destruct Sh as [Sh Ar]; rewrite Sh, Ar in H; destruct (i + 1 <=? length out) eqn:E2; [|discriminate]; apply Nat.leb_le in E2; injection H as <-;
     destruct (ent_children (kidx r) out i (i + 1 - i) He ltac:(lia)) as [Cs Cw];
     split; [apply (chain_mono r i); [exact Hr | rewrite splice_len by lia; lia]|];
     apply ent_splice; try lia; try exact He;
     [apply ws_node; rewrite S; cbn [kids_ok]; split; [split; [rewrite length_slice by lia; lia | exact Cs] | exact Cw] | unfold is_set; cbn [sort_of]; rewrite S; reflexivity]).
  (* '.' *)
  destruct Sh as [Sh Ar]. rewrite Sh, Ar in H. cbn [Nat.leb] in H. rewrite Nat.sub_0_r in H.
  destruct (i <=? length out) eqn:E2; [|discriminate]. apply Nat.leb_le in E2. injection H as <-.
  split; [apply (chain_mono r i); [exact Hr | rewrite splice_len by lia; lia]|].
  apply ent_splice; try lia; try exact He.
  - apply ws_node. rewrite S. cbn [kids_ok]. rewrite Nat.sub_diag. cbn [firstn all_ws]. auto.
  - unfold is_set. cbn [sort_of]. rewrite S. reflexivity.
Qed.

(* a bar applied while only structured operators are left: sides in, a tuple out *)
Lemma operate_bar o i r out out' : opfacts o -> osem o = SBar ->
  chain (SOp o i :: r) (length out) -> ent_side out -> operate (SOp o i) out = inl out' ->
  chain r (length out') /\ ent_side out'.
Proof.
  intros F S (Hi & Hinf & Hr) He H. cbn [sidx] in *. pose proof (chain_top _ _ Hr) as Tt.
  destruct (of_bar o F S) as (_ & _ & Fx). unfold operate in H. rewrite Fx in H. specialize (Hinf Fx).
  destruct (1 <=? i) eqn:E1; [|discriminate]. apply Nat.leb_le in E1.
  destruct (i + 1 <=? length out) eqn:E2; [|discriminate]. apply Nat.leb_le in E2. injection H as <-.
  destruct (side_children out (i - 1) (i + 1 - (i - 1)) He) as [Cs Cw].
  split; [apply (chain_mono r i); [exact Hr | rewrite splice_len by lia; lia]|].
  unfold ent_side. apply Forall_app. split; [apply Forall_firstn', He|]. constructor; [|apply Forall_skipn', He]. split.
  - apply ws_node. rewrite S. cbn [kids_ok]. split; [split; [rewrite length_slice by lia; lia | exact Cs] | exact Cw].
  - unfold is_side. cbn [sort_of]. rewrite S. discriminate.
Qed.

Section Machine.
Variable f : flags.
Hypothesis Hst : f_stage f = false.
Definition known (o : op) : Prop := enabled f o.
Lemma known_facts o : known o -> opfacts o.
Proof. intros [Hin Hd]. apply (table_facts f o Hst Hin Hd). Qed.

Definition Inv (out : list ast) (stk : list sitem) : Prop :=
  stk_nd known stk /\ shape stk /\ chain stk (length out) /\ ent (kidx stk) out.
(* only structured operators left, any sides in the output *)
Definition WInv (out : list ast) (stk : list sitem) : Prop :=
  stk_nd known stk /\ Bshape stk /\ chain stk (length out) /\ ent_side out.

Lemma shape_tail it r : shape (it :: r) -> shape r.
Proof.
  destruct it as [o i|t i]; cbn [shape]; [|auto]. destruct (is_struct o) eqn:E; [|auto].
  cbn [Bshape]. destruct r as [|it2 r2]; [intros _; exact I|]. intros [_ H]. destruct it2 as [o2 i2|t2 i2]; [|destruct H].
  cbn [shape]. assert (E2 : is_struct o2 = true).
  { cbn [Bshape] in H. destruct r2; [exact H | destruct H as [H _]; unfold is_struct; rewrite H; reflexivity]. }
  rewrite E2. exact H.
Qed.
Lemma Bshape_struct o i r : Bshape (SOp o i :: r) -> is_struct o = true.
Proof. cbn [Bshape]. destruct r; [auto | intros [H _]; unfold is_struct; rewrite H; reflexivity]. Qed.
Lemma Bshape_tail it r : Bshape (it :: r) -> Bshape r.
Proof. destruct it as [o i|t i]; cbn [Bshape]; [|tauto]. destruct r; [intros _; exact I | tauto]. Qed.
Lemma shape_struct_top o i r : is_struct o = true -> shape (SOp o i :: r) -> Bshape (SOp o i :: r).
Proof. intros E. cbn [shape]. rewrite E. auto. Qed.

(* popping for an incoming operator that structured operators on the stack resist: only plain operators are applied *)
Definition resists (o : op) : Prop := forall top, opfacts top -> is_struct top = true -> popped top o = false.
Lemma pop_while_plain o : resists o -> forall stk out out' stk', Inv out stk -> pop_while o stk out = inl (out', stk') -> Inv out' stk'.
Proof.
  intros Hres. induction stk as [|it r IH]; intros out out' stk' HI H; cbn [pop_while] in H; [injection H as <- <-; exact HI|].
  destruct it as [top i|t i]; [|injection H as <- <-; exact HI].
  destruct HI as (Hk & Hs & Hc & He). inversion Hk as [|? ? Ktop Kr]; subst. pose proof (known_facts top Ktop) as Ft.
  destruct (popped top o) eqn:Ep; [|injection H as <- <-; exact (conj Hk (conj Hs (conj Hc He)))].
  destruct (is_struct top) eqn:Es; [rewrite (Hres top Ft Es) in Ep; discriminate|].
  destruct (operate (SOp top i) out) as [out1|e] eqn:E; [|discriminate].
  cbn [kidx] in He. rewrite Es in He.
  destruct (operate_plain top i r out out1 Ft Es Hc He E) as [Hc1 He1].
  apply (IH out1 out' stk'); [|exact H]. exact (conj Kr (conj (shape_tail _ _ Hs) (conj Hc1 He1))).
Qed.
Lemma plain_resists o : opfacts o -> is_struct o = false -> resists o.
Proof.
  intros F E top Ft Et. unfold popped. destruct (of_plain o F E) as [P1 _]. destruct (of_struct top Ft Et) as (P2 & _).
  replace (oprec o <? oprec top)%Z with false by (symmetry; apply Z.ltb_ge; lia).
  replace (oprec top =? oprec o)%Z with false by (symmetry; apply Z.eqb_neq; lia). reflexivity.
Qed.
Lemma bar_resists o : opfacts o -> osem o = SBar -> resists o.
Proof.
  intros F S top Ft Et. unfold popped. destruct (of_bar o F S) as (_ & P1 & _). destruct (of_struct top Ft Et) as (P2 & _).
  assert (Es : is_struct o = true) by (unfold is_struct; rewrite S; reflexivity). destruct (of_struct o F Es) as (_ & An & _).
  replace (oprec o <? oprec top)%Z with false by (symmetry; apply Z.ltb_ge; lia). rewrite An. rewrite andb_false_r. reflexivity.
Qed.

(* ---------- an incoming '~': everything on the stack is applied ---------- *)
Definition above (o : op) (it : sitem) : Prop := match it with SOp p _ => (oprec o < oprec p)%Z | SCtx _ _ => False end.
Lemma accepts_empty o stk : octx o = CEmpty -> accepts o stk = true -> Forall (above o) stk.
Proof.
  unfold accepts. intros -> H. induction stk as [|it r IH]; [constructor|]. cbn [filter] in H.
  destruct it as [p i|t i]; [|discriminate]. destruct (oprec p <=? oprec o)%Z eqn:E; [discriminate|].
  constructor; [cbn; apply Z.leb_gt in E; lia | apply IH, H].
Qed.
Lemma struct_not_tilde o : opfacts o -> is_struct o = true -> is_tilde o = false -> osem o = SBar.
Proof. intros F. pose proof (of_nomulti o F). unfold is_struct, is_tilde. destruct (osem o); try discriminate; try reflexivity; contradiction. Qed.
Lemma Inv_struct_top_WInv out o i r : is_struct o = true -> Inv out (SOp o i :: r) -> WInv out (SOp o i :: r).
Proof. intros E (Hk & Hs & Hc & He & _). exact (conj Hk (conj (shape_struct_top o i r E Hs) (conj Hc He))). Qed.

Lemma pop_while_all o : opfacts o -> is_tilde o = true -> forall stk out out' stk', Forall (above o) stk -> (Inv out stk \/ WInv out stk) ->
  pop_while o stk out = inl (out', stk') -> stk' = [] /\ ent_side out'.
Proof.
  intros Fo To. destruct (of_tilde o Fo To) as [_ Po].
  induction stk as [|it r IH]; intros out out' stk' Ha HI H; cbn [pop_while] in H.
  - injection H as <- <-. split; [reflexivity|]. destruct HI as [(_ & _ & _ & He & _)|(_ & _ & _ & He)]; exact He.
  - inversion Ha as [|? ? Hab Har]; subst. destruct it as [top i|t i]; [|destruct Hab]. cbn [above] in Hab.
    unfold popped in H. replace (oprec o <? oprec top)%Z with true in H by (symmetry; apply Z.ltb_lt; exact Hab). cbn [orb] in H.
    destruct (operate (SOp top i) out) as [out1|e] eqn:E; [|discriminate].
    assert (Kt : known top) by (destruct HI as [(Hk & _)|(Hk & _)]; inversion Hk; assumption).
    pose proof (known_facts top Kt) as Ft.
    assert (NT : is_struct top = true -> osem top = SBar).
    { intro Es. apply (struct_not_tilde top Ft Es). destruct (is_tilde top) eqn:Tt; [|reflexivity]. destruct (of_tilde top Ft Tt) as [_ Pt]. lia. }
    destruct (is_struct top) eqn:Es.
    + assert (HW : WInv out (SOp top i :: r)) by (destruct HI as [HI|HW]; [apply Inv_struct_top_WInv; assumption | exact HW]).
      destruct HW as (Hk & Hb & Hc & He).
      destruct (operate_bar top i r out out1 Ft (NT eq_refl) Hc He E) as [Hc1 He1].
      apply (IH out1 out' stk' Har); [|exact H]. right. inversion Hk; subst. exact (conj H3 (conj (Bshape_tail _ _ Hb) (conj Hc1 He1))).
    + destruct HI as [(Hk & Hs & Hc & He)|(_ & Hb & _)]; [|rewrite (Bshape_struct _ _ _ Hb) in Es; discriminate].
      cbn [kidx] in He. rewrite Es in He.
      destruct (operate_plain top i r out out1 Ft Es Hc He E) as [Hc1 He1].
      apply (IH out1 out' stk' Har); [|exact H]. left. inversion Hk; subst. exact (conj H3 (conj (shape_tail _ _ Hs) (conj Hc1 He1))).
Qed.

(* the state while the candidates for one symbol are tried *)
Definition G (out : list ast) (stk : list sitem) : Prop := Inv out stk \/ (stk = [] /\ ent_side out).

Lemma ok_infix o n top : opfacts o -> ofix o = Infix ->
  ((oarity o =? 0) || match ofix o with Prefix => true | Infix => (n - top =? 1) | Postfix => (oarity o <=? n - top) end) = true -> top < n.
Proof. intros F Fx. rewrite (of_arity o F Fx), Fx. cbn [Nat.eqb orb]. intro H. apply Nat.eqb_eq in H. lia. Qed.

Lemma try_ops_tilde cands : Forall (fun o => is_tilde o = true) cands -> (forall o, In o cands -> odis o = false -> known o) ->
  forall out stk out' stk', G out stk -> try_ops cands out stk = inl (out', stk') -> Inv out' stk'.
Proof.
  induction cands as [|o rest IH]; intros Ht HK out stk out' stk' HG H; cbn [try_ops] in H; [discriminate|].
  inversion Ht as [|? ? To Trest]; subst.
  assert (HK' : forall o', In o' rest -> odis o' = false -> known o') by (intros o' Hin; apply HK; right; exact Hin).
  destruct (accepts o stk) eqn:Ea; cbn [negb] in H; [|apply (IH Trest HK' _ _ _ _ HG H)].
  destruct (odis o) eqn:Ed; [apply (IH Trest HK' _ _ _ _ HG H)|].
  assert (Ko : known o) by (apply HK; [left; reflexivity | exact Ed]). pose proof (known_facts o Ko) as Fo.
  destruct (of_tilde o Fo To) as [Co _]. pose proof (accepts_empty o stk Co Ea) as Hab.
  destruct (pop_while o stk out) as [[out1 stk1]|e] eqn:E; [|discriminate].
  assert (HI : Inv out stk \/ WInv out stk).
  { destruct HG as [HI|[-> He]]; [left; exact HI | right; exact (conj (Forall_nil _) (conj I (conj I He)))]. }
  destruct (pop_while_all o Fo To stk out out1 stk1 Hab HI E) as [-> He1].
  match type of H with (if ?c then _ else _) = _ => destruct c eqn:Eok end.
  - injection H as <- <-. assert (Es : is_struct o = true) by (unfold is_tilde in To; unfold is_struct; destruct (osem o); try discriminate; reflexivity).
    refine (conj _ (conj _ (conj _ (conj He1 _)))).
    + constructor; [exact Ko | constructor].
    + cbn [shape]. rewrite Es. cbn [Bshape]. exact Es.
    + cbn [chain sidx topidx]. split; [lia|]. split; [|exact I]. intro Fx. apply (ok_infix o (length out1) 0 Fo Fx). exact Eok.
    + cbn [kidx]. rewrite Es. rewrite skipn_all. constructor.
  - apply (IH Trest HK' _ _ _ _ (or_intror (conj eq_refl He1)) H).
Qed.

(* ---------- an incoming '|' ---------- *)
Lemma pop_while_suffix o : forall stk out out' stk', pop_while o stk out = inl (out', stk') ->
  (exists pre, stk = pre ++ stk') /\ (match stk' with SOp top _ :: _ => popped top o = false | _ => True end).
Proof.
  induction stk as [|it r IH]; intros out out' stk' H; cbn [pop_while] in H.
  - injection H as <- <-. split; [exists []; reflexivity | exact I].
  - destruct it as [top i|t i].
    + destruct (popped top o) eqn:Ep.
      * destruct (operate (SOp top i) out) as [out1|e]; [|discriminate]. destruct (IH _ _ _ H) as [[pre ->] Ht]. split; [exists (SOp top i :: pre); reflexivity | exact Ht].
      * injection H as <- <-. split; [exists []; reflexivity | exact Ep].
    + injection H as <- <-. split; [exists []; reflexivity | exact I].
Qed.
Lemma accepts_tildebar o stk : octx o = CTildeBar -> accepts o stk = true ->
  Forall (fun it => match it with SOp p _ => (oprec p <= oprec o)%Z -> sym_in_tildebar (osym p) = true | SCtx _ _ => False end) stk.
Proof.
  unfold accepts. intros -> H. induction stk as [|it r IH]; [constructor|]. cbn [filter] in H.
  destruct it as [p i|t i].
  - destruct (oprec p <=? oprec o)%Z eqn:E.
    + cbn [forallb] in H. apply andb_prop in H as [H1 H2]. constructor; [intros _; exact H1 | apply IH, H2].
    + constructor; [intro L; apply Z.leb_gt in E; lia | apply IH, H].
  - cbn [forallb] in H. discriminate.
Qed.

Lemma try_ops_bar cands : Forall (fun o => osem o = SBar) cands -> (forall o, In o cands -> odis o = false -> known o) ->
  forall out stk out' stk', Inv out stk -> try_ops cands out stk = inl (out', stk') -> Inv out' stk'.
Proof.
  induction cands as [|o rest IH]; intros Ht HK out stk out' stk' HI H; cbn [try_ops] in H; [discriminate|].
  inversion Ht as [|? ? So Srest]; subst.
  assert (HK' : forall o', In o' rest -> odis o' = false -> known o') by (intros o' Hin; apply HK; right; exact Hin).
  destruct (accepts o stk) eqn:Ea; cbn [negb] in H; [|apply (IH Srest HK' _ _ _ _ HI H)].
  destruct (odis o) eqn:Ed; [apply (IH Srest HK' _ _ _ _ HI H)|].
  assert (Ko : known o) by (apply HK; [left; reflexivity | exact Ed]). pose proof (known_facts o Ko) as Fo.
  destruct (of_bar o Fo So) as (Co & Po & Fx). pose proof (accepts_tildebar o stk Co Ea) as Hab.
  assert (Es : is_struct o = true) by (unfold is_struct; rewrite So; reflexivity).
  destruct (pop_while o stk out) as [[out1 stk1]|e] eqn:E; [|discriminate].
  pose proof (pop_while_plain o (bar_resists o Fo So) stk out out1 stk1 HI E) as HI1.
  destruct (pop_while_suffix o stk out out1 stk1 E) as [[pre Hpre] Htop].
  match type of H with (if ?c then _ else _) = _ => destruct c eqn:Eok end; [|apply (IH Srest HK' _ _ _ _ HI1 H)].
  injection H as <- <-. destruct HI1 as (Hk1 & Hs1 & Hc1 & He1 & _).
  (* what is left on the stack below the new bar is structured (or nothing) *)
  assert (HB : Bshape (SOp o (length out1) :: stk1)).
  { cbn [Bshape]. destruct stk1 as [|it2 r2]; [exact Es|]. split; [exact So|].
    assert (Hin : In it2 stk) by (rewrite Hpre; apply in_or_app; right; left; reflexivity).
    rewrite Forall_forall in Hab. specialize (Hab it2 Hin). destruct it2 as [top i2|t i2]; [|destruct Hab].
    inversion Hk1 as [|? ? Kt _]; subst. pose proof (known_facts top Kt) as Ft.
    destruct (is_struct top) eqn:Et; [apply (shape_struct_top top i2 r2 Et Hs1)|].
    (* a plain operator on top would have been applied *)
    exfalso. destruct (of_plain top Ft Et) as [Pt _]. unfold popped in Htop.
    replace (oprec o <? oprec top)%Z with true in Htop by (symmetry; apply Z.ltb_lt; lia). discriminate. }
  refine (conj _ (conj _ (conj _ (conj He1 _)))).
  - constructor; [exact Ko | exact Hk1].
  - cbn [shape]. rewrite Es. exact HB.
  - cbn [chain sidx]. split; [lia|]. split; [intros _; apply (ok_infix o (length out1) (topidx stk1) Fo Fx Eok) | exact Hc1].
  - cbn [kidx]. rewrite Es. rewrite skipn_all. constructor.
Qed.

(* ---------- an incoming plain operator ---------- *)
Lemma try_ops_plain cands : Forall (fun o => is_struct o = false) cands -> (forall o, In o cands -> odis o = false -> known o) ->
  forall out stk out' stk', Inv out stk -> try_ops cands out stk = inl (out', stk') -> Inv out' stk'.
Proof.
  induction cands as [|o rest IH]; intros Ht HK out stk out' stk' HI H; cbn [try_ops] in H; [discriminate|].
  inversion Ht as [|? ? Po Prest]; subst.
  assert (HK' : forall o', In o' rest -> odis o' = false -> known o') by (intros o' Hin; apply HK; right; exact Hin).
  destruct (negb (accepts o stk)); [apply (IH Prest HK' _ _ _ _ HI H)|].
  destruct (odis o) eqn:Ed; [apply (IH Prest HK' _ _ _ _ HI H)|].
  assert (Ko : known o) by (apply HK; [left; reflexivity | exact Ed]). pose proof (known_facts o Ko) as Fo.
  destruct (pop_while o stk out) as [[out1 stk1]|e] eqn:E; [|discriminate].
  pose proof (pop_while_plain o (plain_resists o Fo Po) stk out out1 stk1 HI E) as HI1.
  match type of H with (if ?c then _ else _) = _ => destruct c eqn:Eok end; [|apply (IH Prest HK' _ _ _ _ HI1 H)].
  injection H as <- <-. destruct HI1 as (Hk1 & Hs1 & Hc1 & He1).
  refine (conj _ (conj _ (conj _ _))).
  - constructor; [exact Ko | exact Hk1].
  - cbn [shape]. rewrite Po. exact Hs1.
  - cbn [chain sidx]. split; [lia|]. split; [intro Fx; apply (ok_infix o (length out1) (topidx stk1) Fo Fx Eok) | exact Hc1].
  - cbn [kidx]. rewrite Po. exact He1.
Qed.

(* ---------- all candidates for one symbol are of one family ---------- *)
Lemma sym_class o : In o (table f) ->
  (osym o = [cTILDE] /\ is_tilde o = true) \/ (osym o = [cBAR] /\ osem o = SBar) \/ (osym o <> [cTILDE] /\ osym o <> [cBAR] /\ is_struct o = false).
Proof.
  intro Hin. cbn [table In] in Hin.
  repeat (destruct Hin as [<-|Hin]; [cbn; first [left; split; reflexivity | right; left; split; reflexivity | right; right; repeat split; (discriminate || reflexivity)]|]).
  contradiction.
Qed.
Lemma str_dec (a b : str) : {a = b} + {a <> b}.
Proof. apply list_eq_dec, N.eq_dec. Qed.
Lemma leqb_true a b : leqb a b = true -> a = b.
Proof.
  revert b. induction a as [|x a IH]; intros [|y b] H; cbn in H; try discriminate; [reflexivity|].
  apply andb_prop in H as [H1 H2]. apply N.eqb_eq in H1. f_equal; [exact H1 | apply IH, H2].
Qed.
Lemma cands_family s : Forall (fun o => is_tilde o = true) (candidates f s) \/ Forall (fun o => osem o = SBar) (candidates f s) \/
                       Forall (fun o => is_struct o = false) (candidates f s).
Proof.
  assert (Hc : forall o, In o (candidates f s) -> In o (table f) /\ osym o = s).
  { intros o H. unfold candidates in H. apply filter_In in H as [H1 H2]. split; [exact H1 | apply leqb_true, H2]. }
  destruct (str_dec s [cTILDE]) as [->|N1]; [left|destruct (str_dec s [cBAR]) as [->|N2]; [right; left | right; right]];
    apply Forall_forall; intros o Ho; destruct (Hc o Ho) as [Hin Hs]; destruct (sym_class o Hin) as [[S1 T]|[[S2 B]|(N3 & N4 & P)]];
    try assumption; try (exfalso; congruence); try (exfalso; rewrite Hs in *; vm_compute in *; congruence).
Qed.
Lemma cands_known s o : In o (candidates f s) -> odis o = false -> known o.
Proof. intros H Hd. unfold candidates in H. apply filter_In in H as [H _]. split; assumption. Qed.

Lemma do_syms_inv syms : forall out stk out' stk', Inv out stk -> do_syms f syms out stk = inl (out', stk') -> Inv out' stk'.
Proof.
  induction syms as [|s rest IH]; intros out stk out' stk' HI H; cbn [do_syms] in H; [injection H as <- <-; exact HI|].
  destruct (candidates f s) as [|c cs] eqn:Ec; [discriminate|].
  destruct (try_ops (c :: cs) out stk) as [[o1 s1]|e] eqn:E; [|discriminate].
  assert (HI1 : Inv o1 s1).
  { pose proof (cands_family s) as Fam. rewrite Ec in Fam.
    assert (HK : forall o, In o (c :: cs) -> odis o = false -> known o) by (intros o Ho; apply (cands_known s); rewrite Ec; exact Ho).
    destruct Fam as [Ft|[Fb|Fp]].
    - apply (try_ops_tilde (c :: cs) Ft HK out stk o1 s1 (or_introl HI) E).
    - apply (try_ops_bar (c :: cs) Fb HK out stk o1 s1 HI E).
    - apply (try_ops_plain (c :: cs) Fp HK out stk o1 s1 HI E). }
  apply (IH _ _ _ _ HI1 H).
Qed.

(* ---------- brackets ---------- *)
Lemma close_ctx_struct opener : forall stk out, Bshape stk -> match close_ctx opener stk out with inl _ => False | inr _ => True end.
Proof.
  induction stk as [|it r IH]; intros out HB; cbn [close_ctx]; [exact I|].
  destruct it as [o i|t i]; [|destruct HB]. destruct (operate (SOp o i) out) as [out1|e]; [|exact I]. apply IH. apply (Bshape_tail _ _ HB).
Qed.
Lemma close_ctx_inv opener : forall stk out out' stk', Inv out stk -> close_ctx opener stk out = inl (out', stk') -> Inv out' stk'.
Proof.
  induction stk as [|it r IH]; intros out out' stk' HI H; cbn [close_ctx] in H; [discriminate|].
  destruct HI as (Hk & Hs & Hc & He). inversion Hk as [|? ? Kit Kr]; subst.
  destruct it as [o i|t i].
  - pose proof (known_facts o Kit) as Fo. destruct (is_struct o) eqn:Es.
    + exfalso. pose proof (close_ctx_struct opener (SOp o i :: r) out (shape_struct_top o i r Es Hs)) as X. cbn [close_ctx] in X. rewrite H in X. exact X.
    + destruct (operate (SOp o i) out) as [out1|e] eqn:E; [|discriminate]. cbn [kidx] in He. rewrite Es in He.
      destruct (operate_plain o i r out out1 Fo Es Hc He E) as [Hc1 He1].
      apply (IH out1 out' stk'); [|exact H]. exact (conj Kr (conj (shape_tail _ _ Hs) (conj Hc1 He1))).
  - destruct (leqb t opener); [|discriminate]. destruct (i =? length out); [discriminate|]. injection H as <- <-.
    destruct Hc as (Hi & _ & Hr). cbn [sidx] in *.
    refine (conj Kr (conj Hs (conj _ He))). apply (chain_mono r i); [exact Hr|]. pose proof (chain_top _ _ Hr). lia.
Qed.

(* ---------- one token, all tokens ---------- *)
Lemma leaf_inv out stk t : Inv out stk -> Inv (out ++ [ALeaf t]) stk.
Proof.
  intros (Hk & Hs & Hc & (He1 & He2)). refine (conj Hk (conj Hs (conj _ (conj _ _)))).
  - apply (chain_mono stk (length out)); [exact Hc|]. rewrite app_length. cbn [length]. pose proof (chain_top _ _ Hc). lia.
  - apply Forall_app. split; [exact He1|]. constructor; [|constructor]. split; [exact I | unfold is_side; cbn; discriminate].
  - rewrite skipn_app. pose proof (kidx_le _ _ Hc) as K. replace (kidx stk - length out) with 0 by lia. cbn [skipn].
    apply Forall_app. split; [exact He2|]. constructor; [reflexivity | constructor].
Qed.
Lemma mstep_inv fixed t out stk out' stk' : Inv out stk -> mstep fixed f t (out, stk) = inl (out', stk') -> Inv out' stk'.
Proof.
  intros HI H. unfold mstep in H. destruct (kd t).
  all: try (injection H as <- <-; apply leaf_inv; exact HI).
  - destruct (leqb (tx t) [cLP] || leqb (tx t) [cLS]).
    + injection H as <- <-. destruct HI as (Hk & Hs & Hc & He).
      refine (conj _ (conj Hs (conj _ He))); [constructor; [exact I | exact Hk] | cbn [chain sidx]; split; [lia | split; [exact I | exact Hc]]].
    + destruct (opener_of (tx t)) as [o|]; [|discriminate]. apply (close_ctx_inv _ _ _ _ _ HI H).
  - apply (do_syms_inv _ _ _ _ _ HI H).
Qed.
Lemma mrun_inv fixed ts : forall out stk out' stk', Inv out stk -> mrun fixed f ts (out, stk) = inl (out', stk') -> Inv out' stk'.
Proof.
  induction ts as [|t ts IH]; intros out stk out' stk' HI H; cbn [mrun] in H; [injection H as <- <-; exact HI|].
  destruct (mstep fixed f t (out, stk)) as [[o1 s1]|e] eqn:E; [|discriminate].
  apply (IH _ _ _ _ (mstep_inv _ _ _ _ _ _ HI E) H).
Qed.

(* ---------- the end of the input: everything left on the stack is applied ---------- *)
Lemma operate_tilde o i out out' : opfacts o -> is_tilde o = true -> ent_side out -> operate (SOp o i) out = inl out' -> Forall ws out'.
Proof.
  intros F T He H. pose proof (of_shape o F) as Sh. pose proof (of_nomulti o F) as NM. unfold is_tilde in T. unfold operate in H.
  assert (Hw : Forall ws out) by (eapply Forall_impl; [|exact He]; intros a [X _]; exact X).
  destruct (osem o) eqn:S; try discriminate; try contradiction; cbn beta iota in Sh.
  - rewrite Sh in H. destruct (1 <=? i) eqn:E1; [|discriminate]. apply Nat.leb_le in E1.
    destruct (i + 1 <=? length out) eqn:E2; [|discriminate]. apply Nat.leb_le in E2. injection H as <-.
    destruct (side_children out (i - 1) (i + 1 - (i - 1)) He) as [Cs Cw].
    apply Forall_app. split; [apply Forall_firstn', Hw|]. constructor; [|apply Forall_skipn', Hw].
    apply ws_node. rewrite S. cbn [kids_ok]. split; [split; [rewrite length_slice by lia; lia | exact Cs] | exact Cw].
  - destruct Sh as [Sh Ar]. rewrite Sh, Ar in H. destruct (i + 1 <=? length out) eqn:E2; [|discriminate]. apply Nat.leb_le in E2. injection H as <-.
    destruct (side_children out i (i + 1 - i) He) as [Cs Cw].
    apply Forall_app. split; [apply Forall_firstn', Hw|]. constructor; [|apply Forall_skipn', Hw].
    apply ws_node. rewrite S. cbn [kids_ok]. split; [split; [rewrite length_slice by lia; lia | exact Cs] | exact Cw].
Qed.
Lemma finish_struct : forall stk out fin, WInv out stk -> finish stk out = inl fin -> Forall ws fin.
Proof.
  induction stk as [|it r IH]; intros out fin (Hk & Hb & Hc & He) H; cbn [finish] in H.
  - injection H as <-. eapply Forall_impl; [|exact He]. intros a [X _]. exact X.
  - destruct it as [o i|t i]; [|discriminate]. inversion Hk as [|? ? Ko Kr]; subst. pose proof (known_facts o Ko) as Fo.
    destruct (operate (SOp o i) out) as [out1|e] eqn:E; [|discriminate].
    destruct (is_tilde o) eqn:T.
    + (* a tilde is the last operator on the stack *)
      assert (r = []) as ->.
      { cbn [Bshape] in Hb. destruct r as [|it2 r2]; [reflexivity|]. destruct Hb as [Hbar _]. unfold is_tilde in T. rewrite Hbar in T. discriminate. }
      cbn [finish] in H. injection H as <-. apply (operate_tilde o i out out1 Fo T He E).
    + pose proof (struct_not_tilde o Fo (Bshape_struct _ _ _ Hb) T) as Sb.
      destruct (operate_bar o i r out out1 Fo Sb Hc He E) as [Hc1 He1].
      apply (IH out1 fin); [|exact H]. exact (conj Kr (conj (Bshape_tail _ _ Hb) (conj Hc1 He1))).
Qed.
Lemma finish_inv : forall stk out fin, Inv out stk -> finish stk out = inl fin -> Forall ws fin.
Proof.
  induction stk as [|it r IH]; intros out fin HI H.
  - cbn [finish] in H. injection H as <-. destruct HI as (_ & _ & _ & (He & _)). eapply Forall_impl; [|exact He]. intros a [X _]. exact X.
  - destruct it as [o i|t i]; [|cbn [finish] in H; discriminate].
    destruct (is_struct o) eqn:Es.
    + apply (finish_struct (SOp o i :: r) out fin); [apply Inv_struct_top_WInv; assumption | exact H].
    + cbn [finish] in H. destruct HI as (Hk & Hs & Hc & He). inversion Hk as [|? ? Ko Kr]; subst. pose proof (known_facts o Ko) as Fo.
      destruct (operate (SOp o i) out) as [out1|e] eqn:E; [|discriminate]. cbn [kidx] in He. rewrite Es in He.
      destruct (operate_plain o i r out out1 Fo Es Hc He E) as [Hc1 He1].
      apply (IH out1 fin); [|exact H]. exact (conj Kr (conj (shape_tail _ _ Hs) (conj Hc1 He1))).
Qed.

Theorem to_ast_well_sorted fixed ts a : to_ast fixed f ts = inl (Some a) -> ws a.
Proof.
  unfold to_ast. destruct (mrun fixed f ts ([], [])) as [[out stk]|e] eqn:E; [|discriminate].
  assert (H0 : Inv [] []) by (refine (conj (Forall_nil _) (conj I (conj I (conj (Forall_nil _) _)))); constructor).
  pose proof (mrun_inv fixed ts [] [] out stk H0 E) as HI.
  destruct (finish stk out) as [fin|e] eqn:Fi; [|discriminate].
  pose proof (finish_inv stk out fin HI Fi) as Hf.
  destruct fin as [|x [|y r]]; try discriminate. intro H. injection H as <-. inversion Hf; assumption.
Qed.
End Machine.

(* ====================================================================================================
   the whole pipeline: with MULTISTAGE off no internal exception class escapes at all
   ==================================================================================================== *)
Require Import ParserTotal.
Theorem get_terms_never_internal fixed intercept f av bad pn pv cl s n :
  f_stage f = false -> fragments_only_syntax_errors bad ->
  get_terms fixed intercept f av bad pn pv cl s <> inr (EInternal n).
Proof.
  intros Hst Hbad H. pose proof (get_terms_internal_errors fixed intercept f av bad pn pv cl s n Hbad H) as ->.
  (* class 5 can only come from the evaluation of the AST, which is well-sorted *)
  unfold get_terms in H. destruct (tokenize_partial cl s) as [toks lexerr]. destruct (cut_bad bad (map of_token toks)) as [ts0' pyerr] eqn:Ec.
  destruct pyerr as [e|].
  - destruct (cut_bad_err bad _ _ _ Ec) as (t & c & _ & _ & Hp & ->). destruct (py_err_in bad _ _ Hp) as (frag & Hin & _).
    rewrite (Hbad frag c Hin) in H. discriminate.
  - destruct lexerr; [discriminate|]. unfold finish_terms in H.
    destruct (to_ast fixed f (get_tokens intercept (map (normalise pn) ts0'))) as [[a|]|e] eqn:Ea; try discriminate.
    + pose proof (to_ast_well_sorted f Hst fixed _ a Ea) as Hw.
      match type of H with context [eval ?fu ?cx a] => pose proof (eval_ws_not_stuck cx a Hw) as Hn; destruct (eval fu cx a) as [v|e] end.
      * destruct (match v with VSide s0 => check_side s0 | VTwo l r => check_side l && check_side r | VMulti => true end); discriminate.
      * injection H as ->. exact Hn.
    + pose proof (to_ast_clean fixed f (get_tokens intercept (map (normalise pn) ts0'))) as [C1 C2]. rewrite Ea in C1, C2. injection H as ->. exact C1.
Qed.
