(* ===== ElemLaws.v : log/exp families denote the functions they name; each is the inverse of its partner ===== *)
From Coq Require Import List NArith ZArith Reals Lra Bool.
Import ListNotations.
Require Import GenTransforms Elem.
Open Scope R_scope.

(* the regenerated table, denoted *)
Theorem denote_log : denote s_log = Some ln. Proof. reflexivity. Qed.
Theorem denote_log2 : denote s_log2 = Some (Rlog 2). Proof. reflexivity. Qed.
Theorem denote_log10 : denote s_log10 = Some (Rlog 10). Proof. reflexivity. Qed.
Theorem denote_exp : denote s_exp = Some exp. Proof. reflexivity. Qed.
Theorem denote_exp2 : denote s_exp2 = Some (Rpower 2). Proof. reflexivity. Qed.
Theorem denote_exp10 : denote s_exp10 = Some (Rpower 10). Proof. reflexivity. Qed.

Lemma ln_b_nz b : 1 < b -> ln b <> 0.
Proof. intros H. pose proof (ln_increasing 1 b ltac:(lra) H) as H1. rewrite ln_1 in H1. lra. Qed.
Theorem log_exp_base b x : 1 < b -> Rlog b (Rpower b x) = x.
Proof. intros H. unfold Rlog, Rpower. rewrite ln_exp. field. apply ln_b_nz, H. Qed.
Theorem exp_log_base b x : 1 < b -> 0 < x -> Rpower b (Rlog b x) = x.
Proof.
  intros H Hx. unfold Rlog, Rpower. replace (ln x / ln b * ln b) with (ln x) by (field; apply ln_b_nz, H).
  apply exp_ln, Hx.
Qed.
(* exp10(x) = 10**x: at integers it is the integer power, e.g. exp10(2) = 100 (the pinned source computed x**10 = 1024) *)
Theorem exp10_at_naturals n : Rpower 10 (INR n) = 10 ^ n.
Proof. apply Rpower_pow. lra. Qed.
Theorem exp2_at_naturals n : Rpower 2 (INR n) = 2 ^ n.
Proof. apply Rpower_pow. lra. Qed.

(* every partner pair of the table: f (g x) = x *)
Theorem table_inverse_pairs :
  forall lg ex b, In (lg, ex, b) [(s_log2, s_exp2, 2); (s_log10, s_exp10, 10)] ->
  exists f g, denote lg = Some f /\ denote ex = Some g /\ (forall x, f (g x) = x) /\ (forall x, 0 < x -> g (f x) = x).
Proof.
  intros lg ex b [H|[H|[]]]; injection H as <- <- <-.
  - exists (Rlog 2), (Rpower 2). repeat split; try reflexivity; intros; [apply log_exp_base | apply exp_log_base]; lra.
  - exists (Rlog 10), (Rpower 10). repeat split; try reflexivity; intros; [apply log_exp_base | apply exp_log_base]; lra.
Qed.
Theorem table_inverse_natural :
  exists f g, denote s_log = Some f /\ denote s_exp = Some g /\ (forall x, f (g x) = x) /\ (forall x, 0 < x -> g (f x) = x).
Proof. exists ln, exp. repeat split; try reflexivity; intros; [apply ln_exp | apply exp_ln; assumption]. Qed.
