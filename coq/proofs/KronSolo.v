(* ===== KronSolo.v : the single-column fast path of the row-wise Kronecker product (C02) =====
   PandasMaterializer._get_columns_for_term multiplies all factors that have ONE column into a single vector first and lets it take part in
   the expansion as the last factor, while the names are enumerated over the factors in their written order.  This is sound because a
   single-column factor, wherever it stands in the term, multiplies every column of the product of the other factors and does not
   disturb their order.  (Exact arithmetic: multiplication of cells is commutative and associative.) *)
From Coq Require Import List NArith ZArith QArith Qcanon Bool Arith Lia.
Import ListNotations.
Require Import Mat MatLaws.
Open Scope N_scope.

Lemma cmul_comm a b : cmul a b = cmul b a.
Proof. destruct a, b; cbn; try reflexivity. f_equal. ring. Qed.
Lemma cmul_assoc a b c : cmul (cmul a b) c = cmul a (cmul b c).
Proof. destruct a, b, c; cbn; try reflexivity. f_equal. ring. Qed.
Lemma vmul_comm : forall a b, vmul a b = vmul b a.
Proof. unfold vmul. induction a as [|x a IH]; intros [|y b]; cbn [combine map fst snd]; try reflexivity. rewrite cmul_comm. f_equal. apply IH. Qed.
Lemma vmul_assoc : forall a b c, vmul (vmul a b) c = vmul a (vmul b c).
Proof.
  unfold vmul. induction a as [|x a IH]; intros [|y b] [|z c]; cbn [combine map fst snd]; try reflexivity.
  rewrite cmul_assoc. f_equal. apply IH.
Qed.

Definition vals (l : list (str * column)) : list column := map snd l.
Lemma vals_flat_map {A} (g : A -> list (str * column)) l : vals (flat_map g l) = flat_map (fun x => vals (g x)) l.
Proof. unfold vals. induction l as [|x r IH]; cbn [flat_map map]; [reflexivity|]. rewrite map_app, IH. reflexivity. Qed.

(* the values of a product with one more factor in front *)
Lemma kron_step_vals (f K : list (str * column)) :
  map snd (flat_map (fun rc => map (fun fc => (fst fc ++ [58] ++ fst rc, vmul (snd fc) (snd rc))) f) K) =
  flat_map (fun rc => map (fun fc => vmul fc rc) (map snd f)) (map snd K).
Proof. induction K as [|rc K IHK]; cbn [flat_map map]; [reflexivity|]. rewrite map_app, IHK. f_equal. rewrite !map_map. reflexivity. Qed.
Lemma kron_cons_vals f rest : rest <> [] -> vals (kron (f :: rest)) = flat_map (fun rc => map (fun fc => vmul fc rc) (vals f)) (vals (kron rest)).
Proof.
  intro H. destruct rest as [|g r]; [contradiction|].
  change (kron (f :: g :: r)) with (flat_map (fun rc => map (fun fc => (fst fc ++ [58] ++ fst rc, vmul (snd fc) (snd rc))) f) (kron (g :: r))).
  apply kron_step_vals.
Qed.

Lemma flat_map_single (x : column) (l : list column) : flat_map (fun rc => map (fun fc => vmul fc rc) [x]) l = map (fun c => vmul x c) l.
Proof. induction l as [|c r IH]; [reflexivity|]. change (flat_map (fun rc => map (fun fc => vmul fc rc) [x]) (c :: r)) with (vmul x c :: flat_map (fun rc => map (fun fc => vmul fc rc) [x]) r). rewrite IH. reflexivity. Qed.

(* a single-column factor s anywhere in the term: every column of the product of the other factors, in the same order, times s *)
Theorem kron_pull_solo s : forall pre post, pre ++ post <> [] ->
  vals (kron (pre ++ [s] :: post)) = map (fun c => vmul c (snd s)) (vals (kron (pre ++ post))).
Proof.
  induction pre as [|f pre IH]; intros post Hne; cbn [app] in *.
  - rewrite (kron_cons_vals [s] post Hne). change (vals [s]) with [snd s]. rewrite flat_map_single.
    apply map_ext. intro c. apply vmul_comm.
  - rewrite (kron_cons_vals f (pre ++ [s] :: post)) by (destruct pre; discriminate).
    destruct (pre ++ post) as [|g r] eqn:E.
    + (* f is the only other factor *)
      apply app_eq_nil in E as [-> ->]. cbn [app kron vals map flat_map]. rewrite app_nil_r. unfold vals. rewrite map_map. reflexivity.
    + rewrite (IH post) by (rewrite E; discriminate). rewrite E.
      rewrite (kron_cons_vals f (g :: r)) by discriminate.
      induction (vals (kron (g :: r))) as [|c cs IHc]; cbn [map flat_map]; [reflexivity|].
      rewrite map_app, IHc. f_equal. rewrite !map_map. apply map_ext. intro fc. symmetry. apply vmul_assoc.
Qed.

(* the names are those of the full enumeration: the single name is inserted at the factor's place *)
Theorem kron_length_solo s pre post : pre ++ post <> [] -> length (kron (pre ++ [s] :: post)) = length (kron (pre ++ post)).
Proof. intro H. pose proof (f_equal (@length _) (kron_pull_solo s pre post H)) as E. unfold vals in E. rewrite !map_length in E. exact E. Qed.
