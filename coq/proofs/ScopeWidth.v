(* ===== ScopeWidth.v : the width of a scoped term is the total width of the components it covers (C03) ===== *)
From Coq Require Import List Arith Bool Lia NArith.
Import ListNotations.
Require Import Scope ScopeP1.

Section W.
Variable isnum : fid_t -> bool.
Variable nlev : fid_t -> nat.
Notation required := (required isnum).
Notation covers := (covers isnum).

(* columns contributed by one factor of a scoped term: 1 for a numeric factor, n-1 for a reduced categorical one, n for a full one *)
Definition cw (i : fid_t) := if isnum i then 1 else nlev i - 1.
Definition fwidth (f : sfac) := if isnum (fid f) then 1 else if fred f then nlev (fid f) - 1 else nlev (fid f).
Definition twidth (t : sterm) := fold_right (fun f acc => fwidth f * acc) 1 t.
(* dimension of one component of the interaction space *)
Definition cwidth (c : list fid_t) := fold_right (fun i acc => cw i * acc) 1 c.
Definition total (l : list nat) := fold_right Nat.add 0 l.
(* the components a term spans: every required factor, any subset of the full categorical ones *)
Definition comps (t : sterm) : list (list fid_t) :=
  fold_right (fun f acc => if required f then map (cons (fid f)) acc else acc ++ map (cons (fid f)) acc) [[]] t.

Lemma total_app a b : total (a ++ b) = total a + total b.
Proof. unfold total. induction a as [|x a IH]; cbn [app fold_right]; [reflexivity | rewrite IH; lia]. Qed.
Lemma total_cons_map i l : total (map cwidth (map (cons i) l)) = cw i * total (map cwidth l).
Proof. unfold total. induction l as [|c l IH]; cbn [map fold_right]; [lia|]. rewrite IH. unfold cwidth at 1. cbn [fold_right]. fold (cwidth c). lia. Qed.

Theorem twidth_is_component_sum t : (forall f, In f t -> 1 <= nlev (fid f)) -> twidth t = total (map cwidth (comps t)).
Proof.
  induction t as [|f t IH]; intros Hn; [reflexivity|].
  cbn [twidth comps fold_right]. fold (twidth t). fold (comps t).
  rewrite IH by (intros g Hg; apply Hn; right; exact Hg). pose proof (Hn f (or_introl eq_refl)) as H1.
  unfold Scope.required, fwidth. destruct (isnum (fid f)) eqn:En.
  - rewrite orb_true_r, total_cons_map. unfold cw. rewrite En. reflexivity.
  - rewrite orb_false_r. destruct (fred f) eqn:Er.
    + rewrite total_cons_map. unfold cw. rewrite En. reflexivity.
    + rewrite map_app, total_app, total_cons_map. unfold cw. rewrite En. nia.
Qed.

(* each enumerated component is one the term covers, and they are pairwise distinct as lists *)
Theorem comps_are_covered t c : In c (comps t) -> covers t c = true.
Proof.
  revert c. induction t as [|f t IH]; intros c Hc.
  - destruct Hc as [<-|[]]. reflexivity.
  - cbn [comps fold_right] in Hc. fold (comps t) in Hc. apply covers_spec.
    assert (Hin : (exists c', c = fid f :: c' /\ In c' (comps t)) \/ (required f = false /\ In c (comps t))).
    { destruct (required f) eqn:Er.
      - apply in_map_iff in Hc as (c' & <- & Hc'). left. eauto.
      - apply in_app_or in Hc as [Hc|Hc]; [right; auto|]. apply in_map_iff in Hc as (c' & <- & Hc'). left. eauto. }
    destruct Hin as [(c' & -> & Hc')|[Er Hc']].
    + apply IH, covers_spec in Hc' as [A B]. split.
      * intros g [<-|Hg] Hr; [left; reflexivity | right; apply A; assumption].
      * intros i [<-|Hi]; [left; reflexivity | right; apply B, Hi].
    + apply IH, covers_spec in Hc' as [A B]. split.
      * intros g [<-|Hg] Hr; [congruence | apply A; assumption].
      * intros i Hi. right. apply B, Hi.
Qed.

(* conversely every covered component is, as a set of factors, one of the enumerated ones *)
Theorem covered_is_comp t c : covers t c = true -> exists c', In c' (comps t) /\ (forall i, In i c <-> In i c').
Proof using isnum. clear nlev.
  revert c. induction t as [|f t IH]; intros c Hc; apply covers_spec in Hc as [A B].
  - exists []. split; [left; reflexivity|]. intros i. split; [intros Hi; destruct (B i Hi) | intros []].
  - cbn [comps fold_right]. fold (comps t).
    set (c1 := filter (fun i => negb (ideqb i (fid f))) c).
    destruct (in_dec (list_eq_dec N.eq_dec) (fid f) c) as [Hin|Hout].
    + (* the component uses f *)
      destruct (in_dec (list_eq_dec N.eq_dec) (fid f) (map fid t)) as [Hdup|Hnd].
      * (* f's id occurs again in t: keep c as is for the tail *)
        assert (Ht : covers t c = true).
        { apply covers_spec. split; [intros g Hg Hr; apply A; [right; exact Hg | exact Hr]|].
          intros i Hi. destruct (B i Hi) as [<-|Hi']; [exact Hdup | exact Hi']. }
        destruct (IH c Ht) as (c' & Hc' & Heq). exists (fid f :: c'). split.
        -- destruct (required f); [apply in_map, Hc' | apply in_or_app; right; apply in_map, Hc'].
        -- intros i. rewrite Heq. cbn [In]. split; [tauto|]. intros [<-|Hi]; [apply Heq, Hin | exact Hi].
      * assert (Ht : covers t c1 = true).
        { apply covers_spec. split.
          - intros g Hg Hr. unfold c1. apply filter_In. split; [apply A; [right; exact Hg | exact Hr]|].
            apply negb_true_iff. destruct (ideqb (fid g) (fid f)) eqn:E; [|reflexivity]. apply ideqb_eq in E. exfalso. apply Hnd. rewrite <- E. apply in_map, Hg.
          - intros i Hi. unfold c1 in Hi. apply filter_In in Hi as [Hi Hne]. destruct (B i Hi) as [<-|Hi']; [|exact Hi'].
            apply negb_true_iff in Hne. assert (ideqb (fid f) (fid f) = true) by (apply ideqb_eq; reflexivity). congruence. }
        destruct (IH c1 Ht) as (c' & Hc' & Heq). exists (fid f :: c'). split.
        -- destruct (required f); [apply in_map, Hc' | apply in_or_app; right; apply in_map, Hc'].
        -- intros i. cbn [In]. rewrite <- Heq. unfold c1. rewrite filter_In, negb_true_iff. split.
           ++ intros Hi. destruct (ideqb i (fid f)) eqn:E; [apply ideqb_eq in E; left; auto | right; auto].
           ++ intros [<-|[Hi _]]; assumption.
    + (* the component does not use f, so f is a full categorical factor *)
      assert (Er : required f = false). { destruct (required f) eqn:Er; [|reflexivity]. exfalso. apply Hout, A; [left; reflexivity | exact Er]. }
      assert (Ht : covers t c = true).
      { apply covers_spec. split; [intros g Hg Hr; apply A; [right; exact Hg | exact Hr]|].
        intros i Hi. destruct (B i Hi) as [<-|Hi']; [contradiction | exact Hi']. }
      destruct (IH c Ht) as (c' & Hc' & Heq). exists c'. rewrite Er. split; [apply in_or_app; left; exact Hc' | exact Heq].
Qed.
End W.
