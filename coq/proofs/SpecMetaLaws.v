(* ===== SpecMetaLaws.v : the spec's index metadata is truthful (C10) ===== *)
From Coq Require Import List NArith Bool Arith Lia Permutation.
Import ListNotations.
Require Import StrOrder Struct StructLaws SpecMeta.
Open Scope nat_scope.

(* ---------- per-term index ranges: contiguous, disjoint, in term order, covering all columns ---------- *)
Theorem ranges_cover lens : forall s, concat (ranges lens s) = seq s (fold_right Nat.add 0 lens).
Proof.
  induction lens as [|n r IH]; intro s; cbn; auto.
  rewrite IH. rewrite seq_app. reflexivity.
Qed.
Theorem ranges_length lens s : length (ranges lens s) = length lens.
Proof. revert s. induction lens as [|n r IH]; intro s; cbn; auto. Qed.
Theorem ranges_each lens : forall s i n, nth_error lens i = Some n ->
  nth_error (ranges lens s) i = Some (seq (s + fold_right Nat.add 0 (firstn i lens)) n).
Proof.
  induction lens as [|m r IH]; intros s [|i] n H; cbn in *; try discriminate.
  - inversion H; subst. rewrite Nat.add_0_r. reflexivity.
  - rewrite (IH (s + m) i n H). f_equal. f_equal. lia.
Qed.
(* the ranges of all terms, concatenated in term order, are exactly 0 .. ncols-1 *)
Corollary term_ranges_partition rows :
  concat (ranges (map (fun r => length (r_cols r)) rows) 0) = seq 0 (length (column_names rows)).
Proof.
  rewrite ranges_cover. f_equal. unfold column_names.
  induction rows as [|r rs IH]; cbn; auto. rewrite app_length, IH. reflexivity.
Qed.

(* ---------- looking a term up: by object or by its printed form with the factors in any order ---------- *)
Lemma keyl_eqb_refl a : keyl_eqb a a = true.
Proof. induction a as [|x a IH]; cbn; auto. rewrite keqb_refl. auto. Qed.
Lemma keyl_eqb_eq a b : keyl_eqb a b = true -> a = b.
Proof.
  revert b; induction a as [|x a IH]; destruct b as [|y b]; cbn; intro H; try discriminate; auto.
  apply andb_true_iff in H as [H1 H2]. apply keqb_eq in H1. subst. f_equal. auto.
Qed.
Theorem lookup_any_factor_order rows fs fs' : Permutation fs fs' -> lookup_term rows fs = lookup_term rows fs'.
Proof. intro P. unfold lookup_term, tkey. rewrite (ssort_canonical _ _ P). reflexivity. Qed.

Lemma tdget_tdset_same {V} k (v : V) d : tdget k (tdset k v d) = Some v.
Proof. induction d as [|[k' v'] r IH]; cbn. rewrite keyl_eqb_refl; auto. destruct (keyl_eqb k k') eqn:E; cbn; rewrite E; auto. Qed.
Lemma tdget_tdset_other {V} k k' (v : V) d : keyl_eqb k' k = false -> tdget k' (tdset k v d) = tdget k' d.
Proof.
  intro H. induction d as [|[k2 v2] r IH]; cbn. rewrite H; auto.
  destruct (keyl_eqb k k2) eqn:E; cbn.
  - apply keyl_eqb_eq in E. subst. rewrite H. reflexivity.
  - destruct (keyl_eqb k' k2); auto.
Qed.

(* a Term-keyed dict filled row by row: with pairwise distinct terms, the key of row i is bound to the i-th value *)
Lemma table_get {V} : forall (rows : list srow) (rg : list V) (d : list (list sstr * V)) i r,
  NoDup (map (fun r => tkey (r_factors r)) rows) -> nth_error rows i = Some r -> length rg = length rows ->
  tdget (tkey (r_factors r)) (fold_left (fun d p => tdset (tkey (r_factors (fst p))) (snd p) d) (combine rows rg) d) = nth_error rg i.
Proof.
  induction rows as [|r0 rs IH]; intros rg d i r Hnd Hi Hl; [destruct i; discriminate|].
  destruct rg as [|g gs]; [discriminate|]. cbn [combine fold_left fst snd].
  cbn in Hnd. inversion Hnd as [|? ? Hnotin Hnd']; subst.
  destruct i as [|i]; cbn in Hi.
  - inversion Hi; subst. cbn [nth_error].
    (* later rows have different keys: the binding survives *)
    assert (K : forall (rs : list srow) (gs : list V) (d : list (list sstr * V)), ~ In (tkey (r_factors r)) (map (fun r => tkey (r_factors r)) rs) ->
                tdget (tkey (r_factors r)) (fold_left (fun d p => tdset (tkey (r_factors (fst p))) (snd p) d) (combine rs gs) d)
                = tdget (tkey (r_factors r)) d).
    { clear. induction rs as [|r1 rs IH]; intros gs d Hn; [reflexivity|]. destruct gs as [|g1 gs]; [reflexivity|].
      cbn [combine fold_left fst snd]. rewrite IH by (intro Hc; apply Hn; right; exact Hc).
      apply tdget_tdset_other. destruct (keyl_eqb (tkey (r_factors r)) (tkey (r_factors r1))) eqn:E; auto.
      apply keyl_eqb_eq in E. exfalso. apply Hn. left. symmetry. exact E. }
    rewrite K by exact Hnotin. apply tdget_tdset_same.
  - cbn [nth_error]. apply IH; auto.
Qed.
(* a key no row carries is not bound *)
Lemma table_get_none {V} k : forall (rows : list srow) (rg : list V) (d : list (list sstr * V)),
  ~ In k (map (fun r => tkey (r_factors r)) rows) -> tdget k (fold_left (fun d p => tdset (tkey (r_factors (fst p))) (snd p) d) (combine rows rg) d) = tdget k d.
Proof.
  induction rows as [|r1 rs IH]; intros gs d Hn; [reflexivity|]. destruct gs as [|g1 gs]; [reflexivity|].
  cbn [combine fold_left fst snd]. rewrite IH by (intro Hc; apply Hn; right; exact Hc).
  apply tdget_tdset_other. destruct (keyl_eqb k (tkey (r_factors r1))) eqn:E; auto.
  apply keyl_eqb_eq in E. exfalso. apply Hn. left. symmetry. exact E.
Qed.
(* with pairwise distinct terms, each term is mapped to the range of its own row *)
Theorem lookup_term_exact rows : forall i r,
  NoDup (map (fun r => tkey (r_factors r)) rows) -> nth_error rows i = Some r ->
  lookup_term rows (r_factors r) =
  nth_error (ranges (map (fun r => length (r_cols r)) rows) 0) i.
Proof.
  unfold lookup_term, term_indices. intros i r Hnd Hi. apply table_get; auto. rewrite ranges_length, map_length. reflexivity.
Qed.

(* a column name selects its own position (names pairwise distinct) *)
Lemma index_of_spec x l : forall i j, index_of x l i = Some j -> exists k, j = i + k /\ nth_error l k = Some x.
Proof.
  induction l as [|y r IH]; intros i j; cbn; [discriminate|].
  destruct (keqb x y) eqn:E.
  - intro H; inversion H; subst. apply keqb_eq in E. subst. exists 0. split; [lia | reflexivity].
  - intro H. destruct (IH _ _ H) as [k [-> Hk]]. exists (S k). split; [lia | exact Hk].
Qed.
Lemma nth_error_rev_pos {A} (l : list A) k : k < length l -> nth_error (rev l) k = nth_error l (length l - 1 - k).
Proof.
  intro Hk. destruct l as [|d l']; [cbn in Hk; lia|]. set (l := d :: l') in *.
  rewrite (nth_error_nth' (rev l) d) by (rewrite rev_length; exact Hk).
  rewrite (nth_error_nth' l d) by lia.
  rewrite rev_nth by exact Hk. f_equal. f_equal. lia.
Qed.
Theorem column_index_truthful rows name j :
  column_index rows name = Some j -> nth_error (column_names rows) j = Some name.
Proof.
  unfold column_index. destruct (index_of name (rev (column_names rows)) 0) as [k|] eqn:E; [|discriminate].
  intro H; inversion H; subst. destruct (index_of_spec _ _ _ _ E) as [k' [-> Hk]]. cbn [Nat.add] in *.
  assert (Hlt : k' < length (rev (column_names rows))) by (apply nth_error_Some; congruence).
  rewrite rev_length in Hlt. rewrite nth_error_rev_pos in Hk by exact Hlt. exact Hk.
Qed.

(* ---------- the reported column names are the actual column labels ---------- *)
Require Import Mat ReplayLaws.
Lemma fold_dict_update_keys (l : list (list (str * column))) : forall acc,
  map fst (fold_left dict_update l acc) = fold_left okeys (map (map fst) l) (map fst acc).
Proof. induction l as [|x r IH]; intro acc; cbn; auto. rewrite IH, dict_update_keys. reflexivity. Qed.
(* the matrix's labels are obtained from the per-term `columns` entries recorded in the structure (python dict merge) *)
Theorem names_are_structure_columns evs drop n fr terms :
  o_names (assemble evs drop n fr terms) = fold_left okeys (o_term_cols (assemble evs drop n fr terms)) [].
Proof. cbn [assemble o_names o_term_cols]. apply (fold_dict_update_keys _ []). Qed.
Lemma NoDup_app_l {A} (a b : list A) : NoDup (a ++ b) -> NoDup a.
Proof. induction a as [|x a IH]; cbn; intro H; [constructor|]. inversion H; subst. constructor; [intro Hc; apply H2; apply in_or_app; left; exact Hc | auto]. Qed.
Lemma okeys_fresh ks new : NoDup (ks ++ new) -> okeys ks new = ks ++ new.
Proof.
  unfold okeys. revert ks. induction new as [|k r IH]; intros ks H; cbn; [rewrite app_nil_r; reflexivity|].
  unfold add_key at 2. assert (Hn : mem_s k ks = false).
  { destruct (mem_s k ks) eqn:E; auto. unfold mem_s in E. apply existsb_exists in E as [y [Hy Hl]]. apply leqb_eq in Hl. subst y.
    exfalso. apply NoDup_remove_2 in H. apply H. apply in_or_app. left. exact Hy. }
  rewrite Hn. rewrite IH; rewrite <- app_assoc; cbn; auto.
Qed.
(* ... and when all labels are distinct they are exactly the concatenation, in term order *)
Theorem names_are_labels evs drop n fr terms :
  NoDup (concat (o_term_cols (assemble evs drop n fr terms))) ->
  o_names (assemble evs drop n fr terms) = concat (o_term_cols (assemble evs drop n fr terms)).
Proof.
  rewrite names_are_structure_columns. generalize (o_term_cols (assemble evs drop n fr terms)) as L.
  assert (G : forall (L : list (list str)) acc, NoDup (acc ++ concat L) -> fold_left okeys L acc = acc ++ concat L).
  { induction L as [|x r IH]; intros acc H; cbn; [rewrite app_nil_r; reflexivity|].
    assert (H1 : NoDup (acc ++ x)) by (cbn in H; rewrite app_assoc in H; apply NoDup_app_l in H; exact H).
    assert (H2 : okeys acc x = acc ++ x) by (apply okeys_fresh; exact H1).
    rewrite IH; rewrite H2; rewrite <- app_assoc; [reflexivity | exact H]. }
  intros L H. apply (G L []). exact H.
Qed.
