(* ===== FormulaSeqLaws.v : the ordering invariant of SimpleFormula under any operation sequence (C19) ===== *)
From Coq Require Import List Arith Bool NArith ZArith Lia Permutation.
Import ListNotations.
Require Import Struct StructLaws FormulaSeq.

(* ---------- degree ordering: sorted, a permutation, stable ---------- *)
Lemma ins_deg_perm t l : Permutation (ins_deg t l) (t :: l).
Proof.
  induction l as [|u r IH]; cbn; auto.
  destruct (degree t <=? degree u)%nat; auto.
  rewrite IH. apply perm_swap.
Qed.
Theorem sort_deg_perm l : Permutation (sort_deg l) l.
Proof. induction l as [|t r IH]; cbn; auto. rewrite ins_deg_perm. auto. Qed.

Definition hd_deg_ge (d : nat) (l : list sterm) : Prop := match l with [] => True | u :: _ => d <= degree u end.
Lemma ins_deg_sorted t l : deg_sorted l = true -> deg_sorted (ins_deg t l) = true.
Proof.
  induction l as [|u r IH]; cbn; auto.
  intro H. destruct (degree t <=? degree u)%nat eqn:E.
  - cbn. rewrite E. cbn. exact H.
  - apply Nat.leb_gt in E.
    assert (Hr : deg_sorted r = true). { destruct r; auto. apply andb_true_iff in H as [_ H]; auto. }
    specialize (IH Hr).
    cbn [deg_sorted]. destruct (ins_deg t r) as [|w r'] eqn:Ei.
    + auto.
    + rewrite IH. rewrite andb_true_r. apply Nat.leb_le.
      destruct r as [|w0 r0]; cbn in Ei.
      * inversion Ei; subst. lia.
      * destruct (degree t <=? degree w0)%nat; inversion Ei; subst; [lia|].
        apply andb_true_iff in H as [H _]. apply Nat.leb_le in H. lia.
Qed.
Theorem sort_deg_sorted l : deg_sorted (sort_deg l) = true.
Proof. induction l as [|t r IH]; cbn; auto. apply ins_deg_sorted. auto. Qed.

(* stability: terms of equal degree keep their relative order *)
Definition of_deg (d : nat) (l : list sterm) := filter (fun t => (degree t =? d)%nat) l.
Lemma ins_deg_stable d t l : deg_sorted l = true -> of_deg d (ins_deg t l) = of_deg d (t :: l).
Proof.
  induction l as [|u r IH]; cbn; auto.
  intro H. destruct (degree t <=? degree u)%nat eqn:E; auto.
  apply Nat.leb_gt in E.
  assert (Hr : deg_sorted r = true). { destruct r; auto. apply andb_true_iff in H as [_ H]; auto. }
  cbn. unfold of_deg in IH. rewrite (IH Hr). cbn.
  destruct (degree u =? d)%nat eqn:Eu; destruct (degree t =? d)%nat eqn:Et; auto.
  apply Nat.eqb_eq in Eu, Et. lia.
Qed.
Theorem sort_deg_stable d l : of_deg d (sort_deg l) = of_deg d l.
Proof.
  induction l as [|t r IH]; [reflexivity|].
  change (sort_deg (t :: r)) with (ins_deg t (sort_deg r)).
  rewrite ins_deg_stable by apply sort_deg_sorted. unfold of_deg in *. cbn [filter]. rewrite IH. reflexivity.
Qed.
(* sorting an already sorted list changes nothing (so re-sorting after every mutation is idempotent) *)
Lemma ins_deg_hd t l : hd_deg_ge (degree t) l -> ins_deg t l = t :: l.
Proof. destruct l as [|u r]; cbn; auto. intro H. apply Nat.leb_le in H. rewrite H. reflexivity. Qed.
Theorem sort_deg_fixpoint l : deg_sorted l = true -> sort_deg l = l.
Proof.
  induction l as [|t r IH]; [reflexivity|]. intro H.
  change (sort_deg (t :: r)) with (ins_deg t (sort_deg r)).
  assert (Hr : deg_sorted r = true). { destruct r; auto. cbn in H. apply andb_true_iff in H as [_ H]; auto. }
  rewrite (IH Hr). apply ins_deg_hd. destruct r; cbn; auto. apply andb_true_iff in H as [H _]. apply Nat.leb_le. auto.
Qed.

(* ---------- deletion keeps a degree-sorted list sorted ---------- *)
Lemma deg_sorted_tail t r : deg_sorted (t :: r) = true -> deg_sorted r = true.
Proof. destruct r; auto. cbn. intro H. apply andb_true_iff in H as [_ H]; auto. Qed.
Lemma deg_sorted_all t r : deg_sorted (t :: r) = true -> forall u, In u r -> degree t <= degree u.
Proof.
  revert t. induction r as [|w r IH]; intros t H u Hu; [destruct Hu|].
  cbn in H. apply andb_true_iff in H as [H1 H2]. apply Nat.leb_le in H1.
  destruct Hu as [->|Hu]; auto. specialize (IH w H2 u Hu). lia.
Qed.
Lemma deg_sorted_cons t r : deg_sorted r = true -> (forall u, In u r -> degree t <= degree u) -> deg_sorted (t :: r) = true.
Proof. destruct r as [|w r]; auto. intros H1 H2. change (deg_sorted (t :: w :: r)) with ((degree t <=? degree w)%nat && deg_sorted (w :: r)). rewrite H1. rewrite andb_true_r. apply Nat.leb_le. apply H2. left; auto. Qed.

Lemma In_firstn' {A} (x : A) n l : In x (firstn n l) -> In x l.
Proof. revert n; induction l as [|y r IH]; intros [|n] H; cbn in *; auto; try contradiction. destruct H as [H|H]; auto. right; eapply IH; eauto. Qed.
Lemma In_skipn' {A} (x : A) n l : In x (skipn n l) -> In x l.
Proof. revert n; induction l as [|y r IH]; intros [|n] H; cbn in *; auto. right; eapply IH; eauto. Qed.
Lemma list_del_deg_sorted i l : deg_sorted l = true -> deg_sorted (list_del i l) = true.
Proof.
  revert i. induction l as [|t r IH]; intros i H; unfold list_del in *.
  - destruct i; cbn; auto.
  - destruct i as [|i]; cbn [firstn skipn app].
    + eapply deg_sorted_tail; eauto.
    + apply deg_sorted_cons.
      * apply IH. eapply deg_sorted_tail; eauto.
      * intros u Hu. eapply deg_sorted_all; eauto.
        apply in_app_iff in Hu as [Hu|Hu]; [eapply In_firstn'; eauto | apply (In_skipn' u (S i) r); exact Hu].
Qed.

(* ---------- the invariant over arbitrary operation sequences (orderings NONE and DEGREE) ---------- *)
Definition plain_ordering (o : ordering) : bool := match o with OSort => false | _ => true end.

Theorem mk_formula_ordered o l : plain_ordering o = true -> ordered (mk_formula o l) = true.
Proof. destruct o; cbn; auto; [intros _; apply sort_deg_sorted | discriminate]. Qed.

Theorem fstep_ordered f op : plain_ordering (ford f) = true -> ordered f = true -> ordered (fstep' f op) = true.
Proof.
  unfold fstep', ordered. destruct f as [o ts]; cbn [ford fterms]. intros Ho H.
  destruct op as [i t|i t|i]; cbn [fstep ford fterms].
  - destruct o; cbn; auto; try discriminate. apply sort_deg_sorted.
  - destruct (norm_index i (length ts)); cbn [ford fterms]; auto. destruct o; cbn; auto; try discriminate. apply sort_deg_sorted.
  - destruct (norm_index i (length ts)); cbn [ford fterms]; auto. destruct o; cbn; auto; try discriminate. apply list_del_deg_sorted. auto.
Qed.
Lemma fstep_ford f op : ford (fstep' f op) = ford f.
Proof. unfold fstep'. destruct op; cbn; auto; destruct (norm_index i (length (fterms f))); auto. Qed.
Theorem frun_ordered ops : forall f, plain_ordering (ford f) = true -> ordered f = true -> ordered (frun f ops) = true.
Proof.
  induction ops as [|op r IH]; intros f Ho H; cbn; auto.
  apply IH. rewrite fstep_ford; auto. apply fstep_ordered; auto.
Qed.
(* every formula reachable from a constructor call by any operation sequence satisfies its ordering invariant *)
Theorem ordering_invariant o l ops : plain_ordering o = true -> ordered (frun (mk_formula o l) ops) = true.
Proof. intro Ho. apply frun_ordered; auto. apply mk_formula_ordered; auto. Qed.

(* and it holds exactly the terms the same operations leave in a plain list *)
Definition plain_step (l : list sterm) (op : fop) : list sterm :=
  match op with
  | FInsert i t => list_insert (norm_insert i (length l)) t l
  | FSet i t => match norm_index i (length l) with Some j => list_set j t l | None => l end
  | FDel i => match norm_index i (length l) with Some j => list_del j l | None => l end
  end.
Lemma reorder_perm o l : plain_ordering o = true -> Permutation (reorder o l) l.
Proof. destruct o; cbn; auto; [intros _; apply sort_deg_perm | discriminate]. Qed.
Theorem fstep_terms_perm f op : plain_ordering (ford f) = true -> Permutation (fterms (fstep' f op)) (plain_step (fterms f) op).
Proof.
  intro Ho. unfold fstep'. destruct op as [i t|i t|i]; cbn.
  - apply reorder_perm; auto.
  - destruct (norm_index i (length (fterms f))); cbn; auto. apply reorder_perm; auto.
  - destruct (norm_index i (length (fterms f))); cbn; auto.
Qed.
