(* ===== BSplineLaws.v : the code's Cox-de Boor recursion is non-negative, sums to one inside the bounds, vanishes outside,
       and in 'extend' mode continues the boundary polynomial pieces (C12) ===== *)
From Coq Require Import List QArith Lqa Lia Bool Arith.
Import ListNotations.
Require Import BSpline.
Open Scope Q_scope.

Lemma Qltb_true a b : Qltb a b = true <-> a < b.
Proof.
  unfold Qltb. rewrite negb_true_iff. split; intros H.
  - apply Qnot_le_lt. intros Hle. apply Qle_bool_iff in Hle. congruence.
  - destruct (Qle_bool b a) eqn:E; [apply Qle_bool_iff in E; lra | reflexivity].
Qed.
Lemma Qltb_false a b : Qltb a b = false <-> b <= a.
Proof.
  unfold Qltb. rewrite negb_false_iff. apply Qle_bool_iff.
Qed.
Lemma Qle_bool_false a b : Qle_bool a b = false <-> b < a.
Proof.
  split; intros H.
  - apply Qnot_le_lt. intros Hle. apply Qle_bool_iff in Hle. congruence.
  - destruct (Qle_bool a b) eqn:E; [apply Qle_bool_iff in E; lra | reflexivity].
Qed.

Fixpoint sum (n : nat) (f : nat -> Q) : Q := match n with O => 0 | S n' => sum n' f + f n' end.
Lemma sum_ext n f g : (forall i, (i < n)%nat -> f i == g i) -> sum n f == sum n g.
Proof. induction n as [|n IH]; intros H; cbn [sum]; [reflexivity|]. rewrite IH, H by (intros; auto with arith). reflexivity. Qed.
(* the telescoping step of the recurrence *)
Lemma tele n (a b : nat -> Q) :
  sum n (fun i => a i * b i + (1 - a (S i)) * b (S i)) == sum (S n) b - (1 - a 0%nat) * b 0%nat - a n * b n.
Proof. induction n as [|n IH]; cbn [sum] in *; [ring|]. rewrite IH. ring. Qed.

Section Laws.
Variable K : nat -> Q.
Variable L degree : nat.
Hypothesis kmono : forall i, K i <= K (S i).
Hypothesis Lbig : (2 * degree + 2 <= L)%nat.
Hypothesis left_pad : forall i, (i <= degree)%nat -> K i == K 0%nat.
Hypothesis right_pad : forall i, (L - degree - 1 <= i)%nat -> K i == K (L - degree - 1)%nat.
Let lb := K 0%nat.
Let ub := K (L - degree - 1)%nat.
Let c := (L - degree - 2)%nat.              (* index of the interval that is closed on the right *)

Lemma kmono_le i j : (i <= j)%nat -> K i <= K j.
Proof. induction 1 as [|m _ IH]; [lra | pose proof (kmono m); lra]. Qed.
Lemma K_ge_lb j : lb <= K j.
Proof. apply kmono_le. lia. Qed.
Lemma K_le_ub j : K j <= ub.
Proof.
  destruct (le_lt_dec j (L - degree - 1)) as [H|H]; [apply kmono_le, H|].
  unfold ub. rewrite (right_pad j) by lia. lra.
Qed.

Notation Bn := (B K L degree false).
Notation Bx := (B K L degree true).
Notation indn := (ind K L degree false).
Notation indx := (ind K L degree true).

Lemma ind_01 e i x : ind K L degree e i x = 0 \/ ind K L degree e i x = 1.
Proof. unfold ind. destruct e; match goal with |- context [if ?b then 1 else 0] => destruct b end; auto. Qed.
Lemma indn_true i x : ~ indn i x == 0 -> K i <= x /\ x <= K (S i).
Proof.
  unfold ind. destruct (Qle_bool (K i) x) eqn:E1; cbn [andb]; [|intros H; exfalso; apply H; reflexivity].
  apply Qle_bool_iff in E1.
  destruct (Nat.eqb (S i) (L - degree - 1)).
  - destruct (Qle_bool x (K (S i))) eqn:E2; [apply Qle_bool_iff in E2; auto | intros H; exfalso; apply H; reflexivity].
  - destruct (Qltb x (K (S i))) eqn:E2; [apply Qltb_true in E2; intros _; split; lra | intros H; exfalso; apply H; reflexivity].
Qed.

(* support: B_{i,d} vanishes outside [K_i, K_{i+d+1}] *)
Lemma support d : forall i x, ~ Bn d i x == 0 -> K i <= x /\ x <= K (i + d + 1).
Proof.
  induction d as [|d IH]; intros i x H.
  - cbn [B] in H. replace (i + 0 + 1)%nat with (S i) by lia. apply indn_true, H.
  - cbn [B] in H. rewrite Qred_correct in H.
    destruct (Qeq_dec (Bn d i x) 0) as [E1|N1], (Qeq_dec (Bn d (S i) x) 0) as [E2|N2].
    + exfalso. apply H. rewrite E1, E2. ring.
    + apply IH in N2. replace (S i + d + 1)%nat with (i + S d + 1)%nat in N2 by lia.
      pose proof (kmono i). split; lra.
    + apply IH in N1. pose proof (kmono_le (i + d + 1) (i + S d + 1) ltac:(lia)). split; lra.
    + apply IH in N1. apply IH in N2. replace (S i + d + 1)%nat with (i + S d + 1)%nat in N2 by lia. split; lra.
Qed.
(* 'zero' extrapolation is what the recursion itself gives: every basis function vanishes outside [lb, ub] *)
Theorem zero_outside d i x : x < lb \/ ub < x -> Bn d i x == 0.
Proof.
  intros H. destruct (Qeq_dec (Bn d i x) 0) as [E|N]; [exact E|]. apply support in N.
  pose proof (K_ge_lb i). pose proof (K_le_ub (i + d + 1)). lra.
Qed.

(* if all base indicators under B_{i,d} vanish, so does B_{i,d} *)
Lemma zero_block e d : forall i x, (forall j, (i <= j <= i + d)%nat -> ind K L degree e j x == 0) -> B K L degree e d i x == 0.
Proof.
  induction d as [|d IH]; intros i x H; cbn [B].
  - apply H. lia.
  - rewrite Qred_correct, (IH i), (IH (S i)) by (intros; apply H; lia). ring.
Qed.

(* ---------- partition of unity inside the bounds ---------- *)
Definition ge (j : nat) (x : Q) : Q := if Qle_bool (K j) x then 1 else 0.
Lemma indn_tele i x : x <= ub -> indn i x == ge i x - ge (S i) x + (if Nat.eqb i c then ge (S c) x else 0).
Proof.
  intros Hx. unfold ind, ge. pose proof (kmono i) as Hm.
  destruct (Nat.eqb_spec i c) as [->|Hne].
  - replace (Nat.eqb (S c) (L - degree - 1)) with true by (symmetry; apply Nat.eqb_eq; unfold c; lia).
    assert (Hu : K (S c) == ub) by (unfold ub, c; replace (S (L - degree - 2)) with (L - degree - 1)%nat by lia; reflexivity).
    destruct (Qle_bool (K c) x) eqn:E1, (Qle_bool x (K (S c))) eqn:E2, (Qle_bool (K (S c)) x) eqn:E3; cbn [andb];
      try apply Qle_bool_iff in E1; try apply Qle_bool_iff in E2; try apply Qle_bool_iff in E3;
      try apply Qle_bool_false in E1; try apply Qle_bool_false in E2; try apply Qle_bool_false in E3; try lra; try ring.
  - replace (Nat.eqb (S i) (L - degree - 1)) with false by (symmetry; apply Nat.eqb_neq; unfold c in Hne; lia).
    destruct (Qle_bool (K i) x) eqn:E1, (Qltb x (K (S i))) eqn:E2, (Qle_bool (K (S i)) x) eqn:E3; cbn [andb];
      try apply Qle_bool_iff in E1; try apply Qltb_true in E2; try apply Qle_bool_iff in E3;
      try apply Qle_bool_false in E1; try apply Qltb_false in E2; try apply Qle_bool_false in E3; try lra; try ring.
Qed.
Lemma sum_indn n x : x <= ub -> sum n (fun i => indn i x) == ge 0 x - ge n x + (if Nat.ltb c n then ge (S c) x else 0).
Proof.
  intros Hx. induction n as [|n IH]; cbn [sum].
  - cbn. ring.
  - rewrite IH, (indn_tele n x Hx).
    destruct (Nat.eqb_spec n c) as [->|Hne].
    + rewrite Nat.ltb_irrefl. replace (Nat.ltb c (S c)) with true by (symmetry; apply Nat.ltb_lt; lia). ring.
    + destruct (Nat.ltb_spec c n), (Nat.ltb_spec c (S n)); try lia; ring.
Qed.

Theorem partition_of_unity : forall d, (d <= degree)%nat -> forall x, lb <= x -> x <= ub ->
  sum (L - 1 - d) (fun i => Bn d i x) == 1.
Proof.
  induction d as [|d IH]; intros Hd x Hl Hu.
  - rewrite Nat.sub_0_r. cbn [B]. rewrite (sum_indn (L - 1) x Hu).
    replace (Nat.ltb c (L - 1)) with true by (symmetry; apply Nat.ltb_lt; unfold c; lia).
    unfold ge.
    assert (H0 : Qle_bool (K 0%nat) x = true) by (apply Qle_bool_iff; exact Hl). rewrite H0.
    assert (Hc : K (S c) == K (L - 1)%nat).
    { unfold c. replace (S (L - degree - 2)) with (L - degree - 1)%nat by lia. rewrite (right_pad (L - 1)) by lia. reflexivity. }
    destruct (Qle_bool (K (L - 1)%nat) x) eqn:E1, (Qle_bool (K (S c)) x) eqn:E2;
      try apply Qle_bool_iff in E1; try apply Qle_bool_iff in E2; try apply Qle_bool_false in E1; try apply Qle_bool_false in E2;
      try lra; ring.
  - cbn [B].
    rewrite (sum_ext _ _ (fun i => alpha K i (S d) x * Bn d i x + (1 - alpha K (S i) (S d) x) * Bn d (S i) x)) by (intros; apply Qred_correct).
    replace (L - 1 - S d)%nat with (L - 1 - d - 1)%nat by lia.
    rewrite (tele (L - 1 - d - 1) (fun i => alpha K i (S d) x) (fun i => Bn d i x)).
    replace (S (L - 1 - d - 1)) with (L - 1 - d)%nat by lia.
    rewrite (IH ltac:(lia) x Hl Hu).
    (* the two boundary functions of degree d < degree have only degenerate intervals under them *)
    assert (Z0 : Bn d 0%nat x == 0).
    { apply zero_block. intros j Hj. unfold ind.
      replace (Nat.eqb (S j) (L - degree - 1)) with false by (symmetry; apply Nat.eqb_neq; lia).
      assert (Hk : K (S j) == K j) by (rewrite (left_pad (S j)), (left_pad j) by lia; reflexivity).
      destruct (Qle_bool (K j) x) eqn:E1, (Qltb x (K (S j))) eqn:E2; cbn [andb]; try reflexivity.
      apply Qle_bool_iff in E1. apply Qltb_true in E2. lra. }
    assert (Z1 : Bn d (L - 1 - d - 1)%nat x == 0).
    { apply zero_block. intros j Hj. unfold ind.
      replace (Nat.eqb (S j) (L - degree - 1)) with false by (symmetry; apply Nat.eqb_neq; lia).
      assert (Hk : K (S j) == K j) by (rewrite (right_pad (S j)), (right_pad j) by lia; reflexivity).
      destruct (Qle_bool (K j) x) eqn:E1, (Qltb x (K (S j))) eqn:E2; cbn [andb]; try reflexivity.
      apply Qle_bool_iff in E1. apply Qltb_true in E2. lra. }
    rewrite Z0, Z1. ring.
Qed.

(* ---------- non-negativity ---------- *)
Lemma alpha_range i j x : K i <= x -> x <= K (i + j) -> 0 <= alpha K i j x /\ alpha K i j x <= 1.
Proof.
  intros H1 H2. unfold alpha. destruct (Qeq_bool (K (i + j)) (K i)) eqn:E; [split; lra|].
  assert (Hne : ~ K (i + j) == K i) by (intros Heq; apply Qeq_bool_iff in Heq; congruence).
  assert (Hpos : 0 < K (i + j) - K i) by (pose proof (kmono_le i (i + j) ltac:(lia)); lra).
  split.
  - apply Qle_shift_div_l; [exact Hpos | lra].
  - apply Qle_shift_div_r; [exact Hpos | lra].
Qed.
Theorem nonneg d : forall i x, 0 <= Bn d i x.
Proof.
  induction d as [|d IH]; intros i x.
  - cbn [B]. destruct (ind_01 false i x) as [-> | ->]; lra.
  - cbn [B]. rewrite Qred_correct.
    assert (H1 : 0 <= alpha K i (S d) x * Bn d i x).
    { destruct (Qeq_dec (Bn d i x) 0) as [E|N]; [rewrite E; lra|].
      apply support in N. apply Qmult_le_0_compat; [|apply IH].
      apply alpha_range; [lra|]. pose proof (kmono_le (i + d + 1) (i + S d) ltac:(lia)). lra. }
    assert (H2 : 0 <= (1 - alpha K (S i) (S d) x) * Bn d (S i) x).
    { destruct (Qeq_dec (Bn d (S i) x) 0) as [E|N]; [rewrite E; lra|].
      apply support in N. apply Qmult_le_0_compat; [|apply IH].
      assert (0 <= alpha K (S i) (S d) x /\ alpha K (S i) (S d) x <= 1) as [? ?]; [|lra].
      apply alpha_range; [lra|]. replace (S i + S d)%nat with (S i + d + 1)%nat by lia. lra. }
    lra.
Qed.

(* ---------- 'extend' mode ---------- *)
(* inside the bounds it is the same function *)
Lemma indx_inside i x : lb <= x -> x <= ub -> indx i x = indn i x.
Proof.
  intros Hl Hu. unfold ind.
  destruct (Nat.eqb_spec i degree) as [->|Hi].
  - assert (H : Qle_bool (K degree) x = true) by (apply Qle_bool_iff; rewrite (left_pad degree) by lia; exact Hl). rewrite H.
    destruct (Nat.eqb_spec (S degree) (L - degree - 1)) as [He|He]; [|reflexivity].
    assert (H' : Qle_bool x (K (S degree)) = true) by (apply Qle_bool_iff; rewrite He; exact Hu). rewrite H'. reflexivity.
  - destruct (Nat.eqb_spec (S i) (L - degree - 1)) as [He|He]; [|reflexivity].
    assert (H' : Qle_bool x (K (S i)) = true) by (apply Qle_bool_iff; rewrite He; exact Hu). rewrite H'. reflexivity.
Qed.
Theorem extend_inside d : forall i x, lb <= x -> x <= ub -> Bx d i x = Bn d i x.
Proof. induction d as [|d IH]; intros i x Hl Hu; cbn [B]; [apply indx_inside; assumption | rewrite !IH by assumption; reflexivity]. Qed.
(* above the upper bound only the last proper interval is switched on: the result is that interval's polynomial piece *)
Lemma piece_ext j e d : forall i x, (forall i', ind K L degree e i' x = if Nat.eqb i' j then 1 else 0) -> B K L degree e d i x = Bpiece K j d i x.
Proof. induction d as [|d IH]; intros i x H; cbn [B Bpiece]; [apply H | rewrite !IH by exact H; reflexivity]. Qed.
Theorem extend_above d i x : ub < x -> Bx d i x = Bpiece K c d i x.
Proof.
  intros Hx. apply piece_ext. intros i'. unfold ind.
  assert (H1 : (if Nat.eqb i' degree then true else Qle_bool (K i') x) = true).
  { destruct (Nat.eqb i' degree); [reflexivity|]. apply Qle_bool_iff. pose proof (K_le_ub i'). lra. }
  rewrite H1. cbn [andb].
  destruct (Nat.eqb_spec i' c) as [->|Hne].
  - replace (Nat.eqb (S c) (L - degree - 1)) with true by (symmetry; apply Nat.eqb_eq; unfold c; lia). reflexivity.
  - replace (Nat.eqb (S i') (L - degree - 1)) with false by (symmetry; apply Nat.eqb_neq; unfold c in Hne; lia).
    assert (H2 : Qltb x (K (S i')) = false) by (apply Qltb_false; pose proof (K_le_ub (S i')); lra). rewrite H2. reflexivity.
Qed.
Theorem extend_below d i x : x < lb -> Bx d i x = Bpiece K degree d i x.
Proof.
  intros Hx. apply piece_ext. intros i'. unfold ind.
  destruct (Nat.eqb_spec i' degree) as [->|Hne].
  - cbn [andb]. destruct (Nat.eqb (S degree) (L - degree - 1)); [reflexivity|].
    assert (H2 : Qltb x (K (S degree)) = true) by (apply Qltb_true; pose proof (K_ge_lb (S degree)); lra). rewrite H2. reflexivity.
  - assert (H1 : Qle_bool (K i') x = false) by (apply Qle_bool_false; pose proof (K_ge_lb i'); lra). rewrite H1. reflexivity.
Qed.
(* and inside, on the last / first proper interval, the ordinary basis is that same piece *)
Theorem last_interval_piece d i x : K c <= x -> x <= ub -> Bn d i x = Bpiece K c d i x.
Proof.
  intros Hl Hu. apply piece_ext. intros i'. unfold ind.
  destruct (Nat.eqb_spec i' c) as [->|Hne].
  - replace (Nat.eqb (S c) (L - degree - 1)) with true by (symmetry; apply Nat.eqb_eq; unfold c; lia).
    assert (H1 : Qle_bool (K c) x = true) by (apply Qle_bool_iff; exact Hl).
    assert (H2 : Qle_bool x (K (S c)) = true).
    { apply Qle_bool_iff. unfold c. replace (S (L - degree - 2)) with (L - degree - 1)%nat by lia. exact Hu. }
    rewrite H1, H2. reflexivity.
  - replace (Nat.eqb (S i') (L - degree - 1)) with false by (symmetry; apply Nat.eqb_neq; unfold c in Hne; lia).
    destruct (le_lt_dec i' c) as [Hle|Hgt].
    + assert (H2 : Qltb x (K (S i')) = false) by (apply Qltb_false; pose proof (kmono_le (S i') c ltac:(lia)); lra).
      rewrite H2, andb_false_r. reflexivity.
    + (* degenerate intervals at the upper end *)
      assert (Hk : K (S i') == K i') by (rewrite (right_pad (S i')), (right_pad i') by (unfold c in Hgt; lia); reflexivity).
      destruct (Qle_bool (K i') x) eqn:E1, (Qltb x (K (S i'))) eqn:E2; cbn [andb]; try reflexivity.
      apply Qle_bool_iff in E1. apply Qltb_true in E2. lra.
Qed.
End Laws.

(* ---------- the checkable shape predicate implies the hypotheses above ---------- *)
Lemma kfun_overflow kn i : (length kn <= i)%nat -> kfun kn i = last kn 0.
Proof. intros H. unfold kfun. apply nth_overflow, H. Qed.
Lemma kfun_last kn : kn <> [] -> kfun kn (length kn - 1) = last kn 0.
Proof.
  intros H. unfold kfun. destruct (exists_last H) as [l [a ->]].
  rewrite app_length. cbn [length]. replace (length l + 1 - 1)%nat with (length l) by lia.
  rewrite app_nth2 by lia. rewrite Nat.sub_diag. cbn [nth]. rewrite last_last. reflexivity.
Qed.
Theorem knots_ok_sound kn degree : knots_ok kn degree = true ->
  let K := kfun kn in let L := length kn in
  (forall i, K i <= K (S i)) /\ (2 * degree + 2 <= L)%nat /\
  (forall i, (i <= degree)%nat -> K i == K 0%nat) /\ (forall i, (L - degree - 1 <= i)%nat -> K i == K (L - degree - 1)%nat).
Proof.
  unfold knots_ok. intros H. apply andb_prop in H as [H H4]. apply andb_prop in H as [H H3]. apply andb_prop in H as [H1 H2].
  apply Nat.leb_le in H1. cbn zeta.
  assert (Hne : kn <> []) by (intros ->; cbn in H1; lia).
  rewrite forallb_forall in H2, H3, H4.
  assert (Hmono : forall i, kfun kn i <= kfun kn (S i)).
  { intros i. destruct (le_lt_dec (length kn) i) as [Hi|Hi].
    - rewrite !kfun_overflow by lia. lra.
    - apply Qle_bool_iff, H2, in_seq. lia. }
  split; [exact Hmono|]. split; [exact H1|]. split.
  - intros i Hi. apply Qeq_bool_iff, H3, in_seq. lia.
  - intros i Hi. destruct (le_lt_dec (length kn) i) as [Hb|Hb].
    + rewrite kfun_overflow by lia. rewrite <- (kfun_last kn Hne).
      apply Qeq_bool_iff, H4, in_seq. lia.
    + apply Qeq_bool_iff, H4, in_seq. lia.
Qed.

(* number of columns: with nknots inner knots the basis has nknots + degree + 1 functions; without the intercept one fewer.
   For df-derived knots nknots = df - degree - [intercept], hence df columns. *)
Theorem pad_length lb inner ub degree : length (pad_knots lb inner ub degree) = (length inner + 2 * degree + 2)%nat.
Proof. unfold pad_knots. rewrite !app_length, !repeat_length. cbn [length]. lia. Qed.
Theorem bs_row_columns kn degree intercept mode x cells :
  bs_row kn degree intercept mode x = Some (Some cells) ->
  length cells = (length kn - degree - 1 - (if intercept then 0 else 1))%nat.
Proof.
  unfold bs_row. intros H.
  assert (G : forall e y, Some (Some (map (fun i => B (kfun kn) (length kn) degree e degree i y)
              (seq (if intercept then 0 else 1)%nat (length kn - degree - 1 - (if intercept then 0 else 1))))) = Some (Some cells) ->
              length cells = (length kn - degree - 1 - (if intercept then 0 else 1))%nat).
  { intros e y Heq. injection Heq as <-. rewrite map_length, seq_length. reflexivity. }
  destruct mode; try (apply (G _ _ H)).
  - destruct (_ || _); [discriminate | apply (G _ _ H)].
  - destruct (_ || _); [discriminate | apply (G _ _ H)].
Qed.
Corollary df_columns lb xs ub degree (intercept : bool) df mode x cells :
  (degree + (if intercept then 1 else 0) <= df)%nat ->
  let nknots := (df - degree - (if intercept then 1 else 0))%nat in
  bs_row (pad_knots lb (df_knots xs nknots) ub degree) degree intercept mode x = Some (Some cells) -> length cells = df.
Proof.
  intros Hdf nknots H. apply bs_row_columns in H. rewrite H, pad_length. unfold df_knots. rewrite map_length, seq_length.
  subst nknots. destruct intercept; lia.
Qed.

(* ---------- the statements for a concrete recorded knot vector that passes the shape check ---------- *)
Section Concrete.
Variable kn : list Q.
Variable degree : nat.
Hypothesis ok : knots_ok kn degree = true.
Let K := kfun kn.
Let L := length kn.
Let lb := K degree.
Let ub := K (L - degree - 1)%nat.

Lemma ok_parts : (forall i, K i <= K (S i)) /\ (2 * degree + 2 <= L)%nat /\
  (forall i, (i <= degree)%nat -> K i == K 0%nat) /\ (forall i, (L - degree - 1 <= i)%nat -> K i == K (L - degree - 1)%nat).
Proof. exact (knots_ok_sound kn degree ok). Qed.
Lemma lb_is_K0 : lb == K 0%nat.
Proof. destruct ok_parts as [_ [_ [H _]]]. apply H. lia. Qed.

Theorem bs_nonneg i x : 0 <= B K L degree false degree i x.
Proof. destruct ok_parts as [H1 [H2 _]]. apply (nonneg K L degree H1 H2). Qed.
Theorem bs_partition_of_unity x : lb <= x -> x <= ub ->
  sum (L - 1 - degree) (fun i => B K L degree false degree i x) == 1.
Proof.
  destruct ok_parts as [H1 [H2 [H3 H4]]]. intros Hl Hu.
  apply (partition_of_unity K L degree H1 H2 H3 H4 degree (le_n _)); [rewrite <- lb_is_K0; exact Hl | exact Hu].
Qed.
Theorem bs_zero_outside i x : x < lb \/ ub < x -> B K L degree false degree i x == 0.
Proof.
  destruct ok_parts as [H1 [H2 [H3 H4]]]. intros H.
  apply (zero_outside K L degree H1 H2 H4). rewrite <- lb_is_K0. exact H.
Qed.
Theorem bs_extend_inside i x : lb <= x -> x <= ub -> B K L degree true degree i x = B K L degree false degree i x.
Proof.
  destruct ok_parts as [H1 [H2 [H3 H4]]]. intros Hl Hu.
  apply (extend_inside K L degree H2 H3); [rewrite <- lb_is_K0; exact Hl | exact Hu].
Qed.
Theorem bs_extend_above i x : ub < x -> B K L degree true degree i x = Bpiece K (L - degree - 2) degree i x.
Proof. destruct ok_parts as [H1 [H2 [H3 H4]]]. intros H. apply (extend_above K L degree H1 H2 H4), H. Qed.
Theorem bs_extend_below i x : x < lb -> B K L degree true degree i x = Bpiece K degree degree i x.
Proof. destruct ok_parts as [H1 [H2 [H3 H4]]]. intros H. apply (extend_below K L degree H1 H2). rewrite <- lb_is_K0. exact H. Qed.
Theorem bs_last_interval_piece i x : K (L - degree - 2)%nat <= x -> x <= ub ->
  B K L degree false degree i x = Bpiece K (L - degree - 2) degree i x.
Proof. destruct ok_parts as [H1 [H2 [H3 H4]]]. intros Hl Hu. apply (last_interval_piece K L degree H1 H2 H4); assumption. Qed.
End Concrete.
(* clip = evaluation at the clamped point, which lies inside the bounds *)
Theorem clamp_inside lb ub x : lb <= ub -> lb <= clampq lb ub x /\ clampq lb ub x <= ub.
Proof.
  intros Hb. unfold clampq. destruct (Qltb x lb) eqn:E1; [split; lra|].
  apply Qltb_false in E1. destruct (Qltb ub x) eqn:E2; [split; lra|]. apply Qltb_false in E2. split; lra.
Qed.
