(* ===== SYReal.v ===== *)
From Coq Require Import List NArith ZArith Bool Arith Lia.
Import ListNotations.
Require Import Tok Parser Parser2.
Open Scope N_scope.

Section Real.
Variable fixed : bool.
Variable f : flags.

(* ---------- grammar of "inner" expressions (everything below ~ and |) ---------- *)
Inductive expr :=
| EAtom (t : tk)
| EDot (o : op)
| EBin (b : op) (l r : expr)
| EUn (u : op) (e : expr)
| EPar (sq : bool) (e : expr).

Definition optok (o : op) : tk := {| tx := osym o; kd := KOperator |}.
Definition open_t (sq : bool) : tk := {| tx := if sq then [cLS] else [cLP]; kd := KContext |}.
Definition close_t (sq : bool) : tk := {| tx := if sq then [cRS] else [cRP]; kd := KContext |}.

Fixpoint toks (e : expr) : list tk :=
  match e with
  | EAtom t => [t]
  | EDot o => [optok o]
  | EBin b l r => toks l ++ optok b :: toks r
  | EUn u e => optok u :: toks e
  | EPar sq e => open_t sq :: toks e ++ [close_t sq]
  end.
Fixpoint ast_of (e : expr) : ast :=
  match e with
  | EAtom t => ALeaf t
  | EDot o => ANode o []
  | EBin b l r => ANode b [ast_of l; ast_of r]
  | EUn u e => ANode u [ast_of e]
  | EPar _ e => ast_of e
  end.

Fixpoint pend (e : expr) (n : nat) : list ast * list sitem :=
  match e with
  | EAtom t => ([ALeaf t], [])
  | EDot o => ([], [SOp o n])
  | EPar _ e => ([ast_of e], [])
  | EBin b l r => let '(tr, sr) := pend r (S n) in (ast_of l :: tr, sr ++ [SOp b (S n)])
  | EUn u e => let '(te, se) := pend e n in (te, se ++ [SOp u n])
  end.
Fixpoint pops (e : expr) : list op :=
  match e with
  | EAtom _ | EPar _ _ => []
  | EDot o => [o]
  | EBin b l r => pops r ++ [b]
  | EUn u e => pops e ++ [u]
  end.
Fixpoint arrivals (e : expr) : list op :=
  match e with
  | EAtom _ | EPar _ _ => []
  | EDot o => [o]
  | EBin b l r => arrivals l ++ [b]
  | EUn u e => candidates f (osym u)
  end.

Definition notpopped (top : op) (arr : list op) := Forall (fun o => popped top o = false) arr.
Definition barrier (stk : list sitem) (arr : list op) :=
  match stk with SOp top _ :: _ => notpopped top arr | _ => True end.
Definition is_leaf (t : tk) : bool := negb (kind_eqb (kd t) KOperator) && negb (kind_eqb (kd t) KContext).
Definition plain (o : op) : Prop := octx o = CAlways /\ odis o = false.

Fixpoint ok (e : expr) : Prop :=
  match e with
  | EAtom t => is_leaf t = true
  | EDot o => candidates f (osym o) = [o] /\ oarity o = 0%nat /\ ofix o = Postfix /\ plain o
  | EPar _ e => ok e
  | EBin b l r => ok l /\ ok r /\ (exists rest, candidates f (osym b) = b :: rest)
                  /\ ofix b = Infix /\ oarity b = 2%nat /\ plain b
                  /\ Forall (fun p => popped p b = true) (pops l) /\ notpopped b (arrivals r)
  | EUn u e => ok e /\ (exists pre post, candidates f (osym u) = pre ++ u :: post
                                         /\ Forall (fun c => ofix c = Infix /\ oarity c <> 0%nat) pre)
               /\ ofix u = Prefix /\ oarity u = 1%nat /\ plain u /\ notpopped u (arrivals e)
  end.

(* ---------- reduction of pending items ---------- *)
Fixpoint reduce (its : list sitem) (out : list ast) : res (list ast) :=
  match its with
  | [] => inl out
  | it :: its' => match operate it out with inl out' => reduce its' out' | inr e => inr e end
  end.
Lemma reduce_app a b out : reduce (a ++ b) out = match reduce a out with inl o => reduce b o | inr e => inr e end.
Proof. revert out; induction a as [|x a IH]; intros out; cbn; [reflexivity|]. destruct (operate x out); auto. Qed.

Lemma skipn_len_app {A} (l1 l2 : list A) n : n = length l1 -> skipn n (l1 ++ l2) = l2.
Proof. intros ->. rewrite skipn_app, skipn_all, Nat.sub_diag. reflexivity. Qed.
Lemma firstn_len_app {A} (l1 l2 : list A) n : n = length l1 -> firstn n (l1 ++ l2) = l1.
Proof. intros ->. rewrite firstn_app, firstn_all, Nat.sub_diag. cbn. apply app_nil_r. Qed.

Lemma operate_infix b n out x y : ofix b = Infix -> n = length out ->
  operate (SOp b (S n)) (out ++ [x; y]) = inl (out ++ [ANode b [x; y]]).
Proof.
  intros Hf Hn. unfold operate. rewrite Hf. cbn [Nat.leb]. replace (S n - 1)%nat with n by lia.
  rewrite app_length. cbn [length]. replace (S n + 1 <=? length out + 2)%nat with true by (symmetry; apply Nat.leb_le; lia).
  rewrite firstn_len_app by assumption. rewrite skipn_len_app by assumption.
  replace (S n + 1 - n)%nat with 2%nat by lia. cbn [firstn].
  replace (S n + 1)%nat with (length (out ++ [x; y])) by (rewrite app_length; cbn; lia).
  rewrite skipn_all. reflexivity.
Qed.
Lemma operate_prefix u n out x : ofix u = Prefix -> oarity u = 1%nat -> n = length out ->
  operate (SOp u n) (out ++ [x]) = inl (out ++ [ANode u [x]]).
Proof.
  intros Hf Ha Hn. unfold operate. rewrite Hf, Ha. rewrite app_length. cbn [length].
  replace (n + 1 <=? length out + 1)%nat with true by (symmetry; apply Nat.leb_le; lia).
  rewrite firstn_len_app by assumption. rewrite skipn_len_app by assumption.
  replace (n + 1 - n)%nat with 1%nat by lia. cbn [firstn].
  replace (n + 1)%nat with (length (out ++ [x])) by (rewrite app_length; cbn; lia).
  rewrite skipn_all. reflexivity.
Qed.
Lemma operate_dot o n out : ofix o = Postfix -> oarity o = 0%nat -> n = length out ->
  operate (SOp o n) out = inl (out ++ [ANode o []]).
Proof.
  intros Hf Ha Hn. unfold operate. rewrite Hf, Ha. cbn [Nat.leb]. rewrite Nat.sub_0_r.
  replace (n <=? length out)%nat with true by (symmetry; apply Nat.leb_le; lia).
  rewrite Nat.sub_diag. cbn [firstn]. subst n. rewrite firstn_all, skipn_all. reflexivity.
Qed.

Lemma reduce_pend e : ok e -> forall out n, n = length out ->
  reduce (snd (pend e n)) (out ++ fst (pend e n)) = inl (out ++ [ast_of e]).
Proof.
  induction e as [t|o|b l IHl r IHr|u e IH|sq e IH]; intros Hok out n Hn; cbn [pend ok] in *.
  - reflexivity.
  - destruct Hok as (_ & Ha & Hf & _). cbn [fst snd reduce]. rewrite app_nil_r. rewrite operate_dot by assumption. reflexivity.
  - destruct Hok as (_ & Hokr & _ & Hf & _).
    destruct (pend r (S n)) as [tr sr] eqn:E. cbn [fst snd].
    rewrite reduce_app.
    replace (out ++ ast_of l :: tr) with ((out ++ [ast_of l]) ++ tr) by (rewrite <- app_assoc; reflexivity).
    specialize (IHr Hokr (out ++ [ast_of l]) (S n)). rewrite E in IHr. cbn [fst snd] in IHr.
    rewrite IHr by (rewrite app_length; cbn; lia).
    cbn [reduce]. rewrite <- app_assoc. cbn [app]. rewrite operate_infix by assumption. reflexivity.
  - destruct Hok as (Hoke & _ & Hf & Ha & _).
    destruct (pend e n) as [te se] eqn:E. cbn [fst snd].
    rewrite reduce_app. specialize (IH Hoke out n Hn). rewrite E in IH. cbn [fst snd] in IH. rewrite IH.
    cbn [reduce]. rewrite operate_prefix by assumption. reflexivity.
  - reflexivity.
Qed.

Lemma pend_ops e : forall n, Forall2 (fun it o => exists i, it = SOp o i) (snd (pend e n)) (pops e).
Proof.
  induction e as [t|o|b l IHl r IHr|u e IH|sq e IH]; intros n; cbn [pend pops]; try constructor.
  - eexists; reflexivity.
  - constructor.
  - destruct (pend r (S n)) as [tr sr] eqn:E. cbn [snd]. specialize (IHr (S n)). rewrite E in IHr. cbn in IHr.
    apply Forall2_app; [exact IHr|]. constructor; [eexists; reflexivity|constructor].
  - destruct (pend e n) as [te se] eqn:E. cbn [snd]. specialize (IH n). rewrite E in IH. cbn in IH.
    apply Forall2_app; [exact IH|]. constructor; [eexists; reflexivity|constructor].
Qed.

Lemma pop_while_app o its stk out ps :
  Forall2 (fun it p => exists i, it = SOp p i) its ps -> Forall (fun p => popped p o = true) ps ->
  pop_while o (its ++ stk) out = match reduce its out with inl out' => pop_while o stk out' | inr e => inr e end.
Proof.
  intros H. revert out. induction H as [|it p its ps [i ->] _ IH]; intros out Hf; cbn [app reduce]; [reflexivity|].
  inversion Hf; subst. cbn [pop_while]. match goal with H : popped p o = true |- _ => rewrite H end.
  destruct (operate (SOp p i) out); [apply IH; assumption | reflexivity].
Qed.
Lemma close_ctx_app opener its stk out ps :
  Forall2 (fun it p => exists i, it = SOp p i) its ps ->
  close_ctx opener (its ++ stk) out = match reduce its out with inl out' => close_ctx opener stk out' | inr e => inr e end.
Proof.
  intros H. revert out. induction H as [|it p its ps [i ->] _ IH]; intros out; cbn [app reduce]; [reflexivity|].
  cbn [close_ctx]. destruct (operate (SOp p i) out); [apply IH | reflexivity].
Qed.
Lemma finish_app its stk out ps :
  Forall2 (fun it p => exists i, it = SOp p i) its ps ->
  finish (its ++ stk) out = match reduce its out with inl out' => finish stk out' | inr e => inr e end.
Proof.
  intros H. revert out. induction H as [|it p its ps [i ->] _ IH]; intros out; cbn [app reduce]; [reflexivity|].
  cbn [finish]. destruct (operate (SOp p i) out); [apply IH | reflexivity].
Qed.

Lemma pop_while_barrier o stk out arr : barrier stk arr -> In o arr -> pop_while o stk out = inl (out, stk).
Proof.
  destruct stk as [|[top i|t i] stk]; cbn; try reflexivity. intros Hb Hin.
  unfold notpopped in Hb. rewrite Forall_forall in Hb. rewrite (Hb _ Hin). reflexivity.
Qed.
Lemma barrier_incl stk a b : barrier stk b -> incl a b -> barrier stk a.
Proof.
  destruct stk as [|[top i|t i] stk]; cbn; auto.
  unfold notpopped. rewrite !Forall_forall. intros H Hi x Hx. apply H, Hi, Hx.
Qed.

Lemma mrun_app ts1 ts2 st : mrun fixed f (ts1 ++ ts2) st =
  match mrun fixed f ts1 st with inl st' => mrun fixed f ts2 st' | inr e => inr e end.
Proof. revert st; induction ts1 as [|t ts IH]; intros st; cbn; [reflexivity|]. destruct (mstep fixed f t st); auto. Qed.

(* an operator token whose text is a table symbol resolves to itself *)
Lemma resolve_self o cs : candidates f (osym o) = cs -> cs <> [] -> resolve fixed f (osym o) = [osym o].
Proof. intros H Hne. unfold resolve, in_table. rewrite H. destruct cs; [contradiction|reflexivity]. Qed.

Lemma mstep_op o out stk c cs : candidates f (osym o) = c :: cs ->
  mstep fixed f (optok o) (out, stk) =
  match try_ops (c :: cs) out stk with inl (o', s') => inl (o', s') | inr e => inr e end.
Proof.
  intros H. unfold mstep, optok. cbn [kd tx].
  rewrite (resolve_self o (c :: cs) H) by discriminate. cbn [do_syms]. rewrite H.
  destruct (try_ops (c :: cs) out stk) as [[o' s']|e]; reflexivity.
Qed.

(* earlier infix candidates are refused without touching the state *)
Lemma try_pre pre rest out stk : Forall (fun c => ofix c = Infix /\ oarity c <> 0%nat) pre ->
  barrier stk pre -> topidx stk = length out ->
  try_ops (pre ++ rest) out stk = try_ops rest out stk.
Proof.
  induction pre as [|c pre IH]; intros Hp Hb Ht; cbn [app]; [reflexivity|].
  inversion Hp as [|? ? [Hf Ha] Hp']; subst.
  assert (Hb' : barrier stk pre) by (eapply barrier_incl; [exact Hb | intros x Hx; right; exact Hx]).
  cbn [try_ops]. destruct (negb (accepts c stk)); [apply IH; assumption|].
  destruct (odis c); [apply IH; assumption|].
  rewrite (pop_while_barrier c stk out (c :: pre) Hb (or_introl eq_refl)).
  rewrite Ht, Nat.sub_diag, Hf. replace (oarity c =? 0)%nat with false by (symmetry; apply Nat.eqb_neq; assumption).
  cbn. apply IH; assumption.
Qed.

Lemma accepts_plain o stk : plain o -> accepts o stk = true /\ odis o = false.
Proof. intros [Hc Hd]. unfold accepts. rewrite Hc. auto. Qed.

Theorem main e : ok e -> forall out stk,
  barrier stk (arrivals e) -> topidx stk = length out ->
  mrun fixed f (toks e) (out, stk) = inl (out ++ fst (pend e (length out)), snd (pend e (length out)) ++ stk).
Proof.
  induction e as [t|o|b l IHl r IHr|u e IH|sq e IH]; intros Hok out stk Hbar Hidx; cbn [ok] in Hok.
  - (* atom *)
    cbn [toks mrun mstep]. unfold is_leaf in Hok. apply andb_true_iff in Hok as [H1 H2].
    apply negb_true_iff in H1, H2. unfold mstep.
    destruct (kd t); cbn in H1, H2; try discriminate; reflexivity.
  - (* dot *)
    destruct Hok as (Hc & Ha & Hf & Hp). cbn [toks mrun].
    rewrite (mstep_op o out stk o [] Hc). cbn [try_ops].
    destruct (accepts_plain o stk Hp) as [-> ->]. cbn [negb].
    rewrite (pop_while_barrier o stk out [o] Hbar (or_introl eq_refl)).
    rewrite Ha. cbn [Nat.eqb orb pend fst snd]. rewrite app_nil_r. reflexivity.
  - (* binary *)
    destruct Hok as (Hokl & Hokr & [rest Hc] & Hf & Ha & Hp & Hpop & Hnp).
    cbn [toks]. rewrite mrun_app.
    rewrite (IHl Hokl out stk); [| eapply barrier_incl; [exact Hbar| cbn; apply incl_appl, incl_refl] | exact Hidx].
    cbn [mrun]. rewrite (mstep_op b _ _ b rest Hc). cbn [try_ops].
    destruct (accepts_plain b (snd (pend l (length out)) ++ stk) Hp) as [-> ->]. cbn [negb].
    rewrite (pop_while_app b _ stk _ (pops l) (pend_ops l _) Hpop).
    rewrite (reduce_pend l Hokl out _ eq_refl).
    rewrite (pop_while_barrier b stk _ (arrivals (EBin b l r)) Hbar) by (cbn; apply in_or_app; right; left; reflexivity).
    rewrite app_length. cbn [length]. rewrite Hidx.
    replace (length out + 1 - length out =? 1)%nat with true by (symmetry; apply Nat.eqb_eq; lia).
    rewrite Hf, orb_true_r.
    rewrite (IHr Hokr (out ++ [ast_of l]) (SOp b (length out + 1) :: stk)).
    + rewrite app_length. cbn [length pend].
      replace (length out + 1)%nat with (S (length out)) by lia.
      destruct (pend r (S (length out))) as [tr sr]. cbn [fst snd].
      rewrite <- !app_assoc. reflexivity.
    + cbn. exact Hnp.
    + cbn. rewrite app_length. cbn. reflexivity.
  - (* prefix *)
    destruct Hok as (Hoke & (pre & post & Hc & Hpre) & Hf & Ha & Hp & Hnp).
    cbn [toks mrun].
    assert (Hne : exists c cs, candidates f (osym u) = c :: cs).
    { rewrite Hc. destruct pre; cbn; eauto. }
    destruct Hne as (c0 & cs0 & Hc0). rewrite (mstep_op u out stk c0 cs0 Hc0). rewrite <- Hc0, Hc.
    cbn [arrivals] in Hbar.
    rewrite (try_pre pre (u :: post) out stk Hpre); [| eapply barrier_incl; [exact Hbar | rewrite Hc; apply incl_appl, incl_refl] | exact Hidx].
    cbn [try_ops]. destruct (accepts_plain u stk Hp) as [-> ->]. cbn [negb].
    rewrite (pop_while_barrier u stk out _ Hbar) by (rewrite Hc; apply in_or_app; right; left; reflexivity).
    rewrite Hf, orb_true_r.
    rewrite (IH Hoke out (SOp u (length out) :: stk)); [| exact Hnp | reflexivity].
    cbn [pend]. destruct (pend e (length out)) as [te se]. cbn [fst snd]. rewrite <- app_assoc. reflexivity.
  - (* brackets *)
    cbn [toks mrun]. unfold mstep at 1. cbn [open_t kd tx].
    replace (leqb (if sq then [cLS] else [cLP]) [cLP] || leqb (if sq then [cLS] else [cLP]) [cLS]) with true by (destruct sq; reflexivity).
    rewrite mrun_app.
    rewrite (IH Hok out (SCtx (if sq then [cLS] else [cLP]) (length out) :: stk)); [| exact I | reflexivity].
    cbn [mrun]. unfold mstep. cbn [close_t kd tx].
    replace (leqb (if sq then [cRS] else [cRP]) [cLP] || leqb (if sq then [cRS] else [cRP]) [cLS]) with false by (destruct sq; reflexivity).
    replace (opener_of (if sq then [cRS] else [cRP])) with (Some (if sq then [cLS] else [cLP])) by (destruct sq; reflexivity).
    rewrite (close_ctx_app _ _ _ _ (pops e) (pend_ops e _)).
    rewrite (reduce_pend e Hok out _ eq_refl). cbn [close_ctx pend fst snd app].
    replace (length out =? length (out ++ [ast_of e]))%nat with false
      by (rewrite app_length; cbn [length]; symmetry; apply Nat.eqb_neq; lia).
    destruct sq; reflexivity.
Qed.

Theorem inner_complete e : ok e -> to_ast fixed f (toks e) = inl (Some (ast_of e)).
Proof.
  intros Hok. unfold to_ast. rewrite (main e Hok [] []); [| exact I | reflexivity].
  cbn [length app]. rewrite app_nil_r.
  rewrite <- (app_nil_r (snd (pend e 0))). rewrite (finish_app _ [] _ (pops e) (pend_ops e 0)).
  pose proof (reduce_pend e Hok [] 0%nat eq_refl) as H. cbn [app] in H. rewrite H. reflexivity.
Qed.

(* ================= top level: parts separated by '|', sides separated by '~' ================= *)
Variable bar : op.
Hypothesis bar_c : candidates f (osym bar) = [bar].
Hypothesis bar_fix : ofix bar = Infix.
Hypothesis bar_ar : oarity bar = 2%nat.
Hypothesis bar_ctx : octx bar = CTildeBar.
Hypothesis bar_en : odis bar = false.
Hypothesis bar_assoc : oassoc bar <> AL.
Hypothesis bar_sym : sym_in_tildebar (osym bar) = true.

Definition above (o : op) : Prop := (oprec bar < oprec o)%Z.
Definition part_ok (p : expr) : Prop := ok p /\ Forall above (arrivals p) /\ Forall above (pops p).
Definition env_item (it : sitem) : Prop :=
  exists p i, it = SOp p i /\ sym_in_tildebar (osym p) = true /\ (oprec p <= oprec bar)%Z.
Definition env (stk : list sitem) : Prop := Forall env_item stk.

Fixpoint pendP (ps : list expr) (n : nat) : list ast * list sitem :=
  match ps with
  | [] => ([], [])
  | p :: rest => match rest with
                 | [] => pend p n
                 | _ => let '(tr, sr) := pendP rest (S n) in (ast_of p :: tr, sr ++ [SOp bar (S n)])
                 end
  end.
Fixpoint barsA (ps : list expr) : ast :=
  match ps with
  | [] => ANode bar []
  | p :: rest => match rest with [] => ast_of p | _ => ANode bar [ast_of p; barsA rest] end
  end.
Fixpoint toksP (ps : list expr) : list tk :=
  match ps with
  | [] => []
  | p :: rest => match rest with [] => toks p | _ => toks p ++ optok bar :: toksP rest end
  end.
Fixpoint popsP (ps : list expr) : list op :=
  match ps with
  | [] => []
  | p :: rest => match rest with [] => pops p | _ => popsP rest ++ [bar] end
  end.

Lemma pendP_cons p q rest n : pendP (p :: q :: rest) n =
  let '(tr, sr) := pendP (q :: rest) (S n) in (ast_of p :: tr, sr ++ [SOp bar (S n)]).
Proof. reflexivity. Qed.
Lemma barsA_cons p q rest : barsA (p :: q :: rest) = ANode bar [ast_of p; barsA (q :: rest)].
Proof. reflexivity. Qed.
Lemma toksP_cons p q rest : toksP (p :: q :: rest) = toks p ++ optok bar :: toksP (q :: rest).
Proof. reflexivity. Qed.
Lemma popsP_cons p q rest : popsP (p :: q :: rest) = popsP (q :: rest) ++ [bar].
Proof. reflexivity. Qed.

Lemma reduce_pendP ps : ps <> [] -> Forall part_ok ps -> forall out n, n = length out ->
  reduce (snd (pendP ps n)) (out ++ fst (pendP ps n)) = inl (out ++ [barsA ps]).
Proof.
  induction ps as [|p rest IH]; intros Hne Hall out n Hn; [contradiction|].
  inversion Hall as [|? ? [Hokp _] Hrest]; subst.
  destruct rest as [|q rest'].
  - cbn [pendP barsA]. apply reduce_pend; auto.
  - rewrite pendP_cons, barsA_cons.
    destruct (pendP (q :: rest') (S (length out))) as [tr sr] eqn:E. cbn [fst snd].
    rewrite reduce_app.
    replace (out ++ ast_of p :: tr) with ((out ++ [ast_of p]) ++ tr) by (rewrite <- app_assoc; reflexivity).
    specialize (IH ltac:(discriminate) Hrest (out ++ [ast_of p]) (S (length out))). rewrite E in IH. cbn [fst snd] in IH.
    rewrite IH by (rewrite app_length; cbn; lia).
    cbn [reduce]. rewrite <- app_assoc. cbn [app]. rewrite operate_infix by auto. reflexivity.
Qed.

Lemma pendP_ops ps : forall n, Forall2 (fun it o => exists i, it = SOp o i) (snd (pendP ps n)) (popsP ps).
Proof.
  induction ps as [|p rest IH]; intros n; [constructor|].
  destruct rest as [|q rest'].
  - cbn [pendP popsP]. apply pend_ops.
  - rewrite pendP_cons, popsP_cons.
    destruct (pendP (q :: rest') (S n)) as [tr sr] eqn:E. cbn [snd]. specialize (IH (S n)). rewrite E in IH. cbn [snd] in IH.
    apply Forall2_app; [exact IH|]. constructor; [eexists; reflexivity|constructor].
Qed.

Lemma popsP_above ps : Forall part_ok ps -> Forall (fun p => (oprec bar <= oprec p)%Z /\ (p = bar \/ above p)) (popsP ps).
Proof.
  induction ps as [|p rest IH]; intros H; [constructor|]. inversion H as [|? ? (_ & _ & Hp) Hr]; subst.
  destruct rest as [|q rest'].
  - cbn [popsP]. rewrite Forall_forall in *. intros x Hx. specialize (Hp x Hx). unfold above in *. split; [lia|right; exact Hp].
  - rewrite popsP_cons. apply Forall_app. split; [apply IH; exact Hr|]. constructor; [|constructor].
    split; [lia | left; reflexivity].
Qed.

(* the environment (only ~ and | below) is never disturbed by operators above bar, nor by bar itself *)
Lemma env_barrier_above stk arr : env stk -> Forall above arr -> barrier stk arr.
Proof.
  intros He Ha. destruct stk as [|it stk]; [exact I|]. inversion He as [|? ? (p & i & -> & _ & Hp) _]; subst.
  cbn. unfold notpopped. rewrite Forall_forall in *. intros o Ho. specialize (Ha o Ho). unfold above in Ha.
  unfold popped. replace (oprec o <? oprec p)%Z with false by (symmetry; apply Z.ltb_ge; lia).
  replace (oprec p =? oprec o)%Z with false by (symmetry; apply Z.eqb_neq; lia). reflexivity.
Qed.
Lemma env_barrier_bar stk : env stk -> barrier stk [bar].
Proof.
  intros He. destruct stk as [|it stk]; [exact I|]. inversion He as [|? ? (p & i & -> & _ & Hp) _]; subst.
  cbn. constructor; [|constructor]. unfold popped.
  replace (oprec bar <? oprec p)%Z with false by (symmetry; apply Z.ltb_ge; lia).
  destruct (oassoc bar); try contradiction; rewrite andb_false_r; reflexivity.
Qed.

Lemma accepts_bar its stk ps : Forall2 (fun it p => exists i, it = SOp p i) its ps -> Forall above ps -> env stk ->
  accepts bar (its ++ stk) = true.
Proof.
  intros H2 Ha He. unfold accepts. rewrite bar_ctx. rewrite filter_app. rewrite forallb_app. apply andb_true_iff. split.
  - replace (filter _ its) with (@nil sitem); [reflexivity|]. symmetry.
    revert Ha. induction H2 as [|it p its ps [i ->] _ IH]; intros Ha; [reflexivity|]. inversion Ha; subst. cbn [filter].
    replace (oprec p <=? oprec bar)%Z with false by (symmetry; apply Z.leb_gt; assumption). apply IH; assumption.
  - apply forallb_forall. intros it Hit. apply filter_In in Hit as [Hit _].
    unfold env in He. rewrite Forall_forall in He. destruct (He it Hit) as (p & i & -> & Hs & _). exact Hs.
Qed.

Theorem mainP ps : ps <> [] -> Forall part_ok ps -> forall out stk, env stk -> topidx stk = length out ->
  mrun fixed f (toksP ps) (out, stk) =
  inl (out ++ fst (pendP ps (length out)), snd (pendP ps (length out)) ++ stk).
Proof.
  induction ps as [|p rest IH]; intros Hne Hall out stk He Hidx; [contradiction|].
  inversion Hall as [|? ? (Hokp & Harr & Hpops) Hrest]; subst.
  destruct rest as [|q rest'].
  - cbn [toksP pendP]. apply main; auto. apply env_barrier_above; auto.
  - rewrite toksP_cons, pendP_cons.
    rewrite mrun_app. rewrite (main p Hokp out stk (env_barrier_above _ _ He Harr) Hidx).
    cbn [mrun]. rewrite (mstep_op bar _ _ bar [] bar_c). cbn [try_ops].
    rewrite (accepts_bar _ stk (pops p) (pend_ops p _) Hpops He). rewrite bar_en. cbn [negb].
    assert (Hpop : Forall (fun x => popped x bar = true) (pops p)).
    { rewrite Forall_forall in *. intros x Hx. specialize (Hpops x Hx). unfold above in Hpops. unfold popped.
      replace (oprec bar <? oprec x)%Z with true by (symmetry; apply Z.ltb_lt; lia). reflexivity. }
    rewrite (pop_while_app bar _ stk _ (pops p) (pend_ops p _) Hpop).
    rewrite (reduce_pend p Hokp out _ eq_refl).
    rewrite (pop_while_barrier bar stk _ [bar] (env_barrier_bar _ He) (or_introl eq_refl)).
    rewrite app_length. cbn [length]. rewrite Hidx.
    replace (length out + 1 - length out =? 1)%nat with true by (symmetry; apply Nat.eqb_eq; lia).
    rewrite bar_fix, orb_true_r.
    rewrite (IH ltac:(discriminate) Hrest (out ++ [ast_of p]) (SOp bar (length out + 1) :: stk)).
    + rewrite app_length. cbn [length]. replace (length out + 1)%nat with (S (length out)) by lia.
      destruct (pendP (q :: rest') (S (length out))) as [tr sr]. cbn [fst snd]. rewrite <- !app_assoc. reflexivity.
    + constructor; [|exact He]. exists bar, (length out + 1)%nat. split; [reflexivity|]. split; [exact bar_sym | lia].
    + cbn. rewrite app_length. cbn. reflexivity.
Qed.

(* one-sided formulas:  p1 | ... | pn  *)
Theorem parts_complete ps : ps <> [] -> Forall part_ok ps -> to_ast fixed f (toksP ps) = inl (Some (barsA ps)).
Proof.
  intros Hne Hall. unfold to_ast. rewrite (mainP ps Hne Hall [] []); [| constructor | reflexivity].
  cbn [length app]. rewrite app_nil_r.
  rewrite <- (app_nil_r (snd (pendP ps 0))). rewrite (finish_app _ [] _ (popsP ps) (pendP_ops ps 0)).
  pose proof (reduce_pendP ps Hne Hall [] 0%nat eq_refl) as H. cbn [app] in H. rewrite H. reflexivity.
Qed.

(* two-sided formulas:  l1 | ... | lm ~ r1 | ... | rn  *)
Variable tilde : op.
Hypothesis til_c : exists rest, candidates f (osym tilde) = tilde :: rest.
Hypothesis til_fix : ofix tilde = Infix.
Hypothesis til_ar : oarity tilde = 2%nat.
Hypothesis til_ctx : octx tilde = CEmpty.
Hypothesis til_en : odis tilde = false.
Hypothesis til_prec : (oprec tilde < oprec bar)%Z.
Hypothesis til_sym : sym_in_tildebar (osym tilde) = true.

Lemma accepts_tilde its ps : Forall2 (fun it p => exists i, it = SOp p i) its ps ->
  Forall (fun p => (oprec bar <= oprec p)%Z) ps -> accepts tilde (its ++ []) = true.
Proof.
  intros H2 Ha. unfold accepts. rewrite til_ctx, app_nil_r.
  replace (filter _ its) with (@nil sitem); [reflexivity|]. symmetry.
  revert Ha. induction H2 as [|it p its ps [i ->] _ IH]; intros Ha; [reflexivity|]. inversion Ha; subst. cbn [filter].
  replace (oprec p <=? oprec tilde)%Z with false by (symmetry; apply Z.leb_gt; lia). apply IH; assumption.
Qed.

Theorem two_sided_complete ls rs : ls <> [] -> rs <> [] -> Forall part_ok ls -> Forall part_ok rs ->
  to_ast fixed f (toksP ls ++ optok tilde :: toksP rs) = inl (Some (ANode tilde [barsA ls; barsA rs])).
Proof.
  intros Hl Hr Hal Har. unfold to_ast. rewrite mrun_app.
  rewrite (mainP ls Hl Hal [] []); [| constructor | reflexivity].
  cbn [length app mrun]. destruct til_c as [rest Hc]. rewrite (mstep_op tilde _ _ tilde rest Hc). cbn [try_ops].
  pose proof (popsP_above ls Hal) as Hab.
  rewrite (accepts_tilde _ (popsP ls) (pendP_ops ls 0)) by (eapply Forall_impl; [|exact Hab]; intros a [H _]; exact H).
  rewrite til_en. cbn [negb].
  assert (Hpop : Forall (fun x => popped x tilde = true) (popsP ls)).
  { eapply Forall_impl; [|exact Hab]. intros x [Hx _]. unfold popped.
    replace (oprec tilde <? oprec x)%Z with true by (symmetry; apply Z.ltb_lt; lia). reflexivity. }
  rewrite (pop_while_app tilde _ [] _ (popsP ls) (pendP_ops ls 0) Hpop).
  pose proof (reduce_pendP ls Hl Hal [] 0%nat eq_refl) as H. cbn [app] in H. rewrite H.
  cbn [pop_while length topidx Nat.sub Nat.eqb]. rewrite til_fix, orb_true_r.
  rewrite (mainP rs Hr Har [barsA ls] [SOp tilde 1]); [| | reflexivity].
  - cbn [length]. rewrite (finish_app _ [SOp tilde 1] _ (popsP rs) (pendP_ops rs 1)).
    pose proof (reduce_pendP rs Hr Har [barsA ls] 1%nat eq_refl) as H'. rewrite H'.
    pose proof (operate_infix tilde 0 [] (barsA ls) (barsA rs) til_fix eq_refl) as Ho. cbn [app] in Ho.
    cbn [finish app]. rewrite Ho. reflexivity.
  - constructor; [|constructor]. exists tilde, 1%nat. split; [reflexivity|]. split; [exact til_sym | lia].
Qed.
End Real.
Print Assumptions two_sided_complete.
