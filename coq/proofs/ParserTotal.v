(* ===== ParserTotal.v : which error constructors of the parser model are reachable (C14) ===== *)
From Coq Require Import List NArith ZArith Bool Arith Lia.
Import ListNotations.
Require Import Tok Parser Parser2 Parser3.
Open Scope N_scope.

(* [noint r] : r is not an escaped Python exception *)
Definition noint {A} (r : res A) : Prop := match r with inr (EInternal _) => False | _ => True end.
(* [nopy r] : r is not a plain SyntaxError *)
Definition nopy {A} (r : res A) : Prop := match r with inr EPySyntax => False | _ => True end.
Definition clean {A} (r : res A) : Prop := noint r /\ nopy r.

Lemma clean_inl {A} (a : A) : clean (inl a : res A). Proof. split; exact I. Qed.
Lemma clean_syntax {A} : clean (inr ESyntax : res A). Proof. split; exact I. Qed.
Lemma clean_inr {A B} (e : perr) : clean (inr e : res A) -> clean (inr e : res B).
Proof. destruct e; intros [H1 H2]; split; auto. Qed.
#[global] Hint Resolve clean_inl clean_syntax : core.
#[global] Hint Extern 1 (clean (inr _)) => (eapply clean_inr; eassumption) : core.

(* ---------- the shunting-yard machine raises nothing but the syntax error ---------- *)
Lemma operate_clean o i out : clean (operate (SOp o i) out).
Proof.
  unfold operate. destruct (ofix o).
  - destruct (_ <=? _)%nat; auto.
  - destruct (1 <=? i)%nat; auto. destruct (_ <=? _)%nat; auto.
  - destruct (oarity o <=? i)%nat; auto. destruct (_ <=? _)%nat; auto.
Qed.

Lemma pop_while_clean o stk : forall out, clean (pop_while o stk out).
Proof.
  induction stk as [|it stk IH]; intros out; cbn [pop_while]; auto.
  destruct it as [top i|t i]; auto.
  destruct (popped top o); auto.
  pose proof (operate_clean top i out) as H. destruct (operate (SOp top i) out) as [out'|e]; auto.
Qed.

Lemma try_ops_clean cands : forall out stk, clean (try_ops cands out stk).
Proof.
  induction cands as [|o rest IH]; intros out stk; cbn [try_ops]; auto.
  destruct (negb (accepts o stk)); auto. destruct (odis o); auto.
  pose proof (pop_while_clean o stk out) as H. destruct (pop_while o stk out) as [[out' stk']|e]; auto.
  destruct (_ || _); auto.
Qed.

Lemma do_syms_clean f syms : forall out stk, clean (do_syms f syms out stk).
Proof.
  induction syms as [|s rest IH]; intros out stk; cbn [do_syms]; auto.
  destruct (candidates f s) as [|c cs]; auto.
  pose proof (try_ops_clean (c :: cs) out stk) as H. destruct (try_ops (c :: cs) out stk) as [[o' s']|e]; auto.
Qed.

Lemma close_ctx_clean opener stk : forall out, clean (close_ctx opener stk out).
Proof.
  induction stk as [|it stk IH]; intros out; cbn [close_ctx]; auto.
  destruct it as [o i|t i].
  - pose proof (operate_clean o i out) as H. destruct (operate (SOp o i) out); auto.
  - destruct (leqb t opener); auto. destruct (i =? length out)%nat; auto.
Qed.

Lemma mstep_clean fixed f t st : clean (mstep fixed f t st).
Proof.
  destruct st as [out stk]. unfold mstep. destruct (kd t); auto.
  - destruct (_ || _); auto. destruct (opener_of (tx t)); auto. apply close_ctx_clean.
  - apply do_syms_clean.
Qed.

Lemma mrun_clean fixed f ts : forall st, clean (mrun fixed f ts st).
Proof.
  induction ts as [|t r IH]; intros st; cbn [mrun]; auto.
  pose proof (mstep_clean fixed f t st) as H. destruct (mstep fixed f t st); auto.
Qed.

Lemma finish_clean stk : forall out, clean (finish stk out).
Proof.
  induction stk as [|it stk IH]; intros out; cbn [finish]; auto.
  destruct it as [o i|t i]; auto.
  pose proof (operate_clean o i out) as H. destruct (operate (SOp o i) out); auto.
Qed.

(* for every token list and every feature-flag subset, building the AST succeeds or raises the syntax error *)
Theorem to_ast_clean fixed f ts : clean (to_ast fixed f ts).
Proof.
  unfold to_ast. pose proof (mrun_clean fixed f ts ([], [])) as H.
  destruct (mrun fixed f ts ([], [])) as [[out stk]|e]; auto.
  pose proof (finish_clean stk out) as H2. destruct (finish stk out) as [[|a [|b r]]|e]; auto.
Qed.

(* ---------- evaluation: the only escaping exceptions are the two named below ---------- *)
(* 5 = the model is stuck on ill-sorted operands (a structured value where a term set is needed);
   6 = KeyError: '.' evaluated by a parser that was created with include_intercept=False *)
Definition eval_ok (cx : pctx) {A} (r : res A) : Prop :=
  match r with
  | inr (EInternal n) => n = 5%nat \/ (n = 6%nat /\ used_lhs cx = None)
  | inr EPySyntax => False
  | _ => True
  end.

Lemma reduce_mul_nonempty t r : reduce_mul (t :: r) = inl (fold_left tmul r t).
Proof. reflexivity. Qed.

Lemma product_n_nonempty arg n : forall tup, In tup (product_n arg (S n)) -> tup <> [].
Proof.
  intros tup H. cbn in H. apply in_flat_map in H as [t [_ H]]. apply in_map_iff in H as [x [<- _]]. discriminate.
Qed.

Lemma power_go_ok cx l : (forall tup, In tup l -> tup <> []) -> forall acc,
  eval_ok cx ((fix go (l : list (list term)) (acc : list term) : res (list term) :=
                 match l with [] => inl (oset (rev acc) [])
                 | tup :: r => match reduce_mul tup with inl t => go r (t :: acc) | inr e => inr e end end) l acc).
Proof.
  induction l as [|tup r IH]; intros Hne acc; cbn; auto.
  destruct tup as [|t tr]; [exfalso; apply (Hne []); [left; reflexivity | reflexivity]|].
  cbn [reduce_mul]. apply IH. intros x Hx. apply Hne. right; auto.
Qed.

Lemma power_ok cx arg pw : eval_ok cx (power arg pw).
Proof.
  unfold power. destruct pw as [|[|f [|f2 fr]] [|p2 pr]]; cbn; auto.
  destruct (kind_eqb (kd f) KValue); cbn; auto.
  destruct (classify_lit (tx f)) as [[|n]| | |]; cbn; auto.
  apply power_go_ok. apply product_n_nonempty.
Qed.

Lemma nested_ok cx a b : eval_ok cx (nested a b).
Proof. unfold nested. destruct a as [|t r]; cbn; auto. Qed.

Lemma bind_ok cx {A B} (x : res A) (k : A -> res B) : eval_ok cx x -> (forall a, eval_ok cx (k a)) -> eval_ok cx (bind x k).
Proof. destruct x as [a|e]; cbn; auto. Qed.

Lemma as_set_ok cx v : eval_ok cx (as_set v).
Proof. destruct v as [[s|p]|l r|]; cbn; auto. Qed.
Lemma parts_of_ok cx v : eval_ok cx (parts_of v).
Proof. destruct v as [[s|p]|l r|]; cbn; auto. Qed.
Lemma side_of_ok cx v : eval_ok cx (side_of v).
Proof. destruct v as [s|l r|]; cbn; auto. Qed.

Lemma apply_op_ok cx o args : eval_ok cx (apply_op cx o args).
Proof.
  unfold apply_op.
  destruct (osem o); destruct args as [|a1 [|a2 [|a3 rest]]]; cbn [eval_ok]; auto;
    repeat (first [ apply bind_ok; [ first [apply as_set_ok | apply parts_of_ok | apply side_of_ok | apply nested_ok | apply power_ok] | intros ? ] | exact I ]);
    try (cbn; auto; fail).
  - (* '.' *)
    destruct (used_lhs cx) eqn:E; cbn; auto. destruct (avail cx); cbn; auto.
Qed.

Lemma eval_ok_fuel cx fuel : forall a, eval_ok cx (eval fuel cx a).
Proof.
  induction fuel as [|fuel IH]; intros a; cbn; auto.
  destruct a as [t|o args]; cbn; auto.
  generalize (@nil val). induction args as [|x r IHr]; intros acc; cbn.
  - apply apply_op_ok.
  - pose proof (IH x) as Hx. destruct (eval fuel cx x) as [v|e]; auto.
Qed.

(* ---------- the whole pipeline ---------- *)
Lemma py_err_in bad s c : py_err bad s = Some c -> exists frag, In (frag, c) bad /\ leqb frag s = true.
Proof.
  induction bad as [|[t c'] r IH]; cbn; [discriminate|].
  destruct (leqb t s) eqn:E.
  - intro H; inversion H; subst. exists t; split; auto.
  - intro H. destruct (IH H) as [frag [Hin Hl]]. exists frag; split; auto.
Qed.

Lemma cut_bad_err bad ts p e : cut_bad bad ts = (p, Some e) ->
  exists t c, In t ts /\ kind_eqb (kd t) KPython = true /\ py_err bad (tx t) = Some c /\
              e = match c with O => EPySyntax | n => EInternal n end.
Proof.
  revert p. induction ts as [|t r IH]; intros p; cbn; [discriminate|].
  destruct (kind_eqb (kd t) KPython && negb (leqb (tx t) [cDOT])) eqn:Ek.
  - destruct (py_err bad (tx t)) as [c|] eqn:Ep.
    + apply andb_true_iff in Ek as [Ek _].
      destruct c; intro H; inversion H; subst; exists t; [exists O | exists (S c)]; repeat split; auto.
    + destruct (cut_bad bad r) as [p' e'] eqn:Ec. intro H; inversion H; subst.
      destruct (IH _ eq_refl) as (t' & c & Hin & Hk & Hp & He). exists t', c; repeat split; auto.
  - destruct (cut_bad bad r) as [p' e'] eqn:Ec. intro H; inversion H; subst.
    destruct (IH _ eq_refl) as (t' & c & Hin & Hk & Hp & He). exists t', c; repeat split; auto.
Qed.

Definition fragments_only_syntax_errors (bad : list (str * nat)) : Prop := forall frag c, In (frag, c) bad -> c = O.

Lemma finish_terms_ok fixed intercept f av pv ts0 :
  match finish_terms fixed intercept f av pv ts0 with
  | inr (EInternal n) => n = 5%nat
  | inr EPySyntax => False
  | _ => True
  end.
Proof.
  unfold finish_terms.
  pose proof (to_ast_clean fixed f (get_tokens intercept ts0)) as [H1 H2].
  destruct (to_ast fixed f (get_tokens intercept ts0)) as [[a|]|e]; auto.
  - match goal with |- context [eval ?fu ?cx a] => pose proof (eval_ok_fuel cx fu a) as He; destruct (eval fu cx a) as [v|e] end.
    + destruct (match v with VSide s => check_side s | VTwo l r => check_side l && check_side r | VMulti => true end); auto.
    + destruct e as [|n|]; auto. cbn in He. destruct He as [He|[He Hu]]; auto.
      exfalso. cbn in Hu. destruct (find_rhs _ _ _); discriminate.
  - destruct e; auto; contradiction.
Qed.

(* Internal Python exceptions never escape from parsing, for every string, every configuration and every classifier,
   except the stuck marker 5 (ill-sorted operands, not reachable through the implementation's operators). *)
Theorem get_terms_internal_errors fixed intercept f av bad pn pv cl s n :
  fragments_only_syntax_errors bad ->
  get_terms fixed intercept f av bad pn pv cl s = inr (EInternal n) ->
  n = 5%nat.
Proof.
  intros Hbad. unfold get_terms.
  destruct (tokenize_partial cl s) as [toks lexerr].
  destruct (cut_bad bad (map of_token toks)) as [ts0' pyerr] eqn:Ec.
  assert (Hpy : forall e, pyerr = Some e -> e = EPySyntax).
  { intros e ->. destruct (cut_bad_err _ _ _ _ Ec) as (t & c & _ & _ & Hp & He).
    destruct (py_err_in _ _ _ Hp) as (frag & Hin & _). apply Hbad in Hin. subst. reflexivity. }
  set (terminal := match pyerr with Some e => Some e | None => match lexerr with Some _ => Some ESyntax | None => None end end).
  assert (Ht : forall e, terminal = Some e -> e = EPySyntax \/ e = ESyntax).
  { unfold terminal. intros e. destruct pyerr as [e'|]; [intro H; inversion H; subst; left; apply Hpy; reflexivity|].
    destruct lexerr; intro H; inversion H; auto. }
  destruct terminal as [e|] eqn:Et.
  - destruct (Ht e eq_refl) as [-> | ->]; discriminate.
  - intro H. pose proof (finish_terms_ok fixed intercept f av pv (map (normalise pn) ts0')) as Hf. rewrite H in Hf. exact Hf.
Qed.

(* A plain SyntaxError is raised only if an embedded Python fragment is itself rejected by Python's parser. *)
Theorem get_terms_pysyntax fixed intercept f av bad pn pv cl s :
  get_terms fixed intercept f av bad pn pv cl s = inr EPySyntax ->
  exists frag, In (frag, O) bad.
Proof.
  unfold get_terms.
  destruct (tokenize_partial cl s) as [toks lexerr].
  destruct (cut_bad bad (map of_token toks)) as [ts0' pyerr] eqn:Ec.
  destruct pyerr as [e|].
  - destruct (cut_bad_err _ _ _ _ Ec) as (t & c & _ & _ & Hp & He).
    destruct (py_err_in _ _ _ Hp) as (frag & Hin & _).
    destruct c.
    + intros _. exists frag. exact Hin.
    + subst e. discriminate.
  - destruct lexerr.
    + discriminate.
    + intro H. pose proof (finish_terms_ok fixed intercept f av pv (map (normalise pn) ts0')) as Hf. rewrite H in Hf. contradiction.
Qed.
