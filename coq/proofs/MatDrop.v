(* ===== MatDrop.v : the missing-data policy of the materializer model (C06) ===== *)
From Coq Require Import List NArith ZArith QArith Qcanon Bool Arith Lia Permutation Sorted.
Import ListNotations.
Require Import Mat.
Open Scope nat_scope.

(* ---------- the sorted, duplicate-free drop list ---------- *)
Lemma ins_n_In x l k : In k (ins_n x l) <-> k = x \/ In k l.
Proof.
  induction l as [|y r IH]; cbn [ins_n].
  - cbn. intuition.
  - destruct (x <? y)%nat eqn:E1.
    + cbn. intuition.
    + destruct (x =? y)%nat eqn:E2.
      * apply Nat.eqb_eq in E2. subst. cbn. intuition.
      * cbn [In]. rewrite IH. intuition.
Qed.
Lemma sorted_In l k : In k (fold_right ins_n [] l) <-> In k l.
Proof. induction l as [|x r IH]; cbn; [tauto|]. rewrite ins_n_In, IH. split; intros [H|H]; subst; auto. Qed.

Definition strictly_sorted (l : list nat) : Prop := StronglySorted lt l.
Lemma ins_n_sorted x l : strictly_sorted l -> strictly_sorted (ins_n x l).
Proof.
  unfold strictly_sorted. induction l as [|y r IH]; intro H; cbn [ins_n].
  - constructor; constructor.
  - inversion H as [|? ? Hs Hall]; subst.
    destruct (Nat.ltb_spec x y) as [E1|E1].
    + constructor; [exact H|]. constructor; [exact E1|].
      eapply Forall_impl; [|exact Hall]. intros a Ha. lia.
    + destruct (Nat.eqb_spec x y) as [E2|E2]; [exact H|].
      constructor; [apply IH; exact Hs|].
      apply Forall_forall. intros a Ha. apply ins_n_In in Ha as [->|Ha]; [lia|].
      rewrite Forall_forall in Hall. apply Hall. exact Ha.
Qed.
Lemma sort_sorted l : strictly_sorted (fold_right ins_n [] l).
Proof. induction l as [|x r IH]; cbn; [constructor | apply ins_n_sorted; exact IH]. Qed.

(* two strictly sorted lists with the same elements are equal *)
Lemma sorted_unique l l' : strictly_sorted l -> strictly_sorted l' -> (forall k, In k l <-> In k l') -> l = l'.
Proof.
  unfold strictly_sorted. revert l'. induction l as [|x r IH]; intros l' H H' E.
  - destruct l' as [|y r']; auto. exfalso. apply (E y). left; reflexivity.
  - destruct l' as [|y r']; [exfalso; apply (E x); left; reflexivity|].
    inversion H as [|? ? Hs Hall]; inversion H' as [|? ? Hs' Hall']; subst.
    rewrite Forall_forall in Hall, Hall'.
    assert (x = y).
    { assert (Hx : In x (y :: r')) by (apply E; left; reflexivity).
      assert (Hy : In y (x :: r)) by (apply E; left; reflexivity).
      destruct Hx as [->|Hx]; auto. destruct Hy as [->|Hy]; auto.
      specialize (Hall _ Hy). specialize (Hall' _ Hx). lia. }
    subst y. f_equal. apply IH; auto. intro k. split; intro Hk.
    + assert (Hk' : In k (x :: r')) by (apply E; right; exact Hk). destruct Hk' as [->|]; auto. specialize (Hall _ Hk). lia.
    + assert (Hk' : In k (x :: r)) by (apply E; right; exact Hk). destruct Hk' as [->|]; auto. specialize (Hall' _ Hk). lia.
Qed.

(* ---------- the drop set is exactly  caller's set  u  null positions of every evaluated factor ---------- *)
Definition is_null_at (evs : list (str * ev)) (k : nat) : Prop := exists p, In p evs /\ In k (nulls_of (snd p)).
Lemma all_nulls_spec evs k : In k (all_nulls evs) <-> is_null_at evs k.
Proof. unfold all_nulls, is_null_at. rewrite in_flat_map. tauto. Qed.

Theorem drop_set_exact c evs k :
  In k (drop_set c evs) <->
  In k (caller_drop c) \/ (na_action c = NaDrop /\ is_null_at evs k).
Proof.
  unfold drop_set. destruct (na_action c); rewrite sorted_In.
  - rewrite in_app_iff, all_nulls_spec. split; [intros [H|H]; auto | intros [H|[_ H]]; auto].
  - split; [auto | intros [H|[E _]]; [auto | discriminate]].
  - split; [auto | intros [H|[E _]]; [auto | discriminate]].
Qed.
Theorem drop_set_sorted c evs : strictly_sorted (drop_set c evs).
Proof. unfold drop_set. destruct (na_action c); apply sort_sorted. Qed.

(* the order in which the factor pool is evaluated is irrelevant *)
Theorem drop_set_order_independent c evs evs' : Permutation evs evs' -> drop_set c evs = drop_set c evs'.
Proof.
  intro P. apply sorted_unique; try apply drop_set_sorted.
  intro k. rewrite !drop_set_exact. unfold is_null_at.
  split; (intros [H|[E [p [Hp Hk]]]]; [left; exact H | right; split; [exact E|]; exists p; split; [|exact Hk]]).
  - eapply Permutation_in; eauto.
  - eapply Permutation_in; [apply Permutation_sym; exact P | exact Hp].
Qed.
(* with the ignore policy only the caller's rows go *)
Theorem ignore_keeps_all c evs k : na_action c = NaIgnore -> (In k (drop_set c evs) <-> In k (caller_drop c)).
Proof. intro E. rewrite drop_set_exact, E. split; [intros [H|[X _]]; [auto | discriminate] | auto]. Qed.

(* ---------- kept rows: exactly the positions outside the drop set, in the original order ---------- *)
Lemma memn_In i l : memn i l = true <-> In i l.
Proof. unfold memn. rewrite existsb_exists. split; [intros [x [Hx E]]; apply Nat.eqb_eq in E; subst; auto | intro H; exists i; split; auto; apply Nat.eqb_refl]. Qed.

Theorem keep_rows_exact {A} (v : list A) drop : forall i,
  keep_rows v drop i = map snd (filter (fun p => negb (memn (fst p) drop)) (combine (seq i (length v)) v)).
Proof.
  induction v as [|x r IH]; intro i; cbn; [reflexivity|].
  destruct (memn i drop); cbn; [apply IH | f_equal; apply IH].
Qed.
(* in particular a kept row is a row of the input at a position outside the drop set, and every such row is kept *)
Corollary keep_rows_In {A} (v : list A) drop x :
  In x (keep_rows v drop 0) <-> exists k, nth_error v k = Some x /\ ~ In k drop.
Proof.
  rewrite keep_rows_exact, in_map_iff. split.
  - intros [[k y] [E H]]. cbn in E. subst y. apply filter_In in H as [H1 H2]. cbn in H2.
    exists k. split.
    + clear H2.
      assert (G : forall (v : list A) i, In (k, x) (combine (seq i (length v)) v) -> nth_error v (k - i) = Some x /\ i <= k).
      { clear. induction v as [|y r IH]; intros i H; cbn in H; [contradiction|].
        destruct H as [H|H].
        - inversion H; subst. rewrite Nat.sub_diag. split; [reflexivity | lia].
        - apply IH in H as [H1 H2]. split; [|lia]. replace (k - i) with (S (k - S i)) by lia. exact H1. }
      apply G in H1 as [H1 _]. rewrite Nat.sub_0_r in H1. exact H1.
    + intro Hc. apply memn_In in Hc. rewrite Hc in H2. discriminate.
  - intros [k [Hk Hn]]. exists (k, x). split; [reflexivity|]. apply filter_In. split.
    + assert (G : forall (v : list A) i k, nth_error v k = Some x -> In (i + k, x) (combine (seq i (length v)) v)).
      { clear. induction v as [|y r IH]; intros i [|k] H; cbn in *; try discriminate.
        - inversion H; subst. left. f_equal. lia.
        - right. replace (i + S k) with (S i + k) by lia. apply IH. exact H. }
      apply (G v 0 k Hk).
    + cbn. destruct (memn k drop) eqn:E; auto. apply memn_In in E. contradiction.
Qed.

(* ---------- at the level of [build] ---------- *)
(* the reported set is exactly the drop set, whatever the formula, the rank-reduction flag or the output *)
Theorem build_reports_drop_set d n c terms o :
  build d n c terms = inl o -> exists evs, eval_pool d (pool_of terms) [] = inl evs /\ o_drop o = drop_set c evs.
Proof.
  unfold build, bind. destruct (eval_pool d (pool_of terms) []) as [evs|e]; [|discriminate].
  intro H. exists evs. split; [reflexivity|].
  destruct (na_action c); destruct (all_nulls evs); try discriminate; inversion H; reflexivity.
Qed.
(* raise policy: an error if and only if some evaluated factor has a null *)
Theorem raise_iff_null d n c terms evs :
  eval_pool d (pool_of terms) [] = inl evs -> na_action c = NaRaise ->
  (build d n c terms = inr ENullRaise <-> exists k, is_null_at evs k).
Proof.
  intros He Hn. unfold build, bind. rewrite He, Hn. split.
  - destruct (all_nulls evs) as [|k r] eqn:E; [discriminate|]. intros _. exists k. apply all_nulls_spec. rewrite E. left; reflexivity.
  - intros [k Hk]. apply all_nulls_spec in Hk. destruct (all_nulls evs); [contradiction | reflexivity].
Qed.
(* drop and ignore policies never raise for nulls *)
Theorem no_null_error_unless_raise d n c terms : na_action c <> NaRaise -> build d n c terms <> inr ENullRaise.
Proof.
  intro Hn. unfold build, bind. destruct (eval_pool d (pool_of terms) []) as [evs|e] eqn:Ee.
  - destruct (na_action c); [| congruence |]; destruct (all_nulls evs); discriminate.
  - intro H. inversion H. subst e.
    (* eval_pool never produces ENullRaise *)
    assert (G : forall l acc, eval_pool d l acc <> inr ENullRaise).
    { induction l as [|f r IH]; intros acc; cbn; [discriminate|].
      unfold eval_factor. destruct (fk f); [apply IH|]. destruct (lookup d (fx f)) as [[v|v dl]|]; [apply IH | apply IH | discriminate]. }
    exact (G _ _ Ee).
Qed.
