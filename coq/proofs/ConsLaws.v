(* ===== ConsLaws.v : a compiled constraint row is the affine map the expression denotes (C16) ===== *)
From Coq Require Import List NArith ZArith QArith Qcanon Bool Arith Lia.
Import ListNotations.
Require Import Tok Cons.
Open Scope Qc_scope.

(* ---------- denotation of a set of scaled factors at a point x ---------- *)
Definition point := str -> Qc.
Definition den1 (x : point) (p : sfac) : Qc := match fst p with None => snd p | Some v => snd p * x v end.
Fixpoint den (x : point) (c : list sfac) : Qc := match c with [] => Q2Qc 0 | p :: r => den1 x p + den x r end.

Lemma leqb_eq a b : leqb a b = true -> a = b.
Proof.
  revert b; induction a as [|u a IH]; destruct b as [|w b]; cbn; intro H; try discriminate; auto.
  apply andb_true_iff in H as [H1 H2]. apply N.eqb_eq in H1. subst. f_equal. auto.
Qed.
Lemma leqb_refl a : leqb a a = true.
Proof. induction a; cbn; auto. rewrite N.eqb_refl; auto. Qed.
Lemma key_eqb_eq a b : key_eqb a b = true <-> a = b.
Proof.
  destruct a as [a|], b as [b|]; cbn; split; intro H; try discriminate; auto.
  - apply leqb_eq in H. subst. reflexivity.
  - inversion H. apply leqb_refl.
Qed.
Lemma key_eqb_refl a : key_eqb a a = true. Proof. apply key_eqb_eq. reflexivity. Qed.
Lemma key_eqb_sym a b : key_eqb a b = key_eqb b a.
Proof.
  destruct (key_eqb a b) eqn:E. apply key_eqb_eq in E; subst; symmetry; apply key_eqb_refl.
  destruct (key_eqb b a) eqn:E'; auto. apply key_eqb_eq in E'; subst. rewrite key_eqb_refl in E. discriminate.
Qed.

(* sets: pairwise distinct factors *)
Definition uniq (c : list sfac) : Prop := NoDup (map fst c).

Lemma find_k_in k c q : find_k k c = Some q -> In (k, q) c.
Proof.
  induction c as [|[k' q'] r IH]; cbn; [discriminate|]. destruct (key_eqb k k') eqn:E.
  - intro H; inversion H; subst. apply key_eqb_eq in E. subst. left; reflexivity.
  - intro H. right. auto.
Qed.
Lemma find_k_none k c : find_k k c = None -> ~ In k (map fst c).
Proof.
  induction c as [|[k' q'] r IH]; cbn; [auto|]. destruct (key_eqb k k') eqn:E; [discriminate|].
  intros H [Hc|Hc]; [subst; rewrite key_eqb_refl in E; discriminate | exact (IH H Hc)].
Qed.
Lemma find_k_uniq k q c : uniq c -> In (k, q) c -> find_k k c = Some q.
Proof.
  unfold uniq. induction c as [|[k' q'] r IH]; cbn; intros Hnd Hin; [contradiction|].
  inversion Hnd as [|? ? Hn Hnd']; subst. destruct Hin as [Hin|Hin].
  - inversion Hin; subst. rewrite key_eqb_refl. reflexivity.
  - destruct (key_eqb k k') eqn:E; [|auto]. apply key_eqb_eq in E. subst. exfalso. apply Hn. apply in_map_iff. exists (k', q). auto.
Qed.

(* value of the binding of k in c (0 if absent), and the decomposition of den along one key *)
Definition coef (k : option str) (c : list sfac) : Qc := match find_k k c with Some q => q | None => Q2Qc 0 end.
Definition kval (x : point) (k : option str) : Qc := match k with None => Q2Qc 1 | Some v => x v end.
Lemma den1_kval x p : den1 x p = snd p * kval x (fst p).
Proof. unfold den1, kval. destruct (fst p); ring. Qed.

Lemma den_app x a b : den x (a ++ b) = den x a + den x b.
Proof. induction a as [|p r IH]; cbn; [ring | rewrite IH; ring]. Qed.
Lemma den_negate x a : den x (negate a) = - den x a.
Proof. unfold negate. induction a as [|p r IH]; cbn; [ring|]. rewrite IH. unfold den1. cbn. destruct (fst p); ring. Qed.

(* den of b splits into the part whose keys occur in a and the rest *)
Lemma den_split_filter x (f : sfac -> bool) b : den x b = den x (filter f b) + den x (filter (fun p => negb (f p)) b).
Proof. induction b as [|p r IH]; cbn; [ring|]. destruct (f p); cbn; rewrite IH; ring. Qed.

Lemma has_k_cons k' k q r : has_k k' ((k, q) :: r) = key_eqb k' k || has_k k' r.
Proof. unfold has_k. cbn [find_k]. destruct (key_eqb k' k); reflexivity. Qed.
Lemma has_k_notin k r : ~ In k (map fst r) -> has_k k r = false.
Proof.
  intro H. unfold has_k. destruct (find_k k r) eqn:F; auto. apply find_k_in in F. exfalso. apply H. apply in_map_iff. exists (k, q). auto.
Qed.
Lemma coef_notin k b : ~ In k (map fst b) -> coef k b = Q2Qc 0.
Proof.
  intro H. unfold coef. destruct (find_k k b) eqn:F; auto. apply find_k_in in F. exfalso. apply H. apply in_map_iff. exists (k, q). auto.
Qed.
Lemma coef_cons k k' q' b : coef k ((k', q') :: b) = if key_eqb k k' then q' else coef k b.
Proof. unfold coef. cbn [find_k]. destruct (key_eqb k k'); reflexivity. Qed.

Lemma filter_has_cons x k q r b : uniq b -> ~ In k (map fst r) ->
  den x (filter (fun p : sfac => has_k (fst p) ((k, q) :: r)) b) = den x (filter (fun p : sfac => has_k (fst p) r) b) + coef k b * kval x k.
Proof.
  unfold uniq. intros Hb Hn. induction b as [|[k' q'] b' IHb].
  - cbn. unfold coef. cbn. ring.
  - inversion Hb as [|? ? Hn' Hb']; subst. specialize (IHb Hb').
    cbn [filter fst]. rewrite has_k_cons, coef_cons. rewrite (key_eqb_sym k k').
    destruct (key_eqb k' k) eqn:E.
    + apply key_eqb_eq in E. subst k'. cbn [orb]. rewrite (has_k_notin k r Hn). cbn [den]. rewrite IHb.
      rewrite (coef_notin k b' Hn'). rewrite den1_kval. cbn [fst snd]. ring.
    + cbn [orb]. destruct (has_k k' r); cbn [den]; rewrite IHb; ring.
Qed.

Lemma den_matched x a b : uniq a -> uniq b ->
  den x (map (fun p : sfac => match find_k (fst p) b with Some q => (fst p, snd p + q) | None => p end) a)
  = den x a + den x (filter (fun p : sfac => has_k (fst p) a) b).
Proof.
  intros Ha Hb. induction a as [|[k q] r IH].
  - match goal with |- _ = _ + den x ?F => assert (E : F = []) by (clear; induction b; cbn; auto); rewrite E end.
    cbn. ring.
  - cbn [map den fst snd]. inversion Ha as [|? ? Hn Ha']; subst. rewrite (IH Ha').
    rewrite (filter_has_cons x k q r b Hb Hn).
    unfold coef. destruct (find_k k b) as [q0|]; rewrite !den1_kval; cbn [fst snd]; ring.
Qed.

Theorem den_add_terms x a b : uniq a -> uniq b -> den x (add_terms a b) = den x a + den x b.
Proof.
  intros Ha Hb. unfold add_terms. rewrite den_app, (den_matched x a b Ha Hb).
  rewrite (den_split_filter x (fun p => has_k (fst p) a) b). ring.
Qed.
Theorem den_sub_terms x a b : uniq a -> uniq b -> den x (sub_terms a b) = den x a - den x b.
Proof.
  intros Ha Hb. unfold sub_terms. rewrite den_app, den_negate.
  assert (H : den x (map (fun p : sfac => match find_k (fst p) b with Some q => (fst p, snd p - q) | None => p end) a)
              = den x a - den x (filter (fun p : sfac => has_k (fst p) a) b)).
  { pose proof (den_matched x a (negate b) Ha) as H.
    assert (Hnb : uniq (negate b)) by (unfold uniq, negate in *; rewrite map_map; cbn; exact Hb).
    specialize (H Hnb).
    assert (E1 : map (fun p => match find_k (fst p) (negate b) with Some q => (fst p, snd p + q) | None => p end) a
                 = map (fun p => match find_k (fst p) b with Some q => (fst p, snd p - q) | None => p end) a).
    { apply map_ext. intros [k q]. cbn [fst snd]. unfold negate. clear. induction b as [|[k' q'] r IH]; cbn; auto.
      destruct (key_eqb k k'); [f_equal; ring | exact IH]. }
    rewrite E1 in H. rewrite H.
    assert (E2 : filter (fun p => has_k (fst p) a) (negate b) = negate (filter (fun p : sfac => has_k (fst p) a) b)).
    { unfold negate. clear. induction b as [|[k' q'] r IH]; cbn; auto. destruct (has_k k' a); cbn; rewrite IH; reflexivity. }
    rewrite E2, den_negate. ring. }
  rewrite H. rewrite (den_split_filter x (fun p => has_k (fst p) a) b). ring.
Qed.

(* ---------- the operations keep factor sets duplicate-free ---------- *)
Lemma map_fst_matched (a b : list sfac) (f : Qc -> Qc -> Qc) :
  map fst (map (fun p : sfac => match find_k (fst p) b with Some q => (fst p, f (snd p) q) | None => p end) a) = map fst a.
Proof. rewrite map_map. apply map_ext. intros [k q]. cbn. destruct (find_k k b); reflexivity. Qed.
Lemma NoDup_app_disjoint {A} (l1 l2 : list A) : NoDup l1 -> NoDup l2 -> (forall x, In x l1 -> ~ In x l2) -> NoDup (l1 ++ l2).
Proof.
  induction l1 as [|x r IH]; cbn; intros H1 H2 Hd; auto. inversion H1; subst. constructor.
  - intro Hc. apply in_app_or in Hc as [Hc|Hc]; [contradiction | exact (Hd x (or_introl eq_refl) Hc)].
  - apply IH; auto; intros y Hy; apply Hd; right; exact Hy.
Qed.
Lemma has_k_in k a : has_k k a = true <-> In k (map fst a).
Proof.
  unfold has_k. destruct (find_k k a) eqn:F; split; intro H; try discriminate; auto.
  - apply find_k_in in F. apply in_map_iff. exists (k, q). auto.
  - exfalso. apply (find_k_none _ _ F). exact H.
Qed.
Lemma uniq_filter (f : sfac -> bool) b : uniq b -> uniq (filter f b).
Proof.
  unfold uniq. induction b as [|p r IH]; cbn; auto. intro H. inversion H; subst. destruct (f p); cbn; auto.
  constructor; auto. intro Hc. apply H2. apply in_map_iff in Hc as [y [Hy Hin]]. apply filter_In in Hin as [Hin _].
  apply in_map_iff. exists y. auto.
Qed.
Lemma uniq_negate a : uniq a -> uniq (negate a).
Proof. unfold uniq, negate. rewrite map_map. cbn. auto. Qed.
Theorem uniq_add_terms a b : uniq a -> uniq b -> uniq (add_terms a b).
Proof.
  intros Ha Hb. unfold uniq, add_terms. rewrite map_app. rewrite (map_fst_matched a b Qcplus).
  apply NoDup_app_disjoint; auto.
  - apply (uniq_filter (fun p : sfac => negb (has_k (fst p) a)) b Hb).
  - intros k Hk Hc. apply in_map_iff in Hc as [[k' q'] [Hk' Hin]]. cbn in Hk'. subst k'. apply filter_In in Hin as [_ Hn].
    cbn in Hn. apply negb_true_iff in Hn. apply has_k_in in Hk. congruence.
Qed.
Theorem uniq_sub_terms a b : uniq a -> uniq b -> uniq (sub_terms a b).
Proof.
  intros Ha Hb. unfold uniq, sub_terms. rewrite map_app. rewrite (map_fst_matched a b Qcminus).
  apply NoDup_app_disjoint; auto.
  - apply uniq_negate. apply (uniq_filter (fun p : sfac => negb (has_k (fst p) a)) b Hb).
  - intros k Hk Hc. unfold negate in Hc. rewrite map_map in Hc. cbn in Hc.
    apply in_map_iff in Hc as [[k' q'] [Hk' Hin]]. cbn in Hk'. subst k'. apply filter_In in Hin as [_ Hn].
    cbn in Hn. apply negb_true_iff in Hn. apply has_k_in in Hk. congruence.
Qed.

(* ---------- products and quotients ---------- *)
Lemma den1_mul_term x l r t : mul_term l r = inl t -> den1 x t = den1 x l * den1 x r.
Proof.
  unfold mul_term, den1. destruct l as [[kl|] ql], r as [[kr|] qr]; cbn; intro H; inversion H; subst; cbn; ring.
Qed.
Lemma den1_div_term x l r t : div_term l r = inl t -> fst r = None /\ snd r <> Q2Qc 0 /\ den1 x t = den1 x l / snd r.
Proof.
  unfold div_term, den1. destruct r as [[kr|] qr]; cbn; [discriminate|].
  destruct (Qc_eq_bool qr (Q2Qc 0)) eqn:E; [discriminate|]. intro H; inversion H; subst; cbn.
  assert (qr <> Q2Qc 0) by (intro Hc; subst; rewrite Qc_eq_bool_refl in E || (unfold Qc_eq_bool in E; destruct (Qc_eq_dec (Q2Qc 0) (Q2Qc 0)); congruence)).
  repeat split; auto. destruct (fst l); field; auto.
Qed.

Fixpoint sum_pairs (x : point) (g : Qc -> Qc -> Qc) (ps : list (sfac * sfac)) : Qc :=
  match ps with [] => Q2Qc 0 | (l, r) :: rest => g (den1 x l) (den1 x r) + sum_pairs x g rest end.

Lemma fold_pairs x (f : sfac -> sfac -> res sfac) (g : Qc -> Qc -> Qc) ps :
  (forall l r t, In (l, r) ps -> f l r = inl t -> den1 x t = g (den1 x l) (den1 x r)) ->
  forall acc p, uniq acc ->
  fold_left (fun acc lr => match acc with inr e => inr e | inl ts =>
                             match f (fst lr) (snd lr) with inl t => inl (add_terms ts [t]) | inr e => inr e end end) ps (inl acc) = inl p ->
  uniq p /\ den x p = den x acc + sum_pairs x g ps.
Proof.
  induction ps as [|[l r] rest IH]; intros Hf acc p Hu H; cbn [fold_left sum_pairs] in *.
  - inversion H; subst. split; auto. ring.
  - cbn [fst snd] in H. destruct (f l r) as [t|e] eqn:E.
    + assert (Hu1 : uniq [t]) by (unfold uniq; cbn; constructor; [intros [] | constructor]).
      destruct (IH (fun l' r' t' Hin => Hf l' r' t' (or_intror Hin)) _ _ (uniq_add_terms _ _ Hu Hu1) H) as [H1 H2].
      split; auto. rewrite H2, den_add_terms by auto. cbn [den]. rewrite (Hf l r t (or_introl eq_refl) E). ring.
    + exfalso. clear - H. induction rest as [|x' r' IH']; cbn in H; [discriminate | auto].
Qed.

Lemma sum_pairs_product x a b :
  sum_pairs x Qcmult (flat_map (fun l => map (fun r => (l, r)) b) a) = den x a * den x b.
Proof.
  induction a as [|l a IH]; cbn; [ring|].
  assert (G : forall rest, sum_pairs x Qcmult (map (fun r => (l, r)) b ++ rest) = den1 x l * den x b + sum_pairs x Qcmult rest).
  { clear IH. induction b as [|r b' IHb]; intro rest; cbn [map app sum_pairs den]; [ring|]. rewrite IHb. ring. }
  rewrite G, IH. ring.
Qed.
Theorem den_mul_terms x a b p : uniq a -> uniq b -> pairwise mul_term a b = inl p -> uniq p /\ den x p = den x a * den x b.
Proof.
  intros Ha Hb H. unfold pairwise in H.
  destruct (fold_pairs x mul_term Qcmult _ (fun l r t _ E => den1_mul_term x l r t E) [] p ltac:(constructor) H) as [H1 H2].
  split; auto. rewrite H2, sum_pairs_product. cbn. ring.
Qed.

(* division: succeeds only by a non-zero scalar, and divides every coefficient by it *)
Lemma scalar_set b : uniq b -> (forall r, In r b -> fst r = None) -> b = [] \/ exists c, b = [(None, c)].
Proof.
  intros Hu Hs. destruct b as [|[k c] [|[k2 c2] rest]].
  - left; reflexivity.
  - right. exists c. rewrite (Hs (k, c) (or_introl eq_refl) : k = None). reflexivity.
  - exfalso. assert (k = None) by (apply (Hs (k, c)); left; reflexivity).
    assert (k2 = None) by (apply (Hs (k2, c2)); right; left; reflexivity). subst.
    unfold uniq in Hu. cbn in Hu. inversion Hu; subst. apply H1. left; reflexivity.
Qed.
Lemma den1_div_term' x l r t : div_term l r = inl t -> den1 x t = den1 x l / den1 x r.
Proof.
  intro H. destruct (den1_div_term x l r t H) as (H1 & H2 & H3). rewrite H3. f_equal.
  unfold den1. rewrite H1. reflexivity.
Qed.
Definition pstep (f : sfac -> sfac -> res sfac) (acc : res (list sfac)) (lr : sfac * sfac) : res (list sfac) :=
  match acc with inr e => inr e | inl ts => match f (fst lr) (snd lr) with inl t => inl (add_terms ts [t]) | inr e => inr e end end.
Lemma fold_err f ps e : fold_left (pstep f) ps (inr e) = inr e.
Proof. induction ps as [|x r IH]; cbn; auto. Qed.
Lemma fold_all_ok f ps : forall acc p, fold_left (pstep f) ps (inl acc) = inl p -> forall l r, In (l, r) ps -> exists t, f l r = inl t.
Proof.
  induction ps as [|[l' r'] rest IH]; intros acc p H l r Hin; [contradiction|].
  cbn [fold_left pstep fst snd] in H. destruct (f l' r') as [t|e] eqn:E; [|rewrite fold_err in H; discriminate].
  destruct Hin as [Hin|Hin]; [inversion Hin; subst; eauto | eapply IH; eauto].
Qed.

Theorem den_div_terms x a b p : uniq a -> uniq b -> a <> [] -> pairwise div_term a b = inl p ->
  uniq p /\ ((b = [] /\ p = []) \/ exists c, b = [(None, c)] /\ c <> Q2Qc 0 /\ den x p = den x a / c).
Proof.
  intros Ha Hb Hne H. unfold pairwise in H. change (fun acc lr => _) with (pstep div_term) in H.
  assert (Hs : forall r, In r b -> fst r = None /\ snd r <> Q2Qc 0).
  { intros r Hr. destruct a as [|l a']; [congruence|].
    destruct (fold_all_ok div_term _ _ _ H l r) as [t Ht].
    - cbn. apply in_or_app. left. apply in_map. exact Hr.
    - destruct (den1_div_term x l r t Ht) as (H1 & H2 & _). auto. }
  destruct (scalar_set b Hb (fun r Hr => proj1 (Hs r Hr))) as [-> | [c ->]].
  - assert (E : flat_map (fun l : sfac => map (fun r : sfac => (l, r)) (@nil sfac)) a = []) by (clear; induction a; cbn; auto).
    rewrite E in H. cbn in H. inversion H; subst. split; [constructor | left; auto].
  - destruct (Hs (None, c) (or_introl eq_refl)) as [_ Hc]. cbn in Hc.
    destruct (fold_pairs x div_term Qcdiv _ (fun l r t _ E => den1_div_term' x l r t E) [] p ltac:(constructor) H) as [H1 H2].
    split; auto. right. exists c. repeat split; auto. rewrite H2. cbn [den].
    assert (G : sum_pairs x Qcdiv (flat_map (fun l : sfac => map (fun r : sfac => (l, r)) [(None, c)]) a) = den x a / c).
    { clear - Hc. induction a as [|l a IH]; cbn [flat_map map app sum_pairs den]; [field; auto|].
      cbn [map] in IH. rewrite IH. unfold den1 at 2. cbn [fst snd]. field. auto. }
    rewrite G. ring.
Qed.

(* ---------- the arithmetic meaning of a constraint expression, and soundness of its compilation ---------- *)
Fixpoint aeval (x : point) (a : ast) : Qc :=
  match a with
  | ALeaf t => match kd t with KValue => lit_val (tx t) | _ => x (tx t) end
  | ANode o args =>
      match osem o, args with
      | SEq, [l; r] => aeval x l - aeval x r          (* "l = r"  stands for  l - r = 0 *)
      | SAdd, [l; r] => aeval x l + aeval x r
      | SSub, [l; r] => aeval x l - aeval x r
      | SPos, [u] => aeval x u
      | SNeg, [u] => - aeval x u
      | SMul, [l; r] => aeval x l * aeval x r
      | SDiv, [l; r] => aeval x l / aeval x r
      | _, _ => Q2Qc 0
      end
  end.

Definition good (c : list sfac) : Prop := uniq c /\ c <> [].
Lemma add_terms_nonempty a b : a <> [] -> add_terms a b <> [].
Proof. unfold add_terms. destruct a; [congruence|]. cbn. discriminate. Qed.
Lemma sub_terms_nonempty a b : a <> [] -> sub_terms a b <> [].
Proof. unfold sub_terms. destruct a; [congruence|]. cbn. discriminate. Qed.
Lemma negate_nonempty a : a <> [] -> negate a <> [].
Proof. destruct a; [congruence|]. cbn. discriminate. Qed.
Lemma pairwise_nonempty f a b p : a <> [] -> b <> [] -> pairwise f a b = inl p -> p <> [].
Proof.
  intros Ha Hb. unfold pairwise. destruct a as [|l a]; [congruence|]. destruct b as [|r b]; [congruence|].
  cbn [flat_map map app]. change (fun acc lr => _) with (pstep f).
  cbn [fold_left pstep fst snd]. destruct (f l r) as [t|e]; [|rewrite fold_err; discriminate].
  assert (G : forall ps acc p, acc <> [] -> fold_left (pstep f) ps (inl acc) = inl p -> p <> []).
  { induction ps as [|[l' r'] rest IH]; intros acc p' Hacc H; cbn in H; [inversion H; subst; auto|].
    destruct (f l' r'); [|rewrite fold_err in H; discriminate]. eapply IH; [|exact H]. apply add_terms_nonempty. exact Hacc. }
  apply G. cbn. discriminate.
Qed.

Theorem eval_sound fuel : forall a c, eval fuel a = inl (VSet c) -> good c /\ forall x, den x c = aeval x a.
Proof.
  induction fuel as [|fuel IH]; intros a c H; [discriminate|].
  destruct a as [t|o args]; cbn [eval] in H.
  - destruct (kd t) eqn:Ek; try (inversion H; subst; split; [split; [unfold uniq; cbn; constructor; [intros []|constructor] | discriminate]
                                   | intro x; cbn; rewrite Ek; unfold den1; cbn; ring]).
    destruct (lit_ok (tx t)); [|destruct (tx t) as [|u ?]; [discriminate | destruct ((u =? 34)%N || (u =? 39)%N); discriminate]].
    inversion H; subst. split; [split; [unfold uniq; cbn; constructor; [intros []|constructor] | discriminate]|].
    intro x. cbn. rewrite Ek. unfold den1. cbn. ring.
  - (* operator node: evaluate the arguments, then apply *)
    assert (Hunary : forall u, args = [u] -> forall v, eval fuel u = inl v -> apply_op o [v] = inl (VSet c) ->
                     good c /\ forall x, den x c = aeval x (ANode o args)).
    { intros u -> v Hu Hap. unfold apply_op in Hap. destruct (osem o) eqn:Es; try discriminate;
        destruct v as [s|ts]; cbn in Hap; try discriminate; inversion Hap; subst;
        destruct (IH _ _ Hu) as [[Hq Hn] Hd].
      - split; [split; auto|]. intro x. cbn. rewrite Es. apply Hd.
      - split; [split; [apply uniq_negate; auto | apply negate_nonempty; auto]|]. intro x. cbn. rewrite Es, den_negate, Hd. reflexivity. }
    assert (Hbinary : forall l r, args = [l; r] -> forall vl vr, eval fuel l = inl vl -> eval fuel r = inl vr -> apply_op o [vl; vr] = inl (VSet c) ->
                      good c /\ forall x, den x c = aeval x (ANode o args)).
    { intros l r -> vl vr Hl Hr Hap. unfold apply_op in Hap. destruct (osem o) eqn:Es; try discriminate;
        destruct vl as [sl|tl]; destruct vr as [sr|tr]; cbn in Hap; try discriminate;
        destruct (IH _ _ Hl) as [[Hql Hnl] Hdl]; destruct (IH _ _ Hr) as [[Hqr Hnr] Hdr].
      - inversion Hap; subst. split; [split; [apply uniq_add_terms; auto; apply uniq_negate; auto | apply add_terms_nonempty; auto]|].
        intro x. cbn. rewrite Es. rewrite den_add_terms by (auto; apply uniq_negate; auto). rewrite den_negate, Hdl, Hdr. ring.
      - inversion Hap; subst. split; [split; [apply uniq_add_terms; auto | apply add_terms_nonempty; auto]|].
        intro x. cbn. rewrite Es. rewrite den_add_terms by auto. rewrite Hdl, Hdr. reflexivity.
      - inversion Hap; subst. split; [split; [apply uniq_sub_terms; auto | apply sub_terms_nonempty; auto]|].
        intro x. cbn. rewrite Es. rewrite den_sub_terms by auto. rewrite Hdl, Hdr. reflexivity.
      - destruct (pairwise mul_term sl sr) as [p|e] eqn:Ep; cbn in Hap; [|discriminate]. inversion Hap; subst.
        split; [split; [apply (den_mul_terms (fun _ => Q2Qc 0) sl sr c Hql Hqr Ep) | exact (pairwise_nonempty mul_term sl sr c Hnl Hnr Ep)]|].
        intro x. cbn. rewrite Es. destruct (den_mul_terms x sl sr c Hql Hqr Ep) as [_ ->]. rewrite Hdl, Hdr. reflexivity.
      - destruct (pairwise div_term sl sr) as [p|e] eqn:Ep; cbn in Hap; [|discriminate]. inversion Hap; subst.
        split; [split; [apply (den_div_terms (fun _ => Q2Qc 0) sl sr c Hql Hqr Hnl Ep) | exact (pairwise_nonempty div_term sl sr c Hnl Hnr Ep)]|].
        intro x. cbn. rewrite Es. destruct (den_div_terms x sl sr c Hql Hqr Hnl Ep) as [_ [[Hb _] | [q [Hb [Hq Hd]]]]]; [congruence|].
        rewrite Hd, Hdl. f_equal. rewrite <- Hdr, Hb. cbn. unfold den1. cbn. ring. }
    destruct args as [|a1 [|a2 [|a3 rest]]].
    + cbn in H. unfold apply_op in H. destruct (osem o); discriminate.
    + cbn in H. destruct (eval fuel a1) as [v1|e] eqn:E1; [|discriminate]. cbn in H. eapply Hunary; eauto.
    + cbn in H. destruct (eval fuel a1) as [v1|e] eqn:E1; [|discriminate].
      destruct (eval fuel a2) as [v2|e] eqn:E2; [|discriminate]. cbn in H. eapply Hbinary; eauto.
    + exfalso. cbn in H. destruct (eval fuel a1) as [v1|]; [|discriminate]. destruct (eval fuel a2) as [v2|]; [|discriminate].
      destruct (eval fuel a3) as [v3|]; [|discriminate].
      assert (G : forall l acc, (3 <= length acc)%nat ->
                  (fix go (l : list ast) (acc : list cval) : res cval :=
                     match l with [] => apply_op o (rev acc) | x :: r => match eval fuel x with inl v => go r (v :: acc) | inr e => inr e end end) l acc
                  <> inl (VSet c)).
      { induction l as [|y l IHl]; intros acc Hacc.
        - unfold apply_op. destruct (rev acc) as [|b1 [|b2 [|b3 rb]]] eqn:Er;
            try (apply (f_equal (@length cval)) in Er; rewrite rev_length in Er; cbn in Er; lia).
          destruct (osem o); discriminate.
        - destruct (eval fuel y); [apply IHl; cbn; lia | discriminate]. }
      apply (G rest [v3; v2; v1]); [cbn; lia | exact H].
Qed.

(* ---------- get_matrix: the row and the constant are the affine form of the factor set ---------- *)
Fixpoint dot (row : list Qc) (xs : list Qc) : Qc := match row, xs with a :: r, b :: s => a * b + dot r s | _, _ => Q2Qc 0 end.
Definition lin (x : point) (vars : list str) (c : list sfac) : Qc :=
  dot (map (fun v => coef (Some v) c) vars) (map x vars).

Lemma lin_cons_none x vars q r : lin x vars ((None, q) :: r) = lin x vars r.
Proof. unfold lin. induction vars as [|v vs IH]; cbn [map dot]; auto. Qed.
Lemma lin_cons_other x vars w q r : ~ In w vars -> lin x vars ((Some w, q) :: r) = lin x vars r.
Proof.
  unfold lin. induction vars as [|v vs IH]; intro Hn; cbn; auto. rewrite IH by (intro Hc; apply Hn; right; exact Hc).
  unfold coef. cbn [find_k key_eqb]. destruct (leqb v w) eqn:E; auto. apply leqb_eq in E. subst. exfalso. apply Hn. left; reflexivity.
Qed.
Lemma lin_cons_some x vars w q r : NoDup vars -> In w vars -> ~ In (Some w) (map fst r) ->
  lin x vars ((Some w, q) :: r) = q * x w + lin x vars r.
Proof.
  unfold lin. induction vars as [|v vs IH]; intros Hnd Hin Hnk; [contradiction|].
  inversion Hnd as [|? ? Hn Hnd']; subst. cbn [map dot].
  destruct Hin as [->|Hin].
  - fold (lin x vs ((Some w, q) :: r)). fold (lin x vs r). rewrite lin_cons_other by exact Hn.
    unfold coef at 1. cbn [find_k key_eqb]. rewrite leqb_refl. rewrite (coef_notin (Some w) r Hnk). ring.
  - rewrite IH by auto. unfold coef at 1 3. cbn [find_k key_eqb].
    destruct (leqb v w) eqn:E; [apply leqb_eq in E; subst; contradiction|]. ring.
Qed.

Lemma lin_nil x vars : lin x vars [] = Q2Qc 0.
Proof. unfold lin. induction vars as [|v vs IH]; cbn [map dot]; [reflexivity|]. rewrite IH. unfold coef. cbn [find_k]. ring. Qed.
Theorem den_affine x vars c : NoDup vars -> uniq c ->
  (forall k, In (Some k) (map fst c) -> In k vars) -> den x c = lin x vars c + coef None c.
Proof.
  intros Hv. induction c as [|[k q] r IH]; intros Hu Hk.
  - rewrite lin_nil. unfold coef. cbn. ring.
  - unfold uniq in Hu. cbn in Hu. inversion Hu as [|? ? Hn Hu']; subst. cbn [den].
    rewrite (IH Hu' (fun k' Hk' => Hk k' (or_intror Hk'))). destruct k as [w|].
    + rewrite (lin_cons_some x vars w q r Hv (Hk w (or_introl eq_refl)) Hn). unfold den1, coef. cbn. ring.
    + rewrite lin_cons_none. unfold den1. cbn [fst snd]. unfold coef at 2. cbn [find_k key_eqb]. rewrite (coef_notin None r Hn). ring.
Qed.

(* One compiled row: A.x - b equals the value of the expression, lhs(x) - rhs(x), for EVERY x. *)
Theorem row_sound vars c row b : NoDup vars -> uniq c -> row_of vars c = inl (row, b) ->
  forall x, dot row (map x vars) - b = den x c.
Proof.
  intros Hv Hu H x. unfold row_of in H.
  destruct (forallb _ c) eqn:E; [|discriminate]. inversion H; subst; clear H.
  rewrite (den_affine x vars c Hv Hu).
  - unfold lin, coef. ring.
  - intros k Hk. rewrite forallb_forall in E. apply in_map_iff in Hk as [[k' q] [Hk' Hin]]. cbn in Hk'. subst k'.
    specialize (E _ Hin). cbn in E. apply existsb_exists in E as [v [Hv' El]]. apply leqb_eq in El. subst. exact Hv'.
Qed.
(* columns outside the variable list are rejected (KeyError in the implementation) *)
Theorem row_unknown_column vars c : (exists k q, In (Some k, q) c /\ ~ In k vars) -> row_of vars c = inr 6%nat.
Proof.
  intros (k & q & Hin & Hn). unfold row_of. destruct (forallb _ c) eqn:E; auto. exfalso.
  rewrite forallb_forall in E. specialize (E _ Hin). cbn in E. apply existsb_exists in E as [v [Hv El]]. apply leqb_eq in El. subst. contradiction.
Qed.
(* a product of two variable-bearing operands, or a variable-bearing divisor, is rejected: non-linear *)
Theorem nonlinear_product_rejected l r : fst l <> None -> fst r <> None -> mul_term l r = inr 9%nat.
Proof. unfold mul_term. destruct l as [[?|] ?], r as [[?|] ?]; cbn; intros H1 H2; congruence. Qed.
Theorem variable_divisor_rejected l r : fst r <> None -> div_term l r = inr 9%nat.
Proof. unfold div_term. destruct r as [[?|] ?]; cbn; intro H; congruence. Qed.
