(* ===== SubsetReplay.v : a spec subset to chosen terms regenerates exactly the parent's columns for those terms (C10, matrix level) =====
   The replay of a recorded structure treats every structure row on its own: the columns a row yields are a function of the
   recorded encoder state, the row, the drop set and the evaluated values of the row's OWN factors only.  Hence any selection of
   the parent's rows, in any order, replayed with the same encoder state on the same kept rows, yields per term exactly the
   columns the parent yields for that term. *)
From Coq Require Import List NArith ZArith QArith Qcanon Bool Arith Lia.
Import ListNotations.
Require Import Mat Mat2 ReplayLaws MatSep.
Open Scope nat_scope.

(* what one structure row replays to *)
Definition term_replay (enc : list (str * ekind)) (evs : list (str * ev)) (drop : list nat) (nkeep : nat)
                       (row : list sterm * list str) : (list (str * column)) + rerr :=
  let sp := {| sp_terms := []; sp_struct := []; sp_enc := enc; sp_cfg := {| full_rank := true; na_action := NaDrop; caller_drop := [] |} |} in
  enforce (fold_left (fun dct st => dict_update dct (rcols_of sp evs drop nkeep st)) (fst row) []) (snd row) nkeep.

Lemma rcols_of_enc sp sp' evs drop nk st : sp_enc sp = sp_enc sp' -> rcols_of sp evs drop nk st = rcols_of sp' evs drop nk st.
Proof. intro H. unfold rcols_of. rewrite H. reflexivity. Qed.

Lemma fold_cols_enc sp sp' evs drop nk : sp_enc sp = sp_enc sp' -> forall sts acc,
  fold_left (fun dct st => dict_update dct (rcols_of sp evs drop nk st)) sts acc =
  fold_left (fun dct st => dict_update dct (rcols_of sp' evs drop nk st)) sts acc.
Proof. intros H. induction sts as [|st r IH]; intro acc; cbn [fold_left]; [reflexivity|]. rewrite (rcols_of_enc sp sp' _ _ _ _ H). apply IH. Qed.

(* replay_terms is the row-by-row fold of term_replay *)
Theorem replay_terms_per_term sp evs drop nk : forall rows acc out,
  replay_terms sp evs drop nk rows acc = inl out <->
  exists per, Forall2 (fun row cols => term_replay (sp_enc sp) evs drop nk row = inl cols) rows per /\ out = fold_left dict_update per acc.
Proof.
  induction rows as [|[sts target] r IH]; intros acc out; cbn [replay_terms].
  - split.
    + intro H. inversion H. exists []. split; [constructor | reflexivity].
    + intros (per & F & ->). inversion F. reflexivity.
  - assert (E : enforce (fold_left (fun dct st => dict_update dct (rcols_of sp evs drop nk st)) sts []) target nk
                = term_replay (sp_enc sp) evs drop nk (sts, target)).
    { unfold term_replay. cbn [fst snd]. erewrite fold_cols_enc; [reflexivity | reflexivity]. }
    rewrite E. destruct (term_replay (sp_enc sp) evs drop nk (sts, target)) as [cols|e] eqn:T.
    + rewrite IH. split.
      * intros (per & F & ->). exists (cols :: per). split; [constructor; assumption | reflexivity].
      * intros (per & F & ->). inversion F as [|? c0 ? per' Hc F']; subst. rewrite T in Hc. inversion Hc; subst.
        exists per'. split; [exact F' | reflexivity].
    + split; [discriminate|]. intros (per & F & _). inversion F as [|? c0 ? per' Hc F']; subst. rewrite T in Hc. discriminate.
Qed.

(* a row reads the evaluated pool only at its own factor expressions *)
Definition row_agree (evs evs' : list (str * ev)) (row : list sterm * list str) :=
  forall st sf, In st (fst row) -> In sf (st_f st) -> lookup_ev evs (sf_expr sf) = lookup_ev evs' (sf_expr sf).
Lemma rcols_of_ext sp evs evs' drop nk st : (forall sf, In sf (st_f st) -> lookup_ev evs (sf_expr sf) = lookup_ev evs' (sf_expr sf)) ->
  rcols_of sp evs drop nk st = rcols_of sp evs' drop nk st.
Proof.
  intro H. unfold rcols_of. destruct (st_f st) as [|sf fs] eqn:E; [reflexivity|]. f_equal. f_equal.
  apply map_ext_in. intros g Hg. rewrite (H g Hg). reflexivity.
Qed.
Theorem term_replay_ext enc evs evs' drop nk row : row_agree evs evs' row -> term_replay enc evs drop nk row = term_replay enc evs' drop nk row.
Proof.
  intro H. unfold term_replay. f_equal. destruct row as [sts target]. cbn [fst] in *. unfold row_agree in H. cbn [fst] in H.
  generalize (@nil (str * column)). induction sts as [|st r IH]; intro acc; cbn [fold_left]; [reflexivity|].
  rewrite (rcols_of_ext _ evs evs' drop nk st) by (intros sf Hsf; apply (H st sf (or_introl eq_refl) Hsf)).
  apply IH. intros st' sf Hst Hsf. apply (H st' sf (or_intror Hst) Hsf).
Qed.

(* ANY selection of the parent's rows, in ANY order: the replay succeeds whenever the parent's does, and every selected term gets
   exactly the columns it gets in the parent (same recorded encoder state, same kept rows, pools agreeing on the selected factors) *)
Theorem subset_replay_terms sp sub evs evs' drop nk out :
  sp_enc sub = sp_enc sp -> incl (sp_struct sub) (sp_struct sp) -> (forall row, In row (sp_struct sub) -> row_agree evs evs' row) ->
  replay_terms sp evs drop nk (sp_struct sp) [] = inl out ->
  exists per, Forall2 (fun row cols => term_replay (sp_enc sp) evs drop nk row = inl cols) (sp_struct sub) per /\
              replay_terms sub evs' drop nk (sp_struct sub) [] = inl (fold_left dict_update per []).
Proof.
  intros He Hin Hag Hp. apply replay_terms_per_term in Hp as (per & F & _).
  assert (G : forall rows, incl rows (sp_struct sp) -> exists per', Forall2 (fun row cols => term_replay (sp_enc sp) evs drop nk row = inl cols) rows per').
  { induction rows as [|row r IH]; intro Hi; [exists []; constructor|].
    destruct IH as [per' F']; [intros x Hx; apply Hi; right; exact Hx|].
    assert (Hr : In row (sp_struct sp)) by (apply Hi; left; reflexivity).
    clear - F Hr F'. revert Hr. induction F as [|row0 c0 rows0 per0 H0 _ IHF]; intro Hr; [destruct Hr|].
    destruct Hr as [->|Hr]; [exists (c0 :: per'); constructor; assumption | apply IHF, Hr]. }
  destruct (G (sp_struct sub) Hin) as [per' F']. exists per'. split; [exact F'|].
  apply replay_terms_per_term. exists per'. split; [|reflexivity]. rewrite He.
  clear - F' Hag. induction F' as [|row c rows per' H _ IH]; [constructor|]. constructor.
  - rewrite <- (term_replay_ext _ evs evs' drop nk row); [exact H | apply Hag; left; reflexivity].
  - apply IH. intros r Hr. apply Hag. right. exact Hr.
Qed.

(* the evaluated pools of the subset and of the parent agree on every factor both evaluate *)
Lemma pools_agree d terms terms' evs evs' : consistent (concat terms) -> incl (concat terms') (concat terms) ->
  eval_pool d (pool_of terms) [] = inl evs -> eval_pool d (pool_of terms') [] = inl evs' ->
  forall g, In g (concat terms') -> lookup_ev evs (fx g) = lookup_ev evs' (fx g).
Proof.
  intros Hc Hi He He' g Hg.
  assert (Hc' : consistent (concat terms')) by (intros f1 f2 H1 H2; apply Hc; auto).
  destruct (pool_lookup d terms evs g Hc He (Hi g Hg)) as (v & Hv & Hev).
  destruct (pool_lookup d terms' evs' g Hc' He' Hg) as (v' & Hv' & Hev').
  rewrite Hv, Hv'. rewrite Hev in Hev'. inversion Hev'. reflexivity.
Qed.

(* the whole pipeline: the subset spec (chosen terms, their rows, the parent's encoder state and configuration) replayed on the
   same data keeps the same rows as the parent whenever the drop sets coincide (no nulls outside the chosen terms, or a policy other than
   'drop'), and then its matrix is, term by term, the parent's columns *)
Theorem subset_replay sp sub d n caller names cols drop :
  sp_enc sub = sp_enc sp -> sp_cfg sub = sp_cfg sp -> incl (sp_struct sub) (sp_struct sp) ->
  consistent (concat (sp_terms sp)) -> incl (concat (sp_terms sub)) (concat (sp_terms sp)) ->
  (forall row st sf, In row (sp_struct sub) -> In st (fst row) -> In sf (st_f st) -> exists g, In g (concat (sp_terms sub)) /\ fx g = sf_expr sf) ->
  replay sp d n caller = inl (names, cols, drop) ->
  forall evs evs', eval_pool d (pool_of (sp_terms sp)) [] = inl evs -> eval_pool d (pool_of (sp_terms sub)) [] = inl evs' ->
  drop_set {| full_rank := full_rank (sp_cfg sp); na_action := na_action (sp_cfg sp); caller_drop := caller |} evs' = drop ->
  (na_action (sp_cfg sp) = NaRaise -> all_nulls evs' = []) ->
  exists per, Forall2 (fun row c => term_replay (sp_enc sp) evs drop (n - length drop) row = inl c) (sp_struct sub) per /\
              replay sub d n caller = inl (map fst (fold_left dict_update per []), map snd (fold_left dict_update per []), drop).
Proof.
  intros He Hcfg Hin Hcons Hsubt Hclosed Hp evs evs' Hev Hev' Hdrop Hraise.
  unfold replay in Hp. rewrite Hev in Hp.
  destruct (negb (forallb (kind_ok (sp_enc sp)) evs)) eqn:K; [discriminate|].
  set (c := {| full_rank := full_rank (sp_cfg sp); na_action := na_action (sp_cfg sp); caller_drop := caller |}) in *.
  assert (Hp' : exists final, replay_terms sp evs (drop_set c evs) (n - length (drop_set c evs)) (sp_struct sp) [] = inl final /\ drop_set c evs = drop).
  { destruct (na_action c) eqn:NA; try (destruct (all_nulls evs); [|discriminate]);
      destruct (replay_terms sp evs (drop_set c evs) (n - length (drop_set c evs)) (sp_struct sp) []) as [final|] eqn:R; try discriminate;
      inversion Hp; subst; eexists; split; reflexivity. }
  destruct Hp' as (final & R & Hd). rewrite Hd in R.
  assert (Hag : forall row, In row (sp_struct sub) -> row_agree evs evs' row).
  { intros row Hrow st sf Hst Hsf. destruct (Hclosed row st sf Hrow Hst Hsf) as (g & Hg & <-).
    apply (pools_agree d (sp_terms sp) (sp_terms sub) evs evs' Hcons Hsubt Hev Hev' g Hg). }
  destruct (subset_replay_terms sp sub evs evs' drop (n - length drop) final He Hin Hag R) as (per & F & R').
  exists per. split; [exact F|].
  unfold replay. rewrite Hev', He, Hcfg.
  (* the kind guard: every factor the subset evaluates is evaluated by the parent with the same value *)
  assert (K' : forallb (kind_ok (sp_enc sp)) evs' = true).
  { apply negb_false_iff in K. rewrite forallb_forall in K. apply forallb_forall. intros [e v] Hin'.
    destruct (eval_pool_spec _ _ _ _ Hev') as (vals & Hl & -> & HF). cbn [rev app] in Hin'.
    (* (e, v) is a pool entry of the subset: e = fx g for some g of the subset's terms *)
    assert (exists g, In g (pool_of (sp_terms sub)) /\ fx g = e /\ eval_factor d g = inl v) as (g & Hg & <- & Hgv).
    { clear - Hin' HF Hl. revert vals Hl HF Hin'. induction (pool_of (sp_terms sub)) as [|g l IH]; intros [|v0 vals] Hl HF Hin'; cbn in *; try contradiction; try discriminate.
      inversion HF as [|? ? ? ? H0 HF']; subst. destruct Hin' as [Heq|Hin'].
      - inversion Heq; subst. exists g. auto.
      - destruct (IH vals (f_equal pred Hl) HF' Hin') as (g' & Hg' & H1 & H2). exists g'. auto. }
    apply pool_sub in Hg. destruct (pool_lookup d (sp_terms sp) evs g Hcons Hev (Hsubt g Hg)) as (v' & Hv' & Hev2).
    rewrite Hgv in Hev2. inversion Hev2; subst v'.
    (* the parent's pool holds (fx g, v) at the first position of that key, and kind_ok only reads enc_lookup and the value *)
    assert (Hin2 : exists k, In (k, v) evs /\ k = fx g).
    { clear - Hv'. induction evs as [|[k w] r IH]; cbn [lookup_ev] in Hv'; [discriminate|].
      destruct (leqb k (fx g)) eqn:E; [inversion Hv'; subst; apply leqb_eq in E; subst; exists (fx g); split; [left; reflexivity | reflexivity]|].
      destruct (IH Hv') as (k' & Hk & ->). exists (fx g). split; [right; exact Hk | reflexivity]. }
    destruct Hin2 as (k & Hk & ->). apply (K (fx g, v) Hk). }
  rewrite K'. cbn [negb].
  fold c. rewrite Hdrop.
  destruct (na_action c) eqn:NA.
  - rewrite R'. reflexivity.
  - rewrite (Hraise NA). rewrite R'. reflexivity.
  - rewrite R'. reflexivity.
Qed.
