(* ===== ReplayRows.v : a recorded spec replays ROW BY ROW (C04) =====
   With every categorical factor's level list fixed by the spec (or declared by the column) and no nulls, each output row is a
   function of the corresponding input row and the recorded state: replaying on ANY selection of rows (subset, duplication,
   reordering) gives exactly the selected rows of the replay on the whole data, column by column, under the same names. *)
From Coq Require Import List NArith ZArith QArith Qcanon Bool Arith Lia.
Import ListNotations.
Require Import Mat Mat2 ReplayLaws MatSep.
Open Scope nat_scope.

Definition sel {A} (ix : list nat) (l : list (option A)) : list (option A) := map (fun i => nth i l None) ix.
Definition sel_col (ix : list nat) (c : col) : col :=
  match c with CNum v => CNum (sel ix v) | CCat v dl => CCat (sel ix v) dl end.
Definition sel_frame (ix : list nat) (d : frame) : frame := map (fun p => (fst p, sel_col ix (snd p))) d.
Definition sel_ev (ix : list nat) (v : ev) : ev :=
  match v with EvConst q => EvConst q | EvNum c => EvNum (sel ix c) | EvCat c dl => EvCat (sel ix c) dl end.
Definition sel_evs (ix : list nat) (evs : list (str * ev)) := map (fun p => (fst p, sel_ev ix (snd p))) evs.
Definition sel_cols (ix : list nat) (l : list (str * column)) : list (str * column) := map (fun p => (fst p, sel ix (snd p))) l.

Definition ev_len (n : nat) (v : ev) : Prop := match v with EvConst _ => True | EvNum c => length c = n | EvCat c _ => length c = n end.
Definition ev_nonnull (v : ev) : Prop := nulls_of v = [].
(* the level list of a categorical factor is fixed: recorded in the spec, or declared by the column's dtype *)
Definition pinned (enc : list (str * ekind)) (e : str) (v : ev) : Prop :=
  match v with EvCat _ None => exists l, enc_lookup enc e = Some (KCat l) | _ => True end.

(* ---------- cell-level facts ---------- *)
Lemma keep_rows_nil {A} (v : list A) : forall i, keep_rows v [] i = v.
Proof. induction v as [|x r IH]; intro i; cbn [keep_rows memn existsb]; [reflexivity | rewrite IH; reflexivity]. Qed.

Lemma cmul_none_r x : cmul x None = None.
Proof. destruct x; reflexivity. Qed.
Lemma nth_vmul a b i : nth i (vmul a b) None = cmul (nth i a None) (nth i b None).
Proof.
  unfold vmul. revert b i. induction a as [|x a IH]; intros b i.
  - cbn [combine map]. destruct i; reflexivity.
  - destruct b as [|y b]; cbn [combine map].
    + destruct i; cbn [nth]; rewrite cmul_none_r; reflexivity.
    + destruct i as [|i]; cbn [nth fst snd]; [reflexivity | apply IH].
Qed.
Lemma vmul_cons x a y b : vmul (x :: a) (y :: b) = cmul x y :: vmul a b.
Proof. reflexivity. Qed.
Lemma sel_vmul ix a b : sel ix (vmul a b) = vmul (sel ix a) (sel ix b).
Proof.
  unfold sel. induction ix as [|i r IH]; [reflexivity|].
  cbn [map]. rewrite vmul_cons, <- IH. f_equal. apply nth_vmul.
Qed.
Lemma nth_map_default {A B} (f : A -> B) l i d d' : f d = d' -> nth i (map f l) d' = f (nth i l d).
Proof. intros <-. apply map_nth. Qed.
Lemma sel_vscale ix s a : sel ix (vscale s a) = vscale s (sel ix a).
Proof.
  unfold sel, vscale. rewrite map_map. apply map_ext. intro i.
  apply (nth_map_default (fun x : cell => match x with Some v => Some (s * v)%Qc | None => None end) a i None None). reflexivity.
Qed.
Lemma nth_repeat_in {A} (x d : A) n i : i < n -> nth i (repeat x n) d = x.
Proof. revert i. induction n as [|n IH]; intros [|i] H; cbn [repeat nth]; try lia; [reflexivity | apply IH; lia]. Qed.
Lemma sel_repeat {A} (x : A) ix n : Forall (fun i => i < n) ix -> sel ix (repeat (Some x) n) = repeat (Some x) (length ix).
Proof.
  intro H. unfold sel. induction H as [|i r Hi _ IH]; cbn [map length repeat]; [reflexivity|]. rewrite IH. f_equal.
  apply nth_repeat_in. exact Hi.
Qed.
Lemma sel_indicator ix v lv : Forall (fun i => i < length v) ix -> sel ix (indicator v lv) = indicator (sel ix v) lv.
Proof.
  intro H. unfold sel, indicator. rewrite map_map. induction H as [|i r Hi _ IH]; cbn [map]; [reflexivity|]. rewrite IH. f_equal.
  rewrite (nth_indep _ None (Some (Q2Qc 0))) by (rewrite map_length; exact Hi).
  apply (nth_map_default (fun o : option str => match o with Some s => if leqb s lv then Some (Q2Qc 1) else Some (Q2Qc 0) | None => Some (Q2Qc 0) end) v i None (Some (Q2Qc 0))). reflexivity.
Qed.

(* ---------- encoded factors, products, one scoped term ---------- *)
Lemma sel_cols_app ix a b : sel_cols ix (a ++ b) = sel_cols ix a ++ sel_cols ix b.
Proof. apply map_app. Qed.
Lemma lookup_ev_sel ix evs e : lookup_ev (sel_evs ix evs) e = option_map (sel_ev ix) (lookup_ev evs e).
Proof. induction evs as [|[k v] r IH]; cbn [sel_evs map lookup_ev fst snd]; [reflexivity|]. destruct (leqb k e); [reflexivity | exact IH]. Qed.

Lemma encode_with_sel e v red ix pin n : ev_len n v -> Forall (fun i => i < n) ix ->
  (match v with EvCat _ None => pin <> None | _ => True end) ->
  encode_with e (sel_ev ix v) red [] pin = sel_cols ix (encode_with e v red [] pin).
Proof.
  intros Hl Hix Hp. destruct v as [q|c|c dl]; cbn [sel_ev encode_with sel_cols map fst snd]; [reflexivity| |].
  - rewrite !keep_rows_nil. reflexivity.
  - rewrite !keep_rows_nil. cbn [ev_len] in Hl. rewrite <- Hl in Hix.
    assert (E : match pin with Some l => l | None => match dl with Some l => l | None => levels_of (sel ix c) end end =
                match pin with Some l => l | None => match dl with Some l => l | None => levels_of c end end).
    { destruct pin; [reflexivity|]. destruct dl; [reflexivity|]. exfalso. apply Hp. reflexivity. }
    rewrite E. destruct red; rewrite map_map; apply map_ext; intro lv; cbn [fst snd]; rewrite (sel_indicator ix c lv Hix); reflexivity.
Qed.

Lemma kron_sel ix : forall fs, kron (map (sel_cols ix) fs) = sel_cols ix (kron fs).
Proof.
  induction fs as [|f rest IH]; [reflexivity|]. destruct rest as [|g rest]; [reflexivity|].
  change (kron (map (sel_cols ix) (f :: g :: rest))) with
    (flat_map (fun rc => map (fun fc => (fst fc ++ [58%N] ++ fst rc, vmul (snd fc) (snd rc))) (sel_cols ix f)) (kron (map (sel_cols ix) (g :: rest)))).
  rewrite IH.
  change (kron (f :: g :: rest)) with (flat_map (fun rc => map (fun fc => (fst fc ++ [58%N] ++ fst rc, vmul (snd fc) (snd rc))) f) (kron (g :: rest))).
  generalize (kron (g :: rest)). intro K. induction K as [|rc K IHK]; [reflexivity|].
  change (sel_cols ix (rc :: K)) with ((fst rc, sel ix (snd rc)) :: sel_cols ix K). cbn [flat_map]. rewrite sel_cols_app, <- IHK. f_equal.
  unfold sel_cols. rewrite !map_map. apply map_ext. intro fc. cbn [fst snd]. rewrite sel_vmul. reflexivity.
Qed.

Definition st_ready (enc : list (str * ekind)) (evs : list (str * ev)) (n : nat) (st : sterm) : Prop :=
  forall sf v, In sf (st_f st) -> lookup_ev evs (sf_expr sf) = Some v -> ev_len n v /\ pinned enc (sf_expr sf) v.

Lemma rcols_of_sel sp evs ix n st : Forall (fun i => i < n) ix -> st_ready (sp_enc sp) evs n st ->
  rcols_of sp (sel_evs ix evs) [] (length ix) st = sel_cols ix (rcols_of sp evs [] n st).
Proof.
  intros Hix Hr. unfold rcols_of. destruct (st_f st) as [|sf fs] eqn:E.
  - cbn [sel_cols map fst snd]. rewrite sel_vscale. unfold ones. rewrite (sel_repeat _ ix n Hix). reflexivity.
  - unfold sel_cols at 1. rewrite map_map.
    assert (K : map (fun sf0 => match lookup_ev (sel_evs ix evs) (sf_expr sf0) with
                                | Some v => encode_with (sf_expr sf0) v (sf_red sf0) [] (match enc_lookup (sp_enc sp) (sf_expr sf0) with Some (KCat l) => Some l | _ => None end)
                                | None => [] end) (sf :: fs) =
                map (sel_cols ix) (map (fun sf0 => match lookup_ev evs (sf_expr sf0) with
                                | Some v => encode_with (sf_expr sf0) v (sf_red sf0) [] (match enc_lookup (sp_enc sp) (sf_expr sf0) with Some (KCat l) => Some l | _ => None end)
                                | None => [] end) (sf :: fs))).
    { rewrite map_map. apply map_ext_in. intros g Hg. rewrite lookup_ev_sel. destruct (lookup_ev evs (sf_expr g)) as [v|] eqn:L; cbn [option_map]; [|reflexivity].
      assert (Hg' : In g (st_f st)) by (rewrite E; exact Hg). destruct (Hr g v Hg' L) as [Hl Hp].
      apply (encode_with_sel _ v _ ix _ n Hl Hix). destruct v as [| |c [l|]]; try exact I. cbn [pinned] in Hp. destruct Hp as [l ->]. discriminate. }
    rewrite K, kron_sel. unfold sel_cols. rewrite !map_map. apply map_ext. intro nc. cbn [fst snd]. rewrite sel_vscale. reflexivity.
Qed.

(* ---------- dictionaries, structure enforcement ---------- *)
Lemma dict_set_sel ix d k v : dict_set (sel_cols ix d) k (sel ix v) = sel_cols ix (dict_set d k v).
Proof. induction d as [|[k' v'] r IH]; cbn [sel_cols map dict_set fst snd]; [reflexivity|]. destruct (leqb k' k); cbn [map fst snd]; [reflexivity|]. f_equal. exact IH. Qed.
Lemma dict_update_sel ix kv : forall d, dict_update (sel_cols ix d) (sel_cols ix kv) = sel_cols ix (dict_update d kv).
Proof.
  unfold dict_update. induction kv as [|[k v] r IH]; intro d; cbn [sel_cols map fold_left fst snd]; [reflexivity|].
  rewrite dict_set_sel. apply IH.
Qed.
Lemma find_sel ix (gen : list (str * column)) nm : find (fun p => leqb (fst p) nm) (sel_cols ix gen) = option_map (fun p => (fst p, sel ix (snd p))) (find (fun p => leqb (fst p) nm) gen).
Proof. induction gen as [|[k v] r IH]; cbn [sel_cols map find fst snd]; [reflexivity|]. destruct (leqb k nm); [reflexivity | exact IH]. Qed.
Lemma find_of_mem (gen : list (str * column)) nm : mem_s nm (map fst gen) = true -> exists p, find (fun p => leqb (fst p) nm) gen = Some p.
Proof.
  unfold mem_s. induction gen as [|[k v] r IH]; cbn [map existsb find fst]; [discriminate|].
  intro H. rewrite (ReplayLaws.leqb_sym nm k) in H. destruct (leqb k nm) eqn:E; [eexists; reflexivity|]. cbn [orb] in H. exact (IH H).
Qed.
Lemma sel_cols_length ix l : length (sel_cols ix l) = length l.
Proof. apply map_length. Qed.
Lemma sel_cols_names ix l : map fst (sel_cols ix l) = map fst l.
Proof. unfold sel_cols. rewrite map_map. reflexivity. Qed.

Lemma enforce_sel ix gen target n : Forall (fun i => i < n) ix ->
  enforce (sel_cols ix gen) target (length ix) = match enforce gen target n with inl c => inl (sel_cols ix c) | inr e => inr e end.
Proof.
  intro Hix. unfold enforce. rewrite !sel_cols_length.
  destruct (length target <? length gen); [reflexivity|].
  destruct (length gen <? length target).
  - destruct gen as [|[k c] [|g2 gr]]; cbn [sel_cols map fst snd]; [| |reflexivity].
    + f_equal. unfold sel_cols. rewrite map_map. apply map_ext. intro nm. cbn [fst snd]. unfold zeros. rewrite (sel_repeat _ ix n Hix). reflexivity.
    + f_equal. unfold sel_cols. rewrite map_map. reflexivity.
  - rewrite sel_cols_names.
    destruct (forallb (fun nm => mem_s nm (map fst gen)) target && forallb (fun nm => mem_s nm target) (map fst gen)) eqn:B; [|reflexivity].
    f_equal. unfold sel_cols at 2. rewrite map_map. apply andb_prop in B as [B1 _]. rewrite forallb_forall in B1.
    apply map_ext_in. intros nm Hn. cbn [fst snd]. rewrite find_sel. destruct (find_of_mem gen nm (B1 nm Hn)) as [p ->]. reflexivity.
Qed.

(* ---------- the recorded structure, row by row ---------- *)
Definition rows_ready (sp : spec) (evs : list (str * ev)) (n : nat) : Prop :=
  forall row st, In row (sp_struct sp) -> In st (fst row) -> st_ready (sp_enc sp) evs n st.

Lemma fold_rcols_sel sp evs ix n : Forall (fun i => i < n) ix -> forall sts acc,
  (forall st, In st sts -> st_ready (sp_enc sp) evs n st) ->
  fold_left (fun dct st => dict_update dct (rcols_of sp (sel_evs ix evs) [] (length ix) st)) sts (sel_cols ix acc) =
  sel_cols ix (fold_left (fun dct st => dict_update dct (rcols_of sp evs [] n st)) sts acc).
Proof.
  intros Hix. induction sts as [|st r IH]; intros acc H; cbn [fold_left]; [reflexivity|].
  rewrite (rcols_of_sel sp evs ix n st Hix (H st (or_introl eq_refl))), dict_update_sel. apply IH. intros s Hs. apply H. right. exact Hs.
Qed.

Theorem replay_terms_sel sp evs ix n : Forall (fun i => i < n) ix -> forall rows acc,
  (forall row st, In row rows -> In st (fst row) -> st_ready (sp_enc sp) evs n st) ->
  replay_terms sp (sel_evs ix evs) [] (length ix) rows (sel_cols ix acc) =
  match replay_terms sp evs [] n rows acc with inl out => inl (sel_cols ix out) | inr e => inr e end.
Proof.
  intros Hix. induction rows as [|[sts target] r IH]; intros acc H; cbn [replay_terms]; [reflexivity|].
  change (@nil (str * column)) with (sel_cols ix []) at 1.
  rewrite (fold_rcols_sel sp evs ix n Hix sts [] (fun st Hs => H (sts, target) st (or_introl eq_refl) Hs)).
  rewrite (enforce_sel ix _ target n Hix).
  destruct (enforce (fold_left (fun dct st => dict_update dct (rcols_of sp evs [] n st)) sts []) target n) as [cols|e]; [|reflexivity].
  rewrite dict_update_sel. apply IH. intros row st Hr Hs. apply (H row st (or_intror Hr) Hs).
Qed.

(* ---------- factor evaluation on the selected rows ---------- *)
Lemma lookup_sel ix d nm : lookup (sel_frame ix d) nm = option_map (sel_col ix) (lookup d nm).
Proof. induction d as [|[k c] r IH]; cbn [sel_frame map lookup fst snd]; [reflexivity|]. destruct (leqb k nm); [reflexivity | exact IH]. Qed.
Lemma eval_factor_sel ix d f : eval_factor (sel_frame ix d) f = match eval_factor d f with inl v => inl (sel_ev ix v) | inr e => inr e end.
Proof.
  unfold eval_factor. destruct (fk f); [reflexivity|]. rewrite lookup_sel. destruct (lookup d (fx f)) as [[v|v dl]|]; reflexivity.
Qed.
Lemma eval_pool_sel ix d : forall l acc evs, eval_pool d l acc = inl evs -> eval_pool (sel_frame ix d) l (sel_evs ix acc) = inl (sel_evs ix evs).
Proof.
  induction l as [|f r IH]; intros acc evs H; cbn [eval_pool] in *.
  - inversion H. unfold sel_evs. rewrite map_rev. reflexivity.
  - rewrite eval_factor_sel. destruct (eval_factor d f) as [v|e]; [|discriminate]. apply (IH ((fx f, v) :: acc) evs H).
Qed.
Lemma kind_ok_sel enc ix p : kind_ok enc (fst p, sel_ev ix (snd p)) = kind_ok enc p.
Proof. destruct p as [k [q|c|c dl]]; reflexivity. Qed.

(* no nulls in the data: none in any selection of its rows *)
Lemma null_positions_none {A} (v : list (option A)) : forall k, null_positions v k = [] -> forall i, i < length v -> nth i v None <> None.
Proof.
  induction v as [|[x|] r IH]; intros k H i Hi; cbn [null_positions length nth] in *; [lia| |discriminate].
  destruct i as [|i]; [discriminate | apply (IH (S k) H i); lia].
Qed.
Lemma null_positions_all_some {A} (v : list (option A)) : (forall x, In x v -> x <> None) -> forall k, null_positions v k = [].
Proof.
  induction v as [|[x|] r IH]; intros H k; cbn [null_positions]; [reflexivity | apply IH; intros y Hy; apply H; right; exact Hy|].
  exfalso. apply (H None); [left; reflexivity | reflexivity].
Qed.
Lemma sel_no_nulls {A} ix (c : list (option A)) : Forall (fun i => i < length c) ix -> null_positions c 0 = [] -> null_positions (sel ix c) 0 = [].
Proof.
  intros Hix Hn. apply null_positions_all_some. intros x Hx. unfold sel in Hx. apply in_map_iff in Hx as (i & <- & Hi).
  rewrite Forall_forall in Hix. apply (null_positions_none c 0 Hn i). apply Hix, Hi.
Qed.
Lemma nulls_sel ix n v : ev_len n v -> Forall (fun i => i < n) ix -> nulls_of v = [] -> nulls_of (sel_ev ix v) = [].
Proof.
  intros Hl Hix Hn. destruct v as [q|c|c dl]; [reflexivity| |]; cbn [ev_len] in Hl; subst n; apply (sel_no_nulls ix c Hix Hn).
Qed.
Lemma all_nulls_sel ix n evs : (forall p, In p evs -> ev_len n (snd p)) -> Forall (fun i => i < n) ix -> all_nulls evs = [] -> all_nulls (sel_evs ix evs) = [].
Proof.
  intros Hl Hix. unfold all_nulls, sel_evs. induction evs as [|p r IH]; cbn [flat_map map snd]; [reflexivity|]. intro H.
  apply app_eq_nil in H as [H1 H2]. rewrite (nulls_sel ix n (snd p) (Hl p (or_introl eq_refl)) Hix H1). cbn [app].
  apply IH; [intros q Hq; apply Hl; right; exact Hq | exact H2].
Qed.
Lemma drop_set_no_nulls c evs : caller_drop c = [] -> all_nulls evs = [] -> drop_set c evs = [].
Proof. intros H1 H2. unfold drop_set. rewrite H1, H2. destruct (na_action c); reflexivity. Qed.

(* ---------- the statement ---------- *)
(* every evaluated factor has one value per data row; every categorical one has its level list fixed by the spec or by its dtype *)
Definition frame_ready (sp : spec) (evs : list (str * ev)) (n : nat) : Prop :=
  (forall p, In p evs -> ev_len n (snd p)) /\ (forall e v, lookup_ev evs e = Some v -> pinned (sp_enc sp) e v).

Lemma lookup_ev_In evs e v : lookup_ev evs e = Some v -> exists k, In (k, v) evs.
Proof. induction evs as [|[k w] r IH]; cbn [lookup_ev]; [discriminate|]. destruct (leqb k e); [intro H; inversion H; subst; exists k; left; reflexivity|]. intro H. destruct (IH H) as [k' Hk]. exists k'. right. exact Hk. Qed.

Lemma forallb_kind_sel enc ix evs : forallb (kind_ok enc) (sel_evs ix evs) = forallb (kind_ok enc) evs.
Proof. unfold sel_evs. induction evs as [|p r IH]; cbn [map forallb]; [reflexivity|]. rewrite kind_ok_sel, IH. reflexivity. Qed.

Theorem replay_rowwise sp d n ix evs names cols :
  eval_pool d (pool_of (sp_terms sp)) [] = inl evs -> frame_ready sp evs n -> all_nulls evs = [] -> Forall (fun i => i < n) ix ->
  replay sp d n [] = inl (names, cols, []) ->
  replay sp (sel_frame ix d) (length ix) [] = inl (names, map (sel ix) cols, []).
Proof.
  intros Hev [Hlen Hpin] Hnn Hix Hp. unfold replay in *. rewrite Hev in Hp.
  change (@nil (str * ev)) with (sel_evs ix []). rewrite (eval_pool_sel ix d _ [] evs Hev). rewrite forallb_kind_sel.
  destruct (negb (forallb (kind_ok (sp_enc sp)) evs)); [discriminate|].
  set (c := {| full_rank := full_rank (sp_cfg sp); na_action := na_action (sp_cfg sp); caller_drop := [] |}) in *.
  assert (Hd : drop_set c evs = []) by (apply drop_set_no_nulls; [reflexivity | exact Hnn]).
  assert (Hnn' : all_nulls (sel_evs ix evs) = []) by (apply (all_nulls_sel ix n evs Hlen Hix Hnn)).
  assert (Hd' : drop_set c (sel_evs ix evs) = []) by (apply drop_set_no_nulls; [reflexivity | exact Hnn']).
  rewrite Hd in Hp. rewrite Hd', Hnn'. rewrite Hnn in Hp. cbn [length] in *. rewrite !Nat.sub_0_r in *.
  assert (R : replay_terms sp (sel_evs ix evs) [] (length ix) (sp_struct sp) [] =
              match replay_terms sp evs [] n (sp_struct sp) [] with inl out => inl (sel_cols ix out) | inr e => inr e end).
  { change (@nil (str * column)) with (sel_cols ix []) at 1. apply (replay_terms_sel sp evs ix n Hix).
    intros row st _ _ sf v _ Hl. split; [|apply Hpin, Hl]. destruct (lookup_ev_In evs _ v Hl) as [k Hk]. apply (Hlen (k, v) Hk). }
  rewrite R.
  assert (Hfin : exists final, replay_terms sp evs [] n (sp_struct sp) [] = inl final /\ names = map fst final /\ cols = map snd final).
  { destruct (na_action c); destruct (replay_terms sp evs [] n (sp_struct sp) []) as [final|]; try discriminate; inversion Hp; subst; eexists; repeat split. }
  destruct Hfin as (final & -> & -> & ->).
  assert (E1 : map fst (sel_cols ix final) = map fst final) by apply sel_cols_names.
  assert (E2 : map snd (sel_cols ix final) = map (sel ix) (map snd final)) by (unfold sel_cols; rewrite !map_map; reflexivity).
  destruct (na_action c); rewrite E1, E2; reflexivity.
Qed.

(* the spec a build records pins the level list of every categorical factor it evaluated: the hypothesis is met by recorded specs *)
Require Import SpecRec ReplaySelf.
Lemma recorded_spec_pins c terms evs n : forall e v, lookup_ev evs e = Some v -> pinned (sp_enc (spec_of c terms evs n)) e v.
Proof.
  intros e v H. change (sp_enc (spec_of c terms evs n)) with (enc_of evs (drop_set c evs)).
  destruct v as [q|cc|cc [l|]]; cbn [pinned]; try exact I. rewrite enc_lookup_of, H. cbn [option_map]. eexists. reflexivity.
Qed.
