(* ===== MatParts.v : multi-part formulas (C07) ===== *)
From Coq Require Import List NArith ZArith QArith Qcanon Bool Arith Lia.
Import ListNotations.
Require Import Mat MatDrop.
Open Scope nat_scope.

Lemma build_parts_inv d n c parts outs :
  build_parts d n c parts = inl outs ->
  exists evs, eval_pool d (pool_of (concat parts)) [] = inl evs /\
              outs = map (assemble evs (drop_set c evs) n (full_rank c)) parts /\
              (na_action c = NaRaise -> all_nulls evs = []).
Proof.
  unfold build_parts, bind. destruct (eval_pool d (pool_of (concat parts)) []) as [evs|e]; [|discriminate].
  intro H. exists evs. split; [reflexivity|].
  destruct (na_action c) eqn:En; destruct (all_nulls evs) eqn:Ea; try discriminate; inversion H; split; auto; intro; congruence.
Qed.

(* the result has one part per part of the formula, in order *)
Theorem parts_shape d n c parts outs : build_parts d n c parts = inl outs -> length outs = length parts.
Proof. intro H. destruct (build_parts_inv _ _ _ _ _ H) as (evs & _ & -> & _). apply map_length. Qed.

(* all parts report the same (joint) drop set: the parts contain the same rows *)
Theorem parts_row_aligned d n c parts outs :
  build_parts d n c parts = inl outs ->
  exists D, forall o, In o outs -> o_drop o = D.
Proof.
  intro H. destruct (build_parts_inv _ _ _ _ _ H) as (evs & _ & -> & _). exists (drop_set c evs).
  intros o Ho. apply in_map_iff in Ho as [t [<- _]]. reflexivity.
Qed.
(* and that joint set is: caller's rows u nulls of the factors of ALL parts *)
Theorem parts_joint_drop_set d n c parts outs o k :
  build_parts d n c parts = inl outs -> In o outs ->
  exists evs, eval_pool d (pool_of (concat parts)) [] = inl evs /\
    (In k (o_drop o) <-> In k (caller_drop c) \/ (na_action c = NaDrop /\ is_null_at evs k)).
Proof.
  intros H Ho. destruct (build_parts_inv _ _ _ _ _ H) as (evs & He & -> & _). exists evs. split; [exact He|].
  apply in_map_iff in Ho as [t [<- _]]. cbn [assemble o_drop]. apply drop_set_exact.
Qed.

(* every cell column of every part has exactly the kept rows *)
Lemma keep_rows_length_le {A} (v : list A) drop : forall i, length (keep_rows v drop i) <= length v.
Proof. induction v as [|x r IH]; intro i; cbn; [lia|]. destruct (memn i drop); cbn; specialize (IH (S i)); lia. Qed.
