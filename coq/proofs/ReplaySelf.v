(* ===== ReplaySelf.v : the spec recorded by a build, replayed on the data it was built from, reproduces the matrix (C04) ===== *)
From Coq Require Import List NArith ZArith QArith Qcanon Bool Arith Lia.
Import ListNotations.
Require Import Mat Mat2 SpecRec MatDrop MatSep ReplayLaws.
Open Scope nat_scope.

(* ---------- encoder state lookups ---------- *)
Lemma enc_lookup_of evs drop e : enc_lookup (enc_of evs drop) e =
  option_map (fun v => match v with EvCat c dl => KCat (lv_of c dl drop) | _ => KNum end) (lookup_ev evs e).
Proof.
  induction evs as [|[k v] r IH]; cbn [enc_of map enc_lookup lookup_ev fst snd]; [reflexivity|].
  destruct (leqb k e); [reflexivity | exact IH].
Qed.
Lemma encode_with_recorded evs drop e v red : lookup_ev evs e = Some v ->
  encode_with e v red drop (match enc_lookup (enc_of evs drop) e with Some (KCat l) => Some l | _ => None end) = encode e v red drop.
Proof.
  intros H. rewrite enc_lookup_of, H. cbn [option_map]. destruct v as [q|c|c dl]; reflexivity.
Qed.
Lemma rcols_eq c terms evs n st :
  let drop := drop_set c evs in let nkeep := (n - length drop)%nat in
  rcols_of (spec_of c terms evs n) evs drop nkeep st = cols_of evs drop nkeep st.
Proof.
  cbn zeta. unfold rcols_of, cols_of. destruct (st_f st) as [|sf fs]; [reflexivity|].
  do 2 f_equal. apply map_ext. intros g. cbn [spec_of sp_enc].
  destruct (lookup_ev evs (sf_expr g)) as [v|] eqn:E; [|reflexivity]. apply encode_with_recorded, E.
Qed.

(* ---------- dictionaries have distinct keys; enforcing a dictionary against its own keys is the identity ---------- *)
Lemma NoDup_snoc {A} (l : list A) x : NoDup l -> ~ In x l -> NoDup (l ++ [x]).
Proof.
  induction l as [|a l IH]; intros Hn Hx; cbn [app]; [constructor; [intros [] | constructor]|].
  inversion Hn as [|? ? Ha Hl]; subst. constructor.
  - intros Hin. apply in_app_or in Hin as [Hin|[<-|[]]]; [exact (Ha Hin) | apply Hx; left; reflexivity].
  - apply IH; [exact Hl | intros Hin; apply Hx; right; exact Hin].
Qed.
Lemma add_key_nodup ks k : NoDup ks -> NoDup (add_key ks k).
Proof.
  intros H. unfold add_key. destruct (mem_s k ks) eqn:E; [exact H|].
  apply NoDup_snoc; [exact H|]. intros Hin. apply mem_s_In in Hin. congruence.
Qed.
Lemma okeys_nodup new : forall ks, NoDup ks -> NoDup (okeys ks new).
Proof. unfold okeys. induction new as [|k new IH]; intros ks H; cbn [fold_left]; [exact H | apply IH, add_key_nodup, H]. Qed.
Lemma dict_update_nodup d kv : NoDup (map fst d) -> NoDup (map fst (dict_update d kv)).
Proof. intros H. rewrite dict_update_keys. apply okeys_nodup, H. Qed.
Lemma term_dict_nodup (f : sterm -> list (str * column)) sts : forall acc, NoDup (map fst acc) ->
  NoDup (map fst (fold_left (fun dct st => dict_update dct (f st)) sts acc)).
Proof. induction sts as [|st sts IH]; intros acc H; cbn [fold_left]; [exact H | apply IH, dict_update_nodup, H]. Qed.

Lemma find_self (gen : list (str * column)) : NoDup (map fst gen) ->
  map (fun n => (n, match find (fun p => leqb (fst p) n) gen with Some p => snd p | None => [] end)) (map fst gen) = gen.
Proof.
  induction gen as [|[k v] r IH]; intros Hn; cbn [map fst]; [reflexivity|].
  inversion Hn as [|? ? Hk Hr]; subst. cbn [find fst]. rewrite leqb_refl. cbn [snd]. f_equal.
  rewrite <- (IH Hr) at 2. apply map_ext_in. intros n Hin.
  cbn [find fst]. destruct (leqb k n) eqn:E; [|reflexivity]. apply ReplayLaws.leqb_eq in E. subst. contradiction.
Qed.
Lemma forallb_mem_self l : forallb (fun n => mem_s n l) l = true.
Proof. apply forallb_forall. intros x Hx. apply mem_s_In, Hx. Qed.
Lemma enforce_self gen n : NoDup (map fst gen) -> enforce gen (map fst gen) n = inl gen.
Proof.
  intros Hn. unfold enforce. rewrite map_length, Nat.ltb_irrefl. rewrite !forallb_mem_self. cbn [andb].
  rewrite (find_self gen Hn). reflexivity.
Qed.

(* ---------- replaying the recorded structure rebuilds the same dictionaries in the same order ---------- *)
Lemma replay_terms_self c terms evs n : forall per_term acc,
  let drop := drop_set c evs in let nkeep := (n - length drop)%nat in
  replay_terms (spec_of c terms evs n) evs drop nkeep (combine per_term (map (map fst) (term_dicts evs drop nkeep per_term))) acc
  = inl (fold_left dict_update (term_dicts evs drop nkeep per_term) acc).
Proof.
  cbn zeta. induction per_term as [|sts per_term IH]; intros acc; cbn [term_dicts map combine replay_terms fold_left]; [reflexivity|].
  fold (term_dicts evs (drop_set c evs) (n - length (drop_set c evs)) per_term).
  assert (Hgen : fold_left (fun dct st => dict_update dct (rcols_of (spec_of c terms evs n) evs (drop_set c evs) (n - length (drop_set c evs)) st)) sts []
                 = fold_left (fun dct st => dict_update dct (cols_of evs (drop_set c evs) (n - length (drop_set c evs)) st)) sts []).
  { generalize (@nil (str * column)). induction sts as [|st sts IHs]; intros d0; cbn [fold_left]; [reflexivity|].
    rewrite (rcols_eq c terms evs n st). apply IHs. }
  rewrite Hgen. rewrite enforce_self by (apply term_dict_nodup; constructor). apply IH.
Qed.

(* ---------- the recorded kinds agree with the evaluated pool ---------- *)
Lemma pool_fold_nodup fs : forall acc, NoDup (map fx acc) ->
  NoDup (map fx (fold_left (fun acc f => if mem_s (fx f) (map fx acc) then acc else acc ++ [f]) fs acc)).
Proof.
  induction fs as [|f fs IH]; intros acc H; cbn [fold_left]; [exact H|]. apply IH.
  destruct (mem_s (fx f) (map fx acc)) eqn:E; [exact H|]. rewrite map_app. cbn [map].
  apply NoDup_snoc; [exact H|]. intros Hin. apply mem_s_In in Hin. congruence.
Qed.
Lemma pool_nodup terms : NoDup (map fx (pool_of terms)).
Proof. unfold pool_of. apply pool_fold_nodup. constructor. Qed.
Lemma eval_pool_keys d l evs : eval_pool d l [] = inl evs -> map fst evs = map fx l.
Proof.
  intros H. destruct (eval_pool_spec _ _ _ _ H) as (vals & Hl & -> & _). cbn [rev app]. clear H.
  rewrite <- (map_length fx l) in Hl. revert vals Hl. generalize (map fx l). intros ks. induction ks as [|k ks IH]; intros [|v vals] Hl; cbn [length combine map] in *; try lia; try reflexivity.
  f_equal. apply IH. lia.
Qed.
Lemma lookup_self (evs : list (str * ev)) : NoDup (map fst evs) -> forall p, In p evs -> lookup_ev evs (fst p) = Some (snd p).
Proof.
  induction evs as [|[k v] r IH]; intros Hn p Hp; [destruct Hp|]. inversion Hn as [|? ? Hk Hr]; subst. cbn [lookup_ev].
  destruct Hp as [<-|Hp]; cbn [fst snd]; [rewrite leqb_refl; reflexivity|].
  destruct (leqb k (fst p)) eqn:E; [|apply IH; assumption].
  apply ReplayLaws.leqb_eq in E. subst. exfalso. apply Hk. apply in_map. exact Hp.
Qed.
Lemma kinds_ok evs drop : NoDup (map fst evs) -> forallb (kind_ok (enc_of evs drop)) evs = true.
Proof.
  intros Hn. apply forallb_forall. intros p Hp. unfold kind_ok. rewrite enc_lookup_of, (lookup_self evs Hn p Hp). cbn [option_map].
  destruct (snd p); reflexivity.
Qed.

(* ---------- the statement ---------- *)
Theorem replay_reproduces d n c terms o :
  build d n c terms = inl o ->
  exists evs, eval_pool d (pool_of terms) [] = inl evs /\
    replay (spec_of c terms evs n) d n (caller_drop c) = inl (o_names o, o_cols o, o_drop o).
Proof.
  unfold build, bind. destruct (eval_pool d (pool_of terms) []) as [evs|e] eqn:He; [|discriminate].
  intros H. exists evs. split; [reflexivity|].
  assert (Hn : NoDup (map fst evs)) by (rewrite (eval_pool_keys _ _ _ He); apply pool_nodup).
  assert (Hc : {| full_rank := full_rank c; na_action := na_action c; caller_drop := caller_drop c |} = c) by (destruct c; reflexivity).
  pose proof (replay_terms_self c terms evs n (get_scoped_terms (full_rank c) evs terms) []) as R. cbn zeta in R.
  unfold replay.
  change (sp_terms (spec_of c terms evs n)) with terms.
  change (sp_enc (spec_of c terms evs n)) with (enc_of evs (drop_set c evs)).
  change (sp_cfg (spec_of c terms evs n)) with c.
  change (sp_struct (spec_of c terms evs n)) with
    (combine (get_scoped_terms (full_rank c) evs terms)
       (map (map fst) (term_dicts evs (drop_set c evs) (n - length (drop_set c evs)) (get_scoped_terms (full_rank c) evs terms)))).
  rewrite He, (kinds_ok evs _ Hn), Hc. cbn [negb].
  assert (Hfin : o = assemble evs (drop_set c evs) n (full_rank c) terms).
  { destruct (na_action c); destruct (all_nulls evs); try discriminate; injection H as <-; reflexivity. }
  assert (Hnr : match na_action c, all_nulls evs with NaRaise, _ :: _ => false | _, _ => true end = true).
  { destruct (na_action c); destruct (all_nulls evs); try discriminate; reflexivity. }
  destruct (na_action c); destruct (all_nulls evs); try discriminate Hnr; rewrite R, Hfin; reflexivity.
Qed.
