(* ===== P1.v ===== *)
From Coq Require Import List Arith Bool Lia Permutation NArith.
Import ListNotations.
Require Import Scope.

Section P.
Variable isnum : fid_t -> bool.
Notation required := (required isnum).
Notation covers := (covers isnum).
Notation count := (count isnum).

Definition wf (t : sterm) := NoDup (map fid t) /\ (forall f, In f t -> fred f = true -> isnum (fid f) = false).
Definition wf_all (ts : list sterm) := Forall wf ts.
Definition b2n (b : bool) := if b then 1 else 0.

Lemma covers_spec t c : covers t c = true <->
  (forall f, In f t -> required f = true -> In (fid f) c) /\ (forall i, In i c -> In i (map fid t)).
Proof.
  unfold Scope.covers. rewrite andb_true_iff, !forallb_forall. split.
  - intros [H1 H2]. split.
    + intros f Hf Hr. specialize (H1 f Hf). rewrite Hr in H1. cbn in H1. apply memn_spec, H1.
    + intros i Hi. apply memn_spec, H2, Hi.
  - intros [H1 H2]. split.
    + intros f Hf. destruct (required f) eqn:E; cbn; [apply memn_spec, H1; auto | reflexivity].
    + intros i Hi. apply memn_spec, H2, Hi.
Qed.

Lemma bool_eq_iff (a b : bool) : (a = true <-> b = true) -> a = b.
Proof. destruct a, b; intuition congruence. Qed.

Lemma covers_ext a b c : (forall x, In x a <-> In x b) -> covers a c = covers b c.
Proof.
  intros H. apply bool_eq_iff. rewrite !covers_spec. split; intros [H1 H2]; split.
  - intros f Hf. apply H1, H, Hf.
  - intros i Hi. specialize (H2 i Hi). apply in_map_iff in H2 as (x & Hx & Hin). apply in_map_iff. exists x. split; auto. apply H, Hin.
  - intros f Hf. apply H1, H, Hf.
  - intros i Hi. specialize (H2 i Hi). apply in_map_iff in H2 as (x & Hx & Hin). apply in_map_iff. exists x. split; auto. apply H, Hin.
Qed.

(* every well-formed term covers at least one component *)
Definition c0 (t : sterm) := map fid (filter required t).
Lemma covers_c0 t : covers t (c0 t) = true.
Proof.
  apply covers_spec. split.
  - intros f Hf Hr. unfold c0. apply in_map, filter_In. auto.
  - intros i Hi. unfold c0 in Hi. apply in_map_iff in Hi as (x & <- & Hx). apply filter_In in Hx as [Hx _]. apply in_map, Hx.
Qed.

Lemma count_app c a b : count c (a ++ b) = count c a + count c b.
Proof. unfold Scope.count. rewrite filter_app, app_length. reflexivity. Qed.
Lemma count_cons c t l : count c (t :: l) = b2n (covers t c) + count c l.
Proof. unfold Scope.count. cbn. destruct (covers t c); reflexivity. Qed.
Lemma count_one c t : count c [t] = b2n (covers t c).
Proof. rewrite count_cons. unfold Scope.count. cbn. lia. Qed.
Lemma count_perm c a b : Permutation a b -> count c a = count c b.
Proof. induction 1; rewrite ?count_cons; cbn; try lia. Qed.

(* ---- find_merge ---- *)
Lemma wf_nodup t : wf t -> NoDup t.
Proof. intros [H _]. eapply NoDup_map_inv, H. Qed.

Lemma sdiff_in x a b : In x (sdiff a b) <-> In x a /\ ~ In x b.
Proof.
  unfold sdiff. rewrite filter_In. rewrite negb_true_iff. split; intros [H1 H2]; split; auto.
  - intros H. apply mem_sf_spec in H. congruence.
  - destruct (mem_sf x b) eqn:E; auto. apply mem_sf_spec in E. contradiction.
Qed.

Lemma filter_split_len {A} (p : A -> bool) l : length l = length (filter p l) + length (filter (fun x => negb (p x)) l).
Proof. induction l as [|x l IH]; cbn; auto. destruct (p x); cbn; lia. Qed.

Lemma find_merge_spec st terms e f : wf st -> Forall wf terms ->
  find_merge st terms = Some (e, f) ->
  In e terms /\ fred f = true /\ In f st /\ ~ In f e /\ (forall x, In x e <-> (In x st /\ x <> f)).
Proof.
  intros Hst. induction terms as [|e0 rest IH]; intros Hall H; cbn in H; [discriminate|].
  inversion Hall as [|? ? Hwe Hrest]; subst.
  assert (Hcont : find_merge st rest = Some (e, f) ->
     In e (e0 :: rest) /\ fred f = true /\ In f st /\ ~ In f e /\ (forall x, In x e <-> (In x st /\ x <> f))).
  { intros H'. destruct (IH Hrest H') as (Hin & R). split; [right; exact Hin | exact R]. }
  destruct ((length st - 1 =? length e0) && (length (sdiff st e0) =? 1)) eqn:Ec; [|auto].
  apply andb_true_iff in Ec as [E1 E2]. apply Nat.eqb_eq in E1, E2.
  destruct (sdiff st e0) as [|f0 d] eqn:Ed; [auto|].
  destruct (fred f0) eqn:Ef; [|auto].
  injection H as <- <-.
  destruct d; [|cbn in E2; lia].
  assert (Hf0 : In f0 st /\ ~ In f0 e0) by (apply sdiff_in; rewrite Ed; left; reflexivity).
  destruct Hf0 as [Hf0 Hnf0].
  assert (Hsub : forall x, In x st -> x <> f0 -> In x e0).
  { intros x Hx Hne. destruct (mem_sf x e0) eqn:Em; [apply mem_sf_spec, Em|].
    assert (In x (sdiff st e0)) by (apply sdiff_in; split; auto; intros Hc; apply mem_sf_spec in Hc; congruence).
    rewrite Ed in H. destruct H as [->|[]]. contradiction. }
  (* pigeonhole: e0 ⊆ st *)
  assert (Hincl : incl e0 (filter (fun x => mem_sf x e0) st)).
  { apply NoDup_length_incl.
    - apply NoDup_filter, wf_nodup, Hst.
    - pose proof (filter_split_len (fun x => mem_sf x e0) st) as Hl.
      cbv beta in Hl. fold (sdiff st e0) in Hl. rewrite Ed in Hl. cbn [length] in Hl. lia.
    - intros x Hx. apply filter_In in Hx as [_ Hx]. apply mem_sf_spec, Hx. }
  split; [left; reflexivity|]. split; [exact Ef|]. split; [exact Hf0|]. split; [exact Hnf0|].
  intros x. split.
  - intros Hx. split.
    + apply Hincl in Hx. apply filter_In in Hx as [Hx _]. exact Hx.
    + intros ->. contradiction.
  - intros [Hx Hne]. apply Hsub; auto.
Qed.
End P.
