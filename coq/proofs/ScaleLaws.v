(* ===== ScaleLaws.v : scale()/center() contracts on the fitting data, and state-first behaviour ===== *)
From Coq Require Import List QArith Qcanon Arith Lia Bool.
Import ListNotations.
Require Import Poly Scale.
Open Scope Qc_scope.

Lemma qn_nonneg n : 0 <= qn n.
Proof.
  induction n as [|n IH]; cbn [qn]; [apply Qcle_refl|].
  replace 0 with (0 + 0) by ring. apply Qcplus_le_compat; [exact IH | discriminate].
Qed.
Lemma qn_pos n : qn (S n) <> 0.
Proof.
  intros H. assert (Hlt : 0 < qn (S n)).
  { cbn [qn]. apply Qcle_lt_trans with (qn n); [apply qn_nonneg|].
    apply Qclt_minus_iff. replace (qn n + 1 + - qn n) with 1 by ring. reflexivity. }
  rewrite H in Hlt. discriminate Hlt.
Qed.
Lemma sumq_sub c xs : sumq (map (fun x => x - c) xs) = sumq xs - qn (length xs) * c.
Proof. induction xs as [|x l IH]; cbn [map sumq fold_right length qn]; [ring|]. unfold sumq in IH. rewrite IH. ring. Qed.
Lemma sumq_scal c (f : Qc -> Qc) xs : sumq (map (fun x => c * f x) xs) = c * sumq (map f xs).
Proof. induction xs as [|x l IH]; cbn [map sumq fold_right]; [ring|]. unfold sumq in IH. rewrite IH. ring. Qed.

(* centring on the fitting data gives mean zero *)
Theorem centered_sum_zero xs : xs <> [] -> sumq (map (fun x => x - mean xs) xs) = 0.
Proof.
  intros Hne. rewrite sumq_sub. unfold mean. destruct xs as [|x l]; [contradiction|].
  pose proof (qn_pos (length l)) as Hn. cbn [length]. field. exact Hn.
Qed.
Theorem center_step_mean_zero xs : xs <> [] -> sumq (map fst (snd (center_step s_empty xs))) = 0 /\ forall r, In r (snd (center_step s_empty xs)) -> snd r = None.
Proof.
  intros Hne. unfold center_step, scale_step. cbn [s_ddof s_center s_scale s_empty snd]. rewrite map_map. cbn [fst]. split.
  - rewrite map_id. apply centered_sum_zero, Hne.
  - intros r Hr. apply in_map_iff in Hr. destruct Hr as [m [<- _]]. reflexivity.
Qed.

(* scale() on the fitting data: the divisor recorded is the root of V = sum (x - mean)^2 / (n - ddof); dividing by any r with
   r * r = V gives mean zero and variance (with the same ddof) one *)
Theorem scale_step_fit xs ddof r :
  let res := scale_step s_empty (FBool true) (FBool true) ddof xs in
  let V := sumq (map (fun x => (x - mean xs) * (x - mean xs)) xs) / (qn (length xs) - ddof) in
  xs <> [] -> qn (length xs) - ddof <> 0 -> r * r = V -> V <> 0 ->
  (forall row, In row (snd res) -> snd row = Some (SRoot V)) /\
  sumq (map (fun row => fst row / r) (snd res)) = 0 /\
  sumq (map (fun row => (fst row / r) * (fst row / r)) (snd res)) / (qn (length xs) - ddof) = 1.
Proof.
  intros res V Hne Hdf Hr HV. subst res. unfold scale_step. cbn [s_ddof s_center s_scale s_empty snd].
  rewrite !map_length. rewrite (map_map (fun x => x - mean xs) (fun m => m * m)). fold V.
  assert (Hr0 : r <> 0). { intros ->. apply HV. rewrite <- Hr. ring. }
  split; [|split].
  - intros row Hrow. apply in_map_iff in Hrow. destruct Hrow as [m [<- _]]. reflexivity.
  - rewrite !map_map. cbn [fst]. rewrite (map_ext _ (fun x => / r * (x - mean xs))) by (intros; field; exact Hr0).
    rewrite sumq_scal. rewrite centered_sum_zero by exact Hne. ring.
  - rewrite !map_map. cbn [fst].
    rewrite (map_ext _ (fun x => / (r * r) * ((x - mean xs) * (x - mean xs)))) by (intros; field; exact Hr0).
    rewrite sumq_scal. rewrite Hr.
    assert (HS : sumq (map (fun x => (x - mean xs) * (x - mean xs)) xs) = V * (qn (length xs) - ddof)) by (unfold V; field; exact Hdf).
    rewrite HS. field. split; [exact HV | exact Hdf].
Qed.

(* state first: once the three keys are recorded, the arguments of later calls are ignored and the statistics are applied unchanged *)
Theorem scale_step_state_first dd c s cflag sflag ddof ys :
  let st := {| s_ddof := Some dd; s_center := Some c; s_scale := Some s |} in
  scale_step st cflag sflag ddof ys =
  (st, map (fun y => (match c with Some c => y - c | None => y end, s)) ys).
Proof.
  intros st. subst st. unfold scale_step. cbn [s_ddof s_center s_scale]. f_equal.
  destruct c as [c|]; [rewrite map_map|]; reflexivity.
Qed.
Theorem scale_step_records st cflag sflag ddof xs :
  let st' := fst (scale_step st cflag sflag ddof xs) in
  (exists dd c s, st' = {| s_ddof := Some dd; s_center := Some c; s_scale := Some s |}) /\
  (forall dd, s_ddof st = Some dd -> s_ddof st' = Some dd) /\
  (forall c, s_center st = Some c -> s_center st' = Some c) /\
  (forall s, s_scale st = Some s -> s_scale st' = Some s).
Proof.
  cbn zeta. unfold scale_step. cbn [fst s_ddof s_center s_scale]. split; [eexists; eexists; eexists; reflexivity|].
  split; [|split]; intros v Hv; rewrite Hv; reflexivity.
Qed.
(* fit then apply: rows of new data are (y - mean(train)) / sqrt(V(train)), whatever the follow-up arguments *)
Corollary scale_fit_then_apply xs ddof ys cflag sflag ddof2 :
  let st := fst (scale_step s_empty (FBool true) (FBool true) ddof xs) in
  snd (scale_step st cflag sflag ddof2 ys) =
  map (fun y => (y - mean xs, Some (SRoot (sumq (map (fun m => m * m) (map (fun x => x - mean xs) xs)) / (qn (length xs) - ddof))))) ys.
Proof.
  cbn zeta. unfold scale_step at 2. cbn [fst s_ddof s_center s_scale s_empty].
  rewrite scale_step_state_first. cbn [snd]. rewrite map_length. reflexivity.
Qed.
