(* ===== SYInst.v ===== *)
From Coq Require Import List NArith ZArith Bool Arith Lia.
Import ListNotations.
Require Import Tok Parser Parser2 SYReal.
Open Scope N_scope.

(* decidable equality on operators *)
Definition assoc_eqb (a b : assoc) := match a, b with AL, AL | AR, AR | AN, AN => true | _, _ => false end.
Definition fix_eqb (a b : fixity) := match a, b with Prefix, Prefix | Infix, Infix | Postfix, Postfix => true | _, _ => false end.
Definition ctx_eqb (a b : ctxrule) := match a, b with CAlways, CAlways | CEmpty, CEmpty | CSquare, CSquare | CTildeBar, CTildeBar => true | _, _ => false end.
Definition sem_eqb (a b : sem) := match a, b with
  | STilde2, STilde2 | STilde1, STilde1 | SMulti, SMulti | SBar, SBar | SPlus, SPlus | SMinus, SMinus | SUPlus, SUPlus
  | SUMinus, SUMinus | SStar, SStar | SSlash, SSlash | SIn, SIn | SColon, SColon | SPow, SPow | SDot, SDot => true | _, _ => false end.
Definition op_eqb (a b : op) : bool :=
  leqb (osym a) (osym b) && Nat.eqb (oarity a) (oarity b) && Z.eqb (oprec a) (oprec b) && assoc_eqb (oassoc a) (oassoc b)
  && fix_eqb (ofix a) (ofix b) && ctx_eqb (octx a) (octx b) && Bool.eqb (ostruct a) (ostruct b) && Bool.eqb (odis a) (odis b)
  && sem_eqb (osem a) (osem b).
Lemma leqb_eq a b : leqb a b = true -> a = b.
Proof. revert b; induction a as [|x a IH]; intros [|y b]; cbn; try discriminate; auto.
  intros H. apply andb_true_iff in H as [H1 H2]. apply N.eqb_eq in H1. subst. f_equal. auto. Qed.
Lemma assoc_eqb_eq a b : assoc_eqb a b = true -> a = b. Proof. destruct a, b; cbn; congruence. Qed.
Lemma fix_eqb_eq a b : fix_eqb a b = true -> a = b. Proof. destruct a, b; cbn; congruence. Qed.
Lemma ctx_eqb_eq a b : ctx_eqb a b = true -> a = b. Proof. destruct a, b; cbn; congruence. Qed.
Lemma sem_eqb_eq a b : sem_eqb a b = true -> a = b. Proof. destruct a, b; cbn; congruence. Qed.
Lemma op_eqb_eq a b : op_eqb a b = true -> a = b.
Proof.
  destruct a, b. unfold op_eqb. cbn. intros H.
  repeat (apply andb_true_iff in H as [H ?]).
  apply leqb_eq in H. apply Nat.eqb_eq in H7. apply Z.eqb_eq in H6. apply eqb_prop in H2, H1.
  apply assoc_eqb_eq in H5. apply fix_eqb_eq in H4. apply ctx_eqb_eq in H3. apply sem_eqb_eq in H0.
  subst. reflexivity.
Qed.

Section Inst.
Variable f : flags.
Notation arrivals := (arrivals f).

Definition plainb (o : op) := ctx_eqb (octx o) CAlways && negb (odis o).
(* split candidates at o *)
Fixpoint split_at (o : op) (cs : list op) (pre : list op) : option (list op * list op) :=
  match cs with [] => None | c :: r => if op_eqb c o then Some (rev pre, r) else split_at o r (c :: pre) end.
Lemma split_at_spec o cs pre p q : split_at o cs pre = Some (p, q) -> rev pre ++ cs = p ++ o :: q.
Proof.
  revert pre. induction cs as [|c r IH]; intros pre H; cbn in H; [discriminate|].
  destruct (op_eqb c o) eqn:E.
  - apply op_eqb_eq in E. subst. injection H as <- <-. reflexivity.
  - apply IH in H. cbn [rev] in H. rewrite <- app_assoc in H. exact H.
Qed.

Fixpoint okb (e : expr) : bool :=
  match e with
  | EAtom t => is_leaf t
  | EDot o => match candidates f (osym o) with [c] => op_eqb c o | _ => false end
              && Nat.eqb (oarity o) 0 && fix_eqb (ofix o) Postfix && plainb o
  | EPar _ e => okb e
  | EBin b l r => okb l && okb r
                  && match candidates f (osym b) with c :: _ => op_eqb c b | [] => false end
                  && fix_eqb (ofix b) Infix && Nat.eqb (oarity b) 2 && plainb b
                  && forallb (fun p => popped p b) (pops l) && forallb (fun o => negb (popped b o)) (arrivals r)
  | EUn u e => okb e
               && match split_at u (candidates f (osym u)) [] with
                  | Some (pre, _) => forallb (fun c => fix_eqb (ofix c) Infix && negb (Nat.eqb (oarity c) 0)) pre
                  | None => false end
               && fix_eqb (ofix u) Prefix && Nat.eqb (oarity u) 1 && plainb u
               && forallb (fun o => negb (popped u o)) (arrivals e)
  end.

Lemma plainb_ok o : plainb o = true -> plain o.
Proof. unfold plainb, plain. intros H. apply andb_true_iff in H as [H1 H2]. apply negb_true_iff in H2. destruct (octx o); try discriminate. auto. Qed.
Lemma notpopped_b top arr : forallb (fun o => negb (popped top o)) arr = true -> notpopped top arr.
Proof. unfold notpopped. rewrite forallb_forall, Forall_forall. intros H x Hx. apply negb_true_iff, H, Hx. Qed.

Ltac brk H := repeat (apply andb_true_iff in H as [H ?]).
Ltac fixes := repeat match goal with
  | H : fix_eqb _ _ = true |- _ => apply fix_eqb_eq in H
  | H : Nat.eqb _ _ = true |- _ => apply Nat.eqb_eq in H
  | H : plainb _ = true |- _ => apply plainb_ok in H
  end.
Lemma okb_ok e : okb e = true -> ok f e.
Proof.
  induction e as [t|o|b l IHl r IHr|u e IH|sq e IH]; cbn [okb ok]; intros H; auto.
  - brk H.
    destruct (candidates f (osym o)) as [|c [|]] eqn:E; try (exfalso; clear - H; discriminate H).
    apply op_eqb_eq in H. subst c. fixes. unfold plain in *. intuition auto.
  - brk H.
    destruct (candidates f (osym b)) as [|c rest] eqn:E; [exfalso; match goal with H : false = true |- _ => discriminate H end|].
    match goal with H : op_eqb c b = true |- _ => apply op_eqb_eq in H; subst c end. fixes.
    unfold plain in *. repeat split; try tauto.
    + eexists; reflexivity.
    + apply Forall_forall. match goal with H : forallb (fun p => popped p b) _ = true |- _ => rewrite forallb_forall in H; exact H end.
    + apply notpopped_b; auto.
  - brk H.
    destruct (split_at u (candidates f (osym u)) []) as [[pre post]|] eqn:E; [|exfalso; match goal with H : false = true |- _ => discriminate H end].
    apply split_at_spec in E. cbn in E. fixes.
    unfold plain in *. repeat split; try tauto.
    + exists pre, post. split; [exact E|]. apply Forall_forall.
      match goal with H : forallb _ pre = true |- _ => rewrite forallb_forall in H; intros c Hc; specialize (H c Hc);
        apply andb_true_iff in H as [Ha Hb]; apply negb_true_iff, Nat.eqb_neq in Hb; apply fix_eqb_eq in Ha; auto end.
    + apply notpopped_b; auto.
Qed.
End Inst.

(* ---------- the default table, all structural features enabled ---------- *)
Definition fl := {| f_two := true; f_parts := true; f_stage := false |}.
Definition getop (s : sem) : op := hd (mk [] 0 0%Z AN Infix CAlways false false SDot) (filter (fun o => sem_eqb (osem o) s) (table fl)).
Definition nm (x : N) : tk := {| tx := [x]; kd := KName |}.
Definition val (x : N) : tk := {| tx := [x]; kd := KValue |}.
Definition A := EAtom (nm 97). Definition B := EAtom (nm 98). Definition C := EAtom (nm 99). Definition D := EAtom (nm 100).
Definition Y := EAtom (nm 121).
Definition bin s l r := EBin (getop s) l r.

(* y ~ -a + b * (c - d) : a ** 2 ** 3 / . | d %in% c *)
Definition rhs1 := bin SPlus (EUn (getop SUMinus) A)
                     (bin SSlash (bin SStar B (bin SColon (EPar false (bin SMinus C D)) (bin SPow A (bin SPow (EAtom (val 50)) (EAtom (val 51))))))
                                 (EDot (getop SDot))).
Definition rhs2 := bin SIn D C.

Lemma part_ok_b e : okb fl e = true -> forallb (fun o => (oprec (getop SBar) <? oprec o)%Z) (arrivals fl e ++ pops e) = true ->
  part_ok fl (getop SBar) e.
Proof.
  intros H1 H2. rewrite forallb_app in H2. apply andb_true_iff in H2 as [Ha Hp]. split; [apply okb_ok; exact H1|].
  split; apply Forall_forall; rewrite forallb_forall in *; intros x Hx; [specialize (Ha x Hx)|specialize (Hp x Hx)]; apply Z.ltb_lt; assumption.
Qed.

Example two_sided_example fixed :
  to_ast fixed fl (toksP (getop SBar) [Y] ++ optok (getop STilde2) :: toksP (getop SBar) [rhs1; rhs2])
  = inl (Some (ANode (getop STilde2) [barsA (getop SBar) [Y]; barsA (getop SBar) [rhs1; rhs2]])).
Proof.
  apply (two_sided_complete fixed fl (getop SBar) eq_refl eq_refl eq_refl eq_refl eq_refl ltac:(vm_compute; discriminate) eq_refl
           (getop STilde2) (ex_intro _ _ eq_refl) eq_refl eq_refl eq_refl eq_refl eq_refl eq_refl).
  - discriminate.
  - discriminate.
  - apply Forall_cons; [apply part_ok_b; vm_compute; reflexivity | apply Forall_nil].
  - apply Forall_cons; [apply part_ok_b; vm_compute; reflexivity |].
    apply Forall_cons; [apply part_ok_b; vm_compute; reflexivity | apply Forall_nil].
Qed.
Eval vm_compute in (map tx (toksP (getop SBar) [Y] ++ optok (getop STilde2) :: toksP (getop SBar) [rhs1; rhs2])).
Print Assumptions two_sided_example.

(* ---------- instantiation of the generic theorems for the default operator table ---------- *)
Theorem parts_complete_default fixed ps :
  ps <> [] -> Forall (part_ok fl (getop SBar)) ps ->
  to_ast fixed fl (toksP (getop SBar) ps) = inl (Some (barsA (getop SBar) ps)).
Proof.
  apply (parts_complete fixed fl (getop SBar) eq_refl eq_refl eq_refl eq_refl eq_refl ltac:(vm_compute; discriminate) eq_refl).
Qed.
Theorem two_sided_complete_default fixed ls rs :
  ls <> [] -> rs <> [] -> Forall (part_ok fl (getop SBar)) ls -> Forall (part_ok fl (getop SBar)) rs ->
  to_ast fixed fl (toksP (getop SBar) ls ++ optok (getop STilde2) :: toksP (getop SBar) rs)
  = inl (Some (ANode (getop STilde2) [barsA (getop SBar) ls; barsA (getop SBar) rs])).
Proof.
  apply (two_sided_complete fixed fl (getop SBar) eq_refl eq_refl eq_refl eq_refl eq_refl ltac:(vm_compute; discriminate) eq_refl
           (getop STilde2) (ex_intro _ _ eq_refl) eq_refl eq_refl eq_refl eq_refl eq_refl eq_refl).
Qed.
