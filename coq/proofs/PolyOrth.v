(* ===== Poly.v ===== *)
From Coq Require Import Reals List Lra Lia Arith.
Import ListNotations.
Open Scope R_scope.

Section Poly.
Variable xs : list R.

Definition ip (f g : R -> R) : R := fold_right (fun x acc => f x * g x + acc) 0 xs.

Lemma ip_sym f g : ip f g = ip g f.
Proof. unfold ip. induction xs as [|x l IH]; cbn; [reflexivity|]. rewrite IH. ring. Qed.
Lemma ip_add_l f g h : ip (fun x => f x + g x) h = ip f h + ip g h.
Proof. unfold ip. induction xs as [|x l IH]; cbn; [ring|]. rewrite IH. ring. Qed.
Lemma ip_sub_l f g h : ip (fun x => f x - g x) h = ip f h - ip g h.
Proof. unfold ip. induction xs as [|x l IH]; cbn; [ring|]. rewrite IH. ring. Qed.
Lemma ip_scal_l c f h : ip (fun x => c * f x) h = c * ip f h.
Proof. unfold ip. induction xs as [|x l IH]; cbn; [ring|]. rewrite IH. ring. Qed.
Lemma ip_x f g : ip (fun x => x * f x) g = ip f (fun x => x * g x).
Proof. unfold ip. induction xs as [|x l IH]; cbn; [ring|]. rewrite IH. ring. Qed.
Lemma ip_ext f f' g : (forall x, f x = f' x) -> ip f g = ip f' g.
Proof. intros H. unfold ip. induction xs as [|x l IH]; cbn; [reflexivity|]. rewrite IH, H. reflexivity. Qed.

(* the three-term recurrence exactly as in transforms/poly.py, alpha/beta computed from the data *)
Definition alpha_of (p : R -> R) := ip (fun x => x * p x) p / ip p p.
Fixpoint P (k : nat) : R -> R :=
  match k with
  | O => fun _ => 1
  | S k' =>
      match k' with
      | O => fun x => (x - alpha_of (fun _ => 1)) * 1
      | S k'' => fun x => (x - alpha_of (P k')) * P k' x - (ip (P k') (P k') / ip (P k'') (P k'')) * P k'' x
      end
  end.

Definition alpha k := alpha_of (P k).
Definition beta k := ip (P k) (P k) / ip (P (k-1)) (P (k-1)).

Lemma P1 x : P 1 x = (x - alpha 0) * P 0 x. Proof. reflexivity. Qed.
Lemma PSS k x : P (S (S k)) x = (x - alpha (S k)) * P (S k) x - beta (S k) * P k x.
Proof. unfold beta. replace (S k - 1)%nat with k by lia. reflexivity. Qed.

(* x * P_k = P_{k+1} + alpha_k P_k + beta_k P_{k-1} *)
Lemma xP0 x : x * P 0 x = P 1 x + alpha 0 * P 0 x.
Proof. rewrite P1. ring. Qed.
Lemma xPS k x : x * P (S k) x = P (S (S k)) x + alpha (S k) * P (S k) x + beta (S k) * P k x.
Proof. rewrite PSS. ring. Qed.

Definition nz (k : nat) := forall j, (j <= k)%nat -> ip (P j) (P j) <> 0.

Theorem orth : forall k, nz k -> forall i j, (i < j)%nat -> (j <= S k)%nat -> ip (P i) (P j) = 0.
Proof.
  induction k as [|k IH]; intros Hnz i j Hij Hj.
  - assert (i = 0%nat) by lia. assert (j = 1%nat) by lia. subst.
    rewrite ip_sym. rewrite (ip_ext (P 1) (fun x => x * P 0 x - alpha 0 * P 0 x)) by (intros; rewrite P1; ring).
    rewrite ip_sub_l, ip_scal_l. unfold alpha, alpha_of.
    pose proof (Hnz 0%nat (le_n _)). field. exact H.
  - assert (Hnz' : nz k) by (intros j' Hj'; apply Hnz; lia).
    destruct (Nat.eq_dec j (S (S k))) as [->|Hne]; [|apply (IH Hnz'); lia].
    (* <P_i, P_{k+2}> with i <= k+1 *)
    rewrite ip_sym.
    rewrite (ip_ext (P (S (S k))) (fun x => x * P (S k) x - (alpha (S k) * P (S k) x + beta (S k) * P k x)))
      by (intros; rewrite PSS; ring).
    rewrite ip_sub_l, ip_add_l, !ip_scal_l.
    assert (Hn1 : ip (P (S k)) (P (S k)) <> 0) by (apply Hnz; lia).
    assert (Hn0 : ip (P k) (P k) <> 0) by (apply Hnz; lia).
    destruct (Nat.eq_dec i (S k)) as [->|Hi1].
    + (* i = k+1 *)
      rewrite (IH Hnz' k (S k)) by lia.
      unfold alpha, alpha_of. field. exact Hn1.
    + destruct (Nat.eq_dec i k) as [->|Hi0].
      * (* i = k *)
        rewrite (ip_sym (P (S k)) (P k)). rewrite (IH Hnz' k (S k)) by lia.
        rewrite ip_x.
        (* <P_{k+1}, x P_k> = <P_{k+1}, P_{k+1} + ...> *)
        destruct k as [|k'].
        -- rewrite (ip_sym (P 1) (fun x => x * P 0 x)).
           rewrite (ip_ext (fun x => x * P 0 x) (fun x => P 1 x + alpha 0 * P 0 x)) by (intros; apply xP0).
           rewrite ip_add_l, ip_scal_l. rewrite (IH Hnz' 0%nat 1%nat) by lia.
           unfold beta. cbn [Nat.sub]. field. exact Hn0.
        -- rewrite (ip_sym (P (S (S k'))) (fun x => x * P (S k') x)).
           rewrite (ip_ext (fun x => x * P (S k') x) (fun x => P (S (S k')) x + (alpha (S k') * P (S k') x + beta (S k') * P k' x)))
             by (intros; rewrite xPS; ring).
           rewrite ip_add_l, ip_add_l, !ip_scal_l.
           rewrite (IH Hnz' (S k') (S (S k'))) by lia.
           rewrite (IH Hnz' k' (S (S k'))) by lia.
           unfold beta. replace (S (S k') - 1)%nat with (S k') by lia. field. split; [exact Hn0 | apply Hnz; lia].
      * (* i < k *)
        assert (Hik : (i < k)%nat) by lia.
        rewrite (ip_sym (P (S k)) (P i)). rewrite (IH Hnz' i (S k)) by lia.
        rewrite (ip_sym (P k) (P i)). rewrite (IH Hnz' i k) by lia.
        rewrite ip_x.
        destruct i as [|i'].
        -- rewrite (ip_sym (P (S k)) _).
           rewrite (ip_ext (fun x => x * P 0 x) (fun x => P 1 x + alpha 0 * P 0 x)) by (intros; apply xP0).
           rewrite ip_add_l, ip_scal_l.
           rewrite (IH Hnz' 1%nat (S k)) by lia. rewrite (IH Hnz' 0%nat (S k)) by lia. ring.
        -- rewrite (ip_sym (P (S k)) _).
           rewrite (ip_ext (fun x => x * P (S i') x) (fun x => P (S (S i')) x + (alpha (S i') * P (S i') x + beta (S i') * P i' x)))
             by (intros; rewrite xPS; ring).
           rewrite ip_add_l, ip_add_l, !ip_scal_l.
           rewrite (IH Hnz' (S (S i')) (S k)) by lia.
           rewrite (IH Hnz' (S i') (S k)) by lia.
           rewrite (IH Hnz' i' (S k)) by lia. ring.
Qed.

(* orthogonal to the constant: P_0 = 1 *)
Lemma sum_one_mul (g : R -> R) (l : list R) :
  fold_right (fun x acc => 1 * g x + acc) 0 l = fold_right (fun x acc => g x + acc) 0 l.
Proof. induction l as [|x l IH]; cbn; [reflexivity|]. rewrite IH. ring. Qed.
Corollary orth_const k j : nz k -> (1 <= j <= S k)%nat -> fold_right (fun x acc => P j x + acc) 0 xs = 0.
Proof.
  intros Hnz Hj. pose proof (orth k Hnz 0%nat j ltac:(lia) ltac:(lia)) as H.
  unfold ip in H. cbn [P] in H. rewrite sum_one_mul in H. exact H.
Qed.
End Poly.
Print Assumptions orth.
