(* ===== BS.v ===== *)
From Coq Require Import Reals Lra Lia Arith.
Open Scope R_scope.

Section BS.
Variable k : nat -> R.                       (* padded knot vector, as a function of the index *)
Hypothesis kmono : forall i, k i <= k (S i).

Lemma kmono_le i j : (i <= j)%nat -> k i <= k j.
Proof. induction 1; [lra | pose proof (kmono m); lra]. Qed.

Definition ind (i : nat) (x : R) : R := if Rle_dec (k i) x then (if Rlt_dec x (k (S i)) then 1 else 0) else 0.
Definition alpha (i j : nat) (x : R) : R :=
  if Req_EM_T (k (i + j)) (k i) then 0 else (x - k i) / (k (i + j) - k i).

(* Cox-de Boor, exactly the recurrence in the comment of basis_spline.py *)
Fixpoint B (d : nat) (i : nat) (x : R) : R :=
  match d with
  | O => ind i x
  | S d' => alpha i (S d') x * B d' i x + (1 - alpha (S i) (S d') x) * B d' (S i) x
  end.

Fixpoint sum (n : nat) (f : nat -> R) : R := match n with O => 0 | S n' => sum n' f + f n' end.

Lemma sum_ext n f g : (forall i, (i < n)%nat -> f i = g i) -> sum n f = sum n g.
Proof. induction n as [|n IH]; intros H; cbn; [reflexivity|]. rewrite IH, H by (intros; auto with arith). reflexivity. Qed.

(* support *)
Lemma support d : forall i x, B d i x <> 0 -> k i <= x < k (i + d + 1).
Proof.
  induction d as [|d IH]; intros i x H.
  - cbn in H. unfold ind in H. replace (i + 0 + 1)%nat with (S i) by lia.
    destruct (Rle_dec (k i) x), (Rlt_dec x (k (S i))); try lra.
  - cbn [B] in H.
    destruct (Req_dec (B d i x) 0) as [E1|N1], (Req_dec (B d (S i) x) 0) as [E2|N2].
    + rewrite E1, E2 in H. lra.
    + apply IH in N2. replace (S i + d + 1)%nat with (i + S d + 1)%nat in N2 by lia.
      pose proof (kmono i). lra.
    + apply IH in N1. pose proof (kmono_le (i + d + 1) (i + S d + 1) ltac:(lia)). lra.
    + apply IH in N1. apply IH in N2. replace (S i + d + 1)%nat with (i + S d + 1)%nat in N2 by lia. lra.
Qed.

Lemma zero_left d i x : k (i + d + 1) <= x -> B d i x = 0.
Proof. intros H. destruct (Req_dec (B d i x) 0) as [E|N]; auto. apply support in N. lra. Qed.
Lemma zero_right d i x : x < k i -> B d i x = 0.
Proof. intros H. destruct (Req_dec (B d i x) 0) as [E|N]; auto. apply support in N. lra. Qed.

(* degree 0: indicators of a monotone sequence telescope *)
Definition ge (j : nat) (x : R) : R := if Rle_dec (k j) x then 1 else 0.
Lemma ind_tele i x : ind i x = ge i x - ge (S i) x.
Proof.
  unfold ind, ge. pose proof (kmono i).
  destruct (Rle_dec (k i) x), (Rlt_dec x (k (S i))), (Rle_dec (k (S i)) x); lra.
Qed.
Lemma sum_ind n x : sum n (fun i => ind i x) = ge 0 x - ge n x.
Proof. induction n as [|n IH]; cbn [sum]; [lra|]. rewrite IH, ind_tele. lra. Qed.

(* the telescoping step of the recurrence *)
Lemma tele n (a b : nat -> R) :
  sum n (fun i => a i * b i + (1 - a (S i)) * b (S i)) = sum (S n) b - (1 - a 0%nat) * b 0%nat - a n * b n.
Proof. induction n as [|n IH]; cbn [sum] in *; [lra|]. rewrite IH. lra. Qed.

(* partition of unity on [k_d, k_{m-d}) for m+1 knots *)
Theorem partition_of_unity m : forall d, (2 * d < m)%nat -> forall x, k d <= x < k (m - d) ->
  sum (m - d) (fun i => B d i x) = 1.
Proof.
  induction d as [|d IH]; intros Hd x Hx.
  - rewrite Nat.sub_0_r in *. cbn [B]. rewrite sum_ind. unfold ge.
    destruct (Rle_dec (k 0) x), (Rle_dec (k m) x); lra.
  - cbn [B].
    replace (m - S d)%nat with (m - d - 1)%nat by lia.
    rewrite (tele (m - d - 1) (fun i => alpha i (S d) x) (fun i => B d i x)).
    replace (S (m - d - 1)) with (m - d)%nat by lia.
    rewrite IH.
    + rewrite (zero_left d 0 x) by (replace (0 + d + 1)%nat with (S d) by lia; lra).
      rewrite (zero_right d (m - d - 1) x) by (replace (m - d - 1)%nat with (m - S d)%nat by lia; lra).
      lra.
    + lia.
    + pose proof (kmono d). pose proof (kmono_le (m - S d) (m - d) ltac:(lia)). lra.
Qed.

(* non-negativity on the same domain requires alpha in [0,1] on the support *)
Lemma alpha_range i j x : k i <= x < k (i + j) -> 0 <= alpha i j x <= 1.
Proof.
  intros H. unfold alpha. destruct (Req_EM_T (k (i + j)) (k i)) as [E|N]; [lra|].
  assert (0 < k (i + j) - k i) by lra.
  split.
  - apply Rmult_le_pos; [lra | left; apply Rinv_0_lt_compat; lra].
  - apply (Rmult_le_reg_r (k (i + j) - k i)); [lra|]. unfold Rdiv. rewrite Rmult_assoc, Rinv_l by lra. lra.
Qed.

Theorem nonneg d : forall i x, 0 <= B d i x.
Proof.
  induction d as [|d IH]; intros i x.
  - cbn. unfold ind. destruct (Rle_dec (k i) x), (Rlt_dec x (k (S i))); lra.
  - cbn [B].
    assert (H1 : 0 <= alpha i (S d) x * B d i x).
    { destruct (Req_dec (B d i x) 0) as [E|N]; [rewrite E; lra|].
      apply support in N. apply Rmult_le_pos; [|apply IH].
      apply alpha_range. pose proof (kmono_le (i + d + 1) (i + S d) ltac:(lia)). lra. }
    assert (H2 : 0 <= (1 - alpha (S i) (S d) x) * B d (S i) x).
    { destruct (Req_dec (B d (S i) x) 0) as [E|N]; [rewrite E; lra|].
      apply support in N. apply Rmult_le_pos; [|apply IH].
      assert (0 <= alpha (S i) (S d) x <= 1); [|lra].
      apply alpha_range. replace (S i + S d)%nat with (S i + d + 1)%nat by lia. lra. }
    lra.
Qed.
End BS.
Print Assumptions partition_of_unity.
