(* ===== RequiredVars.v : the reported required variables, as a list of names, are sufficient and necessary (C17) ===== *)
From Coq Require Import List NArith ZArith QArith Qcanon Bool Arith.
Import ListNotations.
Require Import Struct Mat MatDrop MatParts MatSep ResolveLaws.
Open Scope nat_scope.

Lemma required_in terms v : In v (required_vars terms) <-> exists f, In f (concat terms) /\ fk f = FLookup /\ fx f = v.
Proof.
  unfold required_vars. rewrite in_flat_map. split.
  - intros (f & Hf & Hv). destruct (fk f) eqn:E; [destruct Hv|]. destruct Hv as [<-|[]]. eauto.
  - intros (f & Hf & Hk & Hv). exists f. rewrite Hk. split; [exact Hf | left; exact Hv].
Qed.
Lemma lookup_restrict d names n : mem_s n names = true -> lookup (restrict d names) n = lookup d n.
Proof.
  intro Hn. induction d as [|[k c] r IH]; cbn [restrict filter lookup fst]; [reflexivity|].
  destruct (leqb k n) eqn:E.
  - apply leqb_eq in E. subst k. rewrite Hn. cbn [lookup]. rewrite leqb_refl. reflexivity.
  - destruct (mem_s k names); [cbn [lookup]; rewrite E|]; exact IH.
Qed.
Lemma lookup_without d v : lookup (without d v) v = None.
Proof.
  induction d as [|[k c] r IH]; cbn [without filter lookup fst]; [reflexivity|].
  destruct (leqb k v) eqn:E; cbn [negb]; [exact IH|]. cbn [lookup]. rewrite E. exact IH.
Qed.
Lemma lookup_without_other d v n : n <> v -> lookup (without d v) n = lookup d n.
Proof.
  intro Hn. induction d as [|[k c] r IH]; cbn [without filter lookup fst]; [reflexivity|].
  destruct (leqb k v) eqn:E; cbn [negb].
  - apply leqb_eq in E. subst k. destruct (leqb v n) eqn:E2; [apply leqb_eq in E2; congruence | exact IH].
  - cbn [lookup]. destruct (leqb k n); [reflexivity | exact IH].
Qed.

(* sufficient: on the data restricted to exactly the reported names (each present in the data) no factor fails to evaluate *)
Theorem required_vars_sufficient d n c terms :
  (forall v, In v (required_vars terms) -> lookup d v <> None) ->
  build (restrict d (required_vars terms)) n c terms <> inr EEval.
Proof.
  intro H. apply required_sufficient. intros f Hf. apply pool_sub in Hf. unfold missing. destruct (fk f) eqn:Ek; [reflexivity|].
  assert (Hv : In (fx f) (required_vars terms)) by (apply required_in; eauto).
  rewrite lookup_restrict by (apply mem_s_In, Hv). specialize (H _ Hv). destruct (lookup d (fx f)); [reflexivity | congruence].
Qed.
(* necessary: taking any one reported name away makes materialization fail with the factor-evaluation error.
   `consistent`: an expression text has one kind -- the hypothesis fails exactly for a data column whose name is also a literal
   (known finding C15-column-named-1, where the implementation itself confuses the two) *)
Theorem required_vars_necessary d n c terms v :
  consistent (concat terms) -> In v (required_vars terms) -> build (without d v) n c terms = inr EEval.
Proof.
  intros Hc Hv. apply required_in in Hv as (g & Hg & Hk & Hx).
  pose proof (pool_covers terms g Hg) as Hp. apply in_map_iff in Hp as (f & Hfx & Hf).
  apply (required_necessary _ n c terms f Hf). unfold missing.
  rewrite (Hc f g (pool_sub terms f Hf) Hg Hfx), Hk, Hfx, Hx, lookup_without. reflexivity.
Qed.
(* and taking away a column that is NOT reported changes nothing that evaluation looks at *)
Theorem unreported_column_is_irrelevant d n c terms v :
  ~ In v (required_vars terms) -> (forall f, In f (pool_of terms) -> missing d f = false) ->
  build (without d v) n c terms <> inr EEval.
Proof.
  intros Hv H. apply required_sufficient. intros f Hf. specialize (H f Hf). unfold missing in *. destruct (fk f) eqn:Ek; [reflexivity|].
  rewrite lookup_without_other; [exact H|]. intro E. apply Hv, required_in. exists f. split; [apply pool_sub, Hf | auto].
Qed.
(* structured formulas: the same for the parts evaluated jointly *)
Theorem required_vars_necessary_parts d n c (parts : list (list term)) v :
  consistent (concat (concat parts)) -> In v (required_vars (concat parts)) -> build_parts (without d v) n c parts = inr EEval.
Proof.
  intros Hc Hv. apply required_in in Hv as (g & Hg & Hk & Hx).
  pose proof (pool_covers (concat parts) g Hg) as Hp. apply in_map_iff in Hp as (f & Hfx & Hf).
  assert (Hm : missing (without d v) f = true).
  { unfold missing. rewrite (Hc f g (pool_sub _ f Hf) Hg Hfx), Hk, Hfx, Hx, lookup_without. reflexivity. }
  pose proof (eval_pool_missing (without d v) _ [] f Hf Hm) as E. unfold build_parts, Mat.bind. rewrite E. reflexivity.
Qed.
Theorem required_vars_sufficient_parts d n c (parts : list (list term)) :
  (forall v, In v (required_vars (concat parts)) -> lookup d v <> None) ->
  build_parts (restrict d (required_vars (concat parts))) n c parts <> inr EEval.
Proof.
  intro H. unfold build_parts, Mat.bind.
  destruct (eval_pool_ok (restrict d (required_vars (concat parts))) (pool_of (concat parts)) []) as [evs ->].
  - intros f Hf. apply pool_sub in Hf. unfold missing. destruct (fk f) eqn:Ek; [reflexivity|].
    assert (Hv : In (fx f) (required_vars (concat parts))) by (apply required_in; eauto).
    rewrite lookup_restrict by (apply mem_s_In, Hv). specialize (H _ Hv). destruct (lookup d (fx f)); [reflexivity | congruence].
  - destruct (na_action c); destruct (all_nulls evs); discriminate.
Qed.
