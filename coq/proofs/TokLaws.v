(* ===== TokLaws.v : quote-faithfulness, span invariants, and lifting of token equalities to parsed formulas (C15) ===== *)
From Coq Require Import List NArith ZArith Bool Arith Lia.
Import ListNotations.
Require Import Tok TokEr TokWs Parser Parser2 Parser3.
Open Scope N_scope.

Section T.
Variable cl : N -> cls.

(* ---------- run / run_p / tokenize / tokenize_partial ---------- *)
Lemma run_p_of_run l : forall s i s', run cl s i l = inl s' -> run_p cl s i l = (s', None).
Proof.
  induction l as [|c r IH]; intros s i s'; cbn.
  - intro H; inversion H; reflexivity.
  - destruct (step cl s i c) as [s1|e]; [apply IH | discriminate].
Qed.
Lemma partial_of_total l ts : tokenize cl l = inl ts -> tokenize_partial cl l = (ts, None).
Proof.
  unfold tokenize, tokenize_partial. destruct (run cl init 0 l) as [s|e] eqn:E; [|discriminate].
  rewrite (run_p_of_run _ _ _ _ E). destruct (qc s); [|discriminate]. intro H; inversion H; reflexivity.
Qed.

(* the parser looks at (text, kind) of tokens only *)
Lemma of_token_er t t' : er_tok t = er_tok t' -> of_token t = of_token t'.
Proof. unfold er_tok, of_token. intro H; inversion H. congruence. Qed.
Lemma map_of_token_er ts ts' : map er_tok ts = map er_tok ts' -> map of_token ts = map of_token ts'.
Proof.
  revert ts'. induction ts as [|t r IH]; destruct ts' as [|t' r']; cbn [map]; intro H; try discriminate; auto.
  injection H as H1 H2 H3. f_equal; [unfold of_token; rewrite H1, H2; reflexivity | apply IH; exact H3].
Qed.

(* if two strings tokenize to the same (text, kind) sequences, every parser configuration reads them identically *)
Theorem get_terms_er fixed ic f av bad pn pv l l' ts ts' :
  tokenize cl l = inl ts -> tokenize cl l' = inl ts' -> map er_tok ts = map er_tok ts' ->
  get_terms fixed ic f av bad pn pv cl l = get_terms fixed ic f av bad pn pv cl l'.
Proof.
  intros H1 H2 He. unfold get_terms. rewrite (partial_of_total _ _ H1), (partial_of_total _ _ H2).
  rewrite (map_of_token_er _ _ He). reflexivity.
Qed.

(* whitespace insensitivity at the level of parsed formulas *)
Theorem ws_insensitive_parsed fixed ic f av bad pn pv l1 w l2 s ts ts' :
  run cl init 0 l1 = inl s -> qc s = [] -> take s = 0%nat -> is_ws cl w = true -> boundary cl s (hd_error l2) ->
  tokenize cl (l1 ++ w :: l2) = inl ts -> tokenize cl (l1 ++ l2) = inl ts' ->
  get_terms fixed ic f av bad pn pv cl (l1 ++ w :: l2) = get_terms fixed ic f av bad pn pv cl (l1 ++ l2).
Proof.
  intros Hr Hq Ht Hw Hb H1 H2. eapply get_terms_er; eauto.
  pose proof (ws_insensitive cl l1 w l2 s Hr Hq Ht Hw Hb) as H. rewrite H1, H2 in H. cbn in H. congruence.
Qed.
(* ... and both sides tokenize or fail together, with the same error *)
Theorem ws_insensitive_errors l1 w l2 s e :
  run cl init 0 l1 = inl s -> qc s = [] -> take s = 0%nat -> is_ws cl w = true -> boundary cl s (hd_error l2) ->
  (tokenize cl (l1 ++ w :: l2) = inr e <-> tokenize cl (l1 ++ l2) = inr e).
Proof.
  intros Hr Hq Ht Hw Hb. pose proof (ws_insensitive cl l1 w l2 s Hr Hq Ht Hw Hb) as H.
  destruct (tokenize cl (l1 ++ w :: l2)), (tokenize cl (l1 ++ l2)); cbn in H; try discriminate; split; intro X; try discriminate; congruence.
Qed.

(* ---------- backtick-quoted names are taken verbatim ---------- *)
Definition plain_in_backticks (c : N) : bool := negb (c =? cBT) && negb (c =? cBS).
Definition name_tok (w : list N) (a b : nat) : token := {| ttext := w; tkind := Some KName; tstart := Some a; tend := Some b |}.

Lemma run_in_backticks w : forall acc a b i o,
  forallb plain_in_backticks w = true ->
  run cl {| qc := [cBT]; take := 0; cur := name_tok acc a b; out := o |} i w =
  inl {| qc := [cBT]; take := 0; cur := name_tok (acc ++ w) a (match w with [] => b | _ => (i + length w - 1)%nat end); out := o |}.
Proof.
  induction w as [|c r IH]; intros acc a b i o H; cbn [run].
  - rewrite app_nil_r. reflexivity.
  - cbn [forallb] in H. apply andb_true_iff in H as [Hc Hr]. unfold plain_in_backticks in Hc.
    apply andb_true_iff in Hc as [H1 H2]. apply negb_true_iff in H1, H2.
    unfold step. cbn [take qc]. rewrite H2. cbn [orb andb].
    replace ((cBT =? cRB) || (cBT =? cBT) || (cBT =? cPCT)) with true by reflexivity. rewrite H1. cbn [andb].
    replace ((cBT =? cRB) || (cBT =? cRP) || (cBT =? cRS)) with false by reflexivity. rewrite andb_false_r.
    replace (cBT =? cRB) with false by reflexivity. rewrite andb_false_r. cbn [app].
    unfold set_qc, set_cur, update. cbn [qc take cur out ttext tkind tstart tend name_tok].
    change {| ttext := acc ++ [c]; tkind := Some KName; tstart := Some a; tend := Some i |} with (name_tok (acc ++ [c]) a i).
    rewrite (IH (acc ++ [c]) a i (S i) o Hr). rewrite <- app_assoc. cbn [app].
    f_equal. f_equal. f_equal. destruct r; cbn [length]; f_equal; lia.
Qed.

Lemma yield_cur_shape s : qc s = [] -> take s = 0%nat ->
  qc (yield_cur s) = [] /\ take (yield_cur s) = 0%nat.
Proof. intros Hq Ht. unfold yield_cur. destruct (truthy (cur s)); cbn; auto. Qed.

Lemma step_open_backtick s i : qc s = [] -> take s = 0%nat ->
  step cl s i cBT = inl {| qc := [cBT]; take := 0; cur := name_tok [] i i; out := out (yield_cur s) |}.
Proof.
  intros Hq Ht. unfold step. rewrite Ht, Hq.
  replace (cBT =? cPCT) with false by reflexivity. replace (cBT =? cLB) with false by reflexivity.
  replace (cBT =? cBT) with true by reflexivity. cbn iota.
  destruct (yield_cur_shape s Hq Ht) as [H1 H2].
  unfold set_qc, set_cur, fresh_k, name_tok. cbn [qc take cur out]. rewrite H2. reflexivity.
Qed.

Lemma step_close_backtick w a b o i : w <> [] ->
  step cl {| qc := [cBT]; take := 0; cur := name_tok w a b; out := o |} i cBT =
  inl {| qc := []; take := 0; cur := fresh; out := name_tok w a b :: o |}.
Proof.
  intro Hw. unfold step. cbn [take qc]. replace (cBT =? cBS) with false by reflexivity.
  replace (((cBT =? cRB) || (cBT =? cBT) || (cBT =? cPCT)) && (cBT =? cBT)) with true by reflexivity. cbn iota.
  unfold truthy, name_tok. cbn [cur ttext set_qc]. destruct w; [congruence|]. reflexivity.
Qed.

(* A backtick-quoted name, wherever it starts at top level, produces exactly one NAME token whose text is the quoted
   characters, whatever operators, quotes, brackets or spaces they are; its span is the quoted region. *)
Theorem backtick_verbatim w s i :
  qc s = [] -> take s = 0%nat -> w <> [] -> forallb plain_in_backticks w = true ->
  run cl s i (cBT :: w ++ [cBT]) =
  inl {| qc := []; take := 0; cur := fresh; out := name_tok w i (i + length w)%nat :: out (yield_cur s) |}.
Proof.
  intros Hq Ht Hw Hp. cbn [run]. rewrite (step_open_backtick s i Hq Ht).
  rewrite run_app. rewrite (run_in_backticks w [] i i (S i) _ Hp). cbn [app run].
  destruct w as [|c r]; [congruence|].
  rewrite step_close_backtick by discriminate.
  f_equal. f_equal. f_equal. unfold name_tok. f_equal. f_equal. cbn [length]. lia.
Qed.

(* whole-string corollary: "`w`" is the single NAME token w *)
Corollary backtick_name_alone w :
  w <> [] -> forallb plain_in_backticks w = true ->
  tokenize cl (cBT :: w ++ [cBT]) = inl [name_tok w 0 (length w)].
Proof.
  intros Hw Hp. unfold tokenize. rewrite (backtick_verbatim w init 0 eq_refl eq_refl Hw Hp). reflexivity.
Qed.
End T.
