(* ===== DummySpan.v : why dropping the reference column loses nothing (C03, one factor) =====
   For a categorical column whose values all lie in the level list, the indicator columns of ALL levels add up to the column of ones, row by
   row.  Hence [1 | dummies of the levels but the first] and [dummies of all levels] are expressible in one another: the reference dummy is the
   intercept minus the other dummies, and the intercept is the sum of all dummies -- the single-factor case of "rank reduction leaves the
   column space unchanged". *)
From Coq Require Import List NArith ZArith QArith Qcanon Bool Arith Lia.
Import ListNotations.
Require Import Mat MatSep.
Open Scope Qc_scope.

Definition q1 : Qc := Q2Qc 1.
Definition q0 : Qc := Q2Qc 0.
(* one cell of an indicator column *)
Definition ind_cell (o : option str) (lv : str) : Qc := match o with Some s => if leqb s lv then q1 else q0 | None => q0 end.
Lemma indicator_nth v lv i o : nth_error v i = Some o -> nth_error (indicator v lv) i = Some (Some (ind_cell o lv)).
Proof. intro H. unfold indicator, ind_cell. rewrite nth_error_map, H. cbn. destruct o as [s|]; [destruct (leqb s lv)|]; reflexivity. Qed.

Definition qsum (l : list Qc) : Qc := fold_right Qcplus q0 l.

Lemma row_count_absent s lvs : ~ In s lvs -> qsum (map (ind_cell (Some s)) lvs) = q0.
Proof.
  induction lvs as [|lv r IH]; intro H; cbn [map qsum fold_right]; [reflexivity|].
  unfold qsum in IH. rewrite IH by (intro X; apply H; right; exact X). cbn [ind_cell].
  destruct (leqb s lv) eqn:E; [exfalso; apply H; left; symmetry; apply leqb_eq, E|]. unfold q0. ring.
Qed.
(* a value of the level list is counted exactly once *)
Theorem row_count_one s lvs : NoDup lvs -> In s lvs -> qsum (map (ind_cell (Some s)) lvs) = q1.
Proof.
  induction lvs as [|lv r IH]; intros Hnd Hin; [destruct Hin|]. inversion Hnd as [|? ? Hnot Hnd']; subst.
  cbn [map qsum fold_right ind_cell]. destruct (leqb s lv) eqn:E.
  - apply leqb_eq in E. subst lv. fold (qsum (map (ind_cell (Some s)) r)). rewrite (row_count_absent s r Hnot). unfold q1, q0. ring.
  - destruct Hin as [->|Hin]; [rewrite leqb_refl in E; discriminate|]. fold (qsum (map (ind_cell (Some s)) r)). rewrite (IH Hnd' Hin). unfold q1, q0. ring.
Qed.

(* the full dummy coding spans the intercept: in every row the dummies of all levels add up to one *)
Theorem full_dummies_sum_to_one v lvs i s : NoDup lvs -> nth_error v i = Some (Some s) -> In s lvs ->
  exists cells, Forall2 (fun lv c => nth_error (indicator v lv) i = Some (Some c)) lvs cells /\ qsum cells = q1.
Proof.
  intros Hnd Hv Hin. exists (map (ind_cell (Some s)) lvs). split.
  - clear Hnd Hin. induction lvs as [|lv r IH]; cbn [map]; constructor; [apply (indicator_nth v lv i (Some s) Hv) | exact IH].
  - apply row_count_one; assumption.
Qed.
(* hence the dummy of the reference level is the intercept minus the other dummies (and nothing is lost by dropping it) *)
Corollary reference_dummy_is_rest ref others s : NoDup (ref :: others) -> In s (ref :: others) ->
  ind_cell (Some s) ref = q1 - qsum (map (ind_cell (Some s)) others).
Proof.
  intros Hnd Hin. pose proof (row_count_one s (ref :: others) Hnd Hin) as H. cbn [map qsum fold_right] in H.
  fold (qsum (map (ind_cell (Some s)) others)) in H. rewrite <- H. ring.
Qed.
