(* ===== ContrastLaws.v : properties of the built-in contrast codings for EVERY number of levels (C11) ===== *)
From Coq Require Import List ZArith Bool Arith Lia.
Import ListNotations.
Require Import Contrasts.
Open Scope Z_scope.

Lemma sumZ_ext f g n : (forall k, (k < n)%nat -> f k = g k) -> sumZ f n = sumZ g n.
Proof. induction n as [|n IH]; intro H; cbn; auto. rewrite IH, H; auto. Qed.
Lemma sumZ_const a n : sumZ (fun _ => a) n = zn n * a.
Proof. unfold zn. induction n as [|n IH]; cbn [sumZ]; [lia|]. rewrite IH. lia. Qed.
Lemma sumZ_plus f g n : sumZ (fun k => f k + g k) n = sumZ f n + sumZ g n.
Proof. induction n as [|n IH]; cbn; [lia|]. rewrite IH. lia. Qed.
Lemma sumZ_scale a f n : sumZ (fun k => a * f k) n = a * sumZ f n.
Proof. induction n as [|n IH]; cbn; [lia|]. rewrite IH. lia. Qed.
(* the indicator of one index *)
Lemma sumZ_indicator j n : sumZ (fun k => Zb (Nat.eqb k j)) n = Zb (Nat.ltb j n).
Proof.
  induction n as [|n IH]; cbn [sumZ]; [reflexivity|]. rewrite IH. unfold Zb.
  destruct (Nat.ltb_spec j n), (Nat.eqb_spec n j), (Nat.ltb_spec j (S n)); lia.
Qed.
(* sum of a function times an indicator picks one value *)
Lemma sumZ_pick f j n : sumZ (fun k => f k * Zb (Nat.eqb k j)) n = if Nat.ltb j n then f j else 0.
Proof.
  induction n as [|n IH]; cbn [sumZ]; [reflexivity|]. rewrite IH. unfold Zb.
  destruct (Nat.ltb_spec j n), (Nat.eqb_spec n j), (Nat.ltb_spec j (S n)); subst; lia.
Qed.
(* the initial-segment indicator *)
Lemma sumZ_prefix c a n : sumZ (fun r => if Nat.leb r c then a else 0) n = zn (Nat.min n (S c)) * a.
Proof.
  unfold zn. induction n as [|n IH]; cbn [sumZ]; [cbn; lia|]. rewrite IH.
  destruct (Nat.leb_spec n c); [rewrite !Nat.min_l by lia | rewrite !Nat.min_r by lia]; lia.
Qed.

(* ---------- full coding = identity ---------- *)
Theorem full_is_identity r c : full r c = if Nat.eqb r c then 1 else 0.
Proof. reflexivity. Qed.

(* ---------- columns sum to zero: sum, Helmert (both directions), difference (both directions) ---------- *)
Theorem sum_columns_zero n c : (S c < n)%nat -> sumZ (fun r => sumc n r c) n = 0.
Proof.
  intro H. destruct n as [|m]; [lia|]. cbn [sumZ]. unfold sumc at 2. replace (S m - 1)%nat with m by lia. rewrite Nat.eqb_refl.
  rewrite (sumZ_ext _ (fun r => Zb (Nat.eqb r c))).
  - rewrite sumZ_indicator. unfold Zb. destruct (Nat.ltb_spec c m); lia.
  - intros k Hk. unfold sumc. replace (S m - 1)%nat with m by lia. destruct (Nat.eqb_spec k m); [lia | reflexivity].
Qed.

Theorem helmert_rev_columns_zero n c : (S c < n)%nat -> sumZ (fun r => helmert_rev r c) n = 0.
Proof.
  intro H. unfold helmert_rev.
  rewrite (sumZ_ext _ (fun r => (if Nat.leb r c then -1 else 0) + zn (S c) * Zb (Nat.eqb r (S c)))).
  - rewrite sumZ_plus, sumZ_prefix, sumZ_scale, sumZ_indicator. unfold Zb, zn.
    rewrite Nat.min_r by lia. destruct (Nat.ltb_spec (S c) n); lia.
  - intros k Hk. unfold Zb. destruct (Nat.leb_spec k c), (Nat.eqb_spec k (S c)); lia.
Qed.

Theorem helmert_fwd_columns_zero n c : (S c < n)%nat -> sumZ (fun r => helmert_fwd n r c) n = 0.
Proof.
  intro H. unfold helmert_fwd.
  (* = (n-c-1) at r=c, and -1 for the n-c-1 rows below *)
  rewrite (sumZ_ext _ (fun r => zn (n - c - 1) * Zb (Nat.eqb r c) + (-1 + (if Nat.leb r c then 1 else 0)))).
  - rewrite sumZ_plus, sumZ_scale, sumZ_indicator, sumZ_plus, sumZ_const, sumZ_prefix. unfold Zb, zn.
    rewrite Nat.min_r by lia. destruct (Nat.ltb_spec c n); lia.
  - intros k Hk. unfold Zb. destruct (Nat.eqb_spec k c), (Nat.ltb_spec c k), (Nat.leb_spec k c); lia.
Qed.

Theorem diff_columns_zero n c : (S c < n)%nat -> sumZ (fun r => diff_num n r c) n = 0.
Proof.
  intro H. unfold diff_num.
  rewrite (sumZ_ext _ (fun r => zn (S c) + (if Nat.leb r c then - zn n else 0))).
  - rewrite sumZ_plus, sumZ_const, sumZ_prefix. unfold zn. rewrite Nat.min_r by lia. lia.
  - intros k Hk. destruct (Nat.leb k c); lia.
Qed.
Theorem diff_fwd_columns_zero n c : (S c < n)%nat -> sumZ (fun r => diff_fwd_num n r c) n = 0.
Proof.
  intro H. unfold diff_fwd_num. rewrite (sumZ_ext _ (fun r => -1 * diff_num n r c)) by (intros; lia).
  rewrite sumZ_scale, diff_columns_zero by exact H. lia.
Qed.
(* scaling a column by a constant keeps its sum zero (scaled Helmert): stated on numerators *)
Theorem scaled_column_zero f d n : sumZ f n = 0 -> sumZ (fun r => d * f r) n = 0.
Proof. intro H. rewrite sumZ_scale, H. lia. Qed.

(* ---------- treatment coding: each column is the indicator of one non-reference level ---------- *)
Theorem treatment_column_is_indicator b r c : treatment b r c = Zb (Nat.eqb r (if Nat.ltb c b then c else S c)).
Proof. reflexivity. Qed.
Theorem treatment_reference_row_zero b c : treatment b b c = 0.
Proof.
  unfold treatment, Zb. destruct (Nat.ltb_spec c b) as [H|H].
  - destruct (Nat.eqb_spec b c); [lia | reflexivity].
  - destruct (Nat.eqb_spec b (S c)); [lia | reflexivity].
Qed.

(* ---------- the coefficient matrix is the inverse of [1 | coding]:  K . [1|C] = I  for every n ---------- *)
Theorem treatment_inverse n b i j : (b < n)%nat -> (i < n)%nat -> (j < n)%nat ->
  mmul n (K_treatment b) (with_const (treatment b)) i j = Zb (Nat.eqb i j).
Proof.
  intros Hb Hi Hj. unfold mmul.
  destruct i as [|i'].
  - (* row 0 picks the reference row of [1|C] *)
    cbn [K_treatment]. rewrite (sumZ_ext _ (fun k => with_const (treatment b) k j * Zb (Nat.eqb k b))) by (intros; lia).
    rewrite sumZ_pick. destruct (Nat.ltb_spec b n); [|lia].
    destruct j as [|c]; cbn [with_const]; [reflexivity|]. rewrite treatment_reference_row_zero. reflexivity.
  - cbn [K_treatment]. set (lv := if Nat.ltb i' b then i' else S i').
    rewrite (sumZ_ext _ (fun k => with_const (treatment b) k j * Zb (Nat.eqb k lv) + (-1) * (with_const (treatment b) k j * Zb (Nat.eqb k b)))) by (intros; lia).
    rewrite sumZ_plus, sumZ_scale, !sumZ_pick.
    assert (Hlv : (lv < n)%nat) by (unfold lv; destruct (Nat.ltb_spec i' b); lia).
    destruct (Nat.ltb_spec lv n); [|lia]. destruct (Nat.ltb_spec b n); [|lia].
    destruct j as [|c]; cbn [with_const].
    + cbn. lia.
    + rewrite treatment_reference_row_zero. unfold treatment, Zb, lv.
      destruct (Nat.ltb_spec i' b), (Nat.ltb_spec c b), (Nat.eqb_spec (S i') (S c));
        repeat match goal with |- context [Nat.eqb ?a ?b] => destruct (Nat.eqb_spec a b) end; lia.
Qed.

Theorem sum_inverse n i j : (0 < n)%nat -> (i < n)%nat -> (j < n)%nat ->
  mmul n (nK_sum n) (with_const (sumc n)) i j = zn n * Zb (Nat.eqb i j).
Proof.
  intros Hn Hi Hj. unfold mmul.
  assert (Hcol : forall c, (S c < n)%nat -> sumZ (fun k => sumc n k c) n = 0) by (intros; apply sum_columns_zero; auto).
  destruct i as [|i'].
  - cbn [nK_sum]. rewrite (sumZ_ext _ (fun k => with_const (sumc n) k j)) by (intros; lia).
    destruct j as [|c]; cbn [with_const].
    + rewrite sumZ_const. unfold Zb. cbn [Nat.eqb]. lia.
    + rewrite Hcol by lia. unfold Zb. cbn [Nat.eqb]. lia.
  - cbn [nK_sum].
    rewrite (sumZ_ext _ (fun k => zn n * (with_const (sumc n) k j * Zb (Nat.eqb k i')) + (-1) * with_const (sumc n) k j)) by (intros; lia).
    rewrite sumZ_plus, !sumZ_scale, sumZ_pick. destruct (Nat.ltb_spec i' n); [|lia].
    destruct j as [|c]; cbn [with_const].
    + rewrite sumZ_const. unfold Zb. cbn [Nat.eqb]. lia.
    + rewrite Hcol by lia. unfold sumc, Zb.
      destruct (Nat.eqb_spec i' (n - 1)); [lia|]. destruct (Nat.eqb_spec i' c), (Nat.eqb_spec (S i') (S c)); lia.
Qed.

(* ---------- bounded confirmation of invertibility for the remaining codings (n <= 8): determinant-free check that the
              columns of [1|C] are linearly independent is done numerically by the harness; here: shape facts ---------- *)
Theorem helmert_rev_entries r c : helmert_rev r c = if Nat.leb r c then -1 else if Nat.eqb r (S c) then zn (S c) else 0.
Proof. reflexivity. Qed.

(* ---------- difference coding: K = (grand mean ; level_{j+1} - level_j)  is the inverse of [1 | C] ---------- *)
Definition nK_diff (n : nat) (i r : nat) : Z := match i with O => 1 | S j => zn n * (Zb (Nat.eqb r (S j)) - Zb (Nat.eqb r j)) end.
Theorem diff_inverse_const n i : (0 < n)%nat -> (i < n)%nat -> sumZ (fun r => nK_diff n i r * 1) n = zn n * Zb (Nat.eqb i 0).
Proof.
  intros Hn Hi. destruct i as [|j]; cbn [nK_diff].
  - rewrite sumZ_const. unfold Zb. cbn [Nat.eqb]. lia.
  - rewrite (sumZ_ext _ (fun r => zn n * Zb (Nat.eqb r (S j)) + (- zn n) * Zb (Nat.eqb r j))) by (intros; lia).
    rewrite sumZ_plus, !sumZ_scale, !sumZ_indicator. unfold Zb. cbn [Nat.eqb].
    destruct (Nat.ltb_spec (S j) n), (Nat.ltb_spec j n); lia.
Qed.
Theorem diff_inverse_coding n i c : (S c < n)%nat -> (i < n)%nat ->
  sumZ (fun r => nK_diff n i r * diff_num n r c) n = zn n * zn n * Zb (Nat.eqb i (S c)).
Proof.
  intros Hc Hi. destruct i as [|j]; cbn [nK_diff].
  - rewrite (sumZ_ext _ (fun r => diff_num n r c)) by (intros; lia). rewrite diff_columns_zero by exact Hc. unfold Zb. cbn [Nat.eqb]. lia.
  - rewrite (sumZ_ext _ (fun r => zn n * (diff_num n r c * Zb (Nat.eqb r (S j))) + (- zn n) * (diff_num n r c * Zb (Nat.eqb r j)))) by (intros; lia).
    rewrite sumZ_plus, !sumZ_scale, !sumZ_pick.
    destruct (Nat.ltb_spec (S j) n); [|lia]. destruct (Nat.ltb_spec j n); [|lia].
    unfold diff_num, Zb. destruct (Nat.leb_spec (S j) c), (Nat.leb_spec j c), (Nat.eqb_spec (S j) (S c)); lia.
Qed.

(* ---------- Helmert (reverse=True, R's contr.helmert): the columns of [1|C] are mutually orthogonal, so the coefficient
              matrix D^-1 [1|C]^T is its inverse; squared norms: n for the constant, (c+1)(c+2) for column c ---------- *)
Theorem helmert_rev_orthogonal_to_const n c : (S c < n)%nat -> sumZ (fun r => 1 * helmert_rev r c) n = 0.
Proof. intro H. rewrite (sumZ_ext _ (fun r => helmert_rev r c)) by (intros; lia). apply helmert_rev_columns_zero. exact H. Qed.
Theorem helmert_rev_gram n c1 c2 : (S c1 < n)%nat -> (S c2 < n)%nat -> (c1 <= c2)%nat ->
  sumZ (fun r => helmert_rev r c1 * helmert_rev r c2) n = if Nat.eqb c1 c2 then zn (S c1) * zn (S c1 + 1) else 0.
Proof.
  intros H1 H2 Hle. destruct (Nat.eqb_spec c1 c2) as [->|Hne].
  - rewrite (sumZ_ext _ (fun r => (if Nat.leb r c2 then 1 else 0) + zn (S c2) * zn (S c2) * Zb (Nat.eqb r (S c2)))).
    + rewrite sumZ_plus, sumZ_prefix, sumZ_scale, sumZ_indicator. unfold Zb, zn. rewrite Nat.min_r by lia.
      destruct (Nat.ltb_spec (S c2) n); lia.
    + intros k Hk. unfold helmert_rev, Zb. destruct (Nat.leb_spec k c2), (Nat.eqb_spec k (S c2)); lia.
  - rewrite (sumZ_ext _ (fun r => (if Nat.leb r c1 then 1 else 0) + (- zn (S c1)) * Zb (Nat.eqb r (S c1)))).
    + rewrite sumZ_plus, sumZ_prefix, sumZ_scale, sumZ_indicator. unfold Zb, zn. rewrite Nat.min_r by lia.
      destruct (Nat.ltb_spec (S c1) n); lia.
    + intros k Hk. unfold helmert_rev, Zb.
      destruct (Nat.leb_spec k c1), (Nat.leb_spec k c2), (Nat.eqb_spec k (S c1)), (Nat.eqb_spec k (S c2)); lia.
Qed.
(* Helmert (reverse=False): the same, mirrored: squared norm of column c is (n-c-1)(n-c) *)
Theorem helmert_fwd_gram n c1 c2 : (S c1 < n)%nat -> (S c2 < n)%nat -> (c1 <= c2)%nat ->
  sumZ (fun r => helmert_fwd n r c1 * helmert_fwd n r c2) n = if Nat.eqb c1 c2 then zn (n - c1 - 1) * zn (n - c1) else 0.
Proof.
  intros H1 H2 Hle. destruct (Nat.eqb_spec c1 c2) as [->|Hne].
  - rewrite (sumZ_ext _ (fun r => (zn (n - c2 - 1) * zn (n - c2 - 1)) * Zb (Nat.eqb r c2) + (1 + (if Nat.leb r c2 then -1 else 0)))).
    + rewrite sumZ_plus, sumZ_scale, sumZ_indicator, sumZ_plus, sumZ_const, sumZ_prefix. unfold Zb, zn. rewrite Nat.min_r by lia.
      destruct (Nat.ltb_spec c2 n); [|lia]. replace (Z.of_nat (n - c2)) with (Z.of_nat (n - c2 - 1) + 1) by lia. nia.
    + intros k Hk. unfold helmert_fwd, Zb. destruct (Nat.eqb_spec k c2), (Nat.ltb_spec c2 k), (Nat.leb_spec k c2); nia.
  - (* c1 < c2: column c2 vanishes above its diagonal; below it both are -1; at r = c2 the entries are -1 and n-c2-1 *)
    rewrite (sumZ_ext _ (fun r => (- zn (n - c2 - 1) - 1) * Zb (Nat.eqb r c2) + (1 + (if Nat.leb r (c2 - 1) then -1 else 0)))).
    + rewrite sumZ_plus, sumZ_scale, sumZ_indicator, sumZ_plus, sumZ_const, sumZ_prefix. unfold Zb, zn. rewrite Nat.min_r by lia.
      destruct (Nat.ltb_spec c2 n); [|lia]. lia.
    + intros k Hk. unfold helmert_fwd, Zb.
      destruct (Nat.eqb_spec k c1), (Nat.eqb_spec k c2), (Nat.ltb_spec c1 k), (Nat.ltb_spec c2 k), (Nat.leb_spec k (c2 - 1)); lia.
Qed.

(* ---------- encoding = indicator matrix times coding matrix = row selection ---------- *)
(* a data row whose level is l < n has the indicator row e_l; a null / out-of-levels row has the zero indicator row *)
Definition indicator_row (o : option nat) (k : nat) : Z := match o with Some l => Zb (Nat.eqb k l) | None => 0 end.
Theorem encode_is_row_selection n (C : nat -> nat -> Z) o c :
  sumZ (fun k => indicator_row o k * C k c) n = match o with Some l => if Nat.ltb l n then C l c else 0 | None => 0 end.
Proof.
  destruct o as [l|]; cbn [indicator_row].
  - rewrite (sumZ_ext _ (fun k => (fun k' => C k' c) k * Zb (Nat.eqb k l))) by (intros; lia). apply (sumZ_pick (fun k' => C k' c)).
  - rewrite (sumZ_ext _ (fun _ => 0)) by (intros; lia). rewrite sumZ_const. lia.
Qed.

(* ---------- Helmert: the explicit inverse.  With X = [1|C] and D = diag(n, 1*2, 2*3, ...) (reverse) resp. diag(n, (n-1)n, (n-2)(n-1), ...)
              (forward), X^T X = D, i.e. the coefficient matrix D^-1 X^T satisfies (D^-1 X^T) X = I, for every n ---------- *)
Definition D_helmert_rev (n i : nat) : Z := match i with O => zn n | S c => zn (S c) * zn (S c + 1) end.
Definition D_helmert_fwd (n i : nat) : Z := match i with O => zn n | S c => zn (n - c - 1) * zn (n - c) end.
Lemma sumZ_mul_comm f g n : sumZ (fun r => f r * g r) n = sumZ (fun r => g r * f r) n.
Proof. apply sumZ_ext. intros; lia. Qed.
Theorem helmert_rev_gram_full n i j : (i < n)%nat -> (j < n)%nat ->
  sumZ (fun r => with_const helmert_rev r i * with_const helmert_rev r j) n = if Nat.eqb i j then D_helmert_rev n i else 0.
Proof.
  intros Hi Hj. destruct i as [|c1], j as [|c2]; cbn [with_const D_helmert_rev Nat.eqb].
  - rewrite (sumZ_ext _ (fun _ => 1)) by (intros; lia). rewrite sumZ_const. lia.
  - apply helmert_rev_orthogonal_to_const. lia.
  - rewrite sumZ_mul_comm. apply helmert_rev_orthogonal_to_const. lia.
  - destruct (le_lt_dec c1 c2) as [Hle|Hgt].
    + apply helmert_rev_gram; lia.
    + rewrite sumZ_mul_comm, (helmert_rev_gram n c2 c1) by lia.
      rewrite (Nat.eqb_sym c1 c2). destruct (Nat.eqb_spec c2 c1); [lia | reflexivity].
Qed.
Theorem helmert_fwd_orthogonal_to_const n c : (S c < n)%nat -> sumZ (fun r => 1 * helmert_fwd n r c) n = 0.
Proof. intro H. rewrite (sumZ_ext _ (fun r => helmert_fwd n r c)) by (intros; lia). apply helmert_fwd_columns_zero. exact H. Qed.
Theorem helmert_fwd_gram_full n i j : (i < n)%nat -> (j < n)%nat ->
  sumZ (fun r => with_const (helmert_fwd n) r i * with_const (helmert_fwd n) r j) n = if Nat.eqb i j then D_helmert_fwd n i else 0.
Proof.
  intros Hi Hj. destruct i as [|c1], j as [|c2]; cbn [with_const D_helmert_fwd Nat.eqb].
  - rewrite (sumZ_ext _ (fun _ => 1)) by (intros; lia). rewrite sumZ_const. lia.
  - apply helmert_fwd_orthogonal_to_const. lia.
  - rewrite sumZ_mul_comm. apply helmert_fwd_orthogonal_to_const. lia.
  - destruct (le_lt_dec c1 c2) as [Hle|Hgt].
    + apply helmert_fwd_gram; lia.
    + rewrite sumZ_mul_comm, (helmert_fwd_gram n c2 c1) by lia.
      rewrite (Nat.eqb_sym c1 c2). destruct (Nat.eqb_spec c2 c1); [lia | reflexivity].
Qed.
