(* ===== LayeredLaws.v : laws of the LayeredMapping model (C19, C17) ===== *)
From Coq Require Import List Arith Bool NArith Lia.
Import ListNotations.
Require Import Struct StructLaws Layered.

Section Ind.
Variable V : Type.
Variable P : lay V -> Prop.
Hypothesis HP : forall d, P (Plain d).
Hypothesis HS : forall n m ls, Forall P ls -> P (Sub n m ls).
Fixpoint lay_ind' (l : lay V) : P l :=
  match l with
  | Plain d => HP d
  | Sub n m ls => HS n m ls ((fix go (ls : list (lay V)) : Forall P ls :=
                                match ls with [] => Forall_nil _ | x :: r => Forall_cons _ (lay_ind' x) (go r) end) ls)
  end.
End Ind.

Section Laws.
Context {V : Type}.
Implicit Types l : lay V.

(* ---------- lookup is the top-first merge of the layers ---------- *)
Theorem lget_top_first k l : lget k l = dget k (lflat l).
Proof.
  induction l using lay_ind'; cbn; auto.
  rewrite dget_app. destruct (dget k m); auto.
  induction H as [|x r Hx _ IH]; cbn; auto.
  rewrite dget_app, <- Hx. destruct (lget k x); auto.
Qed.

(* ---------- iteration ---------- *)
Lemma existsb_keqb_In k s : existsb (keqb k) s = true <-> In k s.
Proof.
  rewrite existsb_exists. split.
  - intros [x [Hin He]]. apply keqb_eq in He. subst. auto.
  - intro H. exists k. split; auto. apply keqb_refl.
Qed.

Lemma dedup_In seen xs k : In k (dedup seen xs) <-> In k xs /\ ~ In k seen.
Proof.
  revert seen. induction xs as [|x r IH]; intro seen; cbn.
  - tauto.
  - destruct (existsb (keqb x) seen) eqn:E.
    + apply existsb_keqb_In in E. rewrite IH. split.
      * intros [H1 H2]. auto.
      * intros [[H1|H1] H2]; [subst; contradiction | auto].
    + assert (Hn : ~ In x seen). { intro Hc. apply existsb_keqb_In in Hc. congruence. }
      cbn. rewrite IH. cbn. split.
      * intros [H1|[H1 H2]]; [subst; auto | split; auto].
      * intros [[H1|H1] H2]; [auto|]. destruct (list_eq_dec N.eq_dec x k) as [e|ne]; [auto|]. right. split; auto. intros [Hc|Hc]; auto.
Qed.

Lemma dedup_NoDup seen xs : NoDup (dedup seen xs) /\ forall k, In k (dedup seen xs) -> ~ In k seen.
Proof.
  revert seen. induction xs as [|x r IH]; intro seen; cbn.
  - split; [constructor | intros k []].
  - destruct (existsb (keqb x) seen) eqn:E.
    + apply IH.
    + destruct (IH (x :: seen)) as [H1 H2]. split.
      * constructor; auto. intro Hc. apply H2 in Hc. apply Hc. left; auto.
      * intros k [Hk|Hk]. subst. intro Hc. apply existsb_keqb_In in Hc. congruence.
        apply H2 in Hk. intro Hc. apply Hk. right; auto.
Qed.

(* iteration of a LayeredMapping never repeats a key *)
Theorem liter_distinct n (m : list (key * V)) ls : NoDup (liter (Sub n m ls)).
Proof. cbn. apply dedup_NoDup. Qed.

Lemma dget_In_keys (d : list (key * V)) k : In k (dkeys d) <-> dget k d <> None.
Proof.
  induction d as [|[k2 v2] r IH]; cbn.
  - split; [intros [] | intro H; congruence].
  - destruct (keqb k k2) eqn:E.
    + apply keqb_eq in E. subst. split; [intros _; discriminate | auto].
    + rewrite <- IH. split; [intros [H|H]; auto; subst; rewrite keqb_refl in E; discriminate | auto].
Qed.

(* a key is iterated iff looking it up succeeds *)
Theorem liter_mem l k : In k (liter l) <-> lget k l <> None.
Proof.
  induction l using lay_ind'; cbn.
  - apply dget_In_keys.
  - rewrite dedup_In. rewrite in_app_iff, dget_In_keys.
    destruct (dget k m) eqn:E.
    + split; [intros _; discriminate | intros _; split; auto; left; discriminate].
    + assert (Hx : In k (flat_map liter ls) <->
                   (fix go (ls : list (lay V)) : option V := match ls with [] => None | x :: r => match lget k x with Some v => Some v | None => go r end end) ls <> None).
      { induction H as [|x r Hx _ IH]; cbn.
        - split; [intros [] | congruence].
        - rewrite in_app_iff, IH, Hx. destruct (lget k x); split; try tauto; try (intros _; left; discriminate); intro; discriminate. }
      rewrite <- Hx. split; [intros [[Hc|Hc] _]; [congruence | auto] | intro Hc; split; auto].
Qed.

(* ---------- length agrees with iteration ---------- *)
Lemma set_add_mem k x s : existsb (keqb k) (set_add x s) = keqb k x || existsb (keqb k) s.
Proof.
  unfold set_add. destruct (existsb (keqb x) s) eqn:E; cbn; auto.
  destruct (keqb k x) eqn:E2; cbn; auto. apply keqb_eq in E2. subst. auto.
Qed.
Lemma fold_set_add_length xs : forall s s', (forall k, existsb (keqb k) s = existsb (keqb k) s') ->
  length (fold_left (fun s k => set_add k s) xs s) = length s + length (dedup s' xs).
Proof.
  induction xs as [|x r IH]; intros s s' Hs; cbn; [lia|].
  rewrite <- (Hs x). unfold set_add at 2. destruct (existsb (keqb x) s) eqn:E.
  - apply IH. auto.
  - rewrite (IH (x :: s) (x :: s')). cbn; lia.
    intro k. cbn. rewrite Hs. reflexivity.
Qed.
Theorem llen_iter n (m : list (key * V)) ls : llen (Sub n m ls) = length (liter (Sub n m ls)).
Proof. unfold llen. cbn [chain_keys liter]. rewrite (fold_set_add_length _ [] []); auto. Qed.

(* ---------- writes are confined to the private layer ---------- *)
Theorem lset_layers k v l : layers_of (lset k v l) = layers_of l.
Proof. destruct l; reflexivity. Qed.
Theorem ldel_layers k l l' : ldel k l = Some l' -> layers_of l' = layers_of l.
Proof. destruct l; cbn; [discriminate|]. destruct (dmem k mut); [|discriminate]. intro H; inversion H; reflexivity. Qed.
Theorem lstep_layers l o : layers_of (lstep l o) = layers_of l.
Proof. destruct o; cbn. apply lset_layers. destruct (ldel k l) eqn:E; auto. eapply ldel_layers; eauto. Qed.
(* any history of writes leaves every supplied layer as it was *)
Theorem history_layers ops : forall l, layers_of (fold_left lstep ops l) = layers_of l.
Proof. induction ops as [|o r IH]; intro l; cbn; auto. rewrite IH. apply lstep_layers. Qed.

Theorem lget_lset_same k (v : V) n m ls : lget k (lset k v (Sub n m ls)) = Some v.
Proof. cbn. rewrite dget_dset_same. reflexivity. Qed.
Theorem lget_lset_other k k' (v : V) n m ls : keqb k' k = false -> lget k' (lset k v (Sub n m ls)) = lget k' (Sub n m ls).
Proof. intro H. cbn. rewrite dget_dset_other by auto. reflexivity. Qed.

(* deletion succeeds exactly for keys of the private layer ... *)
Theorem ldel_private_only k n (m : list (key * V)) ls : (ldel k (Sub n m ls) = None) <-> dget k m = None.
Proof. cbn. unfold dmem. destruct (dget k m); split; intro H; try discriminate; auto. Qed.
(* ... and afterwards the key shows whatever the supplied layers hold *)
Theorem lget_ldel k n (m : list (key * V)) ls l' : uniq (dkeys m) = true -> ldel k (Sub n m ls) = Some l' -> lget k l' = lget k (Sub n [] ls).
Proof.
  intros U H. cbn in H. destruct (dmem k m); [|discriminate]. inversion H; subst. cbn.
  rewrite dget_ddel_same by auto. reflexivity.
Qed.
Theorem lget_ldel_other k k' n (m : list (key * V)) ls l' : keqb k' k = false -> ldel k (Sub n m ls) = Some l' -> lget k' l' = lget k' (Sub n m ls).
Proof.
  intros Hk H. cbn in H. destruct (dmem k m); [|discriminate]. inversion H; subst. cbn.
  rewrite dget_ddel_other by auto. reflexivity.
Qed.

(* with_layers: the new mapping looks through the new layers first (prepend) or last *)
Theorem with_layers_get k l new name :
  new <> [] ->
  lget k (with_layers l new true false name) = dget k (flat_map lflat new ++ lflat l).
Proof.
  intro Hn. unfold with_layers. destruct new as [|x r]; [congruence|].
  rewrite lget_top_first. cbn [lflat]. rewrite app_nil_l. rewrite flat_map_app. cbn [flat_map]. rewrite app_nil_r. reflexivity.
Qed.
Theorem with_layers_get_append k l new name :
  new <> [] ->
  lget k (with_layers l new false false name) = dget k (lflat l ++ flat_map lflat new).
Proof.
  intro Hn. unfold with_layers. destruct new as [|x r]; [congruence|].
  rewrite lget_top_first. reflexivity.
Qed.

(* the value reported with a layer name is the value a plain lookup returns *)
Theorem lget_named_value k l path : option_map fst (lget_named k path l) = lget k l.
Proof.
  revert path. induction l using lay_ind'; intro path; cbn.
  - destruct (dget k d); reflexivity.
  - destruct (dget k m); [reflexivity|].
    set (here := match n with Some n0 => path ++ [n0] | None => path end). clearbody here.
    induction H as [|x r Hx _ IH]; cbn; auto.
    destruct (lget k x) eqn:E.
    + destruct x as [d|n2 m2 l2]; [reflexivity|]. apply Hx.
    + apply IH.
Qed.
End Laws.
