(* ===== ConsRows.v : one row per constraint, in the order written (C16) =====
   A specification 'c1, c2, ..., cn' is a tree of comma operators over the constraint expressions (however the commas nest); its value is the
   tuple of the values of c1 .. cn in the order written, and the matrix gets one row per entry, in that order. *)
From Coq Require Import List NArith ZArith QArith Qcanon Bool Arith Lia.
Import ListNotations.
Require Import Tok Cons.
Open Scope nat_scope.

(* more fuel never changes a result *)
Lemma eval_mono : forall fuel a v, eval fuel a = inl v -> eval (S fuel) a = inl v.
Proof.
  induction fuel as [|fuel IH]; intros a v H; [discriminate|].
  destruct a as [t|o args]; [exact H|].
  change (eval (S fuel) (ANode o args)) with
    ((fix go (l : list ast) (acc : list cval) : res cval :=
        match l with [] => apply_op o (rev acc) | x :: r => match eval fuel x with inl v => go r (v :: acc) | inr e => inr e end end) args []) in H.
  change (eval (S (S fuel)) (ANode o args)) with
    ((fix go (l : list ast) (acc : list cval) : res cval :=
        match l with [] => apply_op o (rev acc) | x :: r => match eval (S fuel) x with inl v => go r (v :: acc) | inr e => inr e end end) args []).
  revert H. generalize (@nil cval). induction args as [|x r IHr]; intros acc H; [exact H|].
  destruct (eval fuel x) as [vx|e] eqn:E; [|discriminate]. rewrite (IH x vx E). apply IHr, H.
Qed.
Lemma eval_mono_le fuel fuel' a v : fuel <= fuel' -> eval fuel a = inl v -> eval fuel' a = inl v.
Proof. intros L H. induction L as [|m L IH]; [exact H | apply eval_mono, IH]. Qed.
Definition evals (a : ast) (v : cval) : Prop := exists fuel, eval fuel a = inl v.

(* comma trees over arbitrary constraint expressions *)
Inductive ctree := CLeaf (a : ast) | CNode (o : op) (l r : ctree).
Fixpoint ast_of_ct (t : ctree) : ast := match t with CLeaf a => a | CNode o l r => ANode o [ast_of_ct l; ast_of_ct r] end.
Fixpoint flat (t : ctree) : list ast := match t with CLeaf a => [a] | CNode _ l r => flat l ++ flat r end.
Fixpoint commas_only (t : ctree) : Prop := match t with CLeaf _ => True | CNode o l r => osem o = SComma /\ commas_only l /\ commas_only r end.
Definition tuple_of (cs : list (list sfac)) : cval := match cs with [c] => VSet c | _ => VTup cs end.
Definition items (v : cval) : list (list sfac) := match v with VSet s => [s] | VTup t => t end.

(* the value of a comma tree whose leaves evaluate to factor sets is the list of those sets in the order written *)
Theorem comma_tree_value : forall t cs, commas_only t -> Forall2 (fun a c => evals a (VSet c)) (flat t) cs ->
  exists v, evals (ast_of_ct t) v /\ items v = cs.
Proof.
  induction t as [a|o l IHl r IHr]; intros cs Hc HF; cbn [flat ast_of_ct] in *.
  - inversion HF as [|? c ? cs' Ha HF']; subst. inversion HF'; subst. exists (VSet c). split; [exact Ha | reflexivity].
  - destruct Hc as (So & Hl & Hr). apply Forall2_app_inv_l in HF as (cl & cr & Fl & Fr & ->).
    destruct (IHl cl Hl Fl) as (vl & [fl El] & Il). destruct (IHr cr Hr Fr) as (vr & [fr Er] & Ir).
    exists (VTup (items vl ++ items vr)). split; [|cbn [items]; rewrite Il, Ir; reflexivity].
    exists (S (Nat.max fl fr)). cbn [eval].
    rewrite (eval_mono_le fl (Nat.max fl fr) _ vl (Nat.le_max_l _ _) El), (eval_mono_le fr (Nat.max fl fr) _ vr (Nat.le_max_r _ _) Er).
    cbn [rev app]. unfold apply_op. rewrite So. reflexivity.
Qed.

(* get_matrix: the rows are those of the entries, one each, in order *)
Fixpoint rows_of (vars : list str) (cs : list (list sfac)) : res (list (list Qc * Qc)) :=
  match cs with
  | [] => inl []
  | c :: r => match row_of vars c, rows_of vars r with inl x, inl xs => inl (x :: xs) | inr e, _ => inr e | _, inr e => inr e end
  end.
Lemma rows_loop vars : forall cs acc rows,
  (fix go (l : list (list sfac)) (acc : list (list Qc * Qc)) : res (list (list Qc * Qc)) :=
     match l with [] => inl (rev acc) | c :: r => match row_of vars c with inl x => go r (x :: acc) | inr e => inr e end end) cs acc = inl rows ->
  exists tail, rows_of vars cs = inl tail /\ rows = rev acc ++ tail.
Proof.
  induction cs as [|c r IH]; intros acc rows H.
  - inversion H; subst. exists []. split; [reflexivity | rewrite app_nil_r; reflexivity].
  - destruct (row_of vars c) as [x|e] eqn:E; [|discriminate]. destruct (IH (x :: acc) rows H) as (tail & Ht & ->).
    exists (x :: tail). cbn [rows_of]. rewrite E, Ht. split; [reflexivity|]. cbn [rev]. rewrite <- app_assoc. reflexivity.
Qed.
Theorem rows_in_order vars cs rows : rows_of vars cs = inl rows -> Forall2 (fun c x => row_of vars c = inl x) cs rows.
Proof.
  revert rows. induction cs as [|c r IH]; intros rows H; cbn [rows_of] in H; [inversion H; constructor|].
  destruct (row_of vars c) as [x|e] eqn:E; [|discriminate]. destruct (rows_of vars r) as [xs|e]; [|discriminate]. inversion H; subst.
  constructor; [exact E | apply IH; reflexivity].
Qed.
