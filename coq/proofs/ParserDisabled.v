(* ===== ParserDisabled.v : an operator disabled by the parser's feature flags never appears in a returned AST (C14) ===== *)
From Coq Require Import List NArith ZArith Bool Arith Lia.
Import ListNotations.
Require Import Tok Parser Parser2.
Open Scope N_scope.

Section Inv.
Variable P : op -> Prop.            (* a property of every operator that is put on the stack *)
Fixpoint no_dis (a : ast) : Prop :=
  match a with
  | ALeaf _ => True
  | ANode o args => P o /\ (fix all (l : list ast) : Prop := match l with [] => True | x :: r => no_dis x /\ all r end) args
  end.
Fixpoint all_nd (l : list ast) : Prop := match l with [] => True | x :: r => no_dis x /\ all_nd r end.
Lemma no_dis_node o args : no_dis (ANode o args) <-> P o /\ all_nd args.
Proof.
  cbn [no_dis]. split; intros [H1 H2]; split; auto; clear H1; induction args as [|x r IH]; cbn in *; auto; destruct H2; split; auto.
Qed.
Lemma all_nd_app a b : all_nd (a ++ b) <-> all_nd a /\ all_nd b.
Proof. induction a as [|x a IH]; cbn [app all_nd]; [tauto|]. rewrite IH. tauto. Qed.
Lemma all_nd_firstn n l : all_nd l -> all_nd (firstn n l).
Proof. revert l. induction n as [|n IH]; intros [|x l] H; cbn [firstn all_nd] in *; auto. destruct H. split; auto. Qed.
Lemma all_nd_skipn n l : all_nd l -> all_nd (skipn n l).
Proof. revert l. induction n as [|n IH]; intros [|x l] H; cbn [skipn all_nd] in *; auto. destruct H. auto. Qed.

Definition stk_nd (stk : list sitem) : Prop := Forall (fun it => match it with SOp o _ => P o | SCtx _ _ => True end) stk.

Lemma operate_nd o i out out' : P o -> all_nd out -> operate (SOp o i) out = inl out' -> all_nd out'.
Proof.
  intros Ho Hout H. unfold operate in H.
  destruct (match ofix o with
            | Infix => if (1 <=? i)%nat then Some ((i - 1)%nat, (i + 1)%nat) else None
            | Prefix => Some (i, (i + oarity o)%nat)
            | Postfix => if (oarity o <=? i)%nat then Some ((i - oarity o)%nat, i) else None
            end) as [[lo hi]|]; [|discriminate].
  destruct (hi <=? length out)%nat; [|discriminate]. injection H as <-.
  apply all_nd_app. split; [apply all_nd_firstn, Hout|]. cbn [all_nd]. split; [|apply all_nd_skipn, Hout].
  apply no_dis_node. split; [exact Ho|]. apply all_nd_firstn, all_nd_skipn, Hout.
Qed.
Lemma pop_while_nd o stk : forall out out' stk', stk_nd stk -> all_nd out -> pop_while o stk out = inl (out', stk') -> all_nd out' /\ stk_nd stk'.
Proof.
  induction stk as [|it stk IH]; intros out out' stk' Hs Ho H; cbn [pop_while] in H.
  - injection H as <- <-. split; assumption.
  - destruct it as [top i|t i].
    + inversion Hs as [|? ? Htop Hrest]; subst. destruct (popped top o).
      * destruct (operate (SOp top i) out) as [out1|e] eqn:E; [|discriminate].
        apply (IH out1); [exact Hrest | eapply operate_nd; eassumption | exact H].
      * injection H as <- <-. split; assumption.
    + injection H as <- <-. split; assumption.
Qed.
Lemma try_ops_nd cands : (forall o, In o cands -> odis o = false -> P o) ->
  forall out stk out' stk', stk_nd stk -> all_nd out -> try_ops cands out stk = inl (out', stk') -> all_nd out' /\ stk_nd stk'.
Proof.
  induction cands as [|o rest IH]; intros HP out stk out' stk' Hs Ho H; cbn [try_ops] in H; [discriminate|].
  assert (HP' : forall o', In o' rest -> odis o' = false -> P o') by (intros o' Hin; apply HP; right; exact Hin).
  specialize (IH HP').
  destruct (negb (accepts o stk)); [apply (IH _ _ _ _ Hs Ho H)|].
  destruct (odis o) eqn:Ed; [apply (IH _ _ _ _ Hs Ho H)|].
  assert (Ed' : P o) by (apply HP; [left; reflexivity | exact Ed]).
  destruct (pop_while o stk out) as [[out1 stk1]|e] eqn:E; [|discriminate].
  destruct (pop_while_nd o stk out out1 stk1 Hs Ho E) as [Ho1 Hs1].
  destruct ((oarity o =? 0)%nat || match ofix o with Prefix => true | Infix => (length out1 - topidx stk1 =? 1)%nat | Postfix => (oarity o <=? length out1 - topidx stk1)%nat end).
  - injection H as <- <-. split; [exact Ho1 | constructor; [exact Ed' | exact Hs1]].
  - apply (IH _ _ _ _ Hs1 Ho1 H).
Qed.
Variable f : flags.
Hypothesis P_table : forall o, In o (table f) -> odis o = false -> P o.
Lemma do_syms_nd syms : forall out stk out' stk', stk_nd stk -> all_nd out -> do_syms f syms out stk = inl (out', stk') -> all_nd out' /\ stk_nd stk'.
Proof.
  induction syms as [|s rest IH]; intros out stk out' stk' Hs Ho H; cbn [do_syms] in H.
  - injection H as <- <-. split; assumption.
  - destruct (candidates f s) as [|c cs] eqn:Ec; [discriminate|].
    destruct (try_ops (c :: cs) out stk) as [[o1 s1]|e] eqn:E; [|discriminate].
    assert (HPc : forall o, In o (c :: cs) -> odis o = false -> P o).
    { intros o Hin. apply P_table. rewrite <- Ec in Hin. unfold candidates in Hin. apply filter_In in Hin as [Hin _]. exact Hin. }
    destruct (try_ops_nd _ HPc _ _ _ _ Hs Ho E) as [Ho1 Hs1]. apply (IH _ _ _ _ Hs1 Ho1 H).
Qed.
Lemma close_ctx_nd opener stk : forall out out' stk', stk_nd stk -> all_nd out -> close_ctx opener stk out = inl (out', stk') -> all_nd out' /\ stk_nd stk'.
Proof.
  induction stk as [|it stk IH]; intros out out' stk' Hs Ho H; cbn [close_ctx] in H; [discriminate|].
  inversion Hs as [|? ? Hit Hrest]; subst. destruct it as [o i|t i].
  - destruct (operate (SOp o i) out) as [out1|e] eqn:E; [|discriminate].
    apply (IH out1); [exact Hrest | eapply operate_nd; eassumption | exact H].
  - destruct (leqb t opener); [|discriminate]. destruct (i =? length out)%nat; [discriminate|]. injection H as <- <-. split; assumption.
Qed.
Lemma mstep_nd fixed t out stk out' stk' : stk_nd stk -> all_nd out -> mstep fixed f t (out, stk) = inl (out', stk') -> all_nd out' /\ stk_nd stk'.
Proof.
  intros Hs Ho H. unfold mstep in H. destruct (kd t).
  all: try (injection H as <- <-; split; [apply all_nd_app; split; [exact Ho | cbn; auto] | exact Hs]).
  - destruct (leqb (tx t) [cLP] || leqb (tx t) [cLS]).
    + injection H as <- <-. split; [exact Ho | constructor; [exact I | exact Hs]].
    + destruct (opener_of (tx t)) as [o|]; [|discriminate]. apply (close_ctx_nd _ _ _ _ _ Hs Ho H).
  - apply (do_syms_nd _ _ _ _ _ Hs Ho H).
Qed.
Lemma mrun_nd fixed ts : forall out stk out' stk', stk_nd stk -> all_nd out -> mrun fixed f ts (out, stk) = inl (out', stk') -> all_nd out' /\ stk_nd stk'.
Proof.
  induction ts as [|t ts IH]; intros out stk out' stk' Hs Ho H; cbn [mrun] in H.
  - injection H as <- <-. split; assumption.
  - destruct (mstep fixed f t (out, stk)) as [[o1 s1]|e] eqn:E; [|discriminate].
    destruct (mstep_nd _ _ _ _ _ _ Hs Ho E) as [Ho1 Hs1]. apply (IH _ _ _ _ Hs1 Ho1 H).
Qed.
Lemma finish_nd stk : forall out out', stk_nd stk -> all_nd out -> finish stk out = inl out' -> all_nd out'.
Proof.
  induction stk as [|it stk IH]; intros out out' Hs Ho H; cbn [finish] in H.
  - injection H as <-. exact Ho.
  - inversion Hs as [|? ? Hit Hrest]; subst. destruct it as [o i|t i]; [|discriminate].
    destruct (operate (SOp o i) out) as [out1|e] eqn:E; [|discriminate].
    apply (IH out1); [exact Hrest | eapply operate_nd; eassumption | exact H].
Qed.

Theorem ast_ops_satisfy fixed ts a : to_ast fixed f ts = inl (Some a) -> no_dis a.
Proof.
  unfold to_ast. destruct (mrun fixed f ts ([], [])) as [[out stk]|e] eqn:E; [|discriminate].
  destruct (mrun_nd fixed ts [] [] out stk (Forall_nil _) I E) as [Ho Hs].
  destruct (finish stk out) as [fin|e] eqn:F; [|discriminate].
  pose proof (finish_nd stk out fin Hs Ho F) as Hf.
  destruct fin as [|x [|y r]]; try discriminate. intros H. injection H as <-. exact (proj1 Hf).
Qed.
End Inv.

(* whatever the tokens and the feature flags: every operator of the returned AST is an operator of the table for these flags that the
   flags do not disable *)
Definition enabled (f : flags) (o : op) : Prop := In o (table f) /\ odis o = false.
Theorem disabled_never_in_ast fixed f ts a : to_ast fixed f ts = inl (Some a) -> no_dis (enabled f) a.
Proof. apply ast_ops_satisfy. intros o Hin Hd. split; assumption. Qed.

(* consequences per feature: which operator meanings cannot occur when a feature is off *)
Fixpoint uses (s : sem) (a : ast) : Prop :=
  match a with
  | ALeaf _ => False
  | ANode o args => osem o = s \/ (fix any (l : list ast) : Prop := match l with [] => False | x :: r => uses s x \/ any r end) args
  end.
Lemma no_uses (P : op -> Prop) s : (forall o, P o -> osem o <> s) -> forall a, no_dis P a -> ~ uses s a.
Proof.
  intros HP. fix IH 1. intros [t|o args] Hn Hu; [exact Hu|].
  cbn [no_dis uses] in Hn, Hu. destruct Hn as [Ho Hall]. destruct Hu as [Hs|Hany]; [exact (HP o Ho Hs)|].
  induction args as [|x r IHr]; [exact Hany|].
  destruct Hall as [Hx Hr]. destruct Hany as [Hux|Hur]; [exact (IH x Hx Hux) | exact (IHr Hr Hur)].
Qed.
Lemma table_sem_disabled f s : (forall o, In o (table f) -> osem o = s -> odis o = true) -> forall o, enabled f o -> osem o <> s.
Proof. intros H o [Hin Hd] Hs. rewrite (H o Hin Hs) in Hd. discriminate. Qed.
Ltac table_cases Hin := cbn [table In] in Hin; repeat (destruct Hin as [<-|Hin]; [cbn; intros; try reflexivity; try discriminate|]); try contradiction.

Theorem twosided_off_no_two_sided_formula fixed f ts a : f_two f = false -> to_ast fixed f ts = inl (Some a) -> ~ uses STilde2 a.
Proof.
  intros Hf H. apply (no_uses (enabled f)); [|apply (disabled_never_in_ast fixed f ts a H)].
  apply table_sem_disabled. intros o Hin. destruct f as [t p st]. cbn [f_two] in Hf. subst t. table_cases Hin.
Qed.
Theorem multipart_off_no_parts fixed f ts a : f_parts f = false -> to_ast fixed f ts = inl (Some a) -> ~ uses SBar a.
Proof.
  intros Hf H. apply (no_uses (enabled f)); [|apply (disabled_never_in_ast fixed f ts a H)].
  apply table_sem_disabled. intros o Hin. destruct f as [t p st]. cbn [f_parts] in Hf. subst p. table_cases Hin.
Qed.
Theorem multistage_off_no_stages fixed f ts a : f_stage f = false -> to_ast fixed f ts = inl (Some a) -> ~ uses SMulti a.
Proof.
  intros Hf H. apply (no_uses (enabled f)); [|apply (disabled_never_in_ast fixed f ts a H)].
  apply table_sem_disabled. intros o Hin. destruct f as [t p st]. cbn [f_stage] in Hf. subst st. table_cases Hin.
Qed.
