(* ===== SparseTerm.v : the sparse product of any number of factor columns holds the dense product's numbers (C05) ===== *)
From Coq Require Import List NArith ZArith QArith Qcanon Bool Arith Lia.
Import ListNotations.
Require Import Struct Sparse SparseLaws.
Open Scope nat_scope.

(* a CSC column stores each row at most once *)
Definition spwf (c : spcol) := NoDup (map fst c).

Lemma sp_mul_rows a b i : In i (map fst (sp_mul a b)) -> In i (map fst a).
Proof.
  unfold sp_mul. induction a as [|[k x] r IH]; cbn [flat_map map]; [auto|].
  rewrite map_app, in_app_iff. intros [H|H]; [|right; apply IH, H].
  cbn [fst snd] in H. destruct (find (fun q => fst q =? k) b); [|destruct H]. destruct H as [H|[]]. left. exact H.
Qed.
Theorem sp_mul_wf a b : spwf a -> spwf (sp_mul a b).
Proof.
  unfold spwf, sp_mul. induction a as [|[k x] r IH]; cbn [flat_map map]; intros H; [constructor|].
  inversion H as [|? ? Hk Hr]; subst. rewrite map_app. cbn [fst snd].
  destruct (find (fun q => fst q =? k) b); cbn [map app]; [|apply IH, Hr].
  constructor; [|apply IH, Hr]. intro Hin. apply Hk. exact (sp_mul_rows r b k Hin).
Qed.
Theorem sp_scale_wf s a : spwf a -> spwf (sp_scale s a).
Proof. unfold spwf, sp_scale. rewrite map_map. cbn [fst]. auto. Qed.
Theorem sp_const_wf v n : spwf (sp_const v n).
Proof. unfold spwf, sp_const. destruct (Qc_eq_bool v (Q2Qc 0)); [constructor|]. rewrite map_map. cbn [fst]. rewrite map_id. apply seq_NoDup. Qed.
Lemma sp_of_dense_rows c : forall s i, In i (map fst (sp_of_dense c s)) -> s <= i.
Proof.
  induction c as [|x r IH]; intros s i H; cbn [sp_of_dense] in H; [destruct H|].
  destruct (Qc_eq_bool x (Q2Qc 0)); [apply IH in H; lia|]. destruct H as [H|H]; [cbn in H; lia | apply IH in H; lia].
Qed.
Theorem sp_of_dense_wf c s : spwf (sp_of_dense c s).
Proof.
  unfold spwf. revert s. induction c as [|x r IH]; intro s; cbn [sp_of_dense]; [constructor|].
  destruct (Qc_eq_bool x (Q2Qc 0)); [apply IH|]. cbn [map fst]. constructor; [|apply IH]. intro H. apply sp_of_dense_rows in H. lia.
Qed.
Lemma sp_dummy_rows codes k : forall s i, In i (map fst (sp_dummy codes k s)) -> s <= i.
Proof.
  induction codes as [|o r IH]; intros s i H; cbn [sp_dummy] in H; [destruct H|].
  destruct o as [c|]; [destruct (c =? k)|]; try (apply IH in H; lia). destruct H as [H|H]; [cbn in H; lia | apply IH in H; lia].
Qed.
Theorem sp_dummy_wf codes k s : spwf (sp_dummy codes k s).
Proof.
  unfold spwf. revert s. induction codes as [|o r IH]; intro s; cbn [sp_dummy]; [constructor|].
  destruct o as [c|]; [destruct (c =? k)|]; try apply IH. cbn [map fst]. constructor; [|apply IH]. intro H. apply sp_dummy_rows in H. lia.
Qed.

(* the column of a term: the first factor column multiplied element-wise by each further one (functools.reduce over csc .multiply) *)
Definition sp_prod (first : spcol) (rest : list spcol) : spcol := fold_left sp_mul rest first.
Definition qprod (x : Qc) (ys : list Qc) : Qc := fold_left Qcmult ys x.

Theorem sp_prod_wf first rest : spwf first -> spwf (sp_prod first rest).
Proof. unfold sp_prod. revert first. induction rest as [|c r IH]; intros f H; cbn [fold_left]; [exact H | apply IH, sp_mul_wf, H]. Qed.
(* every cell of the sparse product is the product of the factors' cells -- what the dense path computes -- for any number of factors *)
Theorem sp_prod_get first rest i : spwf first ->
  sp_get (sp_prod first rest) i = qprod (sp_get first i) (map (fun c => sp_get c i) rest).
Proof.
  unfold sp_prod, qprod. revert first. induction rest as [|c r IH]; intros f H; cbn [fold_left map]; [reflexivity|].
  rewrite IH by (apply sp_mul_wf, H). rewrite sp_mul_get by exact H. reflexivity.
Qed.
Corollary sp_prod_densify n first rest : spwf first ->
  densify n (sp_prod first rest) = map (fun i => qprod (sp_get first i) (map (fun c => sp_get c i) rest)) (seq 0 n).
Proof. intro H. unfold densify. apply map_ext. intro i. apply sp_prod_get, H. Qed.
(* and it never stores a row the first factor does not store: sparsity is kept *)
Theorem sp_prod_rows first rest i : In i (map fst (sp_prod first rest)) -> In i (map fst first).
Proof.
  unfold sp_prod. revert first. induction rest as [|c r IH]; intros f H; cbn [fold_left] in H; [exact H|].
  apply IH in H. exact (sp_mul_rows f c i H).
Qed.

Theorem sp_term_get scale first rest i : spwf first ->
  sp_get (sp_scale scale (sp_prod first rest)) i = (scale * qprod (sp_get first i) (map (fun c => sp_get c i) rest))%Qc.
Proof. intros H. rewrite sp_scale_get, (sp_prod_get first rest i H). reflexivity. Qed.
Theorem sp_cols_wf a b s v n c k codes st :
  (spwf a -> spwf (sp_mul a b)) /\ (spwf a -> spwf (sp_scale s a)) /\ spwf (sp_const v n) /\ spwf (sp_of_dense c st) /\ spwf (sp_dummy codes k st).
Proof. repeat split; [apply sp_mul_wf | apply sp_scale_wf | apply sp_const_wf | apply sp_of_dense_wf | apply sp_dummy_wf]. Qed.

(* ---------- the sparse Kronecker product of a term, row by row ---------- *)
(* the Kronecker product of one row's cells: what the dense path computes at that row *)
Fixpoint ckron (fs : list (list (key * Qc))) : list (key * Qc) :=
  match fs with
  | [] => []
  | [f] => f
  | f :: rest => flat_map (fun rc => map (fun fc => (fst fc ++ [58%N] ++ fst rc, (snd fc * snd rc)%Qc)) f) (ckron rest)
  end.
Definition row_of (i : nat) (f : list (key * spcol)) : list (key * Qc) := map (fun nc => (fst nc, sp_get (snd nc) i)) f.

Lemma flat_map_map {A B C} (g : B -> list C) (h : A -> B) l : flat_map g (map h l) = flat_map (fun x => g (h x)) l.
Proof. induction l as [|x r IH]; cbn; [reflexivity | rewrite IH; reflexivity]. Qed.
Lemma map_flat_map {A B C} (h : B -> C) (g : A -> list B) l : map h (flat_map g l) = flat_map (fun x => map h (g x)) l.
Proof. induction l as [|x r IH]; cbn; [reflexivity | rewrite map_app, IH; reflexivity]. Qed.

Theorem sp_kron_rowwise i fs : Forall (Forall (fun nc => spwf (snd nc))) fs ->
  row_of i (sp_kron fs) = ckron (map (row_of i) fs).
Proof.
  induction fs as [|f rest IH]; intro H; [reflexivity|].
  inversion H as [|? ? Hf Hrest]; subst. specialize (IH Hrest).
  destruct rest as [|g rest']; [reflexivity|].
  change (sp_kron (f :: g :: rest')) with (flat_map (fun rc => map (fun fc => (fst fc ++ [58%N] ++ fst rc, sp_mul (snd fc) (snd rc))) f) (sp_kron (g :: rest'))).
  change (ckron (map (row_of i) (f :: g :: rest'))) with
    (flat_map (fun rc => map (fun fc => (fst fc ++ [58%N] ++ fst rc, (snd fc * snd rc)%Qc)) (row_of i f)) (ckron (map (row_of i) (g :: rest')))).
  rewrite <- IH. unfold row_of at 1. rewrite map_flat_map. unfold row_of at 2. rewrite flat_map_map.
  apply flat_map_ext. intro rc. unfold row_of. rewrite !map_map. cbn [fst snd].
  apply map_ext_in. intros fc Hfc. rewrite sp_mul_get; [reflexivity|]. rewrite Forall_forall in Hf. exact (Hf fc Hfc).
Qed.
(* with the scale: every cell of every column of the sparse term is scale times the dense Kronecker cell *)
Theorem sp_term_cols_rowwise scale i fs : Forall (Forall (fun nc => spwf (snd nc))) fs ->
  row_of i (sp_term_cols scale fs) = map (fun nc => (fst nc, (scale * snd nc)%Qc)) (ckron (map (row_of i) fs)).
Proof.
  intro H. rewrite <- (sp_kron_rowwise i fs H). unfold sp_term_cols, row_of. rewrite !map_map. cbn [fst snd].
  apply map_ext. intro nc. rewrite sp_scale_get. reflexivity.
Qed.
