(* ===== CubicLaws.v : cubic regression splines -- cardinal (identity at the knots), C1 exactly when F solves the tridiagonal system,
       second derivative = linear interpolation of F, centering absorbs to zero column means (C12) ===== *)
From Coq Require Import List QArith Lqa Lia Bool Arith.
Import ListNotations.
Require Import BSpline BSplineLaws CubicSpline.
Open Scope Q_scope.

(* ---------- searchsorted ---------- *)
Lemma count_lt_below kn x : forall i, (i < count_lt kn x)%nat -> Kq kn i < x.
Proof.
  induction kn as [|k r IH]; intros i Hi; cbn [count_lt] in Hi; [lia|].
  destruct (Qltb k x) eqn:E; [|lia]. apply Qltb_true in E.
  destruct i as [|i]; [exact E|]. unfold Kq. cbn [nth]. apply IH. lia.
Qed.
Lemma count_lt_at kn x : (count_lt kn x < length kn)%nat -> x <= Kq kn (count_lt kn x).
Proof.
  induction kn as [|k r IH]; intros Hi; cbn [count_lt length] in *; [lia|].
  destruct (Qltb k x) eqn:E.
  - unfold Kq. cbn [nth]. apply IH. lia.
  - apply Qltb_false in E. exact E.
Qed.
Lemma count_lt_le kn x : (count_lt kn x <= length kn)%nat.
Proof. induction kn as [|k r IH]; cbn [count_lt length]; [lia|]. destruct (Qltb k x); lia. Qed.

Section Knots.
Variable kn : list Q.
Hypothesis size2 : (2 <= length kn)%nat.
Hypothesis incr : forall i, (S i < length kn)%nat -> Kq kn i < Kq kn (S i).
Let size := length kn.

Lemma K_lt i j : (i < j)%nat -> (j < size)%nat -> Kq kn i < Kq kn j.
Proof.
  induction 1 as [|m Hm IH]; intros Hj; [apply incr; exact Hj|].
  assert (Kq kn i < Kq kn m) by (apply IH; unfold size in *; lia). pose proof (incr m Hj). lra.
Qed.
Lemma K_le i j : (i <= j)%nat -> (j < size)%nat -> Kq kn i <= Kq kn j.
Proof. intros H Hj. destruct (Nat.eq_dec i j) as [->|Hne]; [lra|]. apply Qlt_le_weak, K_lt; [lia | exact Hj]. Qed.

(* inside the knot range the selected interval brackets x *)
Lemma lower_ix_bracket x : Kq kn 0 <= x -> x <= Kq kn (size - 1) ->
  let j := lower_ix kn x in (S j < size)%nat /\ Kq kn j <= x /\ x <= Kq kn (S j).
Proof.
  intros Hl Hu. cbn zeta. unfold lower_ix. fold size.
  pose proof (count_lt_le kn x) as Hle. fold size in Hle.
  assert (Hc : (count_lt kn x < size)%nat).
  { destruct (Nat.eq_dec (count_lt kn x) size) as [E|N]; [|lia].
    pose proof (count_lt_below kn x (size - 1)%nat ltac:(unfold size in *; lia)). lra. }
  destruct (count_lt kn x) as [|cnt] eqn:Ec.
  - cbn [Nat.sub]. replace (Nat.eqb 0 (size - 1)) with false by (symmetry; apply Nat.eqb_neq; unfold size; lia).
    pose proof (count_lt_at kn x) as Hat. rewrite Ec in Hat. specialize (Hat ltac:(lia)).
    split; [unfold size; lia|]. split; [exact Hl|]. pose proof (incr 0%nat ltac:(lia)). lra.
  - replace (S cnt - 1)%nat with cnt by lia.
    replace (Nat.eqb cnt (size - 1)) with false by (symmetry; apply Nat.eqb_neq; lia).
    pose proof (count_lt_below kn x cnt) as Hb. rewrite Ec in Hb. specialize (Hb ltac:(lia)).
    pose proof (count_lt_at kn x) as Hat. rewrite Ec in Hat. specialize (Hat ltac:(unfold size in Hc; lia)).
    split; [exact Hc|]. split; lra.
Qed.

(* ---------- the four base functions at the two ends of their interval ---------- *)
Lemma base_at_right x : Kq kn 0 <= x -> x <= Kq kn (size - 1) -> x == Kq kn (S (lower_ix kn x)) ->
  let bf := base_functions kn x in ajm bf == 0 /\ ajp bf == 1 /\ cjm bf == 0 /\ cjp bf == 0.
Proof.
  intros Hl Hu Hx. destruct (lower_ix_bracket x Hl Hu) as [Hj [Hjl Hjr]]. cbn zeta.
  unfold base_functions. cbn [ajm ajp cjm cjp]. fold size.
  set (j := lower_ix kn x) in *.
  assert (Hh : ~ Kq kn (S j) - Kq kn j == 0) by (pose proof (incr j Hj); lra).
  assert (E1 : Qltb (Kq kn (size - 1)) x = false) by (apply Qltb_false; exact Hu).
  assert (E2 : Qltb x (Kq kn 0) = false) by (apply Qltb_false; exact Hl).
  rewrite E1, E2. rewrite Hx. repeat split; field; exact Hh.
Qed.
Lemma base_at_left x : Kq kn 0 <= x -> x <= Kq kn (size - 1) -> x == Kq kn (lower_ix kn x) ->
  let bf := base_functions kn x in ajm bf == 1 /\ ajp bf == 0 /\ cjm bf == 0 /\ cjp bf == 0.
Proof.
  intros Hl Hu Hx. destruct (lower_ix_bracket x Hl Hu) as [Hj [Hjl Hjr]]. cbn zeta.
  unfold base_functions. cbn [ajm ajp cjm cjp]. fold size.
  set (j := lower_ix kn x) in *.
  assert (Hh : ~ Kq kn (S j) - Kq kn j == 0) by (pose proof (incr j Hj); lra).
  assert (E1 : Qltb (Kq kn (size - 1)) x = false) by (apply Qltb_false; exact Hu).
  assert (E2 : Qltb x (Kq kn 0) = false) by (apply Qltb_false; exact Hl).
  rewrite E1, E2. rewrite Hx. repeat split; field; exact Hh.
Qed.

Definition unit_row (n m : nat) : list Q := map (delta m) (seq 0 n).
Lemma Forall2_map_seq (f g : nat -> Q) a n : (forall k, f k == g k) -> Forall2 Qeq (map f (seq a n)) (map g (seq a n)).
Proof. intros H. revert a. induction n as [|n IH]; intros a; cbn [seq map]; constructor; [apply H | apply IH]. Qed.

(* ---------- identity at the knots: the basis is cardinal, whatever F is ---------- *)
Theorem natural_identity_at_knots (F : nat -> nat -> Q) m : (m < size)%nat ->
  Forall2 Qeq (free_row kn F false (Kq kn m)) (unit_row size m).
Proof.
  intros Hm. unfold free_row, unit_row. fold size. cbn [andb].
  assert (Hl : Kq kn 0 <= Kq kn m) by (apply K_le; lia).
  assert (Hu : Kq kn m <= Kq kn (size - 1)) by (apply K_le; unfold size in *; lia).
  destruct (lower_ix_bracket _ Hl Hu) as [Hj [Hjl Hjr]].
  set (j := lower_ix kn (Kq kn m)) in *.
  assert (Hcase : m = j \/ m = S j).
  { destruct (lt_eq_lt_dec m j) as [[Hlt|He]|Hgt]; [|left; exact He|].
    - pose proof (K_lt m j Hlt ltac:(lia)). lra.
    - destruct (Nat.eq_dec m (S j)) as [He|Hne]; [right; exact He|].
      pose proof (K_lt (S j) m ltac:(lia) Hm). lra. }
  apply Forall2_map_seq. intros k. rewrite Qred_correct.
  destruct Hcase as [He|He].
  - destruct (base_at_left (Kq kn m) Hl Hu) as [A1 [A2 [A3 A4]]]; [fold j; rewrite <- He; reflexivity|].
    change (jx (base_functions kn (Kq kn m))) with j. rewrite A1, A2, A3, A4, He. ring.
  - destruct (base_at_right (Kq kn m) Hl Hu) as [A1 [A2 [A3 A4]]]; [fold j; rewrite <- He; reflexivity|].
    change (jx (base_functions kn (Kq kn m))) with j. rewrite A1, A2, A3, A4, He. ring.
Qed.
(* cyclic: the last knot is identified with the first *)
Lemma map_cyclic_inside lb ub x : lb <= x -> x <= ub -> map_cyclic lb ub x = x.
Proof.
  intros Hl Hu. unfold map_cyclic.
  assert (E1 : Qltb ub x = false) by (apply Qltb_false; exact Hu).
  assert (E2 : Qltb x lb = false) by (apply Qltb_false; exact Hl). rewrite E1, E2. reflexivity.
Qed.
Theorem cyclic_identity_at_knots (F : nat -> nat -> Q) m : (m < size)%nat ->
  Forall2 Qeq (free_row kn F true (Kq kn m)) (unit_row (size - 1) (if Nat.eqb m (size - 1) then 0 else m)).
Proof.
  intros Hm. unfold free_row, unit_row. fold size. cbn [andb].
  assert (Hl : Kq kn 0 <= Kq kn m) by (apply K_le; lia).
  assert (Hu : Kq kn m <= Kq kn (size - 1)) by (apply K_le; unfold size in *; lia).
  rewrite (map_cyclic_inside _ _ _ Hl Hu).
  destruct (lower_ix_bracket _ Hl Hu) as [Hj [Hjl Hjr]].
  set (j := lower_ix kn (Kq kn m)) in *.
  assert (Hcase : m = j \/ m = S j).
  { destruct (lt_eq_lt_dec m j) as [[Hlt|He]|Hgt]; [|left; exact He|].
    - pose proof (K_lt m j Hlt ltac:(lia)). lra.
    - destruct (Nat.eq_dec m (S j)) as [He|Hne]; [right; exact He|].
      pose proof (K_lt (S j) m ltac:(lia) Hm). lra. }
  apply Forall2_map_seq. intros k. rewrite Qred_correct.
  destruct Hcase as [He|He].
  - destruct (base_at_left (Kq kn m) Hl Hu) as [A1 [A2 [A3 A4]]]; [fold j; rewrite <- He; reflexivity|].
    change (jx (base_functions kn (Kq kn m))) with j. rewrite A1, A2, A3, A4.
    replace (Nat.eqb m (size - 1)) with false by (symmetry; apply Nat.eqb_neq; lia). rewrite He. ring.
  - destruct (base_at_right (Kq kn m) Hl Hu) as [A1 [A2 [A3 A4]]]; [fold j; rewrite <- He; reflexivity|].
    change (jx (base_functions kn (Kq kn m))) with j. rewrite A1, A2, A3, A4. rewrite He.
    destruct (Nat.eqb_spec (S j) (size - 1)) as [E|N]; ring.
Qed.
End Knots.

(* ---------- the interval polynomial, its derivatives, and C1 <=> the tridiagonal equations ---------- *)
Section Piece.
Variables k0 k1 : Q.                 (* the interval [k0, k1], h = k1 - k0 *)
Variables y0 y1 g0 g1 : Q.           (* values and second derivatives at the two ends (one column of the identity and of F) *)
Let h := k1 - k0.
Hypothesis hnz : ~ h == 0.
Definition piece (x : Q) : Q :=
  (k1 - x) / h * y0 + (x - k0) / h * y1
  + ((k1 - x) * (k1 - x) * (k1 - x) / (6 * h) - h * (k1 - x) / 6) * g0
  + ((x - k0) * (x - k0) * (x - k0) / (6 * h) - h * (x - k0) / 6) * g1.
Definition piece_d1 (x : Q) : Q :=
  (y1 - y0) / h + (- ((k1 - x) * (k1 - x)) / (2 * h) + h / 6) * g0 + ((x - k0) * (x - k0) / (2 * h) - h / 6) * g1.
Definition piece_d2 (x : Q) : Q := (k1 - x) / h * g0 + (x - k0) / h * g1.
Definition piece_d3 : Q := (g1 - g0) / h.
(* Taylor expansion: piece is a cubic whose derivatives are piece_d1, piece_d2, piece_d3 *)
Theorem piece_taylor x t :
  piece (x + t) == piece x + t * piece_d1 x + t * t / 2 * piece_d2 x + t * t * t / 6 * piece_d3.
Proof. unfold piece, piece_d1, piece_d2, piece_d3. subst h. field. exact hnz. Qed.
Theorem piece_ends : piece k0 == y0 /\ piece k1 == y1 /\ piece_d2 k0 == g0 /\ piece_d2 k1 == g1.
Proof. unfold piece, piece_d2. subst h. repeat split; field; exact hnz. Qed.
Theorem piece_slopes :
  piece_d1 k0 == (y1 - y0) / h - h / 3 * g0 - h / 6 * g1 /\ piece_d1 k1 == (y1 - y0) / h + h / 6 * g0 + h / 3 * g1.
Proof. unfold piece_d1. subst h. split; field; exact hnz. Qed.
End Piece.

Lemma eq_iff_sub a b c d : a - b == c - d -> (a == b <-> c == d).
Proof. intros E. split; intros H; lra. Qed.
(* first derivatives of neighbouring pieces agree at the shared knot exactly when the tridiagonal equation of that knot holds *)
Theorem c1_iff_tridiagonal ka kb kc ya yb yc ga gb gc : ~ kb - ka == 0 -> ~ kc - kb == 0 ->
  (piece_d1 ka kb ya yb ga gb kb == piece_d1 kb kc yb yc gb gc kb
   <-> (kb - ka) / 6 * ga + ((kb - ka) + (kc - kb)) / 3 * gb + (kc - kb) / 6 * gc == (yc - yb) / (kc - kb) - (yb - ya) / (kb - ka)).
Proof.
  intros H1 H2.
  apply eq_iff_sub. unfold piece_d1. field. split; assumption.
Qed.

(* the code's row on an interior interval is this piece, column by column *)
Theorem free_row_is_piece kn (F : nat -> nat -> Q) x :
  (2 <= length kn)%nat -> (forall i, (S i < length kn)%nat -> Kq kn i < Kq kn (S i)) ->
  Kq kn 0 <= x -> x <= Kq kn (length kn - 1) ->
  let j := lower_ix kn x in
  Forall2 Qeq (free_row kn F false x)
              (map (fun k => piece (Kq kn j) (Kq kn (S j)) (delta j k) (delta (S j) k) (F j k) (F (S j) k) x) (seq 0 (length kn))).
Proof.
  intros Hs Hinc Hl Hu j. unfold free_row. cbn [andb]. apply Forall2_map_seq. intros k. rewrite Qred_correct.
  unfold base_functions, piece. cbn [ajm ajp cjm cjp jx]. fold j.
  assert (E1 : Qltb (Kq kn (length kn - 1)) x = false) by (apply Qltb_false; exact Hu).
  assert (E2 : Qltb x (Kq kn 0) = false) by (apply Qltb_false; exact Hl).
  rewrite E1, E2.
  destruct (lower_ix_bracket kn Hs Hinc x Hl Hu) as [Hj _]. fold j in Hj.
  assert (Hh : ~ Kq kn (S j) - Kq kn j == 0) by (pose proof (Hinc j Hj); lra).
  field. exact Hh.
Qed.

(* the checkable predicate on F implies the tridiagonal equations for every interior knot and column, and the natural ends *)
Theorem natural_F_ok_sound kn F : natural_F_ok kn F = true ->
  (forall k, (k < length kn)%nat -> F 0%nat k == 0 /\ F (length kn - 1)%nat k == 0) /\
  (forall m k, (1 <= m)%nat -> (S m < length kn)%nat -> (k < length kn)%nat ->
     hq kn (m - 1) / 6 * F (m - 1)%nat k + (hq kn (m - 1) + hq kn m) / 3 * F m k + hq kn m / 6 * F (S m) k == nat_D kn m k).
Proof.
  unfold natural_F_ok. intros H. apply andb_prop in H as [H1 H2]. rewrite forallb_forall in H1, H2. split.
  - intros k Hk. specialize (H1 k ltac:(apply in_seq; lia)). apply andb_prop in H1 as [A B].
    split; apply Qeq_bool_iff; assumption.
  - intros m k Hm1 Hm2 Hk. specialize (H2 m ltac:(apply in_seq; lia)). rewrite forallb_forall in H2.
    apply Qeq_bool_iff, H2, in_seq. lia.
Qed.

(* ---------- centering: absorbing the column-mean constraint gives zero column means ---------- *)
Lemma qsum_ext n f g : (forall i, (i < n)%nat -> f i == g i) -> qsum n f == qsum n g.
Proof. induction n as [|n IH]; intros H; cbn [qsum]; [reflexivity|]. rewrite IH, H by (intros; auto with arith). reflexivity. Qed.
Lemma qsum_plus n f g : qsum n (fun i => f i + g i) == qsum n f + qsum n g.
Proof. induction n as [|n IH]; cbn [qsum]; [ring|]. rewrite IH. ring. Qed.
Lemma qsum_scal n c f : qsum n (fun i => f i * c) == qsum n f * c.
Proof. induction n as [|n IH]; cbn [qsum]; [ring|]. rewrite IH. ring. Qed.
Lemma qsum_swap r n (M : nat -> nat -> Q) : qsum r (fun i => qsum n (fun k => M i k)) == qsum n (fun k => qsum r (fun i => M i k)).
Proof.
  induction r as [|r IH]; cbn [qsum].
  - induction n as [|n IHn]; cbn [qsum]; [reflexivity|]. rewrite <- IHn. ring.
  - rewrite IH, <- qsum_plus. reflexivity.
Qed.
(* M: r x n design matrix; c_k its column means; Q2: n x p with c . Q2 = 0 (the columns numpy's QR returns beyond the first are
   orthogonal to the constraint).  Then every column of M Q2 sums (hence averages) to zero. *)
Theorem centering_absorbed r n (M : nat -> nat -> Q) (Q2 : nat -> nat -> Q) j : (0 < r)%nat ->
  let c k := qsum r (fun i => M i k) / inject_Z (Z.of_nat r) in
  qsum n (fun k => c k * Q2 k j) == 0 ->
  qsum r (fun i => qsum n (fun k => M i k * Q2 k j)) == 0.
Proof.
  intros Hr c Hc. rewrite qsum_swap.
  assert (Hrz : ~ inject_Z (Z.of_nat r) == 0).
  { unfold inject_Z, Qeq. cbn. lia. }
  rewrite (qsum_ext n _ (fun k => (c k * Q2 k j) * inject_Z (Z.of_nat r))).
  - rewrite qsum_scal, Hc. ring.
  - intros k _. rewrite qsum_scal. unfold c. field. exact Hrz.
Qed.

(* ---------- cyclic splines: the same characterisation with indices modulo n ---------- *)
(* slopes of two pieces over ANY two intervals [ka,kb] and [kb',kc] (for the wrap-around node the right end of the last interval and
   the left end of the first are different coordinates of the same node) *)
Theorem c1_iff_general ka kb kb' kc ya yb yc ga gb gc : ~ kb - ka == 0 -> ~ kc - kb' == 0 ->
  (piece_d1 ka kb ya yb ga gb kb == piece_d1 kb' kc yb yc gb gc kb'
   <-> (kb - ka) / 6 * ga + ((kb - ka) + (kc - kb')) / 3 * gb + (kc - kb') / 6 * gc == (yc - yb) / (kc - kb') - (yb - ya) / (kb - ka)).
Proof. intros H1 H2. apply eq_iff_sub. unfold piece_d1. field. split; assumption. Qed.

Lemma qsum_pick n (f : nat -> Q) m : (m < n)%nat -> qsum n (fun j => delta j m * f j) == f m.
Proof.
  induction n as [|n IH]; intros Hm; [lia|]. cbn [qsum]. unfold delta at 2.
  destruct (Nat.eqb_spec n m) as [->|Hne].
  - rewrite (qsum_ext m _ (fun _ => 0)).
    + assert (Hz : forall k, qsum k (fun _ => 0) == 0) by (induction k as [|k IHk]; cbn [qsum]; [reflexivity | rewrite IHk; ring]).
      rewrite Hz. ring.
    + intros i Hi. unfold delta. replace (Nat.eqb i m) with false by (symmetry; apply Nat.eqb_neq; lia). ring.
  - rewrite IH by lia. ring.
Qed.
Lemma prevn_lt n m : (m < n)%nat -> (prevn n m < n)%nat.
Proof. intros H. unfold prevn. destruct (Nat.eqb m 0); lia. Qed.
Lemma nextn_lt n m : (m < n)%nat -> (nextn n m < n)%nat.
Proof. intros H. unfold nextn. destruct (Nat.eqb_spec (S m) n); lia. Qed.
Theorem cyclic_F_ok_sound kn F : cyclic_F_ok kn F = true ->
  let n := (length kn - 1)%nat in
  forall m k, (m < n)%nat -> (k < n)%nat ->
    hq kn (prevn n m) / 6 * F (prevn n m) k + (hq kn (prevn n m) + hq kn m) / 3 * F m k + hq kn m / 6 * F (nextn n m) k == cyc_D kn n m k.
Proof.
  unfold cyclic_F_ok. intros H. cbn zeta. set (n := (length kn - 1)%nat) in *. intros m k Hm Hk. rewrite forallb_forall in H.
  assert (Hm' : In m (seq 0 n)) by (apply in_seq; lia). assert (Hk' : In k (seq 0 n)) by (apply in_seq; lia).
  specialize (H m Hm'). rewrite forallb_forall in H. specialize (H k Hk').
  apply Qeq_bool_iff in H. rewrite <- H. unfold cyc_B.
  rewrite (qsum_ext n _ (fun j => delta j m * ((hq kn (prevn n m) + hq kn m) / 3 * F j k)
                                  + (delta j (prevn n m) * (hq kn (prevn n m) / 6 * F j k) + delta j (nextn n m) * (hq kn m / 6 * F j k)))) by (intros; ring).
  rewrite !qsum_plus. rewrite (qsum_pick n _ m Hm), (qsum_pick n _ (prevn n m) (prevn_lt n m Hm)), (qsum_pick n _ (nextn n m) (nextn_lt n m Hm)). ring.
Qed.
