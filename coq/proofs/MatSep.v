(* ===== MatSep.v : each part of a multi-part formula equals a separate build of that part on the jointly kept rows (C07) ===== *)
From Coq Require Import List NArith ZArith QArith Qcanon Bool Arith Lia.
Import ListNotations.
Require Import Mat MatDrop MatParts.
Open Scope nat_scope.

Lemma leqb_refl (a : str) : leqb a a = true.
Proof. induction a as [|x a IH]; cbn; [reflexivity|]. rewrite N.eqb_refl. exact IH. Qed.
Lemma leqb_eq (a b : str) : leqb a b = true -> a = b.
Proof.
  revert b. induction a as [|x a IH]; intros [|y b] H; cbn in H; try discriminate; [reflexivity|].
  apply andb_prop in H as [H1 H2]. apply N.eqb_eq in H1. f_equal; [exact H1 | apply IH, H2].
Qed.
Lemma leqb_neq (a b : str) : leqb a b = false -> a <> b.
Proof. intros H ->. rewrite leqb_refl in H. discriminate. Qed.
Lemma mem_s_In x l : mem_s x l = true <-> In x l.
Proof.
  unfold mem_s. rewrite existsb_exists. split.
  - intros (y & Hy & He). apply leqb_eq in He. subst. exact Hy.
  - intros H. exists x. split; [exact H | apply leqb_refl].
Qed.

(* ---------- the factor pool ---------- *)
(* kinds are a function of the expression text *)
Definition consistent (fs : list factor) := forall f g, In f fs -> In g fs -> fx f = fx g -> fk f = fk g.
Lemma eval_factor_ext d f g : fx f = fx g -> fk f = fk g -> eval_factor d f = eval_factor d g.
Proof. intros H1 H2. unfold eval_factor. rewrite H1, H2. reflexivity. Qed.

Lemma pool_fold_spec fs : forall acc,
  let r := fold_left (fun acc f => if mem_s (fx f) (map fx acc) then acc else acc ++ [f]) fs acc in
  (forall f, In f r -> In f acc \/ In f fs) /\ (forall f, In f acc -> In f r) /\
  (forall f, In f fs -> In (fx f) (map fx r)).
Proof.
  induction fs as [|g fs IH]; intros acc; cbn [fold_left].
  - cbn zeta. repeat split; auto. intros f [].
  - cbn zeta. destruct (mem_s (fx g) (map fx acc)) eqn:E.
    + destruct (IH acc) as (A & B & C). repeat split.
      * intros f Hf. destruct (A f Hf); [left | right; right]; assumption.
      * exact B.
      * intros f [<-|Hf]; [|apply C, Hf]. apply mem_s_In in E. apply in_map_iff in E as (h & Hh & Hin).
        apply in_map_iff. exists h. split; [exact Hh | apply B, Hin].
    + destruct (IH (acc ++ [g])) as (A & B & C). repeat split.
      * intros f Hf. destruct (A f Hf) as [H|H]; [|right; right; exact H].
        apply in_app_or in H as [H|[<-|[]]]; [left; exact H | right; left; reflexivity].
      * intros f Hf. apply B, in_or_app. left. exact Hf.
      * intros f [<-|Hf]; [|apply C, Hf]. apply in_map. apply B, in_or_app. right. left. reflexivity.
Qed.
Lemma pool_sub terms f : In f (pool_of terms) -> In f (concat terms).
Proof. unfold pool_of. intros H. destruct (pool_fold_spec (concat terms) []) as (A & _ & _). destruct (A f H) as [[]|H']. exact H'. Qed.
Lemma pool_covers terms f : In f (concat terms) -> In (fx f) (map fx (pool_of terms)).
Proof. unfold pool_of. intros H. destruct (pool_fold_spec (concat terms) []) as (_ & _ & C). apply C, H. Qed.

Lemma eval_pool_spec d : forall l acc evs, eval_pool d l acc = inl evs ->
  exists vals, length vals = length l /\ evs = rev acc ++ combine (map fx l) vals /\
               Forall2 (fun f v => eval_factor d f = inl v) l vals.
Proof.
  induction l as [|f l IH]; intros acc evs H; cbn [eval_pool] in H.
  - injection H as <-. exists []. cbn. rewrite app_nil_r. repeat split. constructor.
  - destruct (eval_factor d f) as [v|e] eqn:E; [|discriminate].
    destruct (IH _ _ H) as (vals & Hl & -> & HF). exists (v :: vals). cbn [length map combine rev]. repeat split.
    + lia.
    + rewrite <- app_assoc. reflexivity.
    + constructor; assumption.
Qed.
Lemma eval_pool_total d l : (forall f, In f l -> exists v, eval_factor d f = inl v) -> forall acc, exists evs, eval_pool d l acc = inl evs.
Proof.
  induction l as [|f l IH]; intros H acc; cbn [eval_pool]; [eexists; reflexivity|].
  destruct (H f (or_introl eq_refl)) as [v ->]. apply IH. intros g Hg. apply H. right. exact Hg.
Qed.
Lemma lookup_combine d (l : list factor) vals e : Forall2 (fun f v => eval_factor d f = inl v) l vals ->
  match lookup_ev (combine (map fx l) vals) e with
  | Some v => exists f, In f l /\ fx f = e /\ eval_factor d f = inl v
  | None => ~ In e (map fx l)
  end.
Proof.
  induction 1 as [|f v l vals Hfv HF IH]; cbn [map combine lookup_ev]; [intros []|].
  destruct (leqb (fx f) e) eqn:E.
  - apply leqb_eq in E. exists f. repeat split; [left; reflexivity | exact E | exact Hfv].
  - apply leqb_neq in E. destruct (lookup_ev (combine (map fx l) vals) e) as [w|].
    + destruct IH as (g & Hg & He & Hv). exists g. repeat split; [right; exact Hg | exact He | exact Hv].
    + intros [H|H]; [exact (E H) | exact (IH H)].
Qed.
(* the value found for a factor of the formula is that factor's own evaluation *)
Lemma pool_lookup d terms evs g : consistent (concat terms) -> eval_pool d (pool_of terms) [] = inl evs -> In g (concat terms) ->
  exists v, lookup_ev evs (fx g) = Some v /\ eval_factor d g = inl v.
Proof.
  intros Hc He Hg. destruct (eval_pool_spec _ _ _ _ He) as (vals & _ & -> & HF). cbn [rev app].
  pose proof (lookup_combine d _ _ (fx g) HF) as H.
  destruct (lookup_ev (combine (map fx (pool_of terms)) vals) (fx g)) as [v|].
  - destruct H as (f & Hf & Hfx & Hv). exists v. split; [reflexivity|].
    rewrite <- Hv. apply eval_factor_ext; [symmetry; exact Hfx|].
    symmetry. apply Hc; [apply pool_sub, Hf | exact Hg | exact Hfx].
  - exfalso. apply H, pool_covers, Hg.
Qed.

(* ---------- what assemble reads from the evaluated pool ---------- *)
Definition agree (evs evs' : list (str * ev)) (fs : list factor) := forall f, In f fs -> lookup_ev evs (fx f) = lookup_ev evs' (fx f).
Lemma evf_of_ext evs evs' t : agree evs evs' t -> evf_of evs t = evf_of evs' t.
Proof.
  unfold evf_of. induction t as [|f t IH]; intros H; cbn [flat_map]; [reflexivity|].
  rewrite (H f (or_introl eq_refl)), IH; [reflexivity|]. intros g Hg. apply H. right. exact Hg.
Qed.
Lemma evf_of_in evs t fe : In fe (evf_of evs t) -> In (fst fe) t /\ lookup_ev evs (fx (fst fe)) = Some (snd fe).
Proof.
  unfold evf_of. intros H. apply in_flat_map in H as (f & Hf & Hin).
  destruct (lookup_ev evs (fx f)) as [v|] eqn:E; [|destruct Hin]. destruct Hin as [<-|[]]. cbn. split; assumption.
Qed.

(* expressions occurring in scoped terms come from the term's evaluated factors *)
Definition ids_ok (S : str -> Prop) (fs : list sfac) := forall sf, In sf fs -> S (sf_expr sf).
Definition sts_ok (S : str -> Prop) (ts : list sterm) := forall st, In st ts -> ids_ok S (st_f st).
Definition sets_ok (S : str -> Prop) (ts : list Scope.sterm) := forall t, In t ts -> ids_ok S t.

Lemma sets_ok_add S ts t : sets_ok S ts -> ids_ok S t -> sets_ok S (Scope.add_term ts t).
Proof. unfold Scope.add_term. intros H Ht. destruct (Scope.mem_st t ts); [exact H|]. intros u Hu. apply in_app_or in Hu as [Hu|[<-|[]]]; [apply H, Hu | exact Ht]. Qed.
Lemma sets_ok_remove S ts t : sets_ok S ts -> sets_ok S (Scope.remove_term ts t).
Proof. unfold Scope.remove_term. intros H u Hu. apply filter_In in Hu as [Hu _]. apply H, Hu. Qed.
Lemma ids_ok_merge S t f : ids_ok S t -> ids_ok S (Scope.merge_into t f).
Proof.
  unfold Scope.merge_into. intros H sf Hsf. apply in_map_iff in Hsf as (g & <- & Hg).
  destruct (Scope.sf_eqb g f); [cbn; apply (H g Hg) | apply H, Hg].
Qed.
Lemma find_merge_in st terms e f : Scope.find_merge st terms = Some (e, f) -> In e terms.
Proof.
  induction terms as [|x r IH]; cbn [Scope.find_merge]; [discriminate|].
  destruct ((length st - 1 =? length x) && (length (Scope.sdiff st x) =? 1)).
  - destruct (Scope.sdiff st x) as [|g ?]; [intros H; right; apply IH, H|].
    destruct (Scope.fred g); [intros [= <- <-]; left; reflexivity | intros H; right; apply IH, H].
  - intros H. right. apply IH, H.
Qed.
Lemma insert_in t l x : In x (Scope.insert_by_len t l) <-> x = t \/ In x l.
Proof.
  induction l as [|y r IH]; cbn [Scope.insert_by_len]; [cbn; intuition congruence|].
  destruct (length y <? length t); cbn [In]; [rewrite IH|]; intuition congruence.
Qed.
Lemma sort_in l x : In x (Scope.sort_by_len l) <-> In x l.
Proof. unfold Scope.sort_by_len. induction l as [|y r IH]; cbn [fold_right In]; [tauto|]. rewrite insert_in, IH. intuition congruence. Qed.

Lemma simplify_sets_ok S : forall fuel ts, sets_ok S ts -> sets_ok S (Scope.simplify fuel ts).
Proof.
  induction fuel as [|fuel IH]; intros ts H; cbn [Scope.simplify]; [exact H|].
  assert (G : forall l acc, sets_ok S l -> sets_ok S acc -> sets_ok S (fold_left (Scope.sstep (Scope.simplify fuel)) l acc)).
  { induction l as [|st l IHl]; intros acc Hl Hacc; cbn [fold_left]; [exact Hacc|].
    apply IHl; [intros u Hu; apply Hl; right; exact Hu|].
    unfold Scope.sstep. destruct (Scope.find_merge st acc) as [[e f]|] eqn:E.
    - apply IH. apply sets_ok_add; [apply sets_ok_remove, Hacc|]. apply ids_ok_merge, Hl. left. reflexivity.
    - apply sets_ok_add; [exact Hacc | apply Hl; left; reflexivity]. }
  apply G; [|intros u []]. intros u Hu. apply (proj1 (sort_in _ _)) in Hu. apply H, Hu.
Qed.
Lemma mat_simplify_ok S fuel ts : sts_ok S ts -> sts_ok S (Mat.simplify fuel ts).
Proof.
  intros H st Hst. unfold Mat.simplify in Hst. apply in_map_iff in Hst as (fs & <- & Hfs). cbn [st_f].
  apply (simplify_sets_ok S fuel (map st_f ts)); [|exact Hfs].
  intros t Ht. apply in_map_iff in Ht as (u & <- & Hu). apply H, Hu.
Qed.
Lemma dedup_sub l : forall seen sf, In sf (dedup_sf l seen) -> In sf l.
Proof.
  induction l as [|x r IH]; intros seen sf H; cbn [dedup_sf] in H; [destruct H|].
  destruct (mem_sf x seen); [right; apply (IH _ _ H) | destruct H as [<-|H]; [left; reflexivity | right; apply (IH _ _ H)]].
Qed.
Lemma add_term_ok S ts t : sts_ok S ts -> ids_ok S (st_f t) -> sts_ok S (add_term ts t).
Proof. unfold add_term. intros H Ht. destruct (mem_st t ts); [exact H|]. intros u Hu. apply in_app_or in Hu as [Hu|[<-|[]]]; [apply H, Hu | exact Ht]. Qed.
Lemma fold_add_ok S all : forall acc, sts_ok S acc -> (forall t, In t all -> ids_ok S (st_f t)) -> sts_ok S (fold_left add_term all acc).
Proof.
  induction all as [|t all IH]; intros acc Ha Hall; cbn [fold_left]; [exact Ha|].
  apply IH; [apply add_term_ok; [exact Ha | apply Hall; left; reflexivity] | intros u Hu; apply Hall; right; exact Hu].
Qed.
Lemma somes_in {A} (l : list (option A)) x : In x (somes l) -> In (Some x) l.
Proof. induction l as [|[y|] r IH]; cbn [somes In]; [tauto | intros [->|H]; [left; reflexivity | right; apply IH, H] | intros H; right; apply IH, H]. Qed.
Lemma prod_opts_in opts : forall p o, In p (prod_opts opts) -> In o p -> exists l, In l opts /\ In o l.
Proof.
  induction opts as [|l opts IH]; intros p o Hp Ho; cbn [prod_opts] in Hp.
  - destruct Hp as [<-|[]]. destruct Ho.
  - apply in_flat_map in Hp as (x & Hx & Hp). apply in_map_iff in Hp as (q & <- & Hq).
    destruct Ho as [<-|Ho]; [exists l; split; [left; reflexivity | exact Hx]|].
    destruct (IH q o Hq Ho) as (l' & Hl' & Ho'). exists l'. split; [right; exact Hl' | exact Ho'].
Qed.
Lemma spanned_by_ok (S : str -> Prop) evf : (forall fe, In fe evf -> S (fx (fst fe))) -> sts_ok S (spanned_by evf).
Proof.
  intros H. unfold spanned_by. apply fold_add_ok; [intros st []|].
  intros t Ht. apply in_map_iff in Ht as (p & <- & Hp). cbn [mk_st st_f]. intros sf Hsf. apply dedup_sub in Hsf.
  apply somes_in in Hsf. destruct (prod_opts_in _ _ _ Hp Hsf) as (l & Hl & Hin).
  apply in_flat_map in Hl as (fe & Hfe & Hl). specialize (H fe Hfe).
  destruct (snd fe); cbn in Hl.
  - destruct Hl.
  - destruct Hl as [<-|[]]. destruct Hin as [Heq|[]]. injection Heq as <-. exact H.
  - destruct Hl as [<-|[]]. destruct Hin as [Heq|[Heq|[]]]; [injection Heq as <-; exact H | discriminate].
Qed.
Lemma unreduced_ok (S : str -> Prop) evf : (forall fe, In fe evf -> S (fx (fst fe))) -> ids_ok S (st_f (unreduced_term evf)).
Proof.
  intros H sf Hsf. unfold unreduced_term in Hsf. cbn [mk_st st_f] in Hsf. apply dedup_sub in Hsf.
  apply in_flat_map in Hsf as (fe & Hfe & Hin). destruct (snd fe); cbn in Hin; [destruct Hin| |]; destruct Hin as [<-|[]]; apply H, Hfe.
Qed.

Lemma scoped_terms_ok evs (S : str -> Prop) fr : forall terms acc,
  (forall t f, In t terms -> In f t -> lookup_ev evs (fx f) <> None -> S (fx f)) ->
  (forall sts, In sts (fst acc) -> sts_ok S sts) ->
  forall sts, In sts (fst (fold_left (scope_step fr evs) terms acc)) -> sts_ok S sts.
Proof.
  induction terms as [|t terms IH]; intros acc HS Hacc; cbn [fold_left]; [exact Hacc|].
  apply IH; [intros t' f Ht'; apply HS; right; exact Ht'|].
  destruct acc as [done spanned]. unfold scope_step.
  assert (Hevf : forall fe, In fe (evf_of evs t) -> S (fx (fst fe))).
  { intros fe Hfe. apply evf_of_in in Hfe as [H1 H2]. apply (HS t); [left; reflexivity | exact H1 | rewrite H2; discriminate]. }
  assert (Hnil : forall sts, In sts (done ++ [[]]) -> sts_ok S sts).
  { intros sts Hs. apply in_app_or in Hs as [Hs|[<-|[]]]; [apply Hacc, Hs | intros st []]. }
  destruct (evf_of evs t) as [|fe0 evf'] eqn:Eevf; [exact Hnil|].
  destruct (has_zero (fe0 :: evf')); [exact Hnil|].
  destruct fr; cbn [fst].
  - intros sts Hs. apply in_app_or in Hs as [Hs|[<-|[]]]; [apply Hacc, Hs|].
    apply mat_simplify_ok. intros st Hst. apply filter_In in Hst as [Hst _]. apply (spanned_by_ok S _ Hevf), Hst.
  - intros sts Hs. apply in_app_or in Hs as [Hs|[<-|[]]]; [apply Hacc, Hs|].
    intros st [<-|[]]. apply unreduced_ok, Hevf.
Qed.

Lemma scope_step_ext fr evs evs' acc t : agree evs evs' t -> scope_step fr evs acc t = scope_step fr evs' acc t.
Proof. intros H. unfold scope_step. rewrite (evf_of_ext _ _ _ H). reflexivity. Qed.
Lemma get_scoped_terms_ext fr evs evs' terms : agree evs evs' (concat terms) -> get_scoped_terms fr evs terms = get_scoped_terms fr evs' terms.
Proof.
  unfold get_scoped_terms. intros H. f_equal. generalize (@nil (list sterm), @nil sterm).
  induction terms as [|t terms IH]; intros acc; cbn [fold_left]; [reflexivity|].
  rewrite (scope_step_ext fr evs evs' acc t) by (intros f Hf; apply H; cbn [concat]; apply in_or_app; left; exact Hf).
  apply IH. intros f Hf. apply H. cbn [concat]. apply in_or_app. right. exact Hf.
Qed.
Lemma cols_of_ext evs evs' drop nk st : (forall sf, In sf (st_f st) -> lookup_ev evs (sf_expr sf) = lookup_ev evs' (sf_expr sf)) ->
  cols_of evs drop nk st = cols_of evs' drop nk st.
Proof.
  intros H. unfold cols_of. destruct (st_f st) as [|sf fs] eqn:E; [reflexivity|].
  do 2 f_equal. apply map_ext_in. intros g Hg. rewrite (H g Hg). reflexivity.
Qed.

Theorem assemble_ext evs evs' drop n fr terms : agree evs evs' (concat terms) ->
  assemble evs drop n fr terms = assemble evs' drop n fr terms.
Proof.
  intros H. unfold assemble. rewrite <- (get_scoped_terms_ext fr evs evs' terms H).
  set (per_term := get_scoped_terms fr evs terms).
  assert (Hok : forall sts, In sts per_term -> sts_ok (fun e => lookup_ev evs e = lookup_ev evs' e) sts).
  { subst per_term. unfold get_scoped_terms. apply scoped_terms_ok; [|intros sts []].
    intros t f Ht Hf _. apply H. apply in_concat. exists t. split; assumption. }
  assert (Hcols : map (fun sts => fold_left (fun dct st => dict_update dct (cols_of evs drop (n - length drop) st)) sts []) per_term =
                  map (fun sts => fold_left (fun dct st => dict_update dct (cols_of evs' drop (n - length drop) st)) sts []) per_term).
  { apply map_ext_in. intros sts Hs. specialize (Hok sts Hs). clear Hs. revert Hok. generalize (@nil (str * column)).
    induction sts as [|st sts IHs]; intros dct Hok; cbn [fold_left]; [reflexivity|].
    rewrite (cols_of_ext evs evs' drop _ st) by (intros sf Hsf; apply (Hok st (or_introl eq_refl) sf Hsf)).
    apply IHs. intros st' Hst'. apply Hok. right. exact Hst'. }
  rewrite Hcols. reflexivity.
Qed.

(* ---------- the C07 statement ---------- *)
Lemma sorted_fixpoint l : strictly_sorted l -> fold_right ins_n [] l = l.
Proof.
  intros H. apply sorted_unique; [apply sort_sorted | exact H | intros k; apply sorted_In].
Qed.
Theorem part_equals_separate_build d n c (parts : list (list term)) outs k part o :
  consistent (concat (concat parts)) ->
  build_parts d n c parts = inl outs -> nth_error parts k = Some part -> nth_error outs k = Some o ->
  build d n {| full_rank := full_rank c; na_action := NaIgnore; caller_drop := o_drop o |} part = inl o.
Proof.
  intros Hc Hb Hp Ho. destruct (build_parts_inv _ _ _ _ _ Hb) as (evs & He & -> & _).
  rewrite nth_error_map, Hp in Ho. cbn in Ho. injection Ho as <-. cbn [assemble o_drop].
  assert (Hsub : forall f, In f (concat part) -> In f (concat (concat parts))).
  { intros f Hf. apply in_concat in Hf as (t & Ht & Hf). apply in_concat. exists t. split; [|exact Hf].
    apply in_concat. exists part. split; [apply (nth_error_In _ _ Hp) | exact Ht]. }
  assert (Hc' : consistent (concat part)).
  { intros f g Hf Hg. apply Hc; apply Hsub; assumption. }
  (* the part's own pool evaluates, and to the same values *)
  destruct (eval_pool_total d (pool_of part)) with (acc := @nil (str * ev)) as [evs_k Hk].
  { intros f Hf. apply pool_sub in Hf. destruct (pool_lookup d (concat parts) evs f Hc He (Hsub f Hf)) as (v & _ & Hv). exists v. exact Hv. }
  assert (Hag : agree evs evs_k (concat part)).
  { intros f Hf. destruct (pool_lookup d (concat parts) evs f Hc He (Hsub f Hf)) as (v & Hl & Hv).
    destruct (pool_lookup d part evs_k f Hc' Hk Hf) as (v' & Hl' & Hv'). rewrite Hl, Hl'. congruence. }
  unfold build, bind. rewrite Hk. cbn [na_action].
  f_equal. unfold drop_set at 1. cbn [na_action caller_drop].
  rewrite (sorted_fixpoint _ (drop_set_sorted c evs)).
  symmetry. apply assemble_ext. exact Hag.
Qed.
