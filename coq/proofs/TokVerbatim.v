(* ===== TokVerbatim.v : inside a quoted region every character is taken verbatim (C15) =====
   While a quote context is open (back-quoted name, brace-quoted or call-style Python fragment, %operator%, string literal inside them) the
   tokenizer never drops, alters or reorders a character: a step either appends exactly the character read to the current token, or the
   character is the delimiter that closes the OUTERMOST context of a name / brace fragment / %operator%, in which case the token collected so
   far is emitted unchanged (the delimiter itself is not part of the text). *)
From Coq Require Import List NArith ZArith Bool Arith Lia.
Import ListNotations.
Require Import Tok.
Open Scope N_scope.

Definition appended (s s' : tstate) (c : N) : Prop := ttext (cur s') = ttext (cur s) ++ [c] /\ out s' = out s.
Definition closed_outermost (s s' : tstate) (c : N) : Prop :=
  qc s = [c] /\ ((c =? cRB) || (c =? cBT) || (c =? cPCT)) = true /\ qc s' = [] /\
  ((truthy (cur s) = true /\ out s' = cur s :: out s /\ cur s' = fresh) \/ (truthy (cur s) = false /\ out s' = out s /\ cur s' = fresh)).
Definition closed_inner_empty (s s' : tstate) (c : N) : Prop :=
  truthy (cur s) = false /\ out s' = out s /\ cur s' = cur s /\ exists q r, qc s = q :: r /\ r <> [] /\ qc s' = r.

Theorem quoted_step_verbatim cl s i c s' : qc s <> [] -> step cl s i c = inl s' ->
  appended s s' c \/ closed_outermost s s' c \/ closed_inner_empty s s' c.
Proof.
  intros Hq. unfold step.
  destruct (take s) as [|n] eqn:Et.
  2:{ intro H; inversion H; subst. left. unfold appended, set_take, set_cur, update. cbn. auto. }
  destruct (qc s) as [|q qrest] eqn:Eq; [contradiction|].
  destruct (c =? cBS) eqn:Ebs.
  { intro H; inversion H; subst. left. unfold appended, set_take, set_cur, update. cbn. auto. }
  destruct (((q =? cRB) || (q =? cBT) || (q =? cPCT)) && (c =? q)) eqn:Ecl.
  - apply andb_prop in Ecl as [Eq1 Eq2]. apply N.eqb_eq in Eq2. subst q.
    destruct (truthy (cur s)) eqn:Tr.
    + destruct qrest as [|q2 r2].
      * intro H; inversion H; subst. right. left. unfold closed_outermost. cbn. repeat split; auto.
      * intro H; inversion H; subst. left. unfold appended, set_cur, set_qc, update. cbn. auto.
    + destruct qrest as [|q2 r2].
      * intro H; inversion H; subst. right. left. unfold closed_outermost, set_cur, set_qc. cbn. repeat split; auto.
      * intro H; inversion H; subst. right. right. unfold closed_inner_empty, set_qc. cbn. repeat split; auto. exists c, (q2 :: r2). repeat split; auto. discriminate.
  - destruct (c =? q).
    + intro H; inversion H; subst. left. unfold appended, set_cur, set_qc, update. cbn. auto.
    + intro H; inversion H; subst. left. unfold appended, set_cur, set_qc, update. cbn. auto.
Qed.

(* hence over any stretch of input during which the context never closes down to the top level, the token text grows by exactly that stretch:
   whatever operator characters, quotes or brackets it contains *)
Fixpoint inside (cl : N -> cls) (s : tstate) (i : nat) (l : list N) : bool :=
  match l with
  | [] => true
  | c :: r => match step cl s i c with
              | inl s' => match qc s' with [] => false | _ => inside cl s' (S i) r end
              | inr _ => false
              end
  end.
Theorem quoted_run_verbatim cl : forall w s i s', truthy (cur s) = true -> qc s <> [] -> inside cl s i w = true ->
  run cl s i w = inl s' -> ttext (cur s') = ttext (cur s) ++ w /\ out s' = out s.
Proof.
  induction w as [|c r IH]; intros s i s' Ht Hq Hin Hr; cbn [run inside] in *.
  - inversion Hr; subst. rewrite app_nil_r. auto.
  - destruct (step cl s i c) as [s1|e] eqn:Es; [|discriminate].
    destruct (qc s1) as [|q1 r1] eqn:Eq1; [discriminate|].
    destruct (quoted_step_verbatim cl s i c s1 Hq Es) as [[A1 A2]|[(_ & _ & Hc & _)|(Hf & _)]].
    + assert (Ht1 : truthy (cur s1) = true) by (unfold truthy; rewrite A1; destruct (ttext (cur s)); reflexivity).
      assert (Hq1 : qc s1 <> []) by (rewrite Eq1; discriminate).
      destruct (IH s1 (S i) s' Ht1 Hq1 Hin Hr) as [B1 B2]. split; [rewrite B1, A1, <- app_assoc; reflexivity | rewrite B2; exact A2].
    + rewrite Eq1 in Hc. discriminate.
    + rewrite Ht in Hf. discriminate.
Qed.
