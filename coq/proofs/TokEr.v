(* ===== TokEr.v ===== *)
From Coq Require Import List NArith Bool Arith Lia.
Import ListNotations.
Require Import Tok.
Open Scope N_scope.

Definition er_tok (t : token) := (ttext t, tkind t).
Definition er_state (s : tstate) := (qc s, take s, er_tok (cur s), map er_tok (out s)).
Definition er_res (r : tstate + terr) := match r with inl s => inl (er_state s) | inr e => inr e end.

Lemma truthy_er t t' : er_tok t = er_tok t' -> truthy t = truthy t'.
Proof. unfold er_tok, truthy. intros [= -> _]. reflexivity. Qed.
Lemma kind_is_er t t' k : er_tok t = er_tok t' -> kind_is t k = kind_is t' k.
Proof. unfold er_tok, kind_is. intros [= _ ->]. reflexivity. Qed.
Lemma tkind_er t t' : er_tok t = er_tok t' -> tkind t = tkind t'.
Proof. unfold er_tok. congruence. Qed.
Lemma update_er t t' c i j k : er_tok t = er_tok t' -> er_tok (update t c i k) = er_tok (update t' c j k).
Proof. unfold er_tok, update. cbn. intros [= -> ->]. reflexivity. Qed.

Ltac go cu cu' Hc :=
  repeat (cbn [qc take cur out fresh ttext tkind truthy kind_is yield_cur set_qc set_cur set_take emit] in *;
          try rewrite !(truthy_er cu cu' Hc) in *;
          try rewrite !(kind_is_er cu cu' _ Hc) in *;
          try rewrite !(tkind_er cu cu' Hc) in *;
          match goal with
          | |- context [if ?b then _ else _] => destruct b eqn:?
          | |- context [match tkind ?t with _ => _ end] => destruct (tkind t) as [[]|] eqn:?
          | |- context [match ?qr with [] => _ | _ :: _ => _ end] => is_var qr; destruct qr
          end).

Lemma step_er4 cl s s' i j c : qc s = qc s' -> take s = take s' -> er_tok (cur s) = er_tok (cur s') ->
  map er_tok (out s) = map er_tok (out s') -> er_res (step cl s i c) = er_res (step cl s' j c).
Proof.
  destruct s as [q t cu o], s' as [q' t' cu' o']. cbn [qc take cur out].
  intros -> -> Hc Ho.
  unfold step. cbn [qc take cur out].
  destruct t' as [|n].
  2:{ cbn. unfold er_state. cbn. rewrite (update_er cu cu' c i j None Hc), Ho. reflexivity. }
  destruct q' as [|qh qr]; unfold yield_cur, set_qc, set_cur, set_take, emit; go cu cu' Hc;
  cbn [er_res]; unfold er_state; cbn [qc take cur out map]; try congruence;
  rewrite ?Ho, ?Hc, ?(update_er cu cu' c i j _ Hc); try reflexivity;
  try (rewrite (update_er fresh fresh c i j _ eq_refl); reflexivity).
  all: cbn in *; try rewrite !(truthy_er cu cu' Hc) in *; try rewrite !(kind_is_er cu cu' _ Hc) in *; congruence.
Qed.

Lemma er_state_inv s s' : er_state s = er_state s' ->
  qc s = qc s' /\ take s = take s' /\ er_tok (cur s) = er_tok (cur s') /\ map er_tok (out s) = map er_tok (out s').
Proof. unfold er_state. intros H. repeat split; congruence. Qed.
Lemma step_er cl s s' i j c : er_state s = er_state s' -> er_res (step cl s i c) = er_res (step cl s' j c).
Proof. intros H. apply er_state_inv in H as (H1 & H2 & H3 & H4). apply step_er4; assumption. Qed.
Print Assumptions step_er.
