(* ===== TokSpans.v : recorded source spans are ordered and non-overlapping (C15) ===== *)
From Coq Require Import List NArith ZArith Bool Arith Lia.
Import ListNotations.
Require Import Tok.
Open Scope N_scope.

(* [chain o hi]: o is the reversed output; its newest token ends before hi and everything older ends before it starts *)
Fixpoint chain (o : list token) (hi : nat) : Prop :=
  match o with
  | [] => True
  | t :: r => exists a b, tstart t = Some a /\ tend t = Some b /\ (a <= b)%nat /\ (b < hi)%nat /\ chain r a
  end.
Lemma chain_weaken o : forall h h', (h <= h')%nat -> chain o h -> chain o h'.
Proof. destruct o as [|t r]; cbn; auto. intros h h' Hle (a & b & Ha & Hb & H1 & H2 & H3). exists a, b. repeat split; auto; lia. Qed.

Definition cur_ok (t : token) (o : list token) (i : nat) : Prop :=
  match tstart t with
  | None => ttext t = [] /\ chain o i
  | Some a => exists b, tend t = Some b /\ (a <= b)%nat /\ (b < i)%nat /\ chain o a
  end.
Definition Inv (s : tstate) (i : nat) : Prop := cur_ok (cur s) (out s) i.

Lemma inv_init : Inv init 0.
Proof. unfold Inv, cur_ok; cbn. auto. Qed.

Lemma cur_ok_fresh o i : chain o i -> cur_ok fresh o i.
Proof. unfold cur_ok; cbn; auto. Qed.

Lemma cur_ok_update t o i c k : cur_ok t o i -> cur_ok (update t c i k) o (S i).
Proof.
  unfold cur_ok, update. cbn [tstart tend ttext]. destruct (tstart t) as [a|].
  - intros (b & Hb & H1 & H2 & H3). exists i. repeat split; auto; lia.
  - intros [_ H]. exists i. repeat split; auto.
Qed.

Lemma cur_ok_fresh_k o i k : chain o i -> cur_ok (fresh_k k i) o (S i).
Proof. intro H. unfold cur_ok, fresh_k; cbn. exists i. repeat split; auto. Qed.

Lemma chain_of_cur t o i : cur_ok t o i -> truthy t = true -> chain (t :: o) i.
Proof.
  unfold cur_ok, truthy. destruct (tstart t) as [a|] eqn:E.
  - intros (b & Hb & H1 & H2 & H3) _. cbn. exists a, b. repeat split; auto.
  - intros [Ht _]. rewrite Ht. discriminate.
Qed.
Lemma chain_out_of_cur t o i : cur_ok t o i -> chain o i.
Proof.
  unfold cur_ok. destruct (tstart t) as [a|].
  - intros (b & Hb & H1 & H2 & H3). eapply chain_weaken; [|exact H3]. lia.
  - intros [_ H]; exact H.
Qed.

Lemma inv_yield s i : Inv s i -> Inv (yield_cur s) i /\ chain (out (yield_cur s)) i.
Proof.
  unfold Inv, yield_cur. intro H. destruct (truthy (cur s)) eqn:E; cbn [cur out].
  - pose proof (chain_of_cur _ _ _ H E) as Hc. split; [apply cur_ok_fresh|]; exact Hc.
  - split; [exact H | eapply chain_out_of_cur; exact H].
Qed.

Lemma chain_step o i : chain o i -> chain o (S i).
Proof. apply chain_weaken; lia. Qed.
Lemma cur_ok_step t o i : cur_ok t o i -> cur_ok t o (S i).
Proof.
  unfold cur_ok. destruct (tstart t).
  - intros (b & Hb & H1 & H2 & H3). exists b. repeat split; auto.
  - intros [H1 H2]. split; auto. apply chain_step; auto.
Qed.

Lemma chain_emit o i c k : chain o i -> chain (update fresh c i k :: o) (S i).
Proof. intro H. cbn. exists i, i. repeat split; auto. Qed.

Lemma cur_ok_cond (b : bool) s i : cur_ok (cur s) (out s) i ->
  cur_ok (cur (if b then yield_cur s else s)) (out (if b then yield_cur s else s)) i.
Proof. intro H. destruct b; auto. apply (inv_yield s i H). Qed.

(* [LF s]: outside quote contexts the current token has a recorded start only if it has text.  It fails exactly after an
   EMPTY top-level quoted region (two adjacent backticks, an empty pair of braces, two adjacent percent signs), which
   leaves a kind-only token behind that keeps its old start: the recorded finding for C15. *)
Definition LF (s : tstate) : Prop := qc s = [] -> truthy (cur s) = false -> tstart (cur s) = None.

Lemma cur_ok_falsy_emit t o i c k : tstart t = None -> cur_ok t o i -> cur_ok t (update fresh c i k :: o) (S i).
Proof. unfold cur_ok. intros ->. intros [H1 H2]. split; auto. apply chain_emit; auto. Qed.

(* one character preserves the invariant *)
Lemma step_inv cl s i c s' : LF s -> Inv s i -> step cl s i c = inl s' -> Inv s' (S i).
Proof.
  intros HLF HI. unfold LF in HLF. unfold step.
  destruct (take s) as [|n] eqn:Et.
  2:{ intro H; inversion H; subst. unfold Inv, set_take, set_cur; cbn [cur out]. apply cur_ok_update. exact HI. }
  destruct (qc s) as [|q qrest] eqn:Eq.
  - (* top level *)
    destruct (inv_yield s i HI) as [HY HYc].
    repeat match goal with
    | |- (if ?b then _ else _) = _ -> _ => destruct b eqn:?
    | |- (match tkind ?t with _ => _ end) = _ -> _ => destruct (tkind t) as [[]|] eqn:?
    | |- (let _ := _ in _) = _ -> _ => cbv zeta
    end;
    intro H; inversion H; subst; clear H; unfold Inv, set_qc, set_cur, emit in *; cbn [cur out qc take] in *;
    try (apply cur_ok_fresh_k; assumption);
    try (apply cur_ok_update; assumption);
    try (apply cur_ok_step; assumption);
    try (apply cur_ok_fresh; apply chain_emit; assumption);
    try (apply cur_ok_fresh; apply chain_emit; eapply chain_out_of_cur; eassumption).
    all: try (apply cur_ok_update; apply cur_ok_cond; assumption).
    all: try (apply cur_ok_falsy_emit; [apply HLF; (assumption || reflexivity) | assumption]).
    all: try (match goal with |- cur_ok (cur (yield_cur _)) (update fresh _ _ _ :: out (yield_cur _)) _ =>
                unfold yield_cur; destruct (truthy (cur s)) eqn:?; cbn [cur out]; [apply cur_ok_fresh; apply chain_emit; eapply chain_of_cur; eassumption | discriminate || idtac] end).
    all: try (apply cur_ok_falsy_emit; [apply HLF; (assumption || reflexivity) | assumption]).
  - (* inside a quote context *)
    repeat match goal with
    | |- (if ?b then _ else _) = _ -> _ => destruct b eqn:?
    | |- (match ?l with [] => _ | _ :: _ => _ end) = _ -> _ => destruct l eqn:?
    | |- (let _ := _ in _) = _ -> _ => cbv zeta
    end;
    intro H; inversion H; subst; clear H; unfold Inv, set_qc, set_cur, set_take in *; cbn [cur out qc take] in *;
    try (apply cur_ok_update; assumption);
    try (apply cur_ok_step; assumption);
    try (apply cur_ok_fresh; apply chain_step; eapply chain_of_cur; eassumption);
    try (apply cur_ok_fresh; apply chain_step; eapply chain_out_of_cur; eassumption).
Qed.


(* ---------- lifted to whole runs ---------- *)
Definition LFb (s : tstate) : bool :=
  match qc s with
  | [] => truthy (cur s) || match tstart (cur s) with None => true | Some _ => false end
  | _ => true
  end.
Lemma LFb_LF s : LFb s = true -> LF s.
Proof.
  unfold LFb, LF. intros H Hq Ht. rewrite Hq, Ht in H. cbn in H. destruct (tstart (cur s)); [discriminate | reflexivity].
Qed.
(* every state the tokenizer passes through is leftover-free: an invariant of the machine (an empty quoted region at top level now resets the
   current token; before that repair of /repo this was a side condition on the input) *)
Lemma truthy_update t c i k : truthy (update t c i k) = true.
Proof. unfold truthy, update. cbn [ttext]. destruct (ttext t); reflexivity. Qed.
Lemma LFb_truthy q tk t o : truthy t = true -> LFb {| qc := q; take := tk; cur := t; out := o |} = true.
Proof. intro H. unfold LFb. cbn [qc cur]. destruct q; [rewrite H|]; reflexivity. Qed.
Lemma LFb_fresh q tk o : LFb {| qc := q; take := tk; cur := fresh; out := o |} = true.
Proof. unfold LFb. cbn [qc cur]. destruct q; reflexivity. Qed.
Lemma LFb_quoted c q tk t o : LFb {| qc := c :: q; take := tk; cur := t; out := o |} = true.
Proof. reflexivity. Qed.
Lemma LFb_yield s : qc s = [] -> LFb s = true -> LFb (yield_cur s) = true.
Proof. intros Hq H. unfold yield_cur. destruct (truthy (cur s)); [unfold LFb; cbn [qc cur]; rewrite Hq; reflexivity | exact H]. Qed.
Lemma LFb_top_falsy s o : qc s = [] -> take s = 0%nat -> LFb s = true -> truthy (cur s) = false -> LFb {| qc := []; take := 0; cur := cur s; out := o |} = true.
Proof. intros Hq Ht H Hf. unfold LFb in *. rewrite Hq, Hf in H. cbn [qc cur] in *. rewrite Hf. exact H. Qed.

Lemma step_LFb cl s i c s' : LFb s = true -> step cl s i c = inl s' -> LFb s' = true.
Proof.
  intros HL. unfold step.
  destruct (take s) as [|n] eqn:Et.
  2:{ intro H; inversion H; subst. unfold set_take, set_cur. apply LFb_truthy, truthy_update. }
  destruct (qc s) as [|q qrest] eqn:Eq.
  - pose proof (LFb_yield s Eq HL) as HY.
    assert (Yq : qc (yield_cur s) = []) by (unfold yield_cur; destruct (truthy (cur s)); cbn [qc]; exact Eq).
    assert (Yt : take (yield_cur s) = 0%nat) by (unfold yield_cur; destruct (truthy (cur s)); cbn [take]; exact Et).
    repeat match goal with
    | |- (if ?b then _ else _) = _ -> _ => destruct b eqn:?
    | |- (match tkind ?t with _ => _ end) = _ -> _ => destruct (tkind t) as [[]|] eqn:?
    | |- (let _ := _ in _) = _ -> _ => cbv zeta
    end;
    intro H; inversion H; subst; clear H; unfold set_qc, set_cur, emit in *; cbn [cur out qc take] in *;
    try (apply LFb_quoted);
    try (apply LFb_truthy, truthy_update);
    try exact HL; try exact HY.
    all: try (unfold LFb in *; cbn [qc cur] in *; rewrite ?Eq, ?Yq in *; assumption).
  - repeat match goal with
    | |- (if ?b then _ else _) = _ -> _ => destruct b eqn:?
    | |- (match ?l with [] => _ | _ :: _ => _ end) = _ -> _ => destruct l eqn:?
    | |- (let _ := _ in _) = _ -> _ => cbv zeta
    end;
    intro H; inversion H; subst; clear H; unfold set_qc, set_cur, set_take in *; cbn [cur out qc take] in *;
    try (apply LFb_truthy, truthy_update);
    try (apply LFb_fresh);
    try (apply LFb_quoted).
Qed.
Lemma run_LFb_all cl l : forall s i s', LFb s = true -> run cl s i l = inl s' -> LFb s' = true.
Proof.
  induction l as [|c r IH]; intros s i s' HL Hr; cbn [run] in Hr; [inversion Hr; subst; exact HL|].
  destruct (step cl s i c) as [s1|e] eqn:Es; [|discriminate]. apply (IH s1 (S i) s' (step_LFb cl s i c s1 HL Es) Hr).
Qed.

Lemma run_inv cl l : forall s i s', LFb s = true -> Inv s i -> run cl s i l = inl s' -> Inv s' (i + length l)%nat.
Proof.
  induction l as [|c r IH]; intros s i s' HL HI Hr; cbn [run length] in *.
  - inversion Hr; subst. rewrite Nat.add_0_r. exact HI.
  - destruct (step cl s i c) as [s1|e] eqn:Es; [|discriminate].
    replace (i + S (length r))%nat with (S i + length r)%nat by lia.
    apply (IH s1 (S i) s' (step_LFb cl s i c s1 HL Es)); [|exact Hr]. eapply step_inv; eauto. apply LFb_LF; exact HL.
Qed.

(* the token list in source order: every span is well-formed, inside the string, and strictly after the previous one *)
Definition spans_ordered (ts : list token) (n : nat) : Prop := chain (rev ts) n.

Theorem tokenize_spans_ordered cl l ts : tokenize cl l = inl ts -> spans_ordered ts (length l).
Proof.
  unfold tokenize, spans_ordered.
  destruct (run cl init 0 l) as [s|e] eqn:Er; [|discriminate].
  pose proof (run_inv cl l init 0 s eq_refl inv_init Er) as HI. cbn [Nat.add] in HI.
  destruct (qc s); [|discriminate]. intro H; inversion H; subst; clear H. rewrite rev_involutive.
  destruct (truthy (cur s)) eqn:Et.
  - eapply chain_of_cur; eauto.
  - eapply chain_out_of_cur; eauto.
Qed.

(* readable consequences of [chain] *)
Fixpoint ordered_b (prev_end : option nat) (ts : list token) (n : nat) : bool :=
  match ts with
  | [] => true
  | t :: r => match tstart t, tend t with
              | Some a, Some b => (a <=? b)%nat && (b <? n)%nat && match prev_end with None => true | Some p => (p <? a)%nat end && ordered_b (Some b) r n
              | _, _ => false
              end
  end.
Lemma ordered_b_app ts : forall p t n a b, tstart t = Some a -> tend t = Some b -> (a <= b)%nat -> (b < n)%nat ->
  ordered_b p ts a = true ->
  match (match rev ts with [] => p | u :: _ => tend u end) with None => True | Some e => (e < a)%nat end ->
  ordered_b p (ts ++ [t]) n = true.
Proof.
  induction ts as [|u r IH]; intros p t n a b Ha Hb Hab Hbn Ho Hlast; cbn [app ordered_b] in *.
  - rewrite Ha, Hb. apply andb_true_iff; split; [|reflexivity]. apply andb_true_iff; split.
    + apply andb_true_iff; split; [apply Nat.leb_le | apply Nat.ltb_lt]; auto.
    + destruct p; auto. apply Nat.ltb_lt. exact Hlast.
  - destruct (tstart u) as [a'|]; [|discriminate]. destruct (tend u) as [b'|] eqn:Eu; [|discriminate].
    apply andb_true_iff in Ho as [Ho1 Ho2]. apply andb_true_iff in Ho1 as [Ho1 Ho3]. apply andb_true_iff in Ho1 as [Ho0 Ho1].
    apply Nat.ltb_lt in Ho1. rewrite Ho0, Ho3. cbn [andb].
    replace (b' <? n)%nat with true by (symmetry; apply Nat.ltb_lt; lia). cbn [andb].
    eapply IH; eauto.
    cbn [rev] in Hlast. destruct (rev r) as [|w rr] eqn:Er; cbn [app] in Hlast; [rewrite Eu in Hlast|]; exact Hlast.
Qed.
(* the readable, executable form: starts and ends increase strictly along the token list *)
Theorem chain_ordered_b ts : forall n, chain (rev ts) n -> ordered_b None ts n = true.
Proof.
  induction ts as [|t r IH] using rev_ind; intros n H; [reflexivity|].
  rewrite rev_app_distr in H. cbn in H. destruct H as (a & b & Ha & Hb & Hab & Hbn & Hc).
  eapply ordered_b_app; eauto.
  destruct (rev r) as [|u rr] eqn:Er; [exact I|].
  cbn in Hc. destruct Hc as (a' & b' & _ & Hb' & _ & Hlt & _). rewrite Hb'. exact Hlt.
Qed.
