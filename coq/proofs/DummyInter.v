(* ===== DummyInter.v : the reference-level column of a factor INSIDE an interaction (C03) ===== *)
From Coq Require Import List NArith ZArith QArith Qcanon Bool Arith Lia.
Import ListNotations.
Require Import Mat DummySpan.

Lemma qsum_scale (y : Qc) l : (qsum (map (fun c => c * y) l) = qsum l * y)%Qc.
Proof. induction l as [|c r IH]; cbn [map qsum fold_right]; [unfold q0; ring|]. fold (qsum (map (fun c => (c * y)%Qc) r)) (qsum r). rewrite IH. ring. Qed.

(* for ANY cofactor cell y (the product of the cells of the term's other factors in that row): the column "reference level of A times
   cofactor" is the cofactor column minus the columns "other levels of A times cofactor" -- the inductive step of the span argument:
   A(full):rest and {rest, A(reduced):rest} are expressible in one another, whatever `rest` is *)
Theorem reference_dummy_in_interaction ref others s (y : Qc) : NoDup (ref :: others) -> In s (ref :: others) ->
  (ind_cell (Some s) ref * y = y - qsum (map (fun lv => ind_cell (Some s) lv * y) others))%Qc.
Proof.
  intros Hnd Hin. rewrite (reference_dummy_is_rest ref others s Hnd Hin).
  replace (map (fun lv => (ind_cell (Some s) lv * y)%Qc) others) with (map (fun c => (c * y)%Qc) (map (ind_cell (Some s)) others)) by (rewrite map_map; reflexivity).
  rewrite qsum_scale. unfold q1. ring.
Qed.
(* and the cofactor itself is the sum over ALL levels of A of "level times cofactor": the full coding inside an interaction spans the cofactor *)
Theorem full_dummies_in_interaction lvs s (y : Qc) : NoDup lvs -> In s lvs ->
  (qsum (map (fun lv => ind_cell (Some s) lv * y) lvs) = y)%Qc.
Proof.
  intros Hnd Hin.
  replace (map (fun lv => (ind_cell (Some s) lv * y)%Qc) lvs) with (map (fun c => (c * y)%Qc) (map (ind_cell (Some s)) lvs)) by (rewrite map_map; reflexivity).
  rewrite qsum_scale, (row_count_one s lvs Hnd Hin). unfold q1. ring.
Qed.
