(* ===== MatLoop.v : the rank-reduction LOOP of the materializer (_get_scoped_terms with its `spanned` set), C03 =====
   Over all terms of a formula: every component of every term's span is emitted exactly once, and nothing else is emitted. *)
From Coq Require Import List NArith ZArith QArith Qcanon Bool Arith Lia Permutation.
Import ListNotations.
Require Import Scope ScopeP1 ScopeP2 ScopeP3 Mat MatScope MatSep.
Open Scope nat_scope.

Section Loop.
Variable evs : list (str * ev).
(* numeric-ness of a factor expression as evaluated *)
Definition isnum_of (e : str) : bool := match lookup_ev evs e with Some (EvNum _) => true | _ => false end.
Notation canonE := (canon isnum_of).
Notation cnt c ts := (count isnum_of c (map st_f ts)).

(* the materializer's st_eqb is Scope's on the factor sets *)
Lemma mat_st_eqb a b : Mat.st_eqb a b = Scope.st_eqb (st_f a) (st_f b).
Proof. reflexivity. Qed.
Lemma st_eqb_sym a b : Scope.st_eqb a b = Scope.st_eqb b a.
Proof. unfold Scope.st_eqb. apply andb_comm. Qed.
Lemma mem_st_true s ts : Mat.mem_st s ts = true <-> exists u, In u ts /\ Scope.st_eqb (st_f s) (st_f u) = true.
Proof. unfold Mat.mem_st. rewrite existsb_exists. split; intros (u & Hu & He); exists u; split; auto. Qed.
Lemma mem_st_false s ts : Mat.mem_st s ts = false <-> forall u, In u ts -> Scope.st_eqb (st_f s) (st_f u) = false.
Proof.
  split.
  - intros H u Hu. destruct (Scope.st_eqb (st_f s) (st_f u)) eqn:E; [|reflexivity].
    assert (Mat.mem_st s ts = true) by (apply mem_st_true; exists u; auto). congruence.
  - intros H. destruct (Mat.mem_st s ts) eqn:E; [|reflexivity]. apply mem_st_true in E as (u & Hu & He). rewrite (H u Hu) in He. discriminate.
Qed.

(* pairwise distinct as factor sets *)
Inductive distinct : list Mat.sterm -> Prop :=
| d_nil : distinct []
| d_snoc l s : distinct l -> Mat.mem_st s l = false -> distinct (l ++ [s]).
Lemma distinct_add l s : distinct l -> distinct (Mat.add_term l s).
Proof. intros H. unfold Mat.add_term. destruct (Mat.mem_st s l) eqn:E; [exact H | constructor; assumption]. Qed.
Lemma distinct_fold all : forall acc, distinct acc -> distinct (fold_left Mat.add_term all acc).
Proof. induction all as [|s all IH]; intros acc H; cbn [fold_left]; [exact H | apply IH, distinct_add, H]. Qed.
Lemma mem_st_app s a b : Mat.mem_st s (a ++ b) = Mat.mem_st s a || Mat.mem_st s b.
Proof. unfold Mat.mem_st. apply existsb_app. Qed.
Lemma distinct_app_filter spanned : forall span, distinct spanned -> distinct span ->
  distinct (spanned ++ filter (fun s => negb (Mat.mem_st s spanned)) span).
Proof.
  intros span Hs Hd. induction Hd as [|l s Hl IH Hm]; cbn [filter]; [rewrite app_nil_r; exact Hs|].
  rewrite filter_app. cbn [filter]. destruct (Mat.mem_st s spanned) eqn:E; cbn [negb].
  - rewrite app_nil_r. exact IH.
  - rewrite app_assoc. constructor; [exact IH|]. rewrite mem_st_app, E. cbn [orb].
    apply mem_st_false. intros u Hu. apply filter_In in Hu as [Hu _]. apply (proj1 (mem_st_false s l) Hm u Hu).
Qed.
Lemma distinct_filter p l : distinct l -> distinct (filter p l).
Proof.
  induction 1 as [|l s Hl IH Hm]; [constructor|]. rewrite filter_app. cbn [filter]. destruct (p s); [|rewrite app_nil_r; exact IH].
  constructor; [exact IH|]. apply mem_st_false. intros u Hu. apply filter_In in Hu as [Hu _]. apply (proj1 (mem_st_false s l) Hm u Hu).
Qed.

(* canonical + distinct => every component is covered at most once *)
Lemma count_app c a b : cnt c (a ++ b) = cnt c a + cnt c b.
Proof. rewrite map_app. apply ScopeP1.count_app. Qed.
Lemma distinct_count_le1 l : distinct l -> (forall s, In s l -> canonE (st_f s)) -> forall c, cnt c l <= 1.
Proof.
  induction 1 as [|l s Hl IH Hm]; intros Hc c; [cbn; lia|].
  rewrite count_app. cbn [map]. rewrite ScopeP1.count_one.
  assert (IH' : cnt c l <= 1) by (apply IH; intros u Hu; apply Hc, in_or_app; left; exact Hu).
  destruct (covers isnum_of (st_f s) c) eqn:Ecov; cbn [b2n]; [|lia].
  (* nothing in l covers c, else it would equal s *)
  assert (Hz : cnt c l = 0).
  { unfold count. destruct (filter (fun t => covers isnum_of t c) (map st_f l)) as [|t r] eqn:Ef; [reflexivity|]. exfalso.
    assert (Hin : In t (filter (fun t => covers isnum_of t c) (map st_f l))) by (rewrite Ef; left; reflexivity).
    apply filter_In in Hin as [Hin Hcov]. apply in_map_iff in Hin as (u & <- & Hu).
    pose proof (proj1 (mem_st_false s l) Hm u Hu) as Hne.
    rewrite (canon_same_component isnum_of (st_f s) (st_f u) c) in Hne; [discriminate| | |exact Ecov|exact Hcov].
    - apply Hc, in_or_app. right. left. reflexivity.
    - apply Hc, in_or_app. left. exact Hu. }
  lia.
Qed.

(* ---- what spanned_by produces ---- *)
Definition good_evf (evf : list (factor * ev)) := (forall fe, In fe evf -> lookup_ev evs (fx (fst fe)) = Some (snd fe)) /\ NoDup (map (fun fe => fx (fst fe)) evf).

Lemma dedup_nodup_ids l : forall seen, NoDup (map Scope.fid l) -> NoDup (map Scope.fid (dedup_sf l seen)).
Proof.
  induction l as [|x r IH]; intros seen H; cbn [dedup_sf map]; [constructor|].
  inversion H as [|? ? Hx Hr]; subst. destruct (Mat.mem_sf x seen); [apply IH, Hr|].
  cbn [map]. constructor; [|apply IH, Hr]. intros Hin. apply Hx. apply in_map_iff in Hin as (g & Hg & Hgin).
  apply in_map_iff. exists g. split; [exact Hg | apply (dedup_sub _ _ _ Hgin)].
Qed.
Lemma somes_sub_ids (p : list (option Mat.sfac)) ids :
  Forall2 (fun o i => match o with Some sf => Scope.fid sf = i | None => True end) p ids -> NoDup ids -> NoDup (map Scope.fid (somes p)).
Proof.
  intros HF. induction HF as [|o i p ids Ho HF IH]; intros Hn; cbn [somes map]; [constructor|].
  inversion Hn as [|? ? Hi Hr]; subst. destruct o as [sf|]; [|apply IH, Hr].
  cbn [map]. constructor; [|apply IH, Hr]. rewrite Ho. intros Hin. apply Hi.
  clear - HF Hin. induction HF as [|o j p ids Ho HF IH]; cbn [somes map] in Hin; [destruct Hin|].
  destruct o as [sf|]; [destruct Hin as [<-|Hin]; [left; symmetry; exact Ho | right; apply IH, Hin] | right; apply IH, Hin].
Qed.

Definition opts_of (evf : list (factor * ev)) : list (list (option Mat.sfac)) :=
  flat_map (fun fe => match snd fe with
                      | EvConst _ => []
                      | EvCat _ _ => [[Some (fx (fst fe), true); None]]
                      | EvNum _ => [[Some (fx (fst fe), false)]]
                      end) evf.
Definition ids_of (evf : list (factor * ev)) : list str :=
  flat_map (fun fe => match snd fe with EvConst _ => [] | _ => [fx (fst fe)] end) evf.
Lemma prod_opts_shape evf : forall p, In p (prod_opts (opts_of evf)) ->
  Forall2 (fun o i => match o with Some sf => Scope.fid sf = i | None => True end) p (ids_of evf).
Proof.
  induction evf as [|fe evf IH]; intros p Hp; cbn [opts_of ids_of flat_map] in *.
  - cbn in Hp. destruct Hp as [<-|[]]. constructor.
  - fold (opts_of evf) in *. fold (ids_of evf) in *. destruct (snd fe) eqn:E; cbn [app] in *.
    + apply IH, Hp.
    + cbn [prod_opts] in Hp. apply in_flat_map in Hp as (x & Hx & Hp). apply in_map_iff in Hp as (q & <- & Hq).
      destruct Hx as [<-|[]]. constructor; [reflexivity | apply IH, Hq].
    + cbn [prod_opts] in Hp. apply in_flat_map in Hp as (x & Hx & Hp). apply in_map_iff in Hp as (q & <- & Hq).
      destruct Hx as [<-|[<-|[]]]; constructor; try reflexivity; apply IH, Hq.
Qed.
Lemma ids_of_nodup evf : NoDup (map (fun fe => fx (fst fe)) evf) -> NoDup (ids_of evf).
Proof.
  induction evf as [|fe evf IH]; intros H; cbn [ids_of flat_map map] in *; [constructor|].
  inversion H as [|? ? Hx Hr]; subst. fold (ids_of evf). destruct (snd fe); cbn [app]; [apply IH, Hr| |];
    (constructor; [|apply IH, Hr]; intros Hin; apply Hx; unfold ids_of in Hin; apply in_flat_map in Hin as (g & Hg & Hin);
     apply in_map_iff; exists g; split; [|exact Hg]; destruct (snd g); cbn in Hin; [destruct Hin | destruct Hin as [->|[]]; reflexivity | destruct Hin as [->|[]]; reflexivity]).
Qed.

Lemma spanned_by_elems evf s : good_evf evf -> In s (spanned_by evf) ->
  canonE (st_f s) /\ ScopeP1.wf isnum_of (st_f s).
Proof.
  intros [Hlook Hnd] Hs. unfold spanned_by in Hs.
  (* membership in the add_term fold comes from the mapped list *)
  assert (Hsrc : forall all acc x, In x (fold_left Mat.add_term all acc) -> In x acc \/ In x all).
  { induction all as [|a all IH]; intros acc x Hx; cbn [fold_left] in Hx; [left; exact Hx|].
    destruct (IH _ _ Hx) as [H|H]; [|right; right; exact H]. unfold Mat.add_term in H.
    destruct (Mat.mem_st a acc); [left; exact H|]. apply in_app_or in H as [H|[<-|[]]]; [left; exact H | right; left; reflexivity]. }
  destruct (Hsrc _ _ _ Hs) as [[]|Hin]. apply in_map_iff in Hin as (p & <- & Hp). fold (opts_of evf) in Hp. cbn [mk_st st_f].
  assert (Hsomes : forall sf, In sf (somes p) -> exists fe, In fe evf /\ Scope.fid sf = fx (fst fe) /\
                     match snd fe with EvCat _ _ => snd sf = true | EvNum _ => snd sf = false | EvConst _ => False end).
  { intros sf Hsf. apply somes_in in Hsf. destruct (prod_opts_in _ _ _ Hp Hsf) as (l & Hl & Hin).
    unfold opts_of in Hl. apply in_flat_map in Hl as (fe & Hfe & Hl). exists fe. split; [exact Hfe|].
    destruct (snd fe); cbn in Hl; [destruct Hl| |]; destruct Hl as [<-|[]].
    - destruct Hin as [Heq|[]]. injection Heq as <-. split; reflexivity.
    - destruct Hin as [Heq|[Heq|[]]]; [injection Heq as <-; split; reflexivity | discriminate]. }
  assert (Hcan : canonE (dedup_sf (somes p) [])).
  { intros sf Hsf. apply dedup_sub in Hsf. destruct (Hsomes sf Hsf) as (fe & Hfe & Hid & Hk).
    unfold isnum_of. unfold Scope.fid in Hid. rewrite Hid, (Hlook fe Hfe). destruct (snd fe); [destruct Hk | rewrite Hk; reflexivity | rewrite Hk; reflexivity]. }
  split; [exact Hcan|]. split.
  - apply dedup_nodup_ids. apply (somes_sub_ids p (ids_of evf)); [apply prod_opts_shape, Hp | apply ids_of_nodup, Hnd].
  - intros f Hf Hr. pose proof (Hcan f Hf) as Hc. unfold Scope.fred in Hr. rewrite Hr in Hc. unfold Scope.fid.
    destruct (isnum_of (fst f)); [discriminate | reflexivity].
Qed.
Lemma spanned_by_distinct evf : distinct (spanned_by evf).
Proof. unfold spanned_by. apply distinct_fold. constructor. Qed.

(* ---- the loop ---- *)
Fixpoint sum_cnt c (done : list (list Mat.sterm)) : nat := match done with [] => 0 | sts :: r => cnt c sts + sum_cnt c r end.
Lemma sum_cnt_app c a b : sum_cnt c (a ++ b) = sum_cnt c a + sum_cnt c b.
Proof. induction a as [|x a IH]; cbn [app sum_cnt]; [reflexivity | rewrite IH; lia]. Qed.

Definition term_ok (t : term) := NoDup (map fx t).
Lemma evf_good t : term_ok t -> good_evf (evf_of evs t).
Proof.
  intros Hn. split; [intros fe Hfe; apply (evf_of_in evs t fe Hfe)|].
  unfold evf_of. unfold term_ok in Hn. induction t as [|f t IH]; cbn [flat_map map]; [constructor|].
  inversion Hn as [|? ? Hx Hr]; subst. destruct (lookup_ev evs (fx f)) as [v|]; cbn [app map]; [|apply IH, Hr].
  constructor; [|apply IH, Hr]. cbn [fst]. intros Hin. apply Hx. apply in_map_iff in Hin as (fe & Hfe & Hin).
  apply in_flat_map in Hin as (g & Hg & Hin). destruct (lookup_ev evs (fx g)); [|destruct Hin]. destruct Hin as [<-|[]]. cbn in Hfe.
  apply in_map_iff. exists g. split; [exact Hfe | exact Hg].
Qed.

Definition Inv (acc : list (list Mat.sterm) * list Mat.sterm) :=
  distinct (snd acc) /\ (forall s, In s (snd acc) -> canonE (st_f s)) /\ (forall c, sum_cnt c (fst acc) = cnt c (snd acc)).

Lemma step_inv acc t : term_ok t -> Inv acc -> Inv (scope_step true evs acc t).
Proof.
  intros Ht (Hd & Hc & Hsum). destruct acc as [done spanned]. cbn [fst snd] in *. unfold scope_step.
  assert (Hskip : Inv (done ++ [[]], spanned)).
  { repeat split; cbn [fst snd]; auto. intros c. rewrite sum_cnt_app. cbn [sum_cnt map]. rewrite Hsum. unfold count. cbn. lia. }
  destruct (evf_of evs t) as [|fe0 evf'] eqn:Eevf; [exact Hskip|].
  destruct (has_zero (fe0 :: evf')); [exact Hskip|].
  set (evf := fe0 :: evf') in *.
  assert (Hg : good_evf evf) by (subst evf; rewrite <- Eevf; apply evf_good, Ht).
  set (span := filter (fun s => negb (Mat.mem_st s spanned)) (spanned_by evf)).
  assert (Hspan_in : forall s, In s span -> In s (spanned_by evf)) by (intros s Hs; apply filter_In in Hs as [Hs _]; exact Hs).
  assert (Hspan_can : forall s, In s span -> canonE (st_f s)) by (intros s Hs; apply (spanned_by_elems evf s Hg), Hspan_in, Hs).
  assert (Hspan_d : distinct span) by (apply distinct_filter, spanned_by_distinct).
  repeat split; cbn [fst snd].
  - apply distinct_app_filter; [exact Hd | apply spanned_by_distinct].
  - intros s Hs. apply in_app_or in Hs as [Hs|Hs]; [apply Hc, Hs | apply Hspan_can, Hs].
  - intros c. rewrite sum_cnt_app, count_app. cbn [sum_cnt]. rewrite Hsum, Nat.add_0_r. f_equal.
    apply (simplify_span_components isnum_of).
    + apply Forall_forall. intros fs Hfs. apply in_map_iff in Hfs as (s & <- & Hs). apply (spanned_by_elems evf s Hg), Hspan_in, Hs.
    + apply distinct_count_le1; assumption.
Qed.

Theorem loop_invariant terms : Forall term_ok terms -> Inv (fold_left (scope_step true evs) terms ([], [])).
Proof.
  intros Hall. assert (H0 : Inv ([], [])).
  { split; [apply d_nil|]. split; [intros s []|]. intros c. reflexivity. }
  revert H0. generalize (@nil (list Mat.sterm), @nil Mat.sterm). induction Hall as [|t terms Ht Hall IH]; intros acc H0; cbn [fold_left]; [exact H0|].
  apply IH, step_inv; assumption.
Qed.

(* (A) every emitted component is a component of the accumulated span and vice versa, with multiplicity;
   (B) no component is emitted twice *)
Theorem loop_components terms : Forall term_ok terms ->
  let r := fold_left (scope_step true evs) terms ([], []) in
  (forall c, sum_cnt c (fst r) = cnt c (snd r)) /\ (forall c, cnt c (snd r) <= 1).
Proof.
  intros Hall r. destruct (loop_invariant terms Hall) as (Hd & Hc & Hs). split; [exact Hs|].
  apply distinct_count_le1; assumption.
Qed.

(* (C) the accumulated span contains the whole span of every term that is not skipped *)
Lemma mem_st_mono s a b : Mat.mem_st s a = true -> Mat.mem_st s (a ++ b) = true.
Proof. intros H. rewrite mem_st_app, H. reflexivity. Qed.
Lemma step_spanned_mono acc t s : Mat.mem_st s (snd acc) = true -> Mat.mem_st s (snd (scope_step true evs acc t)) = true.
Proof.
  destruct acc as [done spanned]. cbn [snd]. intros H. unfold scope_step.
  destruct (evf_of evs t); [exact H|]. destruct (has_zero _); [exact H|]. cbn [snd]. apply mem_st_mono, H.
Qed.
Lemma fold_spanned_mono terms : forall acc s, Mat.mem_st s (snd acc) = true -> Mat.mem_st s (snd (fold_left (scope_step true evs) terms acc)) = true.
Proof. induction terms as [|t terms IH]; intros acc s H; cbn [fold_left]; [exact H | apply IH, step_spanned_mono, H]. Qed.
Lemma mem_st_self s l : In s l -> Mat.mem_st s l = true.
Proof. intros H. apply mem_st_true. exists s. split; [exact H|]. apply Scope.st_eqb_spec. intros x. tauto. Qed.
Theorem loop_cover terms t s : In t terms -> evf_of evs t <> [] -> has_zero (evf_of evs t) = false -> In s (spanned_by (evf_of evs t)) ->
  Mat.mem_st s (snd (fold_left (scope_step true evs) terms ([], []))) = true.
Proof.
  generalize (@nil (list Mat.sterm), @nil Mat.sterm).
  induction terms as [|t' terms IH]; intros acc Ht Hne Hz Hs; [destruct Ht|]. cbn [fold_left].
  destruct Ht as [->|Ht]; [|apply IH; assumption].
  apply fold_spanned_mono. destruct acc as [done spanned]. unfold scope_step.
  destruct (evf_of evs t) as [|fe0 evf'] eqn:E; [contradiction|]. rewrite Hz. cbn [snd].
  rewrite mem_st_app. destruct (Mat.mem_st s spanned) eqn:Em; [reflexivity|]. cbn [orb].
  apply mem_st_self. apply filter_In. split; [exact Hs | rewrite Em; reflexivity].
Qed.
End Loop.
