(* ===== MatConcat.v : with distinct labels the matrix is the concatenation, term by term in formula order, of the terms' columns (C02) ===== *)
From Coq Require Import List NArith ZArith QArith Qcanon Bool Arith Lia.
Import ListNotations.
Require Import Mat MatDrop MatParts MatSep.
Open Scope nat_scope.

Lemma nodup_app_l {A} (a b : list A) : NoDup (a ++ b) -> NoDup a.
Proof. induction a as [|x a IH]; intro H; [constructor|]. inversion H as [|? ? Hx Hr]; subst. constructor; [intro Hin; apply Hx, in_or_app; left; exact Hin | apply IH, Hr]. Qed.
Lemma nodup_app_r {A} (a b : list A) : NoDup (a ++ b) -> NoDup b.
Proof. induction a as [|x a IH]; intro H; [exact H|]. inversion H; subst. apply IH. assumption. Qed.

Lemma dict_set_fresh d k v : ~ In k (map fst d) -> dict_set d k v = d ++ [(k, v)].
Proof.
  induction d as [|[k' v'] r IH]; intro H; cbn [dict_set app]; [reflexivity|].
  destruct (leqb k' k) eqn:E; [apply leqb_eq in E; subst; exfalso; apply H; left; reflexivity|].
  f_equal. apply IH. intro Hin. apply H. right. exact Hin.
Qed.
Lemma dict_update_fresh kv : forall d, NoDup (map fst d ++ map fst kv) -> dict_update d kv = d ++ kv.
Proof.
  unfold dict_update. induction kv as [|[k v] r IH]; intros d H; cbn [fold_left]; [rewrite app_nil_r; reflexivity|].
  cbn [fst snd]. rewrite dict_set_fresh.
  - rewrite IH; [rewrite <- app_assoc; reflexivity|]. rewrite map_app. cbn [map fst]. rewrite <- app_assoc. exact H.
  - intro Hin. cbn [map fst] in H. apply NoDup_remove_2 in H. apply H. apply in_or_app. left. exact Hin.
Qed.
Lemma fold_dict_update_fresh dicts : forall acc, NoDup (map fst acc ++ map fst (concat dicts)) ->
  fold_left dict_update dicts acc = acc ++ concat dicts.
Proof.
  induction dicts as [|d r IH]; intros acc H; cbn [fold_left concat]; [rewrite app_nil_r; reflexivity|].
  cbn [concat] in H. rewrite map_app, app_assoc in H.
  rewrite dict_update_fresh by (eapply nodup_app_l; exact H).
  rewrite IH; [rewrite <- app_assoc; reflexivity|]. rewrite map_app. exact H.
Qed.
Lemma fold_update_cols {A} (f : A -> list (str * column)) l : forall acc, NoDup (map fst acc ++ map fst (concat (map f l))) ->
  fold_left (fun dct st => dict_update dct (f st)) l acc = acc ++ concat (map f l).
Proof.
  induction l as [|x r IH]; intros acc H; cbn [fold_left map concat]; [rewrite app_nil_r; reflexivity|].
  cbn [map concat] in H. rewrite map_app, app_assoc in H.
  rewrite dict_update_fresh by (eapply nodup_app_l; exact H).
  rewrite IH; [rewrite <- app_assoc; reflexivity|]. rewrite map_app. exact H.
Qed.

(* all the columns, term by term in formula order, each term's scoped terms in the order recorded *)
Definition all_cols (evs : list (str * ev)) (drop : list nat) (nrows : nat) (fr : bool) (terms : list term) : list (str * column) :=
  concat (map (fun sts => concat (map (cols_of evs drop (nrows - length drop) ) sts)) (get_scoped_terms fr evs terms)).

Lemma NoDup_concat_part {A} (l : list (list A)) x : NoDup (concat l) -> In x l -> NoDup x.
Proof.
  induction l as [|y r IH]; [intros _ []|]. intros H [<-|Hin]; cbn [concat] in H.
  - eapply nodup_app_l. exact H.
  - apply IH; [eapply nodup_app_r; exact H | exact Hin].
Qed.

Theorem assemble_is_concatenation evs drop nrows fr terms :
  NoDup (map fst (all_cols evs drop nrows fr terms)) ->
  o_names (assemble evs drop nrows fr terms) = map fst (all_cols evs drop nrows fr terms) /\
  o_cols (assemble evs drop nrows fr terms) = map snd (all_cols evs drop nrows fr terms).
Proof.
  intro H. unfold assemble, all_cols in *. cbn [o_names o_cols].
  set (per := get_scoped_terms fr evs terms) in *. set (nk := nrows - length drop) in *.
  assert (E : map (fun sts => fold_left (fun dct st => dict_update dct (cols_of evs drop nk st)) sts []) per
              = map (fun sts => concat (map (cols_of evs drop nk) sts)) per).
  { apply map_ext_in. intros sts Hs. rewrite fold_update_cols; [reflexivity|]. cbn [map app].
    rewrite concat_map in H. apply (NoDup_concat_part _ (map fst (concat (map (cols_of evs drop nk) sts))) H).
    apply (in_map (map fst)). apply (in_map (fun sts => concat (map (cols_of evs drop nk) sts))). exact Hs. }
  rewrite E. rewrite fold_dict_update_fresh by exact H. split; reflexivity.
Qed.
