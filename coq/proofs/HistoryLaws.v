(* ===== HistoryLaws.v : builds never change the observable behaviour of previously obtained specs (C18) ===== *)
From Coq Require Import List Arith Bool Lia.
Import ListNotations.
Require Import GenPurity History.

Lemma hread_app_l h c a : a < length h -> hread (h ++ [c]) a = hread h a.
Proof. intro H. unfold hread. apply app_nth1. exact H. Qed.
Lemma hwrite_length h a c : length (hwrite h a c) = length h.
Proof. revert a. induction h as [|x r IH]; intros [|a]; cbn; auto. Qed.
Lemma hread_hwrite_other h a b c : a <> b -> hread (hwrite h a c) b = hread h b.
Proof.
  unfold hread. revert a b. induction h as [|x r IH]; intros a b H.
  - destruct a, b; reflexivity.
  - destruct a as [|a], b as [|b]; cbn [hwrite nth]; try reflexivity; try congruence. apply IH. congruence.
Qed.

(* all references held by specs point into the heap *)
Definition wf (w : world) : Prop := Forall (fun sp => ts sp < length (wheap w) /\ es sp < length (wheap w)) (wspecs w).

Section P.
(* the code copies both dictionaries when it prepares a spec for a build (generated fact) *)
Lemma prepare_copies h s h' p : prepare true true h s = (h', p) ->
  ts p = length h /\ es p = S (length h) /\ length h' = S (S (length h)) /\ (forall a, a < length h -> hread h' a = hread h a).
Proof.
  unfold prepare, halloc. intro H. inversion H; subst; clear H. cbn [ts es].
  repeat split; try (rewrite !app_length; cbn; lia).
  intros a Ha. rewrite hread_app_l by (rewrite app_length; cbn; lia). apply hread_app_l. exact Ha.
Qed.

(* one operation: well-formedness is kept, old cells are untouched, old specs keep their references *)
Lemma wstep_old w o : wf w ->
  wf (wstep true true w o) /\
  length (wheap w) <= length (wheap (wstep true true w o)) /\
  (forall a, a < length (wheap w) -> hread (wheap (wstep true true w o)) a = hread (wheap w) a) /\
  (forall s, s < length (wspecs w) -> nth_error (wspecs (wstep true true w o)) s = nth_error (wspecs w) s).
Proof.
  intro Hw. destruct o as [|s|s state]; cbn [wstep].
  - unfold halloc. cbv beta iota zeta. cbn [wheap wspecs]. repeat split.
    + unfold wf in *. cbn [wheap wspecs]. apply Forall_app. split.
      * eapply Forall_impl; [|exact Hw]. intros sp [H1 H2]. rewrite !app_length. cbn [length]. lia.
      * constructor; [|constructor]. cbn [ts es]. rewrite !app_length. cbn [length]. lia.
    + rewrite !app_length. cbn [length]. lia.
    + intros a Ha. rewrite hread_app_l by (rewrite app_length; cbn [length]; lia). apply hread_app_l. exact Ha.
    + intros s Hs. apply nth_error_app1. exact Hs.
  - destruct (nth_error (wspecs w) s) as [sp|] eqn:E; cbn [wheap wspecs]; repeat split; auto.
    + unfold wf in *. cbn [wheap wspecs]. apply Forall_app. split; auto. constructor; [|constructor].
      apply nth_error_In in E. rewrite Forall_forall in Hw. apply Hw. exact E.
    + intros s' Hs. apply nth_error_app1. exact Hs.
  - destruct (nth_error (wspecs w) s) as [sp|] eqn:E; [|repeat split; auto].
    destruct (prepare true true (wheap w) sp) as [h1 p] eqn:Ep.
    destruct (prepare_copies _ _ _ _ Ep) as (Ht & He & Hl & Hold). cbn [wheap wspecs].
    repeat split.
    + unfold wf in *. cbn [wheap wspecs]. apply Forall_app. split.
      * eapply Forall_impl; [|exact Hw]. intros sp' [H1 H2]. rewrite !hwrite_length, Hl. lia.
      * constructor; [|constructor]. cbn [ts es]. rewrite !hwrite_length, Hl, Ht, He. lia.
    + rewrite !hwrite_length, Hl. lia.
    + intros a Ha. rewrite hread_hwrite_other by lia. rewrite hread_hwrite_other by lia. apply Hold. exact Ha.
    + intros s' Hs. apply nth_error_app1. exact Hs.
Qed.

Lemma observe_stable w o s : wf w -> s < length (wspecs w) -> observe (wstep true true w o) s = observe w s.
Proof.
  intros Hw Hs. destruct (wstep_old w o Hw) as (_ & _ & Hold & Hsp). unfold observe. rewrite (Hsp s Hs).
  destruct (nth_error (wspecs w) s) as [sp|] eqn:E; auto.
  apply nth_error_In in E. unfold wf in Hw. rewrite Forall_forall in Hw. destruct (Hw sp E) as [H1 H2].
  rewrite (Hold _ H1), (Hold _ H2). reflexivity.
Qed.

(* any finite sequence of builds, updates and reuses leaves the observable state of every earlier spec unchanged *)
Theorem history_preserves_earlier_specs ops : forall w s, wf w -> s < length (wspecs w) ->
  observe (wrun true true w ops) s = observe w s.
Proof.
  induction ops as [|o r IH]; intros w s Hw Hs; [reflexivity|].
  change (wrun true true w (o :: r)) with (wrun true true (wstep true true w o) r).
  destruct (wstep_old w o Hw) as (Hw' & _ & _ & Hsp).
  rewrite IH; auto.
  - apply observe_stable; auto.
  - assert (length (wspecs w) <= length (wspecs (wstep true true w o))).
    { destruct o as [|s'|s' st]; cbn [wstep]; try (destruct (nth_error (wspecs w) s')); try destruct (prepare _ _ _ _);
        cbn; rewrite ?app_length; cbn; lia. }
    lia.
Qed.
End P.

(* ... and /repo's code is in that regime: both dictionaries are copied when a spec is prepared for a build *)
Theorem repo_copies_state_on_build : build_copies_transform_state = true /\ build_copies_encoder_state = true /\ pooled_state_is_fresh = true.
Proof. repeat split; reflexivity. Qed.
Theorem repo_history_preserves_earlier_specs ops w s : wf w -> s < length (wspecs w) ->
  observe (wrun build_copies_transform_state build_copies_encoder_state w ops) s = observe w s.
Proof. exact (history_preserves_earlier_specs ops w s). Qed.

(* without the copies the statement is false: a build through an un-fitted spec fills in the caller's own spec *)
Theorem shared_state_refuted :
  exists ops, observe (wrun false false wempty ops) 0 <> observe (wrun false false wempty (firstn 1 ops)) 0.
Proof. exists [HNew; HBuild 0 [7]]. vm_compute. discriminate. Qed.
