(* ===== GenTie.v : the hand-written tables of the models equal the tables regenerated from /repo on every run ===== *)
From Coq Require Import List NArith ZArith Bool Arith.
Import ListNotations.
Require Import GenOps GenTok Tok Classify Parser Parser2.
Open Scope N_scope.

Definition assoc_code (a : assoc) : nat := match a with AN => 0 | AL => 1 | AR => 2 end.
Definition fix_code (x : fixity) : nat := match x with Prefix => 0 | Infix => 1 | Postfix => 2 end.
Definition ctx_code (c : ctxrule) : nat := match c with CAlways => 0 | CEmpty => 1 | CSquare => 2 | CTildeBar => 3 end.
Definition raw_of (o : op) : raw_op :=
  (osym o, oarity o, oprec o, assoc_code (oassoc o), fix_code (ofix o), ctx_code (octx o), ostruct o, odis o).

(* symbol, arity, precedence, associativity, fixity, accepts_context class, structural and disabled flag of every operator,
   in resolution order, for each of the 8 feature-flag subsets *)
Theorem table_matches_generated : forall two parts stage,
  map raw_of (table {| f_two := two; f_parts := parts; f_stage := stage |}) = raw_table two parts stage.
Proof. intros [] [] []; vm_compute; reflexivity. Qed.

Theorem default_configuration : default_flags = (true, true, false) /\ default_intercept = true.
Proof. split; reflexivity. Qed.

(* the character constants of the tokenizer model are the ones the source compares against *)
Theorem tokenizer_literals_match :
  tokenize_literals =
  [[cBS]; [cRB; cBT; cPCT]; [cDQ; cPCT; cSQ; cRP; cRS; cBT; cRB]; [cBT; cLP; cLS; cDQ; cSQ]; [cRB; cRP; cRS]; [cLB]; [cRB];
   [cPCT]; [cLB]; [cBT]; [cLP; cLS]; [cLP]; [cRP; cRS]; [cDQ; cSQ]].
Proof. vm_compute. reflexivity. Qed.

Theorem context_tables_match :
  context_openers = [[cLP]; [cLS]] /\ context_closers = [([cRP], [cLP]); ([cRS], [cLS])].
Proof. split; vm_compute; reflexivity. Qed.

(* side conditions on the ASCII classes that the lexing theorems use *)
Definition special_chars : list N := [cBS; cPCT; cLB; cRB; cBT; cLP; cRP; cLS; cRS; cDQ; cSQ].
Theorem ascii_specials_not_word_or_space :
  forallb (fun c => negb (is_word (ascii_cls c)) && negb (is_space (ascii_cls c))) special_chars = true.
Proof. vm_compute. reflexivity. Qed.
Theorem ascii_numeric_is_word : forallb (fun c => implb (is_num (ascii_cls c)) (is_word (ascii_cls c))) (map N.of_nat (seq 0 128)) = true.
Proof. vm_compute. reflexivity. Qed.
Theorem ascii_space_not_word : forallb (fun c => negb (is_space (ascii_cls c) && is_word (ascii_cls c))) (map N.of_nat (seq 0 128)) = true.
Proof. vm_compute. reflexivity. Qed.

(* ---------- entry points: every call edge between the model-matrix entry points forwards the caller's drop_rows ---------- *)
Require Import GenEntry.
Theorem entry_points_forward_drop_rows :
  forallb (fun e => match e with (_, _, _, fwd_drop, _) => fwd_drop end) entry_edges = true.
Proof. vm_compute. reflexivity. Qed.
Theorem entry_points_present : (6 <=? length entry_edges)%nat = true.
Proof. vm_compute. reflexivity. Qed.

(* ---------- the linear-constraint operator table ---------- *)
Require Cons.
Definition cons_raw_of (o : Cons.op) : raw_op :=
  (Cons.osym o, Cons.oarity o, Cons.oprec o,
   match Cons.oassoc o with Cons.AN => 0 | Cons.AL => 1 | Cons.AR => 2 end%nat,
   match Cons.ofix o with Cons.Prefix => 0 | Cons.Infix => 1 end%nat,
   (if Cons.ocomma o then 4 else 0)%nat, Cons.ostruct o, false).
Theorem constraint_table_matches_generated : map cons_raw_of Cons.table = constraint_raw_table.
Proof. vm_compute. reflexivity. Qed.
