(* ===== ResolveLaws.v : name resolution order, '.' expansion, required variables (C17) ===== *)
From Coq Require Import List NArith ZArith QArith Qcanon Bool Arith.
Import ListNotations.
Require Import Struct StructLaws Layered LayeredLaws Mat Tok Parser Parser2 Parser3.
Open Scope nat_scope.

(* ---------- the materializer's layered context: data, then the caller's context, then the built-in transforms ---------- *)
Definition kdata : key := [100; 97; 116; 97]%N.
Definition kcontext : key := [99; 111; 110; 116; 101; 120; 116]%N.
Definition ktransforms : key := [116; 114; 97; 110; 115; 102; 111; 114; 109; 115]%N.
Definition mat_context {V} (data ctx transforms : list (key * V)) : lay V :=
  Sub None [] [Sub (Some kdata) [] [Plain data]; Sub (Some kcontext) [] [Plain ctx]; Sub (Some ktransforms) [] [Plain transforms]].

(* a name resolves to the data first, then the context, then the transforms; the reported source is the layer that supplied it *)
Theorem resolution_order {V} (data ctx tr : list (key * V)) k :
  lget_named k [] (mat_context data ctx tr) =
  match dget k data with
  | Some v => Some (v, [kdata])
  | None => match dget k ctx with
            | Some v => Some (v, [kcontext])
            | None => match dget k tr with Some v => Some (v, [ktransforms]) | None => None end
            end
  end.
Proof.
  unfold mat_context. cbn. destruct (dget k data); [reflexivity|]. destruct (dget k ctx); [reflexivity|]. destruct (dget k tr); reflexivity.
Qed.
(* the value found is the value a plain lookup returns *)
Theorem resolution_value {V} (data ctx tr : list (key * V)) k :
  option_map fst (lget_named k [] (mat_context data ctx tr)) = lget k (mat_context data ctx tr).
Proof. apply lget_named_value. Qed.

(* ---------- '.' : exactly the available variables not used on the left-hand side, in their given order ---------- *)
Definition dot_op : op := mk [cDOT] 0 1000%Z AN Postfix CAlways false false SDot.
Theorem dot_expansion_exact av used :
  apply_op {| avail := Some av; used_lhs := Some used |} dot_op [] =
  inl (VSide (SSet (oset (map (fun v => [ {| tx := v; kd := KName |} ]) (filter (fun v => negb (mem_txt v used)) av)) []))).
Proof. reflexivity. Qed.
Theorem dot_needs_available_variables used : apply_op {| avail := None; used_lhs := Some used |} dot_op [] = inr ESyntax.
Proof. reflexivity. Qed.

(* ---------- required variables of a formula of lookup factors: sufficient and necessary ---------- *)
Definition missing (d : frame) (f : factor) : bool := match fk f with FLookup => match lookup d (fx f) with None => true | Some _ => false end | FLit => false end.

Lemma eval_pool_ok d l : forall acc, (forall f, In f l -> missing d f = false) -> exists evs, eval_pool d l acc = inl evs.
Proof.
  induction l as [|f r IH]; intros acc H; cbn; [eexists; reflexivity|].
  assert (Hf := H f (or_introl eq_refl)). unfold missing in Hf. unfold eval_factor.
  destruct (fk f); [apply IH; intros g Hg; apply H; right; exact Hg|].
  destruct (lookup d (fx f)) as [[v|v dl]|]; [| |discriminate]; apply IH; intros g Hg; apply H; right; exact Hg.
Qed.
Lemma eval_pool_missing d l : forall acc f, In f l -> missing d f = true -> eval_pool d l acc = inr EEval.
Proof.
  induction l as [|g r IH]; intros acc f Hin Hm; [contradiction|]. cbn.
  destruct (eval_factor d g) as [v|e] eqn:E.
  - destruct Hin as [Hg|Hin]; [|eapply IH; eauto]. subst g.
    unfold missing in Hm. unfold eval_factor in E. destruct (fk f); [discriminate|]. destruct (lookup d (fx f)); discriminate.
  - unfold eval_factor in E. destruct (fk g); [discriminate|]. destruct (lookup d (fx g)) as [[?|? ?]|]; inversion E; reflexivity.
Qed.

(* sufficient: if every looked-up name is present in the data, factor evaluation succeeds;
   necessary: if one of them is absent, materialization fails with the factor-evaluation error *)
Theorem required_sufficient d n c terms :
  (forall f, In f (pool_of terms) -> missing d f = false) -> build d n c terms <> inr EEval.
Proof.
  intro H. unfold build, Mat.bind. destruct (eval_pool_ok d (pool_of terms) [] H) as [evs ->].
  destruct (na_action c); destruct (all_nulls evs); discriminate.
Qed.
Theorem required_necessary d n c terms f :
  In f (pool_of terms) -> missing d f = true -> build d n c terms = inr EEval.
Proof. intros Hin Hm. unfold build, Mat.bind. rewrite (eval_pool_missing d _ [] f Hin Hm). reflexivity. Qed.
