(* ===== CubicUnique.v : the natural cubic spline through the knots is unique (C12) =====
   The tridiagonal system for the second derivatives is strictly diagonally dominant when the knots increase strictly; a strictly
   diagonally dominant homogeneous system has only the zero solution (maximum argument, exact over Q).  Hence two matrices F, F'
   that both pass the checkable predicate [natural_F_ok] agree entry by entry: the basis the code builds is THE cardinal basis of the
   natural interpolating cubic spline. *)
From Coq Require Import List QArith Qabs Lqa Lia Bool Arith.
Import ListNotations.
Require Import BSpline CubicSpline CubicLaws.
Open Scope Q_scope.

(* an index of maximal absolute value among 0..n *)
Lemma max_index (g : nat -> Q) n : exists m, (m <= n)%nat /\ forall j, (j <= n)%nat -> Qabs (g j) <= Qabs (g m).
Proof.
  induction n as [|n [m [Hm Hmax]]].
  - exists 0%nat. split; [lia|]. intros j Hj. replace j with 0%nat by lia. apply Qle_refl.
  - destruct (Qlt_le_dec (Qabs (g m)) (Qabs (g (S n)))) as [L|L].
    + exists (S n). split; [lia|]. intros j Hj. destruct (Nat.eq_dec j (S n)) as [->|N]; [apply Qle_refl|].
      apply Qle_trans with (Qabs (g m)); [apply Hmax; lia | apply Qlt_le_weak, L].
    + exists m. split; [lia|]. intros j Hj. destruct (Nat.eq_dec j (S n)) as [->|N]; [exact L | apply Hmax; lia].
Qed.

Lemma Qabs_zero x : Qabs x <= 0 -> x == 0.
Proof.
  intro H. pose proof (Qabs_nonneg x) as N. revert H N. apply (Qabs_case x); intros; lra.
Qed.

Lemma Qabs_scale c y : 0 <= c -> Qabs (c * y) == c * Qabs y.
Proof. intro H. rewrite Qabs_Qmult. apply Qmult_comp; [apply Qabs_pos; exact H | reflexivity]. Qed.

Section Homogeneous.
Variable kn : list Q.
Variable g : nat -> Q.
Let size := length kn.
Hypothesis size2 : (2 <= size)%nat.
Hypothesis incr : forall i, (S i < size)%nat -> Kq kn i < Kq kn (S i).
Hypothesis ends : g 0%nat == 0 /\ g (size - 1)%nat == 0.
Hypothesis tri : forall m, (1 <= m)%nat -> (S m < size)%nat ->
  hq kn (m - 1) / 6 * g (m - 1)%nat + (hq kn (m - 1) + hq kn m) / 3 * g m + hq kn m / 6 * g (S m) == 0.

Lemma h_pos i : (S i < size)%nat -> 0 < hq kn i.
Proof. intro H. unfold hq. pose proof (incr i H). lra. Qed.

Theorem homogeneous_zero : forall j, (j < size)%nat -> g j == 0.
Proof.
  destruct (max_index g (size - 1)) as [m [Hm Hmax]].
  assert (Z : g m == 0).
  { destruct (Nat.eq_dec m 0) as [->|N0]; [apply ends|].
    destruct (Nat.eq_dec m (size - 1)) as [->|N1]; [apply ends|].
    assert (H1 : (1 <= m)%nat) by lia. assert (H2 : (S m < size)%nat) by lia.
    pose proof (tri m H1 H2) as T. pose proof (h_pos (m - 1) ltac:(lia)) as Ha. pose proof (h_pos m H2) as Hb.
    remember (hq kn (m - 1)) as a eqn:Ea. remember (hq kn m) as b eqn:Eb. clear Ea Eb.
    pose proof (Hmax (m - 1)%nat ltac:(lia)) as M1. pose proof (Hmax (S m) ltac:(lia)) as M2.
    remember (g (m - 1)%nat) as x eqn:Ex. remember (g m) as y eqn:Ey. remember (g (S m)) as z eqn:Ez. clear Ex Ez.
    (* 2(a+b) |y| = |a x + b z| <= (a+b) |y| *)
    assert (S6 : 6 * (a / 6 * x + (a + b) / 3 * y + b / 6 * z) == a * x + (2 * (a + b)) * y + b * z) by field.
    assert (E : (2 * (a + b)) * y == - (a * x + b * z)) by (rewrite T in S6; lra).
    assert (A1 : Qabs ((2 * (a + b)) * y) == (2 * (a + b)) * Qabs y) by (apply Qabs_scale; lra).
    assert (A2 : Qabs (- (a * x + b * z)) <= a * Qabs x + b * Qabs z).
    { rewrite Qabs_opp. eapply Qle_trans; [apply Qabs_triangle|].
      apply Qplus_le_compat; [rewrite Qabs_scale by lra | rewrite Qabs_scale by lra]; apply Qle_refl. }
    rewrite E in A1. pose proof (Qabs_nonneg y) as Ny.
    assert (B1 : a * Qabs x <= a * Qabs y) by (apply Qmult_le_l; lra).
    assert (B2 : b * Qabs z <= b * Qabs y) by (apply Qmult_le_l; lra).
    apply Qabs_zero. nra. }
  intros j Hj. apply Qabs_zero. pose proof (Hmax j ltac:(lia)) as M. rewrite Z in M. exact M.
Qed.
End Homogeneous.

(* two matrices that both satisfy the defining equations of the natural spline's second-derivative map agree entry by entry *)
Theorem natural_F_unique kn F F' : (2 <= length kn)%nat -> (forall i, (S i < length kn)%nat -> Kq kn i < Kq kn (S i)) ->
  natural_F_ok kn F = true -> natural_F_ok kn F' = true ->
  forall m k, (m < length kn)%nat -> (k < length kn)%nat -> F m k == F' m k.
Proof.
  intros H2 Hinc HF HF' m k Hm Hk.
  destruct (natural_F_ok_sound kn F HF) as [E1 T1]. destruct (natural_F_ok_sound kn F' HF') as [E2 T2].
  assert (Z : F m k - F' m k == 0).
  { apply (homogeneous_zero kn (fun j => F j k - F' j k) H2 Hinc); [| |exact Hm].
    - destruct (E1 k Hk) as [A B], (E2 k Hk) as [C D]. split; lra.
    - intros j Hj1 Hj2. pose proof (T1 j k Hj1 Hj2 Hk) as X. pose proof (T2 j k Hj1 Hj2 Hk) as Y. cbn beta. lra. }
  lra.
Qed.

(* the periodic system: every row is strictly diagonally dominant, there is no boundary *)
Section Periodic.
Variable kn : list Q.
Variable g : nat -> Q.
Let n := (length kn - 1)%nat.
Hypothesis n1 : (1 <= n)%nat.
Hypothesis incr : forall i, (S i < length kn)%nat -> Kq kn i < Kq kn (S i).
Hypothesis tri : forall m, (m < n)%nat ->
  hq kn (prevn n m) / 6 * g (prevn n m) + (hq kn (prevn n m) + hq kn m) / 3 * g m + hq kn m / 6 * g (nextn n m) == 0.

Theorem periodic_zero : forall j, (j < n)%nat -> g j == 0.
Proof.
  destruct (max_index g (n - 1)) as [m [Hm Hmax]].
  assert (Hmn : (m < n)%nat) by lia.
  assert (Z : g m == 0).
  { pose proof (tri m Hmn) as T. pose proof (prevn_lt n m Hmn) as Hp. pose proof (nextn_lt n m Hmn) as Hx.
    assert (Ha : 0 < hq kn (prevn n m)) by (unfold hq; pose proof (incr (prevn n m) ltac:(subst n; lia)); lra).
    assert (Hb : 0 < hq kn m) by (unfold hq; pose proof (incr m ltac:(subst n; lia)); lra).
    pose proof (Hmax (prevn n m) ltac:(lia)) as M1. pose proof (Hmax (nextn n m) ltac:(lia)) as M2.
    remember (hq kn (prevn n m)) as a eqn:Ea. remember (hq kn m) as b eqn:Eb. clear Ea Eb.
    remember (g (prevn n m)) as x eqn:Ex. remember (g (nextn n m)) as z eqn:Ez. remember (g m) as y eqn:Ey.
    (* x, z may coincide with y or with each other (n = 1, 2): only the bounds |x|, |z| <= |y| are used *)
    clear Ex Ez.
    assert (S6 : 6 * (a / 6 * x + (a + b) / 3 * y + b / 6 * z) == a * x + (2 * (a + b)) * y + b * z) by field.
    assert (E : (2 * (a + b)) * y == - (a * x + b * z)) by (rewrite T in S6; lra).
    assert (A1 : Qabs ((2 * (a + b)) * y) == (2 * (a + b)) * Qabs y) by (apply Qabs_scale; lra).
    assert (A2 : Qabs (- (a * x + b * z)) <= a * Qabs x + b * Qabs z).
    { rewrite Qabs_opp. eapply Qle_trans; [apply Qabs_triangle|].
      apply Qplus_le_compat; [rewrite Qabs_scale by lra | rewrite Qabs_scale by lra]; apply Qle_refl. }
    rewrite E in A1. pose proof (Qabs_nonneg y) as Ny.
    assert (B1 : a * Qabs x <= a * Qabs y) by (apply Qmult_le_l; lra).
    assert (B2 : b * Qabs z <= b * Qabs y) by (apply Qmult_le_l; lra).
    apply Qabs_zero. nra. }
  intros j Hj. apply Qabs_zero. pose proof (Hmax j ltac:(lia)) as M. rewrite Z in M. exact M.
Qed.
End Periodic.

Theorem cyclic_F_unique kn F F' : (2 <= length kn)%nat -> (forall i, (S i < length kn)%nat -> Kq kn i < Kq kn (S i)) ->
  cyclic_F_ok kn F = true -> cyclic_F_ok kn F' = true ->
  forall m k, (m < length kn - 1)%nat -> (k < length kn - 1)%nat -> F m k == F' m k.
Proof.
  intros H2 Hinc HF HF' m k Hm Hk.
  pose proof (cyclic_F_ok_sound kn F HF) as T1. pose proof (cyclic_F_ok_sound kn F' HF') as T2. cbn zeta in T1, T2.
  assert (Z : F m k - F' m k == 0).
  { apply (periodic_zero kn (fun j => F j k - F' j k) ltac:(lia) Hinc); [|exact Hm].
    intros j Hj. pose proof (T1 j k Hj Hk) as X. pose proof (T2 j k Hj Hk) as Y. cbn beta. lra. }
  lra.
Qed.
