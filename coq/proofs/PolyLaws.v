(* ===== PolyLaws.v : the three-term recurrence yields an orthogonal basis, orthogonal to the constant, monic of exact degree ===== *)
From Coq Require Import List QArith Qcanon Arith Lia Bool.
Import ListNotations.
Require Import Poly.
Open Scope Qc_scope.

Section Poly.
Variable xs : list Qc.

Definition ip (f g : Qc -> Qc) : Qc := fold_right (fun x acc => f x * g x + acc) 0 xs.

Lemma ip_sym f g : ip f g = ip g f.
Proof. unfold ip. induction xs as [|x l IH]; cbn [fold_right]; [reflexivity|]. rewrite IH. ring. Qed.
Lemma ip_add_l f g h : ip (fun x => f x + g x) h = ip f h + ip g h.
Proof. unfold ip. induction xs as [|x l IH]; cbn [fold_right]; [ring|]. rewrite IH. ring. Qed.
Lemma ip_sub_l f g h : ip (fun x => f x - g x) h = ip f h - ip g h.
Proof. unfold ip. induction xs as [|x l IH]; cbn [fold_right]; [ring|]. rewrite IH. ring. Qed.
Lemma ip_scal_l c f h : ip (fun x => c * f x) h = c * ip f h.
Proof. unfold ip. induction xs as [|x l IH]; cbn [fold_right]; [ring|]. rewrite IH. ring. Qed.
Lemma ip_x f g : ip (fun x => x * f x) g = ip f (fun x => x * g x).
Proof. unfold ip. induction xs as [|x l IH]; cbn [fold_right]; [ring|]. rewrite IH. ring. Qed.
Lemma ip_ext f f' g : (forall x, f x = f' x) -> ip f g = ip f' g.
Proof. intros H. unfold ip. induction xs as [|x l IH]; cbn [fold_right]; [reflexivity|]. rewrite IH, H. reflexivity. Qed.

(* the mathematical object: monic orthogonal polynomials of the discrete inner product on xs *)
Definition alpha_of (p : Qc -> Qc) := ip (fun x => x * p x) p / ip p p.
Fixpoint P (k : nat) : Qc -> Qc :=
  match k with
  | O => fun _ => 1
  | S k' =>
      match k' with
      | O => fun x => (x - alpha_of (fun _ => 1)) * 1
      | S k'' => fun x => (x - alpha_of (P k')) * P k' x - (ip (P k') (P k') / ip (P k'') (P k'')) * P k'' x
      end
  end.
Definition alpha k := alpha_of (P k).
Definition norm2 k := ip (P k) (P k).
Definition beta k := norm2 k / norm2 (k - 1).

Lemma P1 x : P 1 x = (x - alpha 0) * P 0 x. Proof. reflexivity. Qed.
Lemma PSS k x : P (S (S k)) x = (x - alpha (S k)) * P (S k) x - beta (S k) * P k x.
Proof. unfold beta, norm2. replace (S k - 1)%nat with k by lia. reflexivity. Qed.
Lemma xP0 x : x * P 0 x = P 1 x + alpha 0 * P 0 x.
Proof. rewrite P1. ring. Qed.
Lemma xPS k x : x * P (S k) x = P (S (S k)) x + alpha (S k) * P (S k) x + beta (S k) * P k x.
Proof. rewrite PSS. ring. Qed.

Definition nz (k : nat) := forall j, (j <= k)%nat -> norm2 j <> 0.

Theorem orth : forall k, nz k -> forall i j, (i < j)%nat -> (j <= S k)%nat -> ip (P i) (P j) = 0.
Proof.
  induction k as [|k IH]; intros Hnz i j Hij Hj.
  - assert (i = 0%nat) by lia. assert (j = 1%nat) by lia. subst.
    rewrite ip_sym. rewrite (ip_ext (P 1) (fun x => x * P 0 x - alpha 0 * P 0 x)) by (intros; rewrite P1; ring).
    rewrite ip_sub_l, ip_scal_l. unfold alpha, alpha_of.
    pose proof (Hnz 0%nat (le_n _)) as H. unfold norm2 in H. field. exact H.
  - assert (Hnz' : nz k) by (intros j' Hj'; apply Hnz; lia).
    destruct (Nat.eq_dec j (S (S k))) as [->|Hne]; [|apply (IH Hnz'); lia].
    rewrite ip_sym.
    rewrite (ip_ext (P (S (S k))) (fun x => x * P (S k) x - (alpha (S k) * P (S k) x + beta (S k) * P k x)))
      by (intros; rewrite PSS; ring).
    rewrite ip_sub_l, ip_add_l, !ip_scal_l.
    assert (Hn1 : ip (P (S k)) (P (S k)) <> 0) by (apply (Hnz (S k)); lia).
    assert (Hn0 : ip (P k) (P k) <> 0) by (apply (Hnz k); lia).
    destruct (Nat.eq_dec i (S k)) as [->|Hi1].
    + rewrite (IH Hnz' k (S k)) by lia.
      unfold alpha, alpha_of. field. exact Hn1.
    + destruct (Nat.eq_dec i k) as [->|Hi0].
      * rewrite (ip_sym (P (S k)) (P k)). rewrite (IH Hnz' k (S k)) by lia.
        rewrite ip_x.
        destruct k as [|k'].
        -- rewrite (ip_sym (P 1) (fun x => x * P 0 x)).
           rewrite (ip_ext (fun x => x * P 0 x) (fun x => P 1 x + alpha 0 * P 0 x)) by (intros; apply xP0).
           rewrite ip_add_l, ip_scal_l. rewrite (IH Hnz' 0%nat 1%nat) by lia.
           unfold beta, norm2. cbn [Nat.sub]. field. exact Hn0.
        -- rewrite (ip_sym (P (S (S k'))) (fun x => x * P (S k') x)).
           rewrite (ip_ext (fun x => x * P (S k') x) (fun x => P (S (S k')) x + (alpha (S k') * P (S k') x + beta (S k') * P k' x)))
             by (intros; rewrite xPS; ring).
           rewrite ip_add_l, ip_add_l, !ip_scal_l.
           rewrite (IH Hnz' (S k') (S (S k'))) by lia.
           rewrite (IH Hnz' k' (S (S k'))) by lia.
           replace (beta (S (S k'))) with (norm2 (S (S k')) / norm2 (S k')) by (unfold beta; do 2 f_equal). unfold norm2. field. exact Hn0.
      * assert (Hik : (i < k)%nat) by lia.
        rewrite (ip_sym (P (S k)) (P i)). rewrite (IH Hnz' i (S k)) by lia.
        rewrite (ip_sym (P k) (P i)). rewrite (IH Hnz' i k) by lia.
        rewrite ip_x.
        destruct i as [|i'].
        -- rewrite (ip_sym (P (S k)) _).
           rewrite (ip_ext (fun x => x * P 0 x) (fun x => P 1 x + alpha 0 * P 0 x)) by (intros; apply xP0).
           rewrite ip_add_l, ip_scal_l.
           rewrite (IH Hnz' 1%nat (S k)) by lia. rewrite (IH Hnz' 0%nat (S k)) by lia. ring.
        -- rewrite (ip_sym (P (S k)) _).
           rewrite (ip_ext (fun x => x * P (S i') x) (fun x => P (S (S i')) x + (alpha (S i') * P (S i') x + beta (S i') * P i' x)))
             by (intros; rewrite xPS; ring).
           rewrite ip_add_l, ip_add_l, !ip_scal_l.
           rewrite (IH Hnz' (S (S i')) (S k)) by lia.
           rewrite (IH Hnz' (S i') (S k)) by lia.
           rewrite (IH Hnz' i' (S k)) by lia. ring.
Qed.

(* orthogonal to the constant column: every non-constant basis column sums to zero on the training data *)
Lemma sum_one_mul (g : Qc -> Qc) (l : list Qc) :
  fold_right (fun x acc => 1 * g x + acc) 0 l = sumq (map g l).
Proof. induction l as [|x l IH]; cbn [fold_right map sumq]; [reflexivity|]. rewrite IH. unfold sumq. ring. Qed.
Corollary orth_const k j : nz k -> (1 <= j <= S k)%nat -> sumq (map (P j) xs) = 0.
Proof.
  intros Hnz Hj. pose proof (orth k Hnz 0%nat j ltac:(lia) ltac:(lia)) as H.
  unfold ip in H. cbn [P] in H. rewrite sum_one_mul in H. exact H.
Qed.

(* --- the code's state-based evaluation equals P when the state is the trained one --- *)
Definition als (K : nat) := map alpha (seq 0 K).
Definition nrs (K : nat) := map norm2 (seq 0 K).
Lemma nth_als K j : (j < K)%nat -> nth j (als K) 0 = alpha j.
Proof. intros H. unfold als. rewrite (nth_indep _ 0 (alpha 0)) by (rewrite map_length, seq_length; exact H). rewrite map_nth, seq_nth by exact H. reflexivity. Qed.
Lemma nth_nrs K j : (j < K)%nat -> nth j (nrs K) 0 = norm2 j.
Proof. intros H. unfold nrs. rewrite (nth_indep _ 0 (norm2 0)) by (rewrite map_length, seq_length; exact H). rewrite map_nth, seq_nth by exact H. reflexivity. Qed.

Lemma evalP_SS al nr k x : evalP al nr (S (S k)) x = (x - nth (S k) al 0) * evalP al nr (S k) x - (nth (S k) nr 0 / nth k nr 0) * evalP al nr k x.
Proof. reflexivity. Qed.
Lemma evalP_P K : forall k, (k <= K)%nat -> forall x, evalP (als K) (nrs K) k x = P k x /\ (forall k', (k' <= k)%nat -> evalP (als K) (nrs K) k' x = P k' x).
Proof.
  induction k as [|k IH]; intros Hk x.
  - split; [reflexivity|]. intros k' Hk'. assert (k' = 0%nat) by lia. subst. reflexivity.
  - destruct (IH ltac:(lia) x) as [IH1 IH2].
    assert (Hcur : evalP (als K) (nrs K) (S k) x = P (S k) x).
    { destruct k as [|k''].
      - cbn [evalP P]. rewrite nth_als by lia. reflexivity.
      - rewrite evalP_SS. rewrite nth_als, !nth_nrs by lia. rewrite IH1, (IH2 k'') by lia. reflexivity. }
    split; [exact Hcur|]. intros k' Hk'. destruct (Nat.eq_dec k' (S k)) as [->|Hne]; [exact Hcur | apply IH2; lia].
Qed.
Lemma evalP_is_P K k x : (k <= K)%nat -> evalP (als K) (nrs K) k x = P k x.
Proof. intros H. exact (proj1 (evalP_P K k H x)). Qed.
(* a longer state does not change lower-degree columns *)
Lemma evalP_prefix K K' k x : (k <= K)%nat -> (K <= K')%nat -> evalP (als K') (nrs K') k x = evalP (als K) (nrs K) k x.
Proof. intros H1 H2. rewrite !evalP_is_P by lia. reflexivity. Qed.

Lemma sumq_ip f g : sumq (map (fun x => f x * g x) xs) = ip f g.
Proof. unfold ip. induction xs as [|x l IH]; cbn [map sumq fold_right]; [reflexivity|]. unfold sumq in IH. rewrite IH. reflexivity. Qed.

Lemma sumq_xpp (g : Qc -> Qc) (l : list Qc) :
  sumq (map (fun xp : Qc * Qc => fst xp * (snd xp * snd xp)) (combine l (map g l))) = fold_right (fun x acc => x * g x * g x + acc) 0 l.
Proof. induction l as [|x l IHl]; cbn [map combine sumq fold_right fst snd]; [reflexivity|]. unfold sumq in IHl. rewrite IHl. ring. Qed.
Lemma train_spec : forall K, train xs K = (als K, nrs K).
Proof.
  induction K as [|K IH]; [reflexivity|].
  cbn [train]. rewrite IH.
  assert (Hpk : map (evalP (als K) (nrs K) K) xs = map (P K) xs) by (apply map_ext; intros; apply evalP_is_P; lia).
  rewrite Hpk.
  assert (Hn : sumq (map (fun p => p * p) (map (P K) xs)) = norm2 K).
  { rewrite map_map. unfold norm2. apply sumq_ip. }
  assert (Ha : sumq (map (fun xp : Qc * Qc => fst xp * (snd xp * snd xp)) (combine xs (map (P K) xs))) = ip (fun x => x * P K x) (P K)).
  { unfold ip. apply sumq_xpp. }
  rewrite Hn, Ha. unfold als, nrs. rewrite !seq_S, !map_app. cbn [map Nat.add]. reflexivity.
Qed.

(* ---- the property-level statements, on the code's own evaluation path ---- *)
(* (poly-a) columns j <> k of the fitted basis are orthogonal on the training data; all are orthogonal to the constant *)
Theorem fitted_columns_orthogonal degree j k : nz degree -> (j < k)%nat -> (k <= degree)%nat ->
  let st := train xs (S degree) in
  sumq (map (fun x => evalP (fst st) (snd st) j x * evalP (fst st) (snd st) k x) xs) = 0.
Proof.
  intros Hnz Hjk Hk st. subst st. rewrite train_spec. cbn [fst snd].
  rewrite (map_ext _ (fun x => P j x * P k x)) by (intros; rewrite !evalP_is_P by lia; reflexivity).
  rewrite sumq_ip. apply (orth degree Hnz); lia.
Qed.
Theorem fitted_columns_sum_to_zero degree k : nz degree -> (1 <= k <= degree)%nat ->
  let st := train xs (S degree) in sumq (map (evalP (fst st) (snd st) k) xs) = 0.
Proof.
  intros Hnz Hk st. subst st. rewrite train_spec. cbn [fst snd].
  rewrite (map_ext _ (P k)) by (intros; rewrite evalP_is_P by lia; reflexivity).
  apply (orth_const degree); [exact Hnz | lia].
Qed.
(* (poly-b) the recorded norms2_k is the squared length of column k: dividing by any d with d*d = norms2_k gives a unit column *)
Theorem fitted_columns_unit_length degree k d : nz degree -> (k <= degree)%nat ->
  let st := train xs (S degree) in d * d = nth k (snd st) 0 ->
  sumq (map (fun x => (evalP (fst st) (snd st) k x / d) * (evalP (fst st) (snd st) k x / d)) xs) = 1.
Proof.
  intros Hnz Hk st Hd. subst st. rewrite train_spec in *. cbn [fst snd] in *.
  rewrite nth_nrs in Hd by lia.
  assert (Hd0 : d <> 0). { intros ->. apply (Hnz k Hk). rewrite <- Hd. ring. }
  rewrite (map_ext _ (fun x => (/ (d * d)) * (P k x * P k x))).
  2:{ intros x. rewrite evalP_is_P by lia. field. exact Hd0. }
  assert (Hs : forall c (f : Qc -> Qc) l, sumq (map (fun x => c * f x) l) = c * sumq (map f l)).
  { intros c f l. induction l as [|a l IHl]; cbn [map sumq fold_right]; [ring|]. unfold sumq in IHl. rewrite IHl. ring. }
  rewrite Hs, sumq_ip. fold (norm2 k). rewrite <- Hd. field. exact Hd0.
Qed.
(* (poly-d) the normalised design X = [1 | P_1/d_1 .. P_degree/d_degree] (d_k^2 = norms2_k) has X^T X = diag(n, 1, .., 1): the coefficient
   matrix diag(1/n, 1, .., 1) X^T is its inverse *)
Lemma sumq_scal c (f : Qc -> Qc) l : sumq (map (fun x => c * f x) l) = c * sumq (map f l).
Proof. induction l as [|a l IHl]; cbn [map sumq fold_right]; [ring|]. unfold sumq in IHl. rewrite IHl. ring. Qed.
Theorem fitted_gram_full degree (d : nat -> Qc) j k : nz degree -> (j <= degree)%nat -> (k <= degree)%nat ->
  let st := train xs (S degree) in
  d 0%nat = 1 -> (forall i, (1 <= i <= degree)%nat -> d i * d i = nth i (snd st) 0) ->
  sumq (map (fun x => (evalP (fst st) (snd st) j x / d j) * (evalP (fst st) (snd st) k x / d k)) xs)
  = if Nat.eqb j k then (if Nat.eqb j 0 then sumq (map (fun _ => 1) xs) else 1) else 0.
Proof.
  intros Hnz Hj Hk st H0 Hd.
  assert (Hd0 : forall i, (i <= degree)%nat -> d i <> 0).
  { intros i Hi. destruct i as [|i]; [rewrite H0; discriminate|]. intros E. specialize (Hd (S i) ltac:(lia)).
    subst st. rewrite train_spec in Hd. cbn [snd] in Hd. rewrite nth_nrs in Hd by lia. apply (Hnz (S i) Hi). rewrite <- Hd, E. ring. }
  destruct (Nat.eqb j k) eqn:E.
  - apply Nat.eqb_eq in E. subst k. destruct j as [|j]; cbn [Nat.eqb].
    + cbn [evalP]. rewrite H0. apply f_equal. apply map_ext. intros x. field. discriminate.
    + apply (fitted_columns_unit_length degree (S j) (d (S j)) Hnz Hj). apply Hd. lia.
  - apply Nat.eqb_neq in E.
    assert (G : forall a b, (a < b)%nat -> (b <= degree)%nat ->
                sumq (map (fun x => (evalP (fst st) (snd st) a x / d a) * (evalP (fst st) (snd st) b x / d b)) xs) = 0).
    { intros a b Hab Hb.
      rewrite (map_ext _ (fun x => (/ (d a * d b)) * (evalP (fst st) (snd st) a x * evalP (fst st) (snd st) b x))).
      2:{ intros x. field. split; apply Hd0; lia. }
      rewrite sumq_scal. subst st. rewrite (fitted_columns_orthogonal degree a b Hnz Hab Hb). ring. }
    destruct (Nat.lt_ge_cases j k) as [L|L].
    + apply G; assumption.
    + rewrite (map_ext _ (fun x => (evalP (fst st) (snd st) k x / d k) * (evalP (fst st) (snd st) j x / d j))) by (intros; ring).
      apply G; lia.
Qed.
End Poly.

(* (poly-c) P_k is monic of exact degree k: P_k(x) = x^k + (a polynomial of degree < k); so the basis spans the raw powers *)
Fixpoint peval (c : list Qc) (x : Qc) : Qc := match c with [] => 0 | a :: r => a + x * peval r x end.
Fixpoint padd (a b : list Qc) : list Qc := match a, b with [], _ => b | _, [] => a | x :: a', y :: b' => (x + y) :: padd a' b' end.
Definition pscale (s : Qc) (a : list Qc) := map (Qcmult s) a.
Lemma peval_padd a : forall b x, peval (padd a b) x = peval a x + peval b x.
Proof. induction a as [|u a IH]; intros [|v b] x; cbn [padd peval]; try ring. rewrite IH. ring. Qed.
Lemma peval_pscale s a x : peval (pscale s a) x = s * peval a x.
Proof. induction a as [|u a IH]; cbn [pscale map peval]; [ring|]. unfold pscale in IH. rewrite IH. ring. Qed.
Lemma padd_length a : forall b, length (padd a b) = Nat.max (length a) (length b).
Proof. induction a as [|u a IH]; intros [|v b]; cbn [padd length]; try reflexivity. rewrite IH. reflexivity. Qed.
Fixpoint qpow (x : Qc) (k : nat) : Qc := match k with O => 1 | S k' => x * qpow x k' end.

Theorem P_monic xs : forall k, (exists c, length c = k /\ forall x, P xs k x = qpow x k + peval c x) /\
                               (exists c, length c = S k /\ forall x, P xs (S k) x = qpow x (S k) + peval c x).
Proof.
  induction k as [|k [[c0 [L0 E0]] [c1 [L1 E1]]]].
  - split.
    + exists []. split; [reflexivity|]. intros x. cbn. ring.
    + exists [- alpha xs 0]. split; [reflexivity|]. intros x. rewrite P1. cbn [P qpow peval]. ring.
  - split; [exists c1; split; assumption|].
    (* P_{k+2} = (x - a) P_{k+1} - b P_k *)
    exists (padd (padd (0 :: c1) (pscale (- alpha xs (S k)) (c1 ++ [1]))) (pscale (- beta xs (S k)) (c0 ++ [1]))).
    split.
    + rewrite !padd_length. unfold pscale. rewrite !map_length, !app_length. cbn [length]. rewrite L0, L1. lia.
    + intros x. rewrite PSS, E1, E0, !peval_padd, !peval_pscale.
      assert (Hsn : forall c k', length c = k' -> peval (c ++ [1]) x = peval c x + qpow x k').
      { induction c as [|a c IHc]; intros k' Hl; cbn [app peval length] in *.
        - subst. cbn. ring.
        - destruct k' as [|k'']; [discriminate|]. injection Hl as Hl. rewrite (IHc k'' Hl). cbn [qpow]. ring. }
      rewrite (Hsn c1 (S k) L1), (Hsn c0 k L0). cbn [peval qpow]. ring.
Qed.

(* the code records alpha_0..alpha_{degree-1} only: dropping the unused last alpha changes nothing *)
Lemma nth_firstn_lt (l : list Qc) : forall d i, (i < d)%nat -> nth i (firstn d l) 0 = nth i l 0.
Proof. induction l as [|a l IH]; intros [|d] [|i] H; cbn [firstn nth]; try reflexivity; try lia. apply IH. lia. Qed.
Lemma evalP_firstn al nr d x : forall k, (k <= d)%nat ->
  evalP (firstn d al) nr k x = evalP al nr k x /\ (forall k', (k' <= k)%nat -> evalP (firstn d al) nr k' x = evalP al nr k' x).
Proof.
  induction k as [|k IH]; intros Hk.
  - split; [reflexivity|]. intros k' Hk'. assert (k' = 0%nat) by lia. subst. reflexivity.
  - destruct (IH ltac:(lia)) as [IH1 IH2].
    assert (Hcur : evalP (firstn d al) nr (S k) x = evalP al nr (S k) x).
    { destruct k as [|k''].
      - cbn [evalP]. rewrite nth_firstn_lt by lia. reflexivity.
      - rewrite !evalP_SS. rewrite nth_firstn_lt by lia. rewrite IH1, (IH2 k'') by lia. reflexivity. }
    split; [exact Hcur|]. intros k' Hk'. destruct (Nat.eq_dec k' (S k)) as [->|Hne]; [exact Hcur | apply IH2; lia].
Qed.
Theorem fit_evalP xs degree k x : (k <= degree)%nat ->
  evalP (fst (fit xs degree)) (snd (fit xs degree)) k x = P xs k x.
Proof.
  intros Hk. unfold fit. rewrite train_spec. cbn [fst snd].
  rewrite (proj1 (evalP_firstn (als xs (S degree)) (nrs xs (S degree)) degree x k Hk)).
  apply evalP_is_P. lia.
Qed.
(* null rows stay null and do not influence the statistics; non-null rows are the fitted polynomial at that row's value *)
Theorem poly_rows degree data i : 
  nth_error (poly_fit_apply degree data) i =
  match nth_error data i with
  | None => None
  | Some None => Some None
  | Some (Some x) => Some (Some (map (fun k => P (nonnull data) k x) (seq 1 degree)))
  end.
Proof.
  unfold poly_fit_apply, apply_raw. rewrite nth_error_map.
  destruct (nth_error data i) as [[x|]|]; cbn [option_map]; try reflexivity.
  do 2 f_equal. apply map_ext_in. intros k Hk. apply in_seq in Hk. apply fit_evalP. lia.
Qed.
