(* ===== SpannedOrder.v : the set of already-spanned terms is used through membership only (C18: no dependence on set iteration order) ===== *)
From Coq Require Import List NArith ZArith QArith Qcanon Bool Arith Lia Permutation.
Import ListNotations.
Require Import Mat.

Lemma mem_st_perm s a b : Permutation a b -> mem_st s a = mem_st s b.
Proof.
  intro P. unfold mem_st. apply eq_true_iff_eq. rewrite !existsb_exists. split; intros (u & Hu & He); exists u; split; auto.
  - eapply Permutation_in; eauto.
  - eapply Permutation_in; [apply Permutation_sym; exact P | exact Hu].
Qed.

(* one step of _get_scoped_terms: the scoped terms recorded for the term are the same whatever the order of `spanned`, and the new
   `spanned` holds the same terms *)
Theorem scope_step_perm fr evs done sp sp' t : Permutation sp sp' ->
  fst (scope_step fr evs (done, sp) t) = fst (scope_step fr evs (done, sp') t) /\
  Permutation (snd (scope_step fr evs (done, sp) t)) (snd (scope_step fr evs (done, sp') t)).
Proof.
  intro P. unfold scope_step. destruct (evf_of evs t) as [|e r] eqn:E; [split; [reflexivity | exact P]|].
  destruct (has_zero (e :: r)); [split; [reflexivity | exact P]|]. destruct fr; [|split; [reflexivity | exact P]].
  assert (F : filter (fun s => negb (mem_st s sp)) (spanned_by (e :: r)) = filter (fun s => negb (mem_st s sp')) (spanned_by (e :: r))).
  { apply filter_ext. intro s. rewrite (mem_st_perm s sp sp' P). reflexivity. }
  cbn [fst snd]. rewrite F. split; [reflexivity | apply Permutation_app_tail, P].
Qed.
Theorem scoped_terms_ignore_spanned_order fr evs terms : forall done sp sp', Permutation sp sp' ->
  fst (fold_left (scope_step fr evs) terms (done, sp)) = fst (fold_left (scope_step fr evs) terms (done, sp')).
Proof.
  induction terms as [|t r IH]; intros done sp sp' P; cbn [fold_left]; [reflexivity|].
  destruct (scope_step_perm fr evs done sp sp' t P) as [H1 H2].
  destruct (scope_step fr evs (done, sp) t) as [d1 s1], (scope_step fr evs (done, sp') t) as [d2 s2]. cbn [fst snd] in H1, H2. subst d2.
  apply IH, H2.
Qed.

(* ---------- the evaluated factor pool is read by name only ---------- *)
Require Import MatDrop MatParts MatSep.
Lemma lookup_ev_in evs e v : NoDup (map fst evs) -> (lookup_ev evs e = Some v <-> In (e, v) evs).
Proof.
  induction evs as [|[k w] r IH]; intro Hnd; cbn [lookup_ev]; [split; [discriminate | intros []]|].
  inversion Hnd as [|? ? Hk Hr]; subst. destruct (leqb k e) eqn:E.
  - apply leqb_eq in E. subst k. split.
    + intro H. inversion H; subst. left. reflexivity.
    + intros [H|H]; [inversion H; reflexivity|]. exfalso. apply Hk. apply (in_map fst) in H. exact H.
  - rewrite (IH Hr). split; [intro H; right; exact H|]. intros [H|H]; [|exact H]. inversion H; subst. rewrite leqb_refl in E. discriminate.
Qed.
Lemma lookup_ev_perm evs evs' e : NoDup (map fst evs) -> Permutation evs evs' -> lookup_ev evs e = lookup_ev evs' e.
Proof.
  intros Hnd P. assert (Hnd' : NoDup (map fst evs')) by (eapply Permutation_NoDup; [apply Permutation_map, P | exact Hnd]).
  destruct (lookup_ev evs e) as [v|] eqn:E1.
  - apply (lookup_ev_in evs e v Hnd) in E1. symmetry. apply (lookup_ev_in evs' e v Hnd'). eapply Permutation_in; eauto.
  - destruct (lookup_ev evs' e) as [v|] eqn:E2; [|reflexivity].
    apply (lookup_ev_in evs' e v Hnd') in E2. apply (Permutation_in _ (Permutation_sym P)) in E2.
    apply (lookup_ev_in evs e v Hnd) in E2. congruence.
Qed.
(* so the whole assembled result -- names, values, column order, dropped rows, structure -- is the same for every iteration order of the pool *)
Theorem assemble_pool_order evs evs' c n terms : NoDup (map fst evs) -> Permutation evs evs' ->
  assemble evs (drop_set c evs) n (full_rank c) terms = assemble evs' (drop_set c evs') n (full_rank c) terms.
Proof.
  intros Hnd P. rewrite <- (drop_set_order_independent c evs evs' P). apply assemble_ext.
  intros f _. apply lookup_ev_perm; assumption.
Qed.
