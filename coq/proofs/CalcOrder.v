(* ===== CalcOrder.v : the order of the differentiation variables does not matter; closed form of the result (C20) ===== *)
From Coq Require Import List Arith Bool QArith Qcanon Lia NArith Permutation.
Import ListNotations.
Require Import Struct StructLaws Calc CalcLaws.

Lemma keqb_false a b : keqb a b = false <-> a <> b.
Proof. split; [intros H E; subst; rewrite keqb_refl in H; discriminate | intro H; destruct (keqb a b) eqn:E; [apply keqb_eq in E; contradiction | reflexivity]]. Qed.
Lemma mem_remove_other v w fs : v <> w -> mem w (remove v fs) = mem w fs.
Proof.
  intro H. induction fs as [|f r IH]; [reflexivity|]. unfold remove. cbn [filter]. fold (remove v r).
  destruct (keqb f v) eqn:E; cbn [negb].
  - apply keqb_eq in E. subst f. cbn [mem existsb]. fold (mem w r). assert (keqb w v = false) as -> by (apply keqb_false; congruence). exact IH.
  - cbn [mem existsb]. fold (mem w (remove v r)) (mem w r). rewrite IH. reflexivity.
Qed.
Lemma remove_comm v w fs : remove v (remove w fs) = remove w (remove v fs).
Proof.
  unfold remove. induction fs as [|f r IH]; [reflexivity|]. cbn [filter].
  destruct (keqb f w) eqn:Ew, (keqb f v) eqn:Ev; cbn [negb filter]; rewrite ?Ew, ?Ev; cbn [negb]; rewrite IH; reflexivity.
Qed.

Theorem diff_swap fs v w r : diff fs (v :: w :: r) = diff fs (w :: v :: r).
Proof.
  destruct (keqb v w) eqn:E; [apply keqb_eq in E; subst; reflexivity|]. apply keqb_false in E.
  cbn [diff]. rewrite (mem_remove_other v w fs E), (mem_remove_other w v fs (not_eq_sym E)).
  destruct (mem v fs), (mem w fs); try reflexivity. rewrite remove_comm. reflexivity.
Qed.
(* mixed partial derivatives commute: any reordering of the variables gives the same term *)
Theorem diff_perm wrt wrt' : Permutation wrt wrt' -> forall fs, diff fs wrt = diff fs wrt'.
Proof.
  induction 1 as [|x l l' _ IH|x y l|l l' l'' _ IH1 _ IH2]; intro fs.
  - reflexivity.
  - cbn [diff]. destruct (mem x fs); [apply IH | reflexivity].
  - apply diff_swap.
  - rewrite IH1. apply IH2.
Qed.
Corollary diff_formula_perm ts wrt wrt' : Permutation wrt wrt' -> diff_formula ts wrt = diff_formula ts wrt'.
Proof. intro P. unfold diff_formula. apply map_ext. intro t. apply diff_perm, P. Qed.

(* closed form: non-zero exactly when the variables are distinct factors of the term, and then the term without them *)
Theorem diff_nonzero_iff fs wrt : (exists fs', diff fs wrt = DTerm fs') <-> NoDup wrt /\ forall v, In v wrt -> mem v fs = true.
Proof.
  revert fs. induction wrt as [|v r IH]; intro fs; cbn [diff].
  - split; [intros _; split; [constructor | intros v []] | intros _; eexists; reflexivity].
  - destruct (mem v fs) eqn:M.
    + rewrite IH. split.
      * intros [Hnd Hall]. split.
        -- constructor; [|exact Hnd]. intro Hin. specialize (Hall v Hin). rewrite mem_remove in Hall. discriminate.
        -- intros w [<-|Hw]; [exact M|]. specialize (Hall w Hw). destruct (keqb v w) eqn:E; [apply keqb_eq in E; subst; rewrite mem_remove in Hall; discriminate|].
           apply keqb_false in E. rewrite (mem_remove_other v w fs E) in Hall. exact Hall.
      * intros [Hnd Hall]. inversion Hnd as [|? ? Hv Hr]; subst. split; [exact Hr|]. intros w Hw.
        assert (v <> w) by (intro; subst; contradiction). rewrite (mem_remove_other v w fs H). apply Hall. right. exact Hw.
    + split; [intros [fs' H]; discriminate|]. intros [_ Hall]. specialize (Hall v (or_introl eq_refl)). congruence.
Qed.
Theorem diff_value fs : forall wrt fs', diff fs wrt = DTerm fs' -> fs' = filter (fun x => negb (mem x wrt)) fs.
Proof.
  intros wrt. revert fs. induction wrt as [|v r IH]; intros fs fs' H; cbn [diff] in H.
  - inversion H; subst. clear H. symmetry. induction fs' as [|f r IH]; [reflexivity|]. cbn [filter mem existsb negb]. f_equal. exact IH.
  - destruct (mem v fs); [|discriminate]. rewrite (IH _ _ H). unfold remove. clear. induction fs as [|f t IH]; [reflexivity|].
    cbn [filter]. cbn [mem existsb]. fold (mem f r). destruct (keqb f v); cbn [negb orb filter]; [exact IH|]. destruct (mem f r); cbn [negb]; [exact IH | f_equal; exact IH].
Qed.
