(* ===== TokWs.v ===== *)
From Coq Require Import List NArith Bool Arith Lia.
Import ListNotations.
Require Import Tok TokEr.
Open Scope N_scope.

Section WS.
Variable cl : N -> cls.

Definition special (c : N) : bool :=
  (c =? cPCT) || (c =? cLB) || (c =? cBT) || (c =? cLP) || (c =? cLS) || (c =? cRP) || (c =? cRS).
Definition is_ws (w : N) : bool := is_space (cl w) && negb (special w).

Definition ws_state (s : tstate) : tstate :=
  if truthy (cur s) && negb (kind_is (cur s) KOperator) then yield_cur s else s.

Lemma ws_step s i w : qc s = [] -> take s = 0%nat -> is_ws w = true -> step cl s i w = inl (ws_state s).
Proof.
  destruct s as [q t cu o]. cbn [qc take]. intros -> -> Hw.
  unfold is_ws, special in Hw. apply andb_true_iff in Hw as [Hs Hn]. apply negb_true_iff in Hn.
  repeat (apply orb_false_iff in Hn as [Hn ?]).
  unfold step, ws_state. cbn [qc take cur out].
  rewrite Hn, H4, H3. rewrite H2, H1. cbn [orb]. rewrite H0, H. cbn [orb]. rewrite Hs.
  destruct (truthy cu && negb (kind_is cu KOperator)); reflexivity.
Qed.

Lemma ws_state_qc s : qc (ws_state s) = qc s /\ take (ws_state s) = take s.
Proof. unfold ws_state, yield_cur. destruct (truthy (cur s) && negb (kind_is (cur s) KOperator)); [destruct (truthy (cur s))|]; auto. Qed.

(* erased runs *)
Lemma inl_inj0 {A B} (x y : A) : @inl A B x = inl y -> x = y.
Proof. congruence. Qed.
Lemma run_er s s' i j l : er_state s = er_state s' -> er_res (run cl s i l) = er_res (run cl s' j l).
Proof.
  revert s s' i j. induction l as [|c l IH]; intros s s' i j H; cbn [run]; [cbn; rewrite H; reflexivity|].
  pose proof (step_er cl s s' i j c H) as Hs.
  destruct (step cl s i c) as [s1|e1], (step cl s' j c) as [s1'|e1']; cbn in Hs; try discriminate.
  - apply IH. apply inl_inj0 in Hs. exact Hs.
  - cbn. congruence.
Qed.

Lemma run_app s i a b : run cl s i (a ++ b) =
  match run cl s i a with inl s' => run cl s' (i + length a) b | inr e => inr e end.
Proof.
  revert s i. induction a as [|c a IH]; intros s i; cbn [app run length].
  - rewrite Nat.add_0_r. reflexivity.
  - destruct (step cl s i c); [|reflexivity]. rewrite IH. replace (S i + length a)%nat with (i + S (length a))%nat by lia. reflexivity.
Qed.

Definition er_fin (r : tstate + terr) : list (list N * option kind) + terr :=
  match r with
  | inr e => inr e
  | inl s => match qc s with _ :: _ => inr EUnterminated | [] => inl (map er_tok (rev (if truthy (cur s) then cur s :: out s else out s))) end
  end.
Definition er_out (r : list token + terr) := match r with inl ts => inl (map er_tok ts) | inr e => inr e end.
Lemma tokenize_er l : er_out (tokenize cl l) = er_fin (run cl init 0 l).
Proof. unfold tokenize. destruct (run cl init 0 l) as [s|e]; cbn; [|reflexivity]. destruct (qc s); reflexivity. Qed.

Lemma inl_inj {A B} (x y : A) : @inl A B x = inl y -> x = y.
Proof. congruence. Qed.

Lemma er_fin_er r r' : er_res r = er_res r' -> er_fin r = er_fin r'.
Proof.
  destruct r as [s|e], r' as [s'|e']; cbn; try congruence. intros H. apply inl_inj in H.
  apply er_state_inv in H as (Hq & _ & Hc & Ho). rewrite Hq. destruct (qc s'); [|reflexivity].
  rewrite (truthy_er _ _ Hc). f_equal. rewrite !map_rev. f_equal.
  destruct (truthy (cur s')); cbn [map]; congruence.
Qed.

(* the junction condition: the next character does to the whitespace-flushed state what it does to the original *)
Definition boundary (s : tstate) (next : option N) : Prop :=
  match next with
  | Some c => er_res (step cl (ws_state s) 0 c) = er_res (step cl s 0 c)
  | None => er_fin (inl (ws_state s)) = er_fin (inl s)
  end.

Theorem ws_insensitive l1 w l2 s :
  run cl init 0 l1 = inl s -> qc s = [] -> take s = 0%nat -> is_ws w = true -> boundary s (hd_error l2) ->
  er_out (tokenize cl (l1 ++ w :: l2)) = er_out (tokenize cl (l1 ++ l2)).
Proof.
  intros Hrun Hq Ht Hw Hb. rewrite !tokenize_er, !run_app, Hrun.
  cbn [run]. rewrite (ws_step s _ w Hq Ht Hw).
  destruct l2 as [|c r]; cbn [hd_error] in Hb.
  - cbn [run]. exact Hb.
  - cbn [run]. apply er_fin_er.
    pose proof (step_er cl (ws_state s) (ws_state s) (S (0 + length l1)) 0 c eq_refl) as E1.
    pose proof (step_er cl s s (0 + length l1) 0 c eq_refl) as E2.
    assert (E : er_res (step cl (ws_state s) (S (0 + length l1)) c) = er_res (step cl s (0 + length l1) c)) by congruence.
    destruct (step cl (ws_state s) (S (0 + length l1)) c) as [a|ea], (step cl s (0 + length l1) c) as [b|eb]; cbn in E; try discriminate.
    + apply run_er. apply inl_inj in E. exact E.
    + cbn. congruence.
Qed.

(* syntactic sufficient conditions for [boundary] *)
Lemma boundary_falsy s n : truthy (cur s) = false -> boundary s n.
Proof. intros H. unfold boundary, ws_state. rewrite H. destruct n; reflexivity. Qed.
Lemma boundary_operator s n : kind_is (cur s) KOperator = true -> boundary s n.
Proof. intros H. unfold boundary, ws_state. rewrite H, andb_false_r. destruct n; reflexivity. Qed.
Lemma boundary_end s : qc s = [] -> boundary s None.
Proof.
  intros Hq. unfold boundary, ws_state.
  destruct (truthy (cur s) && negb (kind_is (cur s) KOperator)) eqn:E; [|reflexivity].
  apply andb_true_iff in E as [E1 _]. unfold yield_cur. rewrite E1. unfold er_fin. cbn [qc cur out truthy fresh ttext].
  rewrite Hq, E1. reflexivity.
Qed.

(* the next character is an operator character (none of the special, space, quote or word classes) *)
Definition is_opchar (c : N) : bool :=
  negb (special c) && negb (is_space (cl c)) && negb ((c =? cDQ) || (c =? cSQ)) && negb (is_word (cl c)).
Lemma boundary_opchar s c : qc s = [] -> take s = 0%nat -> is_opchar c = true -> boundary s (Some c).
Proof.
  intros Hq Ht Hc. unfold boundary, ws_state.
  destruct (truthy (cur s) && negb (kind_is (cur s) KOperator)) eqn:E; [|reflexivity].
  apply andb_true_iff in E as [E1 E2].
  unfold is_opchar, special in Hc.
  repeat (apply andb_true_iff in Hc as [Hc ?]). repeat match goal with H : negb _ = true |- _ => apply negb_true_iff in H end.
  repeat (match goal with H : _ || _ = false |- _ => apply orb_false_iff in H as [? ?] end).
  destruct s as [q t cu o]. cbn [qc take cur out] in *. subst q t.
  unfold step, yield_cur. cbn [qc take cur out]. rewrite E1.
  cbn [qc take cur out].
  repeat match goal with H : (c =? _) = false |- _ => rewrite H end. cbn [orb].
  repeat match goal with H : is_space _ = false |- _ => rewrite H | H : is_word _ = false |- _ => rewrite H end.
  rewrite E2. cbn. reflexivity.
Qed.
End WS.
Print Assumptions ws_insensitive.
