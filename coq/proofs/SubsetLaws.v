(* ===== SubsetLaws.v : ModelSpec.subset / get_term_indices / variable_indices (C10) ===== *)
From Coq Require Import List NArith Bool Arith Lia Permutation.
Import ListNotations.
Require Import StrOrder Struct StructLaws SpecMeta SpecMetaLaws.
Open Scope nat_scope.

Definition keys (rows : list srow) := map (fun r => tkey (r_factors r)) rows.
Definition lens (rows : list srow) := map (fun r => length (r_cols r)) rows.
Definition start_of (rows : list srow) (i : nat) := fold_right Nat.add 0 (firstn i (lens rows)).

Lemma key_dec (a b : list sstr) : {a = b} + {a <> b}.
Proof. apply list_eq_dec, list_eq_dec, N.eq_dec. Qed.

(* the Term-keyed table of rows binds a key exactly to the row that carries it *)
Lemma row_table_get rows k x : NoDup (keys rows) -> tdget k (row_table rows) = Some x ->
  exists i, nth_error rows i = Some x /\ tkey (r_factors x) = k.
Proof.
  intros Hnd H. unfold row_table in H.
  destruct (in_dec key_dec k (keys rows)) as [Hin|Hout].
  - unfold keys in Hin. apply in_map_iff in Hin as (r & <- & Hr). apply In_nth_error in Hr as [i Hi].
    rewrite (table_get rows rows [] i r Hnd Hi eq_refl) in H. exists i. rewrite Hi in H. inversion H; subst. split; [exact Hi | reflexivity].
  - rewrite (table_get_none k rows rows [] Hout) in H. discriminate.
Qed.
Lemma row_table_complete rows i r : NoDup (keys rows) -> nth_error rows i = Some r -> tdget (tkey (r_factors r)) (row_table rows) = Some r.
Proof. intros Hnd Hi. unfold row_table. rewrite (table_get rows rows [] i r Hnd Hi eq_refl). exact Hi. Qed.

(* the subset holds the rows of the chosen terms, in the order chosen *)
Theorem subset_rows rows : NoDup (keys rows) -> forall chosen sub, subset rows chosen = Some sub ->
  Forall2 (fun c x => exists i, nth_error rows i = Some x /\ tkey (r_factors x) = tkey c) chosen sub.
Proof.
  intros Hnd. induction chosen as [|c cs IH]; intros sub H; cbn [subset] in H.
  - inversion H. constructor.
  - destruct (tdget (tkey c) (row_table rows)) as [x|] eqn:E; [|discriminate].
    destruct (subset rows cs) as [xs|] eqn:E2; [|discriminate]. inversion H; subst.
    constructor; [exact (row_table_get rows _ x Hnd E) | apply IH; reflexivity].
Qed.
Corollary subset_keeps_chosen_order rows chosen sub : NoDup (keys rows) -> subset rows chosen = Some sub -> keys sub = map tkey chosen.
Proof.
  intros Hnd H. pose proof (subset_rows rows Hnd chosen sub H) as F. clear H. unfold keys.
  induction F as [|c x cs xs Hx _ IH]; cbn [map]; [reflexivity|]. destruct Hx as (i & _ & Hk). rewrite Hk, IH. reflexivity.
Qed.
(* it is defined exactly when every chosen term is a term of the spec *)
Theorem subset_defined_iff rows chosen : NoDup (keys rows) ->
  (exists sub, subset rows chosen = Some sub) <-> Forall (fun c => In (tkey c) (keys rows)) chosen.
Proof.
  intros Hnd. induction chosen as [|c cs IH]; cbn [subset].
  - split; [constructor | eexists; reflexivity].
  - split.
    + intros [sub H]. destruct (tdget (tkey c) (row_table rows)) as [x|] eqn:E; [|discriminate].
      destruct (subset rows cs) as [xs|] eqn:E2; [|discriminate]. constructor.
      * destruct (row_table_get rows _ x Hnd E) as (i & Hi & Hk). rewrite <- Hk. unfold keys. apply (in_map (fun r => tkey (r_factors r))), (nth_error_In _ _ Hi).
      * apply IH. eexists; reflexivity.
    + intros H. inversion H as [|? ? Hc Hcs]; subst. apply IH in Hcs as [xs ->].
      unfold keys in Hc. apply in_map_iff in Hc as (r & Hk & Hr). apply In_nth_error in Hr as [i Hi].
      rewrite <- Hk, (row_table_complete rows i r Hnd Hi). eexists; reflexivity.
Qed.

(* the names the parent reports at the positions of row i are that row's column names *)
Lemma nth_error_app_shift {A} (a b : list A) s n : map (nth_error (a ++ b)) (seq (length a + s) n) = map (nth_error b) (seq s n).
Proof.
  revert s. induction n as [|n IH]; intro s; cbn [seq map]; [reflexivity|].
  rewrite nth_error_app2 by lia. replace (length a + s - length a) with s by lia. f_equal.
  replace (S (length a + s)) with (length a + S s) by lia. apply IH.
Qed.
Lemma nth_error_prefix {A} (a b : list A) : map (nth_error (a ++ b)) (seq 0 (length a)) = map Some a.
Proof.
  revert b. induction a as [|x a IH]; intro b; cbn [length seq map app]; [reflexivity|]. cbn [nth_error]. f_equal.
  rewrite <- seq_shift, map_map. cbn [nth_error]. apply IH.
Qed.
Lemma names_at_row rows : forall i r, nth_error rows i = Some r ->
  map (nth_error (column_names rows)) (seq (start_of rows i) (length (r_cols r))) = map Some (r_cols r).
Proof.
  unfold column_names, start_of, lens. induction rows as [|r0 rs IH]; intros [|i] r H; cbn in H; try discriminate.
  - inversion H; subst. cbn [map concat firstn fold_right]. apply nth_error_prefix.
  - cbn [map concat firstn fold_right]. rewrite nth_error_app_shift. apply IH, H.
Qed.
Lemma lookup_term_row rows i r c : NoDup (keys rows) -> nth_error rows i = Some r -> tkey (r_factors r) = tkey c ->
  lookup_term rows c = Some (seq (start_of rows i) (length (r_cols r))).
Proof.
  intros Hnd Hi Hk. unfold lookup_term. rewrite <- Hk. fold (lookup_term rows (r_factors r)).
  rewrite (lookup_term_exact rows i r Hnd Hi).
  apply (ranges_each (lens rows) 0 i (length (r_cols r))). unfold lens. rewrite nth_error_map, Hi. reflexivity.
Qed.

(* ModelSpec.subset regenerates the parent's columns for the chosen terms: its column names are exactly the parent's names at the
   parent's positions of those terms (get_term_indices), in the order chosen *)
Theorem subset_is_parent_columns rows : NoDup (keys rows) -> forall chosen sub, subset rows chosen = Some sub ->
  exists ix, get_term_indices rows chosen = Some ix /\ map (nth_error (column_names rows)) ix = map Some (column_names sub).
Proof.
  intros Hnd. induction chosen as [|c cs IH]; intros sub H; cbn [subset] in H.
  - inversion H. exists []. split; reflexivity.
  - destruct (tdget (tkey c) (row_table rows)) as [x|] eqn:E; [|discriminate].
    destruct (subset rows cs) as [xs|] eqn:E2; [|discriminate]. inversion H; subst.
    destruct (IH xs eq_refl) as (ix & Hix & Hn). destruct (row_table_get rows _ x Hnd E) as (i & Hi & Hk).
    exists (seq (start_of rows i) (length (r_cols x)) ++ ix). cbn [get_term_indices].
    rewrite (lookup_term_row rows i x c Hnd Hi Hk), Hix. split; [reflexivity|].
    unfold column_names at 2. cbn [map concat]. rewrite !map_app. f_equal; [apply names_at_row, Hi | exact Hn].
Qed.

(* variable_indices: exactly the positions of the columns of the terms that use the variable *)
Lemma ins_nat_In x l j : In j (ins_nat x l) <-> j = x \/ In j l.
Proof.
  induction l as [|y r IH]; cbn [ins_nat]; [cbn; intuition congruence|].
  destruct (x <? y); [cbn; intuition congruence|]. destruct (x =? y) eqn:E.
  - apply Nat.eqb_eq in E. subst. cbn. intuition congruence.
  - cbn [In]. rewrite IH. intuition congruence.
Qed.
Lemma fold_ins_In l j : In j (fold_right ins_nat [] l) <-> In j l.
Proof. induction l as [|x r IH]; cbn [fold_right]; [tauto|]. rewrite ins_nat_In, IH. cbn. intuition congruence. Qed.
Theorem variable_indices_exact rows v j : NoDup (keys rows) ->
  In j (variable_indices rows v) <->
  exists i r, nth_error rows i = Some r /\ uses v r = true /\ start_of rows i <= j < start_of rows i + length (r_cols r).
Proof.
  intros Hnd. unfold variable_indices. rewrite fold_ins_In, in_flat_map. split.
  - intros (r & Hr & Hj). apply In_nth_error in Hr as [i Hi]. destruct (uses v r) eqn:U; [|destruct Hj].
    rewrite (lookup_term_row rows i r (r_factors r) Hnd Hi eq_refl) in Hj. apply in_seq in Hj. exists i, r. auto.
  - intros (i & r & Hi & U & Hj). exists r. split; [exact (nth_error_In _ _ Hi)|]. rewrite U.
    rewrite (lookup_term_row rows i r (r_factors r) Hnd Hi eq_refl). apply in_seq. exact Hj.
Qed.

(* term_slices: the slice of a term is exactly its contiguous range (empty terms give the empty slice at 0) *)
Theorem slice_of_range a n : slice_of (seq a (S n)) = (a, a + S n).
Proof.
  unfold slice_of. cbn [seq]. f_equal. assert (L : forall m b d, last (seq b (S m)) d = b + m).
  { induction m as [|m IH]; intros b d; [cbn; lia|]. change (seq b (S (S m))) with (b :: seq (S b) (S m)).
    assert (E : seq (S b) (S m) <> []) by discriminate. destruct (seq (S b) (S m)) as [|x r] eqn:Es; [contradiction|].
    change (last (b :: x :: r) d) with (last (x :: r) d). rewrite <- Es, IH. lia. }
  change (a :: seq (S a) n) with (seq a (S n)). rewrite L. lia.
Qed.
Theorem slice_of_empty : slice_of [] = (0, 0).
Proof. reflexivity. Qed.
Corollary term_slice_exact rows i r c n : NoDup (keys rows) -> nth_error rows i = Some r -> tkey (r_factors r) = tkey c -> length (r_cols r) = S n ->
  option_map slice_of (lookup_term rows c) = Some (start_of rows i, start_of rows i + S n).
Proof. intros Hnd Hi Hk Hl. rewrite (lookup_term_row rows i r c Hnd Hi Hk), Hl. cbn [option_map]. rewrite slice_of_range. reflexivity. Qed.
