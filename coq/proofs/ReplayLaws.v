(* ===== ReplayLaws.v : what reusing a spec can and cannot change (C04, C09) ===== *)
From Coq Require Import List NArith ZArith QArith Qcanon Bool Arith Lia.
Import ListNotations.
Require Import Mat Mat2.
Open Scope nat_scope.

Lemma leqb_refl (a : str) : leqb a a = true.
Proof. induction a; cbn; auto. rewrite N.eqb_refl; auto. Qed.
Lemma leqb_eq (a b : str) : leqb a b = true -> a = b.
Proof.
  revert b; induction a as [|x a IH]; destruct b as [|y b]; cbn; intro H; try discriminate; auto.
  apply andb_true_iff in H as [H1 H2]. apply N.eqb_eq in H1. subst. f_equal. auto.
Qed.
Lemma leqb_sym (a b : str) : leqb a b = leqb b a.
Proof.
  destruct (leqb a b) eqn:E. apply leqb_eq in E; subst; symmetry; apply leqb_refl.
  destruct (leqb b a) eqn:E'; auto. apply leqb_eq in E'; subst. rewrite leqb_refl in E. discriminate.
Qed.

(* ---------- python dict keys under update ---------- *)
Definition add_key (ks : list str) (k : str) : list str := if mem_s k ks then ks else ks ++ [k].
Definition okeys (ks new : list str) : list str := fold_left add_key new ks.

Lemma dict_set_keys (d : list (str * column)) k v : map fst (dict_set d k v) = add_key (map fst d) k.
Proof.
  unfold add_key, mem_s. induction d as [|[k' v'] r IH]; cbn; auto.
  rewrite (leqb_sym k k'). destruct (leqb k' k) eqn:E; cbn; auto.
  rewrite IH. destruct (existsb (leqb k) (map fst r)); reflexivity.
Qed.
Lemma dict_update_keys (d kv : list (str * column)) : map fst (dict_update d kv) = okeys (map fst d) (map fst kv).
Proof.
  unfold dict_update, okeys. revert d. induction kv as [|[k v] r IH]; intro d; cbn; auto.
  rewrite IH, dict_set_keys. reflexivity.
Qed.

(* ---------- _enforce_structure returns exactly the recorded column names, in the recorded order ---------- *)
Lemma enforce_names gen target n cols : enforce gen target n = inl cols -> map fst cols = target.
Proof.
  unfold enforce. destruct (length target <? length gen); [discriminate|].
  destruct (length gen <? length target).
  - destruct gen as [|[k c] [|g2 gr]]; try discriminate; intro H; inversion H; rewrite map_map; apply map_id.
  - destruct (_ && _); [|discriminate]. intro H; inversion H. rewrite map_map. apply map_id.
Qed.

(* the names a spec can produce are a function of the spec alone *)
Definition spec_names (sp : spec) : list str := fold_left okeys (map snd (sp_struct sp)) [].

Lemma replay_terms_names sp evs drop nkeep l : forall acc final,
  replay_terms sp evs drop nkeep l acc = inl final -> map fst final = fold_left okeys (map snd l) (map fst acc).
Proof.
  induction l as [|[sts target] r IH]; intros acc final; cbn [replay_terms map fold_left snd].
  - intro H; inversion H; reflexivity.
  - destruct (enforce _ target nkeep) as [cols|e] eqn:E; [|discriminate].
    intro H. rewrite (IH _ _ H). rewrite dict_update_keys. rewrite (enforce_names _ _ _ _ E). reflexivity.
Qed.

(* On ANY data on which reuse succeeds, the column names are the recorded ones in the recorded order: levels absent from
   the new data still produce their columns, unseen levels never add, remove or rename a column. *)
Theorem replay_names_fixed sp d n caller names cols drop :
  replay sp d n caller = inl (names, cols, drop) -> names = spec_names sp /\ length cols = length names.
Proof.
  unfold replay. destruct (eval_pool d (pool_of (sp_terms sp)) []) as [evs|e]; [|discriminate].
  destruct (negb (forallb (kind_ok (sp_enc sp)) evs)); [discriminate|].
  set (c := {| full_rank := full_rank (sp_cfg sp); na_action := na_action (sp_cfg sp); caller_drop := caller |}).
  assert (G : forall dr nk, match replay_terms sp evs dr nk (sp_struct sp) [] with
                            | inr e => inr e | inl final => inl (map fst final, map snd final, dr) end = inl (names, cols, drop) ->
                            names = spec_names sp /\ length cols = length names).
  { intros dr nk. destruct (replay_terms sp evs dr nk (sp_struct sp) []) as [final|e] eqn:E; [|discriminate].
    intro H; inversion H; subst. split; [apply (replay_terms_names _ _ _ _ _ _ _ E) | rewrite !map_length; reflexivity]. }
  destruct (na_action c); destruct (all_nulls evs); try discriminate; apply G.
Qed.

(* a factor whose kind differs from the recorded kind makes reuse fail with the encoding error -- never a matrix *)
Theorem kind_change_is_error sp d n caller evs :
  eval_pool d (pool_of (sp_terms sp)) [] = inl evs -> forallb (kind_ok (sp_enc sp)) evs = false ->
  replay sp d n caller = inr RKind.
Proof. intros He Hk. unfold replay. rewrite He, Hk. reflexivity. Qed.
Theorem kind_error_only_for_kind_change sp d n caller :
  replay sp d n caller = inr RKind ->
  exists evs, eval_pool d (pool_of (sp_terms sp)) [] = inl evs /\ exists p, In p evs /\ kind_ok (sp_enc sp) p = false.
Proof.
  unfold replay. destruct (eval_pool d (pool_of (sp_terms sp)) []) as [evs|e] eqn:Ee; [|discriminate].
  destruct (forallb (kind_ok (sp_enc sp)) evs) eqn:Ek; cbn [negb].
  - assert (G : forall dr nk, match replay_terms sp evs dr nk (sp_struct sp) [] with
                              | inr e => inr e | inl final => inl (map fst final, map snd final, dr) end <> inr RKind).
    { intros dr nk. destruct (replay_terms sp evs dr nk (sp_struct sp) []) as [final|e] eqn:E; [discriminate|].
      intro H; inversion H; subst.
      (* replay_terms raises only the three structure errors *)
      assert (K : forall l acc, replay_terms sp evs dr nk l acc <> inr RKind).
      { induction l as [|[sts target] r IH]; intros acc; cbn [replay_terms]; [discriminate|].
        destruct (enforce _ target nk) as [cols|e'] eqn:E'; [apply IH|].
        unfold enforce in E'. destruct (length target <? length _); [inversion E'; discriminate|].
        destruct (length _ <? length target).
        - destruct (fold_left _ sts []) as [|[k c0] [|g2 gr]]; inversion E'; discriminate.
        - destruct (_ && _); inversion E'; discriminate. }
      exact (K _ _ E). }
    intro H. exfalso.
    destruct (na_action (sp_cfg sp)); cbn [na_action] in H; destruct (all_nulls evs); try discriminate; eapply G; eauto.
  - intros _. exists evs. split; [reflexivity|]. clear Ee. induction evs as [|p r IH]; cbn in Ek; [discriminate|].
    destruct (kind_ok (sp_enc sp) p) eqn:Ep.
    + cbn in Ek. destruct (IH Ek) as [q [Hin Hk]]. exists q. split; [right; exact Hin | exact Hk].
    + exists p. split; [left; reflexivity | exact Ep].
Qed.

(* ---------- pinned levels: absent levels give zero columns, unseen levels give zero rows ---------- *)
Theorem absent_level_zero_column (v : list (option str)) lv :
  (forall s, In (Some s) v -> leqb s lv = false) -> indicator v lv = map (fun _ => Some (Q2Qc 0)) v.
Proof.
  unfold indicator. intro H. apply map_ext_in. intros [s|] Hin; auto. rewrite (H s Hin). reflexivity.
Qed.
Theorem unseen_level_zero_row (v : list (option str)) i w lvs :
  nth_error v i = Some (Some w) -> ~ In w lvs ->
  forall lv, In lv lvs -> nth_error (indicator v lv) i = Some (Some (Q2Qc 0)).
Proof.
  intros Hi Hn lv Hl. unfold indicator. rewrite nth_error_map, Hi. cbn.
  destruct (leqb w lv) eqn:E; auto. apply leqb_eq in E. subst. contradiction.
Qed.
(* with the recorded categories pinned, the encoded column names of a categorical factor do not depend on the data at all *)
Theorem pinned_names_data_independent e c c' dl dl' red drop drop' lvs :
  map fst (encode_with e (EvCat c dl) red drop (Some lvs)) = map fst (encode_with e (EvCat c' dl') red drop' (Some lvs)).
Proof. unfold encode_with. destruct red; rewrite !map_map; reflexivity. Qed.
