(* ===== KnotsOk.v : the padded knot vector of sorted in-bounds knots always meets the shape conditions (C12) =====
   [knots_ok] is the checkable predicate under which the B-spline theorems hold.  It holds for EVERY knot vector the transform builds from inner
   knots that are non-decreasing and lie within the bounds: [lower]*(degree+1) ++ inner ++ [upper]*(degree+1). *)
From Coq Require Import List QArith Lqa Lia Bool Arith.
Import ListNotations.
Require Import BSpline BSplineLaws.
Open Scope Q_scope.

Fixpoint nondec (l : list Q) : Prop := match l with [] => True | x :: r => (match r with [] => True | y :: _ => x <= y end) /\ nondec r end.
Definition within (lb ub : Q) (l : list Q) : Prop := Forall (fun x => lb <= x /\ x <= ub) l.

Lemma nondec_nth l : nondec l -> forall i, (S i < length l)%nat -> nth i l 0 <= nth (S i) l 0.
Proof.
  induction l as [|x r IH]; intros H i Hi; [cbn in Hi; lia|]. destruct H as [Hx Hr].
  destruct i as [|i]; [destruct r as [|y r']; [cbn in Hi; lia | exact Hx] | apply (IH Hr i); cbn in Hi; lia].
Qed.
Lemma nondec_repeat x n : nondec (repeat x n).
Proof. induction n as [|n IH]; cbn [repeat nondec]; [exact I|]. split; [destruct n; cbn; [exact I | apply Qle_refl] | exact IH]. Qed.
Lemma nondec_app a b : nondec a -> nondec b -> (forall x y, In x a -> In y b -> x <= y) -> nondec (a ++ b).
Proof.
  induction a as [|x r IH]; intros Ha Hb Hab; [exact Hb|]. destruct Ha as [Hx Hr]. cbn [app nondec]. split.
  - destruct r as [|y r']; cbn [app]; [destruct b as [|z b']; [exact I | apply Hab; left; reflexivity] | exact Hx].
  - apply IH; [exact Hr | exact Hb | intros u v Hu Hv; apply Hab; [right; exact Hu | exact Hv]].
Qed.
Lemma in_repeat {A} (x y : A) n : In y (repeat x n) -> y = x.
Proof. induction n as [|n IH]; cbn; [tauto | intros [<-|H]; [reflexivity | exact (IH H)]]. Qed.

Theorem pad_knots_nondec lb inner ub degree : lb <= ub -> nondec inner -> within lb ub inner -> nondec (pad_knots lb inner ub degree).
Proof.
  intros Hlu Hn Hw. unfold pad_knots. unfold within in Hw. rewrite Forall_forall in Hw.
  assert (Hub : forall y, In y ([ub] ++ repeat ub degree) -> y == ub).
  { intros y Hy. cbn [app] in Hy. destruct Hy as [<-|Hy]; [reflexivity | apply in_repeat in Hy; subst; reflexivity]. }
  assert (Htail : forall y, In y (inner ++ [ub] ++ repeat ub degree) -> lb <= y /\ y <= ub).
  { intros y Hy. apply in_app_or in Hy as [Hy|Hy]; [apply (Hw y Hy) | rewrite (Hub y Hy); split; [exact Hlu | apply Qle_refl]]. }
  apply nondec_app; [apply nondec_repeat| |].
  - apply (nondec_app [lb]); [cbn; auto| |].
    + apply nondec_app; [exact Hn| |].
      * apply (nondec_app [ub]); [cbn; auto | apply nondec_repeat | intros x y [<-|[]] Hy; apply in_repeat in Hy; subst; apply Qle_refl].
      * intros x y Hx Hy. rewrite (Hub y Hy). apply (Hw x Hx).
    + intros x y [<-|[]] Hy. apply (Htail y Hy).
  - intros x y Hx Hy. apply in_repeat in Hx. subst x. cbn [app] in Hy. destruct Hy as [<-|Hy]; [apply Qle_refl | apply (Htail y Hy)].
Qed.

Lemma nth_repeat' (x d : Q) n i : (i < n)%nat -> nth i (repeat x n) d = x.
Proof. revert i. induction n as [|n IH]; intros [|i] H; cbn [repeat nth]; try lia; [reflexivity | apply IH; lia]. Qed.

(* the first degree+1 entries are the lower bound, the last degree+1 the upper bound *)
Lemma pad_first lb inner ub degree i d : (i <= degree)%nat -> nth i (pad_knots lb inner ub degree) d = lb.
Proof.
  intro H. unfold pad_knots. destruct (Nat.eq_dec i degree) as [->|N].
  - rewrite app_nth2 by (rewrite repeat_length; lia). rewrite repeat_length, Nat.sub_diag. reflexivity.
  - rewrite app_nth1 by (rewrite repeat_length; lia). apply nth_repeat'. lia.
Qed.
Lemma pad_last lb inner ub degree i d : (length inner + degree + 1 <= i)%nat -> (i < length inner + 2 * degree + 2)%nat ->
  nth i (pad_knots lb inner ub degree) d = ub.
Proof.
  intros H1 H2. unfold pad_knots.
  rewrite app_nth2 by (rewrite repeat_length; lia). rewrite repeat_length.
  change ([lb] ++ inner ++ [ub] ++ repeat ub degree) with (lb :: (inner ++ ub :: repeat ub degree)).
  destruct (i - degree)%nat as [|j] eqn:E; [lia|]. cbn [nth].
  rewrite app_nth2 by lia. destruct (j - length inner)%nat as [|k] eqn:E2; [reflexivity|]. cbn [nth]. apply nth_repeat'. lia.
Qed.

Theorem pad_knots_ok lb inner ub degree : lb <= ub -> nondec inner -> within lb ub inner -> knots_ok (pad_knots lb inner ub degree) degree = true.
Proof.
  intros Hlu Hn Hw. pose proof (pad_knots_nondec lb inner ub degree Hlu Hn Hw) as ND.
  pose proof (pad_length lb inner ub degree) as HL. unfold knots_ok. set (kn := pad_knots lb inner ub degree) in *.
  assert (Hne : kn <> []) by (intro E; rewrite E in HL; cbn in HL; lia).
  apply andb_true_iff; split; [apply andb_true_iff; split; [apply andb_true_iff; split|]|].
  - apply Nat.leb_le. lia.
  - apply forallb_forall. intros i Hi. apply in_seq in Hi. apply Qle_bool_iff. unfold kfun.
    destruct (Nat.eq_dec (S i) (length kn)) as [E|N].
    + replace (nth (S i) kn (last kn 0)) with (last kn 0) by (symmetry; apply nth_overflow; lia). replace i with (length kn - 1)%nat by lia.
      pose proof (kfun_last kn Hne) as KL. unfold kfun in KL. rewrite KL. apply Qle_refl.
    + replace (nth i kn (last kn 0)) with (nth i kn 0) by (apply nth_indep; lia). replace (nth (S i) kn (last kn 0)) with (nth (S i) kn 0) by (apply nth_indep; lia). apply (nondec_nth kn ND i). lia.
  - apply forallb_forall. intros i Hi. apply in_seq in Hi. apply Qeq_bool_iff. unfold kfun, kn.
    rewrite (pad_first lb inner ub degree i) by lia. rewrite (pad_first lb inner ub degree 0) by lia. reflexivity.
  - apply forallb_forall. intros i Hi. apply in_seq in Hi. apply Qeq_bool_iff. unfold kfun, kn. fold kn. rewrite HL in *.
    unfold kn. rewrite (pad_last lb inner ub degree i) by lia. rewrite (pad_last lb inner ub degree (length inner + 2 * degree + 2 - degree - 1)) by lia. reflexivity.
Qed.
