(* ===== DtypeLaws.v : kind inference over the dtype table regenerated from /repo (C08) ===== *)
From Coq Require Import List NArith Bool Arith.
Import ListNotations.
Require Import GenDtypes.
Open Scope nat_scope.

Definition dclass (r : list N * nat * bool * bool) : nat := match r with (_, c, _, _) => c end.
Definition pandas_cat (r : list N * nat * bool * bool) : bool := match r with (_, _, p, _) => p end.
Definition narwhals_cat (r : list N * nat * bool * bool) : bool := match r with (_, _, _, n) => n end.
(* text (0) and categorical dtypes (1) are categorical; numeric dtypes incl. bool (2) are numerical -- for both materializers *)
Definition expected_cat (c : nat) : bool := c <? 2.

Theorem pandas_kind_inference : forallb (fun r => Bool.eqb (pandas_cat r) (expected_cat (dclass r))) dtype_table = true.
Proof. vm_compute. reflexivity. Qed.
Theorem narwhals_kind_inference : forallb (fun r => Bool.eqb (narwhals_cat r) (expected_cat (dclass r))) dtype_table = true.
Proof. vm_compute. reflexivity. Qed.
Theorem materializers_agree_on_kinds : forallb (fun r => Bool.eqb (pandas_cat r) (narwhals_cat r)) dtype_table = true.
Proof. vm_compute. reflexivity. Qed.
(* lifted to the statement about every row of the table *)
Corollary text_and_category_are_categorical r : In r dtype_table -> dclass r < 2 -> pandas_cat r = true /\ narwhals_cat r = true.
Proof.
  intros Hin Hc. pose proof pandas_kind_inference as Hp. pose proof narwhals_kind_inference as Hn.
  rewrite forallb_forall in Hp, Hn. specialize (Hp r Hin). specialize (Hn r Hin).
  apply eqb_prop in Hp. apply eqb_prop in Hn. unfold expected_cat in *.
  replace (dclass r <? 2) with true in * by (symmetry; apply Nat.ltb_lt; exact Hc). auto.
Qed.
Corollary numeric_is_numerical r : In r dtype_table -> dclass r = 2 -> pandas_cat r = false /\ narwhals_cat r = false.
Proof.
  intros Hin Hc. pose proof pandas_kind_inference as Hp. pose proof narwhals_kind_inference as Hn.
  rewrite forallb_forall in Hp, Hn. specialize (Hp r Hin). specialize (Hn r Hin).
  apply eqb_prop in Hp. apply eqb_prop in Hn. unfold expected_cat in *. rewrite Hc in *. auto.
Qed.
(* the table covers all three classes *)
Theorem table_covers_classes : forallb (fun c => existsb (fun r => dclass r =? c) dtype_table) [0; 1; 2] = true /\ (15 <=? length dtype_table) = true.
Proof. split; vm_compute; reflexivity. Qed.
