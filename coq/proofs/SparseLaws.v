(* ===== SparseLaws.v : the sparse representation refines the dense one (C05) ===== *)
From Coq Require Import List NArith ZArith QArith Qcanon Bool Arith Lia.
Import ListNotations.
Require Import Struct StructLaws Sparse.
Open Scope nat_scope.

Lemma find_none_notin (c : spcol) i : find (fun p => fst p =? i) c = None -> ~ In i (map fst c).
Proof.
  induction c as [|[j x] r IH]; cbn; [auto|]. destruct (j =? i) eqn:E; [discriminate|].
  intros H [Hc|Hc]; [subst; rewrite Nat.eqb_refl in E; discriminate | exact (IH H Hc)].
Qed.
Lemma find_some_in (c : spcol) i p : find (fun p => fst p =? i) c = Some p -> In p c /\ fst p = i.
Proof. intro H. apply find_some in H as [H1 H2]. apply Nat.eqb_eq in H2. auto. Qed.
Lemma find_unique (c : spcol) i x : NoDup (map fst c) -> In (i, x) c -> find (fun p => fst p =? i) c = Some (i, x).
Proof.
  induction c as [|[j y] r IH]; cbn; intros Hnd Hin; [contradiction|].
  inversion Hnd as [|? ? Hn Hnd']; subst. destruct Hin as [Hin|Hin].
  - inversion Hin; subst. rewrite Nat.eqb_refl. reflexivity.
  - destruct (j =? i) eqn:E.
    + apply Nat.eqb_eq in E. subst. exfalso. apply Hn. apply in_map_iff. exists (i, x). auto.
    + apply IH; auto.
Qed.

(* element-wise product of sparse columns = cell-wise product of their dense forms, at every row *)
Theorem sp_mul_get a b i : NoDup (map fst a) -> sp_get (sp_mul a b) i = (sp_get a i * sp_get b i)%Qc.
Proof.
  intro Hnd. unfold sp_get at 2.
  destruct (find (fun p => fst p =? i) a) as [[j x]|] eqn:Ea.
  - apply find_some_in in Ea as [Hin Hj]. cbn in Hj. subst j. cbn [snd].
    unfold sp_get. induction a as [|[k y] r IH]; [contradiction|].
    cbn [sp_mul flat_map fst snd]. inversion Hnd as [|? ? Hn Hnd']; subst.
    destruct Hin as [Hin|Hin].
    + inversion Hin; subst. destruct (find (fun q => fst q =? i) b) as [[k' z]|] eqn:Eb.
      * cbn [app find fst snd]. rewrite Nat.eqb_refl. cbn. reflexivity.
      * cbn [app]. assert (find (fun p => fst p =? i) (flat_map (fun p => match find (fun q => fst q =? fst p) b with Some q => [(fst p, (snd p * snd q)%Qc)] | None => [] end) r) = None) as ->.
        { destruct (find _ (flat_map _ r)) as [[k'' w]|] eqn:E; auto. apply find_some_in in E as [Hin2 Hk]. cbn in Hk. subst.
          apply in_flat_map in Hin2 as [[k3 y3] [Hr Hin3]]. cbn [fst snd] in Hin3. destruct (find (fun q => fst q =? k3) b); [|contradiction].
          destruct Hin3 as [E3|[]]. inversion E3; subst. exfalso. apply Hn. apply in_map_iff. exists (i, y3). auto. }
        ring.
    + assert (k <> i) by (intro; subst; apply Hn; apply in_map_iff; exists (i, x); auto).
      destruct (find (fun q => fst q =? k) b) as [[k' z]|]; cbn [app find fst]; [replace (k =? i) with false by (symmetry; apply Nat.eqb_neq; auto)|]; apply IH; auto.
  - apply find_none_notin in Ea. unfold sp_get.
    assert (find (fun p => fst p =? i) (sp_mul a b) = None) as ->.
    { destruct (find _ (sp_mul a b)) as [[k w]|] eqn:E; auto. apply find_some_in in E as [Hin Hk]. cbn in Hk. subst.
      apply in_flat_map in Hin as [[k3 y3] [Hr Hin3]]. cbn [fst snd] in Hin3. destruct (find (fun q => fst q =? k3) b); [|contradiction].
      destruct Hin3 as [E3|[]]. inversion E3; subst. exfalso. apply Ea. apply in_map_iff. exists (i, y3). auto. }
    ring.
Qed.
Theorem densify_mul n a b : NoDup (map fst a) ->
  densify n (sp_mul a b) = map (fun p => (fst p * snd p)%Qc) (combine (densify n a) (densify n b)).
Proof.
  intro Hnd. unfold densify. induction (seq 0 n) as [|i r IH]; cbn; auto. rewrite sp_mul_get by exact Hnd. f_equal. exact IH.
Qed.
Theorem sp_scale_get s a i : sp_get (sp_scale s a) i = (s * sp_get a i)%Qc.
Proof.
  unfold sp_get, sp_scale. induction a as [|[j x] r IH]; cbn; [ring|]. destruct (j =? i); cbn; auto.
Qed.

(* a dense column and its sparse form hold the same numbers *)
Lemma sp_of_dense_before c : forall s i, i < s -> sp_get (sp_of_dense c s) i = Q2Qc 0.
Proof.
  induction c as [|x r IH]; intros s i Hi; cbn; auto. destruct (Qc_eq_bool x (Q2Qc 0)); [apply IH; lia|].
  unfold sp_get. cbn [find fst]. replace (s =? i) with false by (symmetry; apply Nat.eqb_neq; lia). apply (IH (S s) i). lia.
Qed.
Theorem sp_of_dense_get c : forall s i, sp_get (sp_of_dense c s) (s + i) = nth i c (Q2Qc 0).
Proof.
  induction c as [|x r IH]; intros s i; cbn [sp_of_dense nth]; [destruct i; reflexivity|].
  destruct (Qc_eq_bool x (Q2Qc 0)) eqn:E.
  - destruct i as [|i].
    + rewrite Nat.add_0_r. rewrite sp_of_dense_before by lia. apply Qc_eq_bool_correct in E. symmetry. exact E.
    + replace (s + S i) with (S s + i) by lia. apply IH.
  - unfold sp_get. cbn [find fst]. destruct i as [|i].
    + rewrite Nat.add_0_r, Nat.eqb_refl. reflexivity.
    + replace (s =? s + S i) with false by (symmetry; apply Nat.eqb_neq; lia).
      replace (s + S i) with (S s + i) by lia. apply (IH (S s) i).
Qed.

(* the sparse dummy column of level k has a one exactly at the rows whose code is k *)
Lemma sp_dummy_before k codes : forall s i, i < s -> sp_get (sp_dummy codes k s) i = Q2Qc 0.
Proof.
  induction codes as [|o r IH]; intros s i Hi; [reflexivity|].
  destruct o as [c|]; cbn [sp_dummy].
  - destruct (c =? k); [|apply IH; lia]. unfold sp_get. cbn [find fst].
    replace (s =? i) with false by (symmetry; apply Nat.eqb_neq; lia). apply (IH (S s) i). lia.
  - apply IH. lia.
Qed.
Theorem sp_dummy_get codes k : forall s i,
  sp_get (sp_dummy codes k s) (s + i) = match nth_error codes i with Some (Some c) => if c =? k then Q2Qc 1 else Q2Qc 0 | _ => Q2Qc 0 end.
Proof.
  induction codes as [|o r IH]; intros s i; [destruct i; reflexivity|].
  destruct o as [c|]; cbn [sp_dummy].
  - destruct i as [|i]; cbn [nth_error].
    + rewrite Nat.add_0_r. destruct (c =? k); [unfold sp_get; cbn [find fst]; rewrite Nat.eqb_refl; reflexivity | apply sp_dummy_before; lia].
    + replace (s + S i) with (S s + i) by lia. destruct (c =? k); [|apply IH].
      unfold sp_get. cbn [find fst]. replace (s =? S s + i) with false by (symmetry; apply Nat.eqb_neq; lia). apply (IH (S s) i).
  - destruct i as [|i]; cbn [nth_error].
    + rewrite Nat.add_0_r. apply sp_dummy_before. lia.
    + replace (s + S i) with (S s + i) by lia. apply IH.
Qed.
