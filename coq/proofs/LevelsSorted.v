(* ===== LevelsSorted.v : the levels of a text column are its distinct non-null values in strictly increasing code-point order (C08) ===== *)
From Coq Require Import List NArith ZArith QArith Qcanon Bool Arith Lia Sorted.
Import ListNotations.
Require Import Mat MatLaws.

Lemma lcmp_eq a : forall b, lcmp a b = Eq -> a = b.
Proof.
  induction a as [|x a IH]; intros [|y b] H; cbn in H; try discriminate; [reflexivity|].
  destruct (N.compare_spec x y) as [E|E|E]; try discriminate. subst. f_equal. apply IH, H.
Qed.
Lemma lcmp_refl a : lcmp a a = Eq.
Proof. induction a as [|x a IH]; cbn; [reflexivity|]. rewrite N.compare_refl. exact IH. Qed.
Lemma lcmp_gt_lt a : forall b, lcmp a b = Gt -> lcmp b a = Lt.
Proof.
  induction a as [|x a IH]; intros [|y b] H; cbn in H |- *; try discriminate; [reflexivity|].
  rewrite (N.compare_antisym x y). destruct (x ?= y)%N eqn:E; cbn [CompOpp]; try discriminate; [apply IH, H | reflexivity].
Qed.
Lemma lcmp_trans a : forall b c, lcmp a b = Lt -> lcmp b c = Lt -> lcmp a c = Lt.
Proof.
  induction a as [|x a IH]; intros [|y b] [|z c] H1 H2; cbn in H1, H2 |- *; try discriminate; try reflexivity.
  destruct (N.compare_spec x y) as [E1|E1|E1]; try discriminate.
  - subst y. destruct (N.compare_spec x z) as [E2|E2|E2]; try discriminate; [eapply IH; eauto | reflexivity].
  - destruct (N.compare_spec y z) as [E2|E2|E2]; try discriminate.
    + subst z. destruct (N.compare_spec x y); try reflexivity; lia.
    + destruct (N.compare_spec x z); try reflexivity; lia.
Qed.

Definition slt (a b : str) := lcmp a b = Lt.
Lemma ins_s_In x l y : In y (ins_s x l) <-> y = x \/ In y l.
Proof.
  induction l as [|z r IH]; cbn [ins_s]; [cbn; intuition congruence|].
  destruct (lcmp x z) eqn:E.
  - apply lcmp_eq in E. subst z. cbn. intuition congruence.
  - cbn. intuition congruence.
  - cbn [In]. rewrite IH. intuition congruence.
Qed.
Lemma ins_s_sorted x l : StronglySorted slt l -> StronglySorted slt (ins_s x l).
Proof.
  induction l as [|z r IH]; intro H; cbn [ins_s]; [repeat constructor|].
  inversion H as [|? ? Hr Hz]; subst. destruct (lcmp x z) eqn:E; [exact H| |].
  - constructor; [exact H|]. constructor; [exact E|]. rewrite Forall_forall in *. intros w Hw. exact (lcmp_trans x z w E (Hz w Hw)).
  - constructor; [apply IH, Hr|]. rewrite Forall_forall in *. intros w Hw. apply ins_s_In in Hw as [->|Hw]; [apply lcmp_gt_lt, E | apply Hz, Hw].
Qed.

(* the levels discovered in a text column: exactly its non-null values ... *)
Theorem levels_of_exact v s : In s (levels_of v) <-> In (Some s) v.
Proof.
  unfold levels_of. induction v as [|o r IH]; cbn [fold_right]; [tauto|].
  destruct o as [t|]; [rewrite ins_s_In, IH; cbn; intuition congruence | rewrite IH; cbn; intuition congruence].
Qed.
(* ... in strictly increasing order (so without repeats) *)
Theorem levels_of_sorted v : StronglySorted slt (levels_of v).
Proof. unfold levels_of. induction v as [|o r IH]; cbn [fold_right]; [constructor|]. destruct o; [apply ins_s_sorted, IH | exact IH]. Qed.
Corollary levels_of_nodup v : NoDup (levels_of v).
Proof.
  pose proof (levels_of_sorted v) as H. induction H as [|a l Hl IH Ha]; constructor; [|exact IH].
  intro Hin. rewrite Forall_forall in Ha. specialize (Ha a Hin). unfold slt in Ha. rewrite lcmp_refl in Ha. discriminate.
Qed.
(* the order is the order of Python strings: by code point, a proper prefix first *)
Theorem slt_prefix a b : b <> [] -> slt a (a ++ b).
Proof. intro Hb. unfold slt. induction a as [|x a IH]; cbn; [destruct b; [contradiction | reflexivity]|]. rewrite N.compare_refl. exact IH. Qed.
Theorem slt_first_difference p x y a b : (x < y)%N -> slt (p ++ x :: a) (p ++ y :: b).
Proof. intro H. unfold slt. induction p as [|z p IH]; cbn; [apply N.compare_lt_iff in H; rewrite H; reflexivity | rewrite N.compare_refl; exact IH]. Qed.
(* a categorical dtype: the declared list itself, whatever is observed *)
Lemma declared_levels_kept c dl drop : levels_used c (Some dl) drop = dl.
Proof. reflexivity. Qed.
