(* ===== ConsEnd.v : from a constraint expression to its matrix row, end to end (C16) ===== *)
From Coq Require Import List NArith ZArith QArith Qcanon Bool Arith Lia.
Import ListNotations.
Require Import Tok Cons ConsLaws.

(* end to end: the matrix row and constant compiled from a constraint expression express that expression's affine map *)
Theorem compiled_row_is_the_expression fuel a c vars row b : NoDup vars -> eval fuel a = inl (VSet c) -> row_of vars c = inl (row, b) ->
  forall x, (dot row (map x vars) - b = aeval x a)%Qc.
Proof.
  intros Hv He Hr x. destruct (eval_sound fuel a c He) as [[Hu _] Hd]. rewrite <- Hd. exact (row_sound vars c row b Hv Hu Hr x).
Qed.
