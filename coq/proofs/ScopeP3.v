(* ===== P3.v ===== *)
From Coq Require Import List Arith Bool Lia Permutation NArith.
Import ListNotations.
Require Import Scope ScopeP1 ScopeP2.

Section P.
Variable isnum : fid_t -> bool.
Notation required := (required isnum).
Notation covers := (covers isnum).
Notation count := (count isnum).
Notation wf := (wf isnum).
Notation wf_all := (wf_all isnum).

Lemma nred_app a b : nred (a ++ b) = nred a + nred b.
Proof. unfold nred. induction a as [|x a IH]; cbn [app fold_right]; lia. Qed.
Lemma nred_filter p l : nred (filter p l) <= nred l.
Proof. unfold nred. induction l as [|x l IH]; cbn [filter fold_right]; auto. destruct (p x); cbn [fold_right]; lia. Qed.
Lemma nred_add l M : nred (add_term l M) <= nred l + nred1 M.
Proof. unfold add_term. destruct (mem_st M l); [lia|]. rewrite nred_app. unfold nred at 2. cbn [fold_right]. lia. Qed.
Lemma nred_perm a b : Permutation a b -> nred a = nred b.
Proof. unfold nred. induction 1; cbn [fold_right]; lia. Qed.

Definition flipf (f g : sfac) : sfac := if sf_eqb g f then (fst g, false) else g.
Lemma merge_flip st f : merge_into st f = map (flipf f) st.
Proof. reflexivity. Qed.
Lemma flip_le f y : fred (flipf f y) = true -> fred y = true.
Proof. unfold flipf. destruct (sf_eqb y f); cbn; auto; discriminate. Qed.

Lemma filter_flip_le f st : length (filter fred (map (flipf f) st)) <= length (filter fred st).
Proof.
  induction st as [|y st IH]; cbn [map filter]; auto.
  destruct (fred (flipf f y)) eqn:E.
  - rewrite (flip_le _ _ E). simpl length. lia.
  - destruct (fred y); simpl length; lia.
Qed.

Lemma nred1_merge st f : In f st -> fred f = true -> nred1 (merge_into st f) + 1 <= nred1 st.
Proof.
  rewrite merge_flip. unfold nred1. induction st as [|x st IH]; cbn [In]; [contradiction|].
  intros Hin Hf. cbn [map filter].
  pose proof (filter_flip_le f st) as Hle.
  destruct Hin as [->|Hin].
  - assert (E : fred (flipf f f) = false) by (unfold flipf; rewrite (proj2 (sf_eqb_spec f f) eq_refl); reflexivity).
    rewrite E, Hf. simpl length. lia.
  - specialize (IH Hin Hf).
    destruct (fred (flipf f x)) eqn:E.
    + rewrite (flip_le _ _ E). simpl length. lia.
    + destruct (fred x); simpl length; lia.
Qed.

Lemma wf_all_remove l e : wf_all l -> wf_all (remove_term l e).
Proof. unfold Scope.remove_term, ScopeP1.wf_all. rewrite !Forall_forall. intros H x Hx. apply filter_In in Hx as [Hx _]. auto. Qed.
Lemma wf_all_add l M : wf_all l -> wf M -> wf_all (add_term l M).
Proof. unfold add_term, ScopeP1.wf_all. intros Hl HM. destruct (mem_st M l); auto. apply Forall_app. split; auto. Qed.

Lemma insert_perm t l : Permutation (insert_by_len t l) (t :: l).
Proof.
  induction l as [|x l IH]; cbn [insert_by_len]; [reflexivity|]. destruct (length x <? length t); [|reflexivity].
  rewrite IH. apply perm_swap.
Qed.
Lemma sort_perm l : Permutation (sort_by_len l) l.
Proof. induction l as [|x l IH]; cbn; [reflexivity|]. rewrite insert_perm. constructor. exact IH. Qed.

Lemma count_nil c : count c [] = 0.
Proof. reflexivity. Qed.

Definition good (fuel : nat) (rec : list sterm -> list sterm) :=
  forall L, wf_all L -> (forall c, count c L <= 1) -> nred L < fuel ->
    (forall c, count c (rec L) = count c L) /\ wf_all (rec L) /\ nred (rec L) <= nred L.

Lemma fold_ok fuel rec : good fuel rec ->
  forall rest terms, wf_all terms -> wf_all rest ->
    (forall c, count c terms + count c rest <= 1) -> nred terms + nred rest <= fuel ->
    let R := fold_left (sstep rec) rest terms in
    (forall c, count c R = count c terms + count c rest) /\ wf_all R /\ nred R <= nred terms + nred rest.
Proof.
  intros Hrec. induction rest as [|st rest IH]; intros terms Hwt Hwr Hb Hn; cbn [fold_left].
  - cbn zeta. split; [intros c; rewrite count_nil; lia|]. split; [auto|unfold nred at 3; cbn [fold_right]; lia].
  - inversion Hwr as [|? ? Hwst Hwrest]; subst.
    assert (Hb1 : forall c, count c terms + b2n (covers st c) <= 1).
    { intros c. specialize (Hb c). rewrite count_cons in Hb. lia. }
    cbn [nred fold_right] in Hn. fold (nred rest) in Hn.
    cbn zeta. destruct (find_merge st terms) as [[e f]|] eqn:Efm.
    + assert (Hs : sstep rec terms st = rec (add_term (remove_term terms e) (merge_into st f))) by (unfold sstep; rewrite Efm; reflexivity).
      rewrite Hs. clear Hs.
      destruct (find_merge_spec isnum st terms e f Hwst Hwt Efm) as (Hin & Hfr & Hfst & Hnfe & He).
      destruct (covers_merge isnum st e f) with (c := @nil fid_t) as [_ _]; auto.
      set (M := merge_into st f). set (L' := add_term (remove_term terms e) M).
      assert (Hcm : forall c, covers M c = covers st c || covers e c /\ covers st c && covers e c = false)
        by (intros c; apply covers_merge; auto).
      assert (Hone : length (filter (fun x => st_eqb x e) terms) = 1).
      { apply removed_eq1 with (isnum := isnum); auto. intros c. specialize (Hb1 c). lia. }
      assert (Hrm : forall c, count c terms = count c (remove_term terms e) + b2n (covers e c)).
      { intros c. rewrite (count_remove isnum c terms e), Hone. lia. }
      assert (HcL' : forall c, count c L' = count c terms + b2n (covers st c)).
      { intros c. unfold L'. rewrite count_add.
        - destruct (Hcm c) as [-> Hd]. rewrite (Hrm c). destruct (covers st c), (covers e c); cbn in *; try lia; discriminate.
        - intros c'. destruct (Hcm c') as [-> Hd]. specialize (Hb1 c'). rewrite (Hrm c') in Hb1.
          destruct (covers st c'), (covers e c'); cbn in *; try lia; discriminate. }
      assert (HwM : wf M) by (apply wf_merge; auto).
      assert (HwL' : wf_all L') by (apply wf_all_add; auto; apply wf_all_remove; auto).
      assert (HnM : nred1 M + 1 <= nred1 st) by (apply nred1_merge; auto).
      assert (HnL' : nred L' + 1 <= nred terms + nred1 st).
      { unfold L'. pose proof (nred_add (remove_term terms e) M). pose proof (nred_filter (fun x => negb (st_eqb x e)) terms).
        unfold remove_term in *. lia. }
      destruct (Hrec L') as (Hc & Hw & Hn').
      * exact HwL'.
      * intros c. rewrite HcL'. apply Hb1.
      * lia.
      * specialize (IH (rec L') Hw Hwrest).
        destruct IH as (IH1 & IH2 & IH3).
        -- intros c. rewrite Hc, HcL'. specialize (Hb c). rewrite count_cons in Hb. lia.
        -- lia.
        -- split; [|split; [exact IH2 | cbn [nred fold_right]; fold (nred rest); lia]].
           intros c. rewrite IH1, Hc, HcL', count_cons. lia.
    + assert (Hs : sstep rec terms st = add_term terms st) by (unfold sstep; rewrite Efm; reflexivity).
      rewrite Hs. clear Hs.
      specialize (IH (add_term terms st)).
      destruct IH as (IH1 & IH2 & IH3).
      * apply wf_all_add; auto.
      * exact Hwrest.
      * intros c. rewrite count_add by exact Hb1. specialize (Hb c). rewrite count_cons in Hb. lia.
      * pose proof (nred_add terms st). lia.
      * split; [|split; [exact IH2 | pose proof (nred_add terms st); cbn [nred fold_right]; fold (nred rest); lia]].
        intros c. rewrite IH1, count_add by exact Hb1. rewrite count_cons. lia.
Qed.

Theorem simplify_ok : forall fuel, good fuel (simplify fuel).
Proof.
  induction fuel as [|fuel IH]; intros L Hw Hb Hn; [lia|].
  cbn [simplify].
  pose proof (sort_perm L) as Hp.
  destruct (fold_ok fuel (simplify fuel) IH (sort_by_len L) []) as (H1 & H2 & H3).
  - constructor.
  - unfold ScopeP1.wf_all. eapply Permutation_Forall; [apply Permutation_sym, Hp | exact Hw].
  - intros c. rewrite (count_perm isnum c _ _ Hp), count_nil. apply Hb.
  - rewrite (nred_perm _ _ Hp). unfold nred at 1. cbn [fold_right]. lia.
  - split; [|split; [exact H2 | rewrite (nred_perm _ _ Hp) in H3; unfold nred at 2 in H3; cbn [fold_right] in H3; lia]].
    intros c. rewrite H1, (count_perm isnum c _ _ Hp), count_nil. lia.
Qed.

(* the statement planned in DESIGN section 8 / C03 *)
Corollary simplify_preserves_components ts :
  wf_all ts -> (forall c, count c ts <= 1) ->
  forall c, count c (simplify (S (nred ts)) ts) = count c ts.
Proof. intros Hw Hb. apply simplify_ok; auto. Qed.
End P.
Print Assumptions simplify_preserves_components.
