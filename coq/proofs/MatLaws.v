(* ===== MatLaws.v : what the columns of the materializer model are (C02) ===== *)
From Coq Require Import List NArith ZArith QArith Qcanon Bool Arith Lia.
Import ListNotations.
Require Import Mat.
Open Scope N_scope.

(* ---------- the row-wise Kronecker product ---------- *)
(* all selections of one encoded column per factor, FIRST factor varying fastest *)
Fixpoint sels (fs : list (list (str * column))) : list (list (str * column)) :=
  match fs with
  | [] => []
  | [f] => map (fun x => [x]) f
  | f :: rest => flat_map (fun rs => map (fun x => x :: rs) f) (sels rest)
  end.
Fixpoint name_of (sel : list (str * column)) : str :=
  match sel with [] => [] | [x] => fst x | x :: rs => fst x ++ [58] ++ name_of rs end.
Fixpoint val_of (sel : list (str * column)) : column :=
  match sel with [] => [] | [x] => snd x | x :: rs => vmul (snd x) (val_of rs) end.

Lemma sels_nonempty fs sel : In sel (sels fs) -> sel <> [].
Proof.
  destruct fs as [|f [|g rest]]; cbn [sels]; [intros [] | |].
  - intro H. apply in_map_iff in H as [x [<- _]]. discriminate.
  - intro H. apply in_flat_map in H as [rs [_ H]]. apply in_map_iff in H as [x [<- _]]. discriminate.
Qed.

(* every column of a term is the product of one encoded column per factor, named by joining their names with ':' *)
Theorem kron_is_products fs : kron fs = map (fun sel => (name_of sel, val_of sel)) (sels fs).
Proof.
  induction fs as [|f rest IH]; [reflexivity|].
  destruct rest as [|g rest'].
  - cbn. rewrite map_map. cbn. induction f as [|[n v] r IHf]; cbn; auto. f_equal. exact IHf.
  - change (kron (f :: g :: rest')) with (flat_map (fun rc => map (fun fc => (fst fc ++ [58] ++ fst rc, vmul (snd fc) (snd rc))) f) (kron (g :: rest'))).
    change (sels (f :: g :: rest')) with (flat_map (fun rs => map (fun x => x :: rs) f) (sels (g :: rest'))).
    rewrite IH. remember (sels (g :: rest')) as S eqn:ES.
    assert (Hne : forall sel, In sel S -> sel <> []) by (subst S; apply sels_nonempty).
    clear ES IH. induction S as [|sel S IHS]; [reflexivity|].
    cbn [map flat_map]. rewrite map_app. f_equal.
    + rewrite map_map. apply map_ext. intros x. destruct sel as [|y ys]; [exfalso; apply (Hne []); [left; reflexivity | reflexivity]|].
      reflexivity.
    + apply IHS. intros s Hs. apply Hne. right. exact Hs.
Qed.

(* the selections are exactly the lists that pick one column from each factor *)
Theorem sels_complete fs sel : fs <> [] -> (In sel (sels fs) <-> Forall2 (fun x f => In x f) sel fs).
Proof.
  revert sel. induction fs as [|f rest IH]; intros sel Hne; [congruence|].
  destruct rest as [|g rest'].
  - cbn [sels]. rewrite in_map_iff. split.
    + intros [x [<- Hx]]. constructor; auto.
    + intro H. inversion H as [|x ? xs ? Hx Hr]; subst. inversion Hr; subst. exists x; auto.
  - change (sels (f :: g :: rest')) with (flat_map (fun rs => map (fun x => x :: rs) f) (sels (g :: rest'))).
    rewrite in_flat_map. split.
    + intros [rs [Hrs H]]. apply in_map_iff in H as [x [<- Hx]]. constructor; auto. apply IH; [discriminate | exact Hrs].
    + intro H. inversion H as [|x ? xs ? Hx Hr]; subst. exists xs. split; [apply IH; [discriminate | exact Hr]|].
      apply in_map_iff. exists x; auto.
Qed.

Corollary columns_are_products fs n v : fs <> [] ->
  (In (n, v) (kron fs) <-> exists sel, Forall2 (fun x f => In x f) sel fs /\ n = name_of sel /\ v = val_of sel).
Proof.
  intro Hne. rewrite kron_is_products, in_map_iff. split.
  - intros [sel [E Hs]]. inversion E; subst. exists sel. split; [apply sels_complete; auto | auto].
  - intros [sel [Hs [-> ->]]]. exists sel. split; [reflexivity | apply sels_complete; auto].
Qed.

(* number of columns of an interaction = product of the factor widths *)
Theorem kron_length fs : fs <> [] -> length (kron fs) = fold_right (fun f n => (length f * n)%nat) 1%nat fs.
Proof.
  intro Hne. induction fs as [|f rest IH]; [congruence|].
  destruct rest as [|g rest'].
  - cbn. lia.
  - change (kron (f :: g :: rest')) with (flat_map (fun rc => map (fun fc => (fst fc ++ [58] ++ fst rc, vmul (snd fc) (snd rc))) f) (kron (g :: rest'))).
    specialize (IH ltac:(discriminate)).
    change (fold_right (fun f n => (length f * n)%nat) 1%nat (f :: g :: rest'))
      with (length f * fold_right (fun f n => (length f * n)%nat) 1%nat (g :: rest'))%nat.
    rewrite <- IH. clear IH.
    induction (kron (g :: rest')) as [|x xs IHx]; cbn [flat_map length]; [lia|].
    rewrite app_length, map_length. setoid_rewrite IHx. rewrite Nat.mul_succ_r. apply Nat.add_comm.
Qed.

(* first factor varies fastest: with two factors the columns are f1 x g1, f2 x g1, ..., f1 x g2, ... *)
Theorem kron_order_two f g :
  map fst (kron [f; g]) = flat_map (fun gc => map (fun fc => fst fc ++ [58] ++ fst gc) f) g.
Proof.
  cbn [kron]. induction g as [|gc gr IH]; [reflexivity|].
  cbn [flat_map]. rewrite map_app, map_map. cbn [fst]. f_equal. exact IH.
Qed.

(* ---------- scaling and the intercept ---------- *)
Theorem vscale_cells s a i : nth_error (vscale s a) i = option_map (fun x => match x with Some v => Some (s * v)%Qc | None => None end) (nth_error a i).
Proof. unfold vscale. revert i. induction a as [|x r IH]; intros [|i]; cbn; auto. Qed.
Theorem vmul_cells a b i x y : nth_error a i = Some x -> nth_error b i = Some y -> nth_error (vmul a b) i = Some (cmul x y).
Proof.
  unfold vmul. revert b i. induction a as [|p a IH]; intros [|q b] [|i]; cbn; try discriminate.
  - intros H1 H2. inversion H1; inversion H2; subst. reflexivity.
  - intros H1 H2. apply IH; auto.
Qed.
Theorem ones_cells n i : (i < n)%nat -> nth_error (ones n) i = Some (Some (Q2Qc 1)).
Proof. unfold ones. revert i. induction n as [|n IH]; intros [|i] H; cbn; try lia; auto. apply IH. lia. Qed.
Theorem ones_length n : length (ones n) = n.
Proof. apply repeat_length. Qed.

(* ---------- encoding ---------- *)
(* a categorical factor: one indicator per level, in level order; the reduced encoding drops the first (reference) level *)
Definition levels_used (c : list (option str)) (declared : option (list str)) (drop : list nat) : list str :=
  match declared with Some l => l | None => levels_of (keep_rows c drop 0) end.
Theorem encode_cat_full e c dl drop :
  encode e (EvCat c dl) false drop = map (fun lv => (name_full e lv, indicator (keep_rows c drop 0) lv)) (levels_used c dl drop).
Proof. reflexivity. Qed.
Theorem encode_cat_reduced e c dl drop :
  encode e (EvCat c dl) true drop = map (fun lv => (name_red e lv, indicator (keep_rows c drop 0) lv)) (tl (levels_used c dl drop)).
Proof. reflexivity. Qed.
Theorem encode_num e c r drop : encode e (EvNum c) r drop = [(e, keep_rows c drop 0)].
Proof. reflexivity. Qed.
Theorem indicator_cells v lv i s : nth_error v i = Some (Some s) ->
  nth_error (indicator v lv) i = Some (Some (if leqb s lv then Q2Qc 1 else Q2Qc 0)).
Proof.
  unfold indicator. revert i. induction v as [|x r IH]; intros [|i]; cbn; try discriminate.
  - intro H. inversion H; subst. destruct (leqb s lv); reflexivity.
  - apply IH.
Qed.
