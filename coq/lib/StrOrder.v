(* ===== StrOrder.v : Python's str ordering (lexicographic on code points) is a total order; sorting is canonical ===== *)
From Coq Require Import List NArith Bool Arith Lia Permutation Sorted.
Import ListNotations.
Open Scope N_scope.

Definition sstr := list N.
Fixpoint scmp (a b : sstr) : comparison :=
  match a, b with
  | [], [] => Eq | [], _ => Lt | _, [] => Gt
  | x :: a', y :: b' => match x ?= y with Eq => scmp a' b' | c => c end
  end.

Lemma scmp_refl a : scmp a a = Eq.
Proof. induction a as [|x a IH]; cbn; auto. rewrite N.compare_refl. exact IH. Qed.
Lemma scmp_eq a b : scmp a b = Eq -> a = b.
Proof.
  revert b; induction a as [|x a IH]; destruct b as [|y b]; cbn; try discriminate; auto.
  destruct (x ?= y) eqn:E; try discriminate. apply N.compare_eq in E. subst. intro H. f_equal. auto.
Qed.
Lemma scmp_antisym a b : scmp b a = CompOpp (scmp a b).
Proof.
  revert b; induction a as [|x a IH]; destruct b as [|y b]; cbn; auto.
  rewrite (N.compare_antisym x y). destruct (x ?= y); cbn; auto.
Qed.
Lemma scmp_lt_trans a b c : scmp a b = Lt -> scmp b c = Lt -> scmp a c = Lt.
Proof.
  revert b c; induction a as [|x a IH]; destruct b as [|y b]; destruct c as [|z c]; cbn; try discriminate; auto.
  destruct (x ?= y) eqn:E1; try discriminate.
  - apply N.compare_eq in E1. subst. destruct (y ?= z) eqn:E2; try discriminate; auto. intros H1 H2. eapply IH; eauto.
  - intros _. destruct (y ?= z) eqn:E2; try discriminate.
    + apply N.compare_eq in E2. subst. rewrite E1. auto.
    + intros _. assert (x ?= z = Lt) as ->; auto. apply N.compare_lt_iff in E1. apply N.compare_lt_iff in E2. apply N.compare_lt_iff. eapply N.lt_trans; eauto.
Qed.

Definition sle (a b : sstr) : Prop := scmp a b <> Gt.
Lemma sle_refl a : sle a a. Proof. unfold sle. rewrite scmp_refl. discriminate. Qed.
Lemma sle_total a b : sle a b \/ sle b a.
Proof. unfold sle. rewrite (scmp_antisym a b). destruct (scmp a b); cbn; [left | left | right]; discriminate. Qed.
Lemma sle_antisym a b : sle a b -> sle b a -> a = b.
Proof.
  unfold sle. rewrite (scmp_antisym a b). destruct (scmp a b) eqn:E; cbn; intros H1 H2; try congruence.
  apply scmp_eq; auto.
Qed.
Lemma sle_trans a b c : sle a b -> sle b c -> sle a c.
Proof.
  unfold sle. intros H1 H2.
  destruct (scmp a b) eqn:E1; try congruence.
  - apply scmp_eq in E1. subst. exact H2.
  - destruct (scmp b c) eqn:E2; try congruence.
    + apply scmp_eq in E2. subst. rewrite E1. discriminate.
    + rewrite (scmp_lt_trans _ _ _ E1 E2). discriminate.
Qed.

(* insertion sort as used by the models (insert before the first element that is not smaller) *)
Fixpoint sins (x : sstr) (l : list sstr) : list sstr :=
  match l with [] => [x] | y :: r => match scmp x y with Gt => y :: sins x r | _ => x :: l end end.
Definition ssort (l : list sstr) : list sstr := fold_right sins [] l.

Lemma sins_perm x l : Permutation (sins x l) (x :: l).
Proof. induction l as [|y r IH]; cbn; auto. destruct (scmp x y); auto. rewrite IH. apply perm_swap. Qed.
Lemma ssort_perm l : Permutation (ssort l) l.
Proof. induction l as [|x r IH]; cbn; auto. rewrite sins_perm. auto. Qed.

Definition ssorted (l : list sstr) : Prop := StronglySorted sle l.
Lemma sins_sorted x l : ssorted l -> ssorted (sins x l).
Proof.
  unfold ssorted. induction l as [|y r IH]; intro H; cbn.
  - constructor; constructor.
  - inversion H as [|? ? Hs Hall]; subst. destruct (scmp x y) eqn:E.
    + constructor; [exact H|]. constructor; [unfold sle; rewrite E; discriminate|].
      eapply Forall_impl; [|exact Hall]. intros a Ha. eapply sle_trans; [|exact Ha]. unfold sle. rewrite E. discriminate.
    + constructor; [exact H|]. constructor; [unfold sle; rewrite E; discriminate|].
      eapply Forall_impl; [|exact Hall]. intros a Ha. eapply sle_trans; [|exact Ha]. unfold sle. rewrite E. discriminate.
    + constructor; [apply IH; exact Hs|].
      apply Forall_forall. intros a Ha. apply (Permutation_in _ (sins_perm x r)) in Ha. destruct Ha as [<-|Ha].
      * unfold sle. rewrite (scmp_antisym x y), E. discriminate.
      * rewrite Forall_forall in Hall. apply Hall. exact Ha.
Qed.
Lemma ssort_sorted l : ssorted (ssort l).
Proof. induction l as [|x r IH]; cbn; [constructor | apply sins_sorted; exact IH]. Qed.

Lemma sorted_perm_eq l l' : ssorted l -> ssorted l' -> Permutation l l' -> l = l'.
Proof.
  unfold ssorted. revert l'. induction l as [|x r IH]; intros l' H H' P.
  - apply Permutation_nil in P. auto.
  - destruct l' as [|y r']; [apply Permutation_sym, Permutation_nil in P; discriminate|].
    inversion H as [|? ? Hs Hall]; inversion H' as [|? ? Hs' Hall']; subst.
    rewrite Forall_forall in Hall, Hall'.
    assert (x = y).
    { assert (Hx : In x (y :: r')) by (eapply Permutation_in; [exact P | left; reflexivity]).
      assert (Hy : In y (x :: r)) by (eapply Permutation_in; [apply Permutation_sym; exact P | left; reflexivity]).
      destruct Hx as [->|Hx]; auto. destruct Hy as [->|Hy]; auto.
      apply sle_antisym; [apply Hall; exact Hy | apply Hall'; exact Hx]. }
    subst y. f_equal. apply IH; auto. eapply Permutation_cons_inv; eauto.
Qed.

(* the sorted key of a list of strings depends only on the multiset of its elements *)
Theorem ssort_canonical l l' : Permutation l l' -> ssort l = ssort l'.
Proof.
  intro P. apply sorted_perm_eq; try apply ssort_sorted.
  rewrite ssort_perm, P. symmetry. apply ssort_perm.
Qed.
