(* ===== Classify.v : the character classifier of tokenize(): ASCII from the generated table, the rest an oracle ===== *)
From Coq Require Import List NArith Bool Arith.
Import ListNotations.
Require Import GenTok Tok.
Open Scope N_scope.

Definition ascii_cls (c : N) : cls :=
  match nth_error ascii_classes (N.to_nat c) with
  | Some (w, n, s) => Build_cls w n s
  | None => Build_cls false false false
  end.
(* code points >= 128: classes computed by the harness with the real regexes for the code points of the case;
   default = a word character that is neither numeric nor whitespace *)
Definition classify_with (extra : list (N * (bool * bool * bool))) (c : N) : cls :=
  if c <? 128 then ascii_cls c
  else match find (fun p => fst p =? c) extra with
       | Some (_, (w, n, s)) => Build_cls w n s
       | None => Build_cls true false false
       end.
